//! C48: DataFrame operations compute the same results as the equivalent SQL.
//! Generates pipelines of DataFrame operations over the C01 tables (AST `D`, mirrored by coq/Model/DataFrameOps.v `dfop`),
//! and builds each pipeline TWICE on the real engine:
//!   df    through the DataFrame API (alias / filter / select / with_column / with_column_renamed / drop_columns / join /
//!         join_on / aggregate / sort / limit / distinct / union[_distinct] / union_by_name[_distinct] /
//!         intersect[_distinct] / except[_distinct], optionally finished by distinct_on),
//!   sql   as SQL text: the pipeline is translated to the positional query AST of refsql_gen (`tr`, the Rust twin of the Coq
//!         translation `tr`) and rendered by C01's renderer (top-level aliases = the DataFrame's column names when unique;
//!         distinct_on = SELECT DISTINCT ON (..) .. ORDER BY ..).
//! One JSON line per case: tables, the pipeline JSON `d` (for the Coq translation), the translated query JSON `q`, both
//! outcomes with their schemas, and "ok" = the direct oracle: equal bags of rows, equal field names (against the model's
//! names when they are not unique), equal type classes.
//!   c48 --seed S --n N [--case ID] [--timeout SECS]
#[path = "../refsql_gen.rs"]
mod refsql_gen;
#[path = "../refsql_run.rs"]
mod refsql_run;

use datafusion::common::{Column, JoinType, ScalarValue, TableReference};
use datafusion::functions_aggregate::expr_fn::{avg, count, count_distinct, max, min, sum};
use datafusion::logical_expr::{binary_expr, when, Expr, Operator, SortExpr};
use datafusion::prelude::*;
use h_util::{arg, json_str, Rng};
use refsql_gen::*;
use refsql_run::*;

// ---------------------------------------------------------------- pipeline AST
#[derive(Clone, Debug, PartialEq)]
struct CRef { q: Option<usize>, n: usize }
#[derive(Clone, Debug)]
enum Sel { Col(usize), Expr(E, usize) }
#[derive(Clone, Debug)]
enum D {
    Table(usize, usize, usize),
    Filter(E, Box<D>),
    Select(Vec<Sel>, Box<D>),
    WithColumn(usize, E, Box<D>),
    Rename(CRef, usize, Box<D>),
    Drop(Vec<CRef>, Box<D>),
    Join(JK, Vec<usize>, Vec<usize>, Option<E>, Box<D>, Box<D>),
    JoinOn(JK, Vec<E>, Box<D>, Box<D>),
    Aggregate(Vec<usize>, Vec<(Agg, E, usize)>, Box<D>),
    Sort(Vec<(E, bool, bool)>, Box<D>),
    Limit(u64, Option<u64>, Box<D>),
    Distinct(Box<D>),
    Union(bool, Box<D>, Box<D>),
    UnionByName(bool, Box<D>, Box<D>),
    Intersect(bool, Box<D>, Box<D>),
    Except(bool, Box<D>, Box<D>),
}
#[derive(Clone, Debug)]
struct Tail { on: Vec<usize>, sel: Vec<usize>, sort: Vec<(usize, bool, bool)> }

type Sch = Vec<(Option<usize>, usize, Ty)>;

fn name_str(n: usize) -> String { if n < 100 { format!("c{n}") } else { format!("n{}", n - 100) } }
fn qual_str(q: usize) -> String { format!("a{q}") }
fn ref_matches(x: &CRef, c: &(Option<usize>, usize, Ty)) -> bool { x.n == c.1 && match x.q { None => true, Some(q) => c.0 == Some(q) } }
fn nodup(s: &Sch) -> bool { let mut v: Vec<usize> = s.iter().map(|c| c.1).collect(); v.sort(); v.dedup(); v.len() == s.len() }
fn conj(mut es: Vec<E>) -> E {
    if es.is_empty() { return E::Lit(V::B(true), Ty::Bool); }
    let mut acc = es.pop().unwrap();
    while let Some(e) = es.pop() { acc = E::And(Box::new(e), Box::new(acc)); }
    acc
}
fn jk_str(k: JK) -> &'static str { match k { JK::Inner => "inner", JK::Left => "left", JK::Right => "right", JK::Full => "full", JK::Cross => "cross" } }
fn agg_ty(a: Agg, t: Ty) -> Ty { match a { Agg::CountStar | Agg::Count | Agg::CountDistinct | Agg::Sum => Ty::Int, Agg::Avg => Ty::Rat, Agg::Min | Agg::Max => t } }
fn ubn_names(sl: &Sch, sr: &Sch) -> Vec<(usize, Ty)> {
    let mut out: Vec<(usize, Ty)> = vec![];
    for c in sl.iter().chain(sr.iter()) { if !out.iter().any(|o| o.0 == c.1) { out.push((c.1, c.2)); } }
    out
}

/// type of an expression over a row of types ts (only what the generator produces)
fn ety(e: &E, ts: &[Ty]) -> Ty {
    match e {
        E::Col(_, i) => ts[*i],
        E::Lit(_, t) => *t,
        E::Arith(..) => Ty::Int,
        E::Cmp(..) | E::And(..) | E::Or(..) | E::Not(..) | E::IsNull(..) | E::Distinct(..) | E::Between(..) | E::InList(..) | E::Exists(..) | E::InSub(..) => Ty::Bool,
        E::Case(ws, els) => { if let Some(e) = els { ety(e, ts) } else { ety(&ws[0].1, ts) } }
        E::Coalesce(l) => ety(&l[0], ts),
        E::Nullif(a, _) => ety(a, ts),
        E::Scalar(_) => Ty::Int,
    }
}

/// the Rust twin of Model/DataFrameOps.v `tr`: schema and positional query of a pipeline (None = rejected by the API)
fn tr(d: &D) -> Option<(Sch, Q)> {
    Some(match d {
        D::Table(n, a, w) => { let ts = TAB_TYPES.with(|t| t.borrow()[*n].clone()); ((0..*w).map(|i| (Some(*a), i, ts[i])).collect(), Q::Table(*n)) }
        D::Filter(p, d1) => { let (s, q) = tr(d1)?; (s, Q::Filter(p.clone(), Box::new(q))) }
        D::Select(items, d1) => {
            let (s, q) = tr(d1)?;
            let ts: Vec<Ty> = s.iter().map(|c| c.2).collect();
            let mut sch = vec![]; let mut es = vec![];
            for it in items { match it {
                Sel::Col(i) => { sch.push(s.get(*i)?.clone()); es.push(E::Col(0, *i)); }
                Sel::Expr(e, nm) => { sch.push((None, *nm, ety(e, &ts))); es.push(e.clone()); }
            } }
            (sch, Q::Project(es, Box::new(q)))
        }
        D::WithColumn(nm, e, d1) => {
            let (s, q) = tr(d1)?;
            let ts: Vec<Ty> = s.iter().map(|c| c.2).collect();
            let hits = s.iter().filter(|c| c.1 == *nm).count();
            if hits >= 2 { return None; }
            let t = ety(e, &ts);
            let mut sch: Sch = s.iter().map(|c| if c.1 == *nm { (None, *nm, t) } else { c.clone() }).collect();
            let mut es: Vec<E> = s.iter().enumerate().map(|(i, c)| if c.1 == *nm { e.clone() } else { E::Col(0, i) }).collect();
            if hits == 0 { sch.push((None, *nm, t)); es.push(e.clone()); }
            (sch, Q::Project(es, Box::new(q)))
        }
        D::Rename(old, new, d1) => {
            let (mut s, q) = tr(d1)?;
            let pos: Vec<usize> = (0..s.len()).filter(|i| ref_matches(old, &s[*i])).collect();
            match pos.len() { 0 => (s, q), 1 => { s[pos[0]].1 = *new; (s, q) } _ => return None }
        }
        D::Drop(cs, d1) => {
            let (s, q) = tr(d1)?;
            for x in cs { if x.q.is_some() && !s.iter().any(|c| ref_matches(x, c)) { return None; } }
            let keep: Vec<usize> = (0..s.len()).filter(|i| !cs.iter().any(|x| ref_matches(x, &s[*i]))).collect();
            (keep.iter().map(|i| s[*i].clone()).collect(), Q::Project(keep.iter().map(|i| E::Col(0, *i)).collect(), Box::new(q)))
        }
        D::Join(k, lk, rk, filt, l, r) => {
            let (sl, ql) = tr(l)?; let (sr, qr) = tr(r)?;
            let wl = sl.len();
            let mut es: Vec<E> = lk.iter().zip(rk.iter()).map(|(a, b)| E::Cmp("=", Box::new(E::Col(0, *a)), Box::new(E::Col(0, wl + *b)))).collect();
            if let Some(f) = filt { es.push(f.clone()); }
            let mut s = sl; s.extend(sr);
            (s, Q::Join(*k, conj(es), Box::new(ql), Box::new(qr)))
        }
        D::JoinOn(k, ons, l, r) => {
            let (sl, ql) = tr(l)?; let (sr, qr) = tr(r)?;
            let mut s = sl; s.extend(sr);
            (s, Q::Join(*k, conj(ons.clone()), Box::new(ql), Box::new(qr)))
        }
        D::Aggregate(keys, aggs, d1) => {
            let (s, q) = tr(d1)?;
            let ts: Vec<Ty> = s.iter().map(|c| c.2).collect();
            let mut sch: Sch = vec![];
            for k in keys { sch.push(s.get(*k)?.clone()); }
            for (a, e, nm) in aggs { sch.push((None, *nm, agg_ty(*a, ety(e, &ts)))); }
            (sch, Q::Group(keys.iter().map(|k| E::Col(0, *k)).collect(), aggs.iter().map(|(a, e, _)| (*a, e.clone())).collect(), None, Box::new(q)))
        }
        D::Sort(ks, d1) => { let (s, q) = tr(d1)?; (s, Q::Sort(ks.clone(), Box::new(q))) }
        D::Limit(sk, f, d1) => { let (s, q) = tr(d1)?; (s, Q::Limit(*sk, *f, Box::new(q))) }
        D::Distinct(d1) => { let (s, q) = tr(d1)?; (s, Q::Distinct(Box::new(q))) }
        D::Union(all, l, r) => {
            let (sl, ql) = tr(l)?; let (sr, qr) = tr(r)?;
            if sl.len() != sr.len() || !nodup(&sl) { return None; }
            (sl.iter().map(|c| (None, c.1, c.2)).collect(), Q::SetOp(SetOp::Union, *all, Box::new(ql), Box::new(qr)))
        }
        D::UnionByName(all, l, r) => {
            let (sl, ql) = tr(l)?; let (sr, qr) = tr(r)?;
            if !nodup(&sl) || !nodup(&sr) { return None; }
            let out = ubn_names(&sl, &sr);
            let proj = |s: &Sch| -> Vec<E> { out.iter().map(|(c, t)| match s.iter().position(|x| x.1 == *c) { Some(i) => E::Col(0, i), None => E::Lit(V::Null, if *t == Ty::Rat { Ty::Int } else { *t }) }).collect() };
            (out.iter().map(|(c, t)| (None, *c, *t)).collect(),
             Q::SetOp(SetOp::Union, *all, Box::new(Q::Project(proj(&sl), Box::new(ql))), Box::new(Q::Project(proj(&sr), Box::new(qr)))))
        }
        D::Intersect(all, l, r) | D::Except(all, l, r) => {
            let (sl, ql) = tr(l)?; let (sr, qr) = tr(r)?;
            if sl.len() != sr.len() || !nodup(&sl) || !nodup(&sr) { return None; }
            (sl, Q::SetOp(if matches!(d, D::Intersect(..)) { SetOp::Intersect } else { SetOp::Except }, *all, Box::new(ql), Box::new(qr)))
        }
    })
}

// the table leaf needs the real column types: a per-thread global, set per case
thread_local! { static TAB_TYPES: std::cell::RefCell<Vec<Vec<Ty>>> = std::cell::RefCell::new(vec![]); }
fn tr_with(d: &D) -> Option<(Sch, Q)> { tr(d) }

// ---------------------------------------------------------------- JSON of the pipeline (-> Coq dfop, via C48.py)
fn cref_json(c: &CRef) -> String { format!("[{},{}]", match c.q { Some(q) => q.to_string(), None => "null".into() }, c.n) }
fn list_json<T, F: Fn(&T) -> String>(xs: &[T], f: F) -> String { format!("[{}]", xs.iter().map(f).collect::<Vec<_>>().join(",")) }
fn d_json(d: &D) -> String {
    match d {
        D::Table(n, a, w) => format!("[\"table\",{n},{a},{w}]"),
        D::Filter(p, d1) => format!("[\"filter\",{},{}]", e_json(p), d_json(d1)),
        D::Select(items, d1) => format!("[\"select\",{},{}]", list_json(items, |it| match it { Sel::Col(i) => format!("[\"c\",{i}]"), Sel::Expr(e, nm) => format!("[\"e\",{},{nm}]", e_json(e)) }), d_json(d1)),
        D::WithColumn(nm, e, d1) => format!("[\"with_column\",{nm},{},{}]", e_json(e), d_json(d1)),
        D::Rename(o, nw, d1) => format!("[\"rename\",{},{nw},{}]", cref_json(o), d_json(d1)),
        D::Drop(cs, d1) => format!("[\"drop\",{},{}]", list_json(cs, cref_json), d_json(d1)),
        D::Join(k, lk, rk, f, l, r) => format!("[\"join\",\"{}\",{},{},{},{},{}]", jk_str(*k), list_json(lk, |x| x.to_string()), list_json(rk, |x| x.to_string()),
            match f { Some(e) => e_json(e), None => "null".into() }, d_json(l), d_json(r)),
        D::JoinOn(k, ons, l, r) => format!("[\"join_on\",\"{}\",{},{},{}]", jk_str(*k), list_json(ons, e_json), d_json(l), d_json(r)),
        D::Aggregate(ks, aggs, d1) => format!("[\"aggregate\",{},{},{}]", list_json(ks, |x| x.to_string()),
            list_json(aggs, |(a, e, nm)| format!("[\"{}\",{},{nm}]", match a { Agg::CountStar => "count_star", Agg::Count => "count", Agg::CountDistinct => "count_distinct", Agg::Sum => "sum", Agg::Min => "min", Agg::Max => "max", Agg::Avg => "avg" }, e_json(e))), d_json(d1)),
        D::Sort(ks, d1) => format!("[\"sort\",{},{}]", list_json(ks, |(e, ds, nf)| format!("[{},{ds},{nf}]", e_json(e))), d_json(d1)),
        D::Limit(s, f, d1) => format!("[\"limit\",{s},{},{}]", match f { Some(n) => n.to_string(), None => "null".into() }, d_json(d1)),
        D::Distinct(d1) => format!("[\"distinct\",{}]", d_json(d1)),
        D::Union(a, l, r) => format!("[\"union\",{a},{},{}]", d_json(l), d_json(r)),
        D::UnionByName(a, l, r) => format!("[\"union_by_name\",{a},{},{}]", d_json(l), d_json(r)),
        D::Intersect(a, l, r) => format!("[\"intersect\",{a},{},{}]", d_json(l), d_json(r)),
        D::Except(a, l, r) => format!("[\"except\",{a},{},{}]", d_json(l), d_json(r)),
    }
}
fn tail_json(t: &Option<Tail>) -> String {
    match t { None => "null".into(), Some(t) => format!("{{\"on\":{},\"sel\":{},\"sort\":{}}}", list_json(&t.on, |x| x.to_string()), list_json(&t.sel, |x| x.to_string()),
        list_json(&t.sort, |(i, d, nf)| format!("[{i},{d},{nf}]"))) }
}

// ---------------------------------------------------------------- DataFrame construction
fn colx(c: &(Option<usize>, usize, Ty)) -> Expr {
    Expr::Column(match c.0 { Some(q) => Column::new(Some(TableReference::bare(qual_str(q))), name_str(c.1)), None => Column::new_unqualified(name_str(c.1)) })
}
fn litx(v: &V, t: Ty) -> Expr {
    lit(match (v, t) {
        (V::Null, Ty::Str) => ScalarValue::Utf8(None), (V::Null, Ty::Bool) => ScalarValue::Boolean(None), (V::Null, _) => ScalarValue::Int64(None),
        (V::I(z), _) => ScalarValue::Int64(Some(*z)), (V::S(s), _) => ScalarValue::Utf8(Some(s.clone())), (V::B(b), _) => ScalarValue::Boolean(Some(*b)),
    })
}
fn ex(e: &E, s: &Sch) -> Expr {
    match e {
        E::Col(_, i) => colx(&s[*i]),
        E::Lit(v, t) => litx(v, *t),
        E::Arith(op, a, b) => binary_expr(ex(a, s), match *op { "+" => Operator::Plus, "-" => Operator::Minus, "*" => Operator::Multiply, "/" => Operator::Divide, _ => Operator::Modulo }, ex(b, s)),
        E::Cmp(op, a, b) => binary_expr(ex(a, s), match *op { "=" => Operator::Eq, "<>" => Operator::NotEq, "<" => Operator::Lt, "<=" => Operator::LtEq, ">" => Operator::Gt, _ => Operator::GtEq }, ex(b, s)),
        E::And(a, b) => ex(a, s).and(ex(b, s)),
        E::Or(a, b) => ex(a, s).or(ex(b, s)),
        E::Not(a) => !ex(a, s),
        E::IsNull(neg, a) => if *neg { ex(a, s).is_not_null() } else { ex(a, s).is_null() },
        E::Distinct(neg, a, b) => binary_expr(ex(a, s), if *neg { Operator::IsNotDistinctFrom } else { Operator::IsDistinctFrom }, ex(b, s)),
        E::Between(neg, a, lo, hi) => if *neg { ex(a, s).not_between(ex(lo, s), ex(hi, s)) } else { ex(a, s).between(ex(lo, s), ex(hi, s)) },
        E::InList(neg, a, l) => ex(a, s).in_list(l.iter().map(|x| ex(x, s)).collect(), *neg),
        E::Case(ws, els) => {
            let mut b = when(ex(&ws[0].0, s), ex(&ws[0].1, s));
            for (w, t) in ws.iter().skip(1) { b = b.when(ex(w, s), ex(t, s)); }
            match els { Some(e) => b.otherwise(ex(e, s)).unwrap(), None => b.end().unwrap() }
        }
        E::Coalesce(l) => coalesce(l.iter().map(|x| ex(x, s)).collect()),
        E::Nullif(a, b) => nullif(ex(a, s), ex(b, s)),
        E::Scalar(_) | E::Exists(..) | E::InSub(..) => unreachable!("no subqueries in DataFrame pipelines"),
    }
}
fn jt(k: JK) -> JoinType { match k { JK::Inner | JK::Cross => JoinType::Inner, JK::Left => JoinType::Left, JK::Right => JoinType::Right, JK::Full => JoinType::Full } }
fn qname(c: &(Option<usize>, usize, Ty)) -> String { match c.0 { Some(q) => format!("{}.{}", qual_str(q), name_str(c.1)), None => name_str(c.1) } }

fn build(base: &[DataFrame], d: &D) -> Result<DataFrame, String> {
    let es = |e: datafusion::error::DataFusionError| e.to_string();
    Ok(match d {
        D::Table(n, a, _) => base[*n].clone().alias(&qual_str(*a)).map_err(es)?,
        D::Filter(p, d1) => { let s = tr_with(d1).unwrap().0; build(base, d1)?.filter(ex(p, &s)).map_err(es)? }
        D::Select(items, d1) => {
            let s = tr_with(d1).unwrap().0;
            let exprs: Vec<Expr> = items.iter().map(|it| match it { Sel::Col(i) => colx(&s[*i]), Sel::Expr(e, nm) => ex(e, &s).alias(name_str(*nm)) }).collect();
            build(base, d1)?.select(exprs).map_err(es)?
        }
        D::WithColumn(nm, e, d1) => { let s = tr_with(d1).unwrap().0; build(base, d1)?.with_column(&name_str(*nm), ex(e, &s)).map_err(es)? }
        D::Rename(old, new, d1) => {
            let o = match old.q { Some(q) => format!("{}.{}", qual_str(q), name_str(old.n)), None => name_str(old.n) };
            build(base, d1)?.with_column_renamed(o, &name_str(*new)).map_err(es)?
        }
        D::Drop(cs, d1) => {
            let cols: Vec<Column> = cs.iter().map(|c| match c.q { Some(q) => Column::new(Some(TableReference::bare(qual_str(q))), name_str(c.n)), None => Column::new_unqualified(name_str(c.n)) }).collect();
            build(base, d1)?.drop_columns(&cols).map_err(es)?
        }
        D::Join(k, lk, rk, filt, l, r) => {
            let (sl, sr) = (tr_with(l).unwrap().0, tr_with(r).unwrap().0);
            let mut s = sl.clone(); s.extend(sr.clone());
            let ln: Vec<String> = lk.iter().map(|i| qname(&sl[*i])).collect();
            let rn: Vec<String> = rk.iter().map(|i| qname(&sr[*i])).collect();
            let f = filt.as_ref().map(|e| ex(e, &s));
            build(base, l)?.join(build(base, r)?, jt(*k), &ln.iter().map(|x| x.as_str()).collect::<Vec<_>>(), &rn.iter().map(|x| x.as_str()).collect::<Vec<_>>(), f).map_err(es)?
        }
        D::JoinOn(k, ons, l, r) => {
            let mut s = tr_with(l).unwrap().0; s.extend(tr_with(r).unwrap().0);
            build(base, l)?.join_on(build(base, r)?, jt(*k), ons.iter().map(|e| ex(e, &s)).collect::<Vec<_>>()).map_err(es)?
        }
        D::Aggregate(keys, aggs, d1) => {
            let s = tr_with(d1).unwrap().0;
            let g: Vec<Expr> = keys.iter().map(|k| colx(&s[*k])).collect();
            let a: Vec<Expr> = aggs.iter().map(|(a, e, nm)| { let x = ex(e, &s); (match a {
                Agg::CountStar => count(lit(1i64)), Agg::Count => count(x), Agg::CountDistinct => count_distinct(x), Agg::Sum => sum(x), Agg::Min => min(x), Agg::Max => max(x), Agg::Avg => avg(x) }).alias(name_str(*nm)) }).collect();
            build(base, d1)?.aggregate(g, a).map_err(es)?
        }
        D::Sort(ks, d1) => { let s = tr_with(d1).unwrap().0; build(base, d1)?.sort(ks.iter().map(|(e, desc, nf)| SortExpr::new(ex(e, &s), !*desc, *nf)).collect()).map_err(es)? }
        D::Limit(sk, f, d1) => build(base, d1)?.limit(*sk as usize, f.map(|n| n as usize)).map_err(es)?,
        D::Distinct(d1) => build(base, d1)?.distinct().map_err(es)?,
        D::Union(all, l, r) => { let (a, b) = (build(base, l)?, build(base, r)?); if *all { a.union(b) } else { a.union_distinct(b) }.map_err(es)? }
        D::UnionByName(all, l, r) => { let (a, b) = (build(base, l)?, build(base, r)?); if *all { a.union_by_name(b) } else { a.union_by_name_distinct(b) }.map_err(es)? }
        D::Intersect(all, l, r) => { let (a, b) = (build(base, l)?, build(base, r)?); if *all { a.intersect(b) } else { a.intersect_distinct(b) }.map_err(es)? }
        D::Except(all, l, r) => { let (a, b) = (build(base, l)?, build(base, r)?); if *all { a.except(b) } else { a.except_distinct(b) }.map_err(es)? }
    })
}

type Res = Result<(Vec<String>, Vec<(String, String)>), (String, String)>;
async fn run_df(tabs: Vec<Tab>, tp: usize, bs: usize, d: D, tail: Option<Tail>) -> Res {
    TAB_TYPES.with(|t| *t.borrow_mut() = tabs.iter().map(|x| x.types.clone()).collect());
    let ctx = new_ctx(&tabs, tp, bs);
    let mut base = vec![];
    for i in 0..tabs.len() { base.push(ctx.table(format!("t{i}").as_str()).await.map_err(|e| ("table".to_string(), e.to_string()))?); }
    let mut df = build(&base, &d).map_err(|e| ("build".to_string(), e))?;
    if let Some(t) = tail {
        let s = tr_with(&d).unwrap().0;
        df = df.distinct_on(t.on.iter().map(|i| colx(&s[*i])).collect(), t.sel.iter().map(|i| colx(&s[*i])).collect(),
            Some(t.sort.iter().map(|(i, desc, nf)| SortExpr::new(colx(&s[*i]), !*desc, *nf)).collect())).map_err(|e| ("build".to_string(), e.to_string()))?;
    }
    collect_df(df).await
}
async fn run_sql(tabs: Vec<Tab>, tp: usize, bs: usize, sql: String) -> Res {
    let ctx = new_ctx(&tabs, tp, bs);
    let df = ctx.sql(&sql).await.map_err(|e| ("plan".to_string(), e.to_string()))?;
    collect_df(df).await
}

/// SQL text of the pipeline: C01's rendering of the translated query; the top-level aliases r<i> become the DataFrame's names
fn sql_of(q: &Q, s: &Sch, widths: &[usize], tail: &Option<Tail>) -> String {
    let inner = to_sql(q, widths);
    match tail {
        None => {
            if !nodup(s) { return inner; }
            let mut out = inner;
            for i in (0..s.len()).rev() {
                let from = format!(" AS r{i}");
                let to = format!(" AS \"{}\"", name_str(s[i].1));
                // replace only where the alias ends (next char is not a digit)
                let mut res = String::new(); let mut rest = out.as_str();
                while let Some(p) = rest.find(&from) {
                    let after = &rest[p + from.len()..];
                    res.push_str(&rest[..p]);
                    if after.chars().next().map(|c| c.is_ascii_digit()).unwrap_or(false) { res.push_str(&from); } else { res.push_str(&to); }
                    rest = after;
                }
                res.push_str(rest);
                out = res;
            }
            out
        }
        Some(t) => {
            let on = t.on.iter().map(|i| format!("t.r{i}")).collect::<Vec<_>>().join(", ");
            let sel = t.sel.iter().enumerate().map(|(k, i)| format!("t.r{i} AS o{k}")).collect::<Vec<_>>().join(", ");
            let ord = t.sort.iter().map(|(i, d, nf)| format!("t.r{i} {} NULLS {}", if *d { "DESC" } else { "ASC" }, if *nf { "FIRST" } else { "LAST" })).collect::<Vec<_>>().join(", ");
            format!("SELECT DISTINCT ON ({on}) {sel} FROM ({inner}) AS t ORDER BY {ord}")
        }
    }
}

// ---------------------------------------------------------------- generator
struct PGen<'a> { rng: &'a mut Rng, tabs: Vec<Tab>, alias: usize, fresh: usize }
const POOL: [(usize, Ty); 6] = [(100, Ty::Int), (101, Ty::Str), (102, Ty::Bool), (103, Ty::Int), (104, Ty::Str), (105, Ty::Int)];

impl<'a> PGen<'a> {
    fn tys(s: &Sch) -> Vec<Ty> { s.iter().map(|c| c.2).collect() }
    fn expr(&mut self, t: Ty, s: &Sch, d: u32) -> E { let ts = Self::tys(s); let mut g = Gen { rng: self.rng, tabs: self.tabs.clone() }; g.expr(t, &ts, d) }
    fn pred(&mut self, s: &Sch, d: u32) -> E { let ts = Self::tys(s); let mut g = Gen { rng: self.rng, tabs: self.tabs.clone() }; g.pred(&ts, d) }
    fn fresh_name(&mut self) -> usize { self.fresh += 1; 110 + self.fresh }
    fn sch(d: &D) -> Sch { tr_with(d).expect("generator produced a rejected pipeline").0 }
    fn table(&mut self) -> D {
        let n = self.rng.below(self.tabs.len() as u64) as usize;
        self.alias += 1;
        D::Table(n, self.alias, self.tabs[n].types.len())
    }
    /// a projection onto columns with the given (name, type) signature
    fn select_sig(&mut self, d: D, sig: &[(usize, Ty)]) -> D {
        let s = Self::sch(&d);
        let items = sig.iter().map(|(nm, t)| {
            let t2 = if *t == Ty::Rat { Ty::Int } else { *t };
            let cs: Vec<usize> = (0..s.len()).filter(|i| s[*i].2 == t2).collect();
            let e = if !cs.is_empty() && self.rng.chance(3, 4) { E::Col(0, *self.rng.pick(&cs)) } else { self.expr(t2, &s, 1) };
            Sel::Expr(e, *nm)
        }).collect();
        D::Select(items, Box::new(d))
    }
    fn unique_names(&mut self, d: D) -> D {
        let s = Self::sch(&d);
        if nodup(&s) && s.iter().all(|c| c.2 != Ty::Rat) && self.rng.chance(2, 3) { return d; }
        let items = (0..s.len()).map(|i| Sel::Expr(E::Col(0, i), self.fresh_name())).collect();
        D::Select(items, Box::new(d))
    }
    /// a join output may not contain an unqualified column whose name also occurs on the other side: rename the right side
    fn no_clash(&mut self, s: &Sch, r: D) -> D {
        let sr = Self::sch(&r);
        let clash = sr.iter().any(|c| s.iter().any(|x| x.1 == c.1 && (x.0.is_none() || c.0.is_none())));
        if !clash { return r; }
        let items = (0..sr.len()).map(|i| Sel::Expr(E::Col(0, i), self.fresh_name())).collect();
        D::Select(items, Box::new(r))
    }
    fn source(&mut self, depth: u32) -> D { if depth == 0 || self.rng.chance(1, 2) { self.table() } else { self.pipeline(depth - 1) } }
    fn step(&mut self, d: D, depth: u32) -> D {
        let s = Self::sch(&d);
        let has_rat = s.iter().any(|c| c.2 == Ty::Rat);
        match self.rng.below(if has_rat { 6 } else { 20 }) {
            0 => D::Filter(self.pred(&s, 2), Box::new(d)),
            1 => { // select: columns and computed columns
                let n = 1 + self.rng.below(3) as usize;
                let mut items = vec![];
                for _ in 0..n {
                    if self.rng.chance(1, 2) { let i = self.rng.below(s.len() as u64) as usize; if !items.iter().any(|x| matches!(x, Sel::Col(j) if s[*j].1 == s[i].1 && s[*j].0 == s[i].0)) { items.push(Sel::Col(i)); continue; } }
                    let t = *self.rng.pick(&[Ty::Int, Ty::Int, Ty::Str, Ty::Bool]);
                    let nm = self.fresh_name();
                    items.push(Sel::Expr(self.expr(t, &s, 2), nm));
                }
                D::Select(items, Box::new(d))
            }
            2 => D::Limit(self.rng.below(3), if self.rng.chance(4, 5) { Some(self.rng.below(5)) } else { None },
                     Box::new(D::Sort((0..s.len()).map(|i| (E::Col(0, i), self.rng.chance(1, 2), self.rng.chance(1, 2))).collect(), Box::new(d)))),
            3 => D::Distinct(Box::new(d)),
            4 => { // drop_columns: by unqualified name (drops every column of that name) or qualified
                if s.len() < 2 { return D::Distinct(Box::new(d)); }
                let i = self.rng.below(s.len() as u64) as usize;
                let c = if s[i].0.is_some() && self.rng.chance(1, 2) { CRef { q: s[i].0, n: s[i].1 } } else { CRef { q: None, n: s[i].1 } };
                let mut cs = vec![c];
                if self.rng.chance(1, 5) { cs.push(CRef { q: None, n: 199 }); }       // an unknown unqualified name is ignored
                let keep = (0..s.len()).filter(|j| !cs.iter().any(|x| ref_matches(x, &s[*j]))).count();
                if keep == 0 { return D::Distinct(Box::new(d)); }
                D::Drop(cs, Box::new(d))
            }
            5 => { // with_column_renamed
                let i = self.rng.below(s.len() as u64) as usize;
                let same = s.iter().filter(|c| c.1 == s[i].1).count();
                let old = if same > 1 || (s[i].0.is_some() && self.rng.chance(1, 2)) { CRef { q: s[i].0, n: s[i].1 } } else { CRef { q: None, n: s[i].1 } };
                if old.q.is_none() && same > 1 { return D::Distinct(Box::new(d)); }
                let old = if self.rng.chance(1, 8) { CRef { q: None, n: 198 } } else { old };  // unknown column: no-op
                D::Rename(old, self.fresh_name(), Box::new(d))
            }
            6 | 7 => { // with_column: replace an existing (uniquely named) column or append
                let i = self.rng.below(s.len() as u64) as usize;
                let uniq = s.iter().filter(|c| c.1 == s[i].1).count() == 1;
                let nm = if uniq && self.rng.chance(1, 2) { s[i].1 } else { self.fresh_name() };
                let t = *self.rng.pick(&[Ty::Int, Ty::Int, Ty::Str, Ty::Bool]);
                D::WithColumn(nm, self.expr(t, &s, 2), Box::new(d))
            }
            8 | 9 => { // join on key columns (+ optional filter)
                let r = self.source(depth.min(1));
                let r = self.no_clash(&s, r);
                let sr = Self::sch(&r);
                if sr.iter().any(|c| c.2 == Ty::Rat) { return D::Distinct(Box::new(d)); }
                let mut pairs = vec![];
                for i in 0..s.len() { for j in 0..sr.len() { if s[i].2 == sr[j].2 { pairs.push((i, j)); } } }
                if pairs.is_empty() { return D::Distinct(Box::new(d)); }
                let k = *self.rng.pick(&[JK::Inner, JK::Left, JK::Right, JK::Full]);
                let (i, j) = *self.rng.pick(&pairs);
                let (mut lk, mut rk) = (vec![i], vec![j]);
                if self.rng.chance(1, 4) { let (i2, j2) = *self.rng.pick(&pairs); if i2 != i && j2 != j { lk.push(i2); rk.push(j2); } }
                let mut both = s.clone(); both.extend(sr.clone());
                let filt = if self.rng.chance(1, 3) { Some(self.pred(&both, 1)) } else { None };
                D::Join(k, lk, rk, filt, Box::new(d), Box::new(r))
            }
            10 | 11 => { // join_on expressions
                let r = self.source(depth.min(1));
                let r = self.no_clash(&s, r);
                let sr = Self::sch(&r);
                if sr.iter().any(|c| c.2 == Ty::Rat) { return D::Distinct(Box::new(d)); }
                let mut both = s.clone(); both.extend(sr.clone());
                let k = *self.rng.pick(&[JK::Inner, JK::Left, JK::Right, JK::Full]);
                let mut ons = vec![];
                let mut pairs = vec![];
                for i in 0..s.len() { for j in 0..sr.len() { if s[i].2 == sr[j].2 { pairs.push((i, s.len() + j)); } } }
                if !pairs.is_empty() && self.rng.chance(3, 4) { let (i, j) = *self.rng.pick(&pairs); ons.push(E::Cmp(*self.rng.pick(&["=", "=", "<", "<>"]), Box::new(E::Col(0, i)), Box::new(E::Col(0, j)))); }
                if ons.is_empty() || self.rng.chance(1, 3) { ons.push(self.pred(&both, 1)); }
                D::JoinOn(k, ons, Box::new(d), Box::new(r))
            }
            12 | 13 => { // aggregate
                // DataFrame::aggregate adds the columns that functionally depend on the keys (e.g. everything, when the input is itself
                // grouped by those keys) to the group-by list AND to the output (proposed finding C48-KF1, fixed witness KF1): random
                // pipelines group an already grouped input only globally
                let nk = if has_keyed_agg(&d) { 0 } else { *self.rng.pick(&[0usize, 1, 1, 2]) };
                let mut keys = vec![];
                for _ in 0..nk { let i = self.rng.below(s.len() as u64) as usize; if !keys.iter().any(|k: &usize| s[*k].1 == s[i].1) { keys.push(i); } }
                let ts = Self::tys(&s);
                let na = 1 + self.rng.below(2) as usize;
                let mut aggs = vec![];
                for _ in 0..na {
                    let ints: Vec<usize> = (0..s.len()).filter(|i| ts[*i] == Ty::Int).collect();
                    let (a, e) = match self.rng.below(7) {
                        0 => (Agg::CountStar, E::Lit(V::I(1), Ty::Int)),
                        1 => (Agg::Count, E::Col(0, self.rng.below(s.len() as u64) as usize)),
                        2 => (Agg::CountDistinct, E::Col(0, self.rng.below(s.len() as u64) as usize)),
                        3 => (Agg::Sum, if !ints.is_empty() { E::Col(0, *self.rng.pick(&ints)) } else { self.expr(Ty::Int, &s, 1) }),
                        4 => (Agg::Min, E::Col(0, self.rng.below(s.len() as u64) as usize)),
                        5 => (Agg::Max, self.expr(Ty::Int, &s, 1)),
                        _ => (Agg::Avg, if !ints.is_empty() { E::Col(0, *self.rng.pick(&ints)) } else { self.expr(Ty::Int, &s, 1) }),
                    };
                    let nm = self.fresh_name();
                    aggs.push((a, e, nm));
                }
                D::Aggregate(keys, aggs, Box::new(d))
            }
            14 | 15 => { // union_by_name: both sides projected onto subsets of a typed name pool, in different orders
                let mut side = |g: &mut Self, src: D| -> D {
                    let mut sig: Vec<(usize, Ty)> = POOL.iter().cloned().filter(|_| g.rng.chance(1, 2)).collect();
                    if sig.is_empty() { sig.push(POOL[g.rng.below(6) as usize]); }
                    for i in (1..sig.len()).rev() { let j = g.rng.below(i as u64 + 1) as usize; sig.swap(i, j); }
                    g.select_sig(src, &sig)
                };
                let l = side(self, d);
                let rsrc = self.source(depth.min(1));
                let r = side(self, rsrc);
                D::UnionByName(self.rng.chance(1, 2), Box::new(l), Box::new(r))
            }
            _ => { // union / intersect / except (positional): right side projected onto the left side's types
                let l = self.unique_names(d);
                let sl = Self::sch(&l);
                let sig: Vec<(usize, Ty)> = sl.iter().map(|c| (self.fresh_name(), c.2)).collect();
                let rsrc = self.source(depth.min(1));
                let r = self.select_sig(rsrc, &sig);
                let all = self.rng.chance(1, 2);
                match self.rng.below(4) { 0 | 1 => D::Union(all, Box::new(l), Box::new(r)), 2 => D::Intersect(all, Box::new(l), Box::new(r)), _ => D::Except(all, Box::new(l), Box::new(r)) }
            }
        }
    }
    fn pipeline(&mut self, depth: u32) -> D {
        let mut d = self.table();
        let n = 1 + self.rng.below(3 + depth as u64);
        for _ in 0..n { d = self.step(d, depth); }
        d
    }
    fn tail(&mut self, d: &D) -> Option<Tail> {
        let s = Self::sch(d);
        if !self.rng.chance(1, 6) || s.iter().any(|c| c.2 == Ty::Rat) || !nodup(&s) { return None; }
        let mut on = vec![self.rng.below(s.len() as u64) as usize];
        if s.len() > 2 && self.rng.chance(1, 3) { let j = self.rng.below(s.len() as u64) as usize; if !on.contains(&j) { on.push(j); } }
        let mut sort: Vec<(usize, bool, bool)> = on.iter().map(|i| (*i, self.rng.chance(1, 2), self.rng.chance(1, 2))).collect();
        for i in 0..s.len() { if !on.contains(&i) { sort.push((i, self.rng.chance(1, 2), self.rng.chance(1, 2))); } }
        let mut sel: Vec<usize> = (0..s.len()).filter(|_| self.rng.chance(2, 3)).collect();
        if sel.is_empty() { sel.push(0); }
        Some(Tail { on, sel, sort })
    }
}

fn has_keyed_agg(d: &D) -> bool {
    match d {
        D::Table(..) => false,
        D::Aggregate(ks, _, d1) => !ks.is_empty() || has_keyed_agg(d1),
        D::Filter(_, d1) | D::Select(_, d1) | D::WithColumn(_, _, d1) | D::Rename(_, _, d1) | D::Drop(_, d1) | D::Sort(_, d1) | D::Limit(_, _, d1) | D::Distinct(d1) => has_keyed_agg(d1),
        D::Join(_, _, _, _, l, r) | D::JoinOn(_, _, l, r) | D::Union(_, l, r) | D::UnionByName(_, l, r) | D::Intersect(_, l, r) | D::Except(_, l, r) => has_keyed_agg(l) || has_keyed_agg(r),
    }
}
fn v(i: i64) -> V { V::I(i) }
fn sv(x: &str) -> V { V::S(x.to_string()) }
/// fixed witness corpus (ids 1000000 + k), run first on every invocation
fn witnesses() -> Vec<(&'static str, Vec<Tab>, D, Option<Tail>)> {
    let n = V::Null;
    let t0 = Tab { types: vec![Ty::Int, Ty::Str, Ty::Bool], parts: 2, rows: vec![
        vec![v(1), sv("a"), V::B(true)], vec![v(2), sv("b"), n.clone()], vec![v(3), n.clone(), V::B(false)], vec![n.clone(), sv("c"), V::B(true)], vec![v(2), sv("a"), V::B(false)]] };
    let t1 = Tab { types: vec![Ty::Int, Ty::Int], parts: 1, rows: vec![vec![v(1), v(10)], vec![v(2), n.clone()], vec![n.clone(), v(30)], vec![v(2), v(20)]] };
    let c = |i: usize| E::Col(0, i);
    // W1 union_by_name with different column orders and missing columns
    let l = D::Select(vec![Sel::Expr(c(0), 100), Sel::Expr(c(1), 101)], Box::new(D::Table(0, 1, 3)));
    let r = D::Select(vec![Sel::Expr(c(1), 103), Sel::Expr(c(0), 100)], Box::new(D::Table(1, 2, 2)));
    let w1 = D::UnionByName(true, Box::new(l.clone()), Box::new(r.clone()));
    // W2 with_column replacing in place, rename of a qualified column after a self join, unqualified drop of both c1
    let j = D::Join(JK::Right, vec![0], vec![0], None, Box::new(D::Table(0, 1, 3)), Box::new(D::Table(1, 2, 2)));
    let w2 = D::Drop(vec![CRef { q: None, n: 1 }], Box::new(D::Rename(CRef { q: Some(2), n: 0 }, 120, Box::new(D::WithColumn(2, E::Arith("+", Box::new(c(0)), Box::new(E::Lit(v(1), Ty::Int))), Box::new(j))))));
    // W3 distinct_on over a union_by_name_distinct
    let w3 = D::UnionByName(false, Box::new(l), Box::new(r));
    let t3 = Tail { on: vec![0], sel: vec![0, 2, 1], sort: vec![(0, false, false), (1, true, true), (2, false, true)] };
    // W4 join_on with a non-equi expression, aggregate, sort + limit
    let jo = D::JoinOn(JK::Left, vec![E::Cmp("<", Box::new(c(0)), Box::new(c(3)))], Box::new(D::Table(0, 1, 3)), Box::new(D::Table(1, 2, 2)));
    let w4 = D::Aggregate(vec![1], vec![(Agg::CountStar, E::Lit(v(1), Ty::Int), 121), (Agg::Sum, c(4), 122)], Box::new(jo));
    // W5 with_column_renamed keeps the qualifier: the renamed column is referenced as a2.n20 afterwards
    let j5 = D::Join(JK::Inner, vec![0], vec![0], None, Box::new(D::Table(0, 1, 3)), Box::new(D::Table(1, 2, 2)));
    let w5 = D::Filter(E::Cmp(">", Box::new(c(3)), Box::new(E::Lit(v(0), Ty::Int))), Box::new(D::Rename(CRef { q: Some(2), n: 0 }, 120, Box::new(j5))));
    // W6 join_on RIGHT with an expression key, union_by_name of two aggregates
    let w6 = D::JoinOn(JK::Right, vec![E::Cmp("=", Box::new(E::Arith("+", Box::new(c(0)), Box::new(E::Lit(v(1), Ty::Int)))), Box::new(c(3)))], Box::new(D::Table(0, 1, 3)), Box::new(D::Table(1, 2, 2)));
    // KF1 aggregate over an input grouped by the same key: t1.aggregate([c0], [count(c1) AS n30]).aggregate([c0], [sum(n30) AS n31])
    let kf1 = D::Aggregate(vec![0], vec![(Agg::Sum, c(1), 131)], Box::new(D::Aggregate(vec![0], vec![(Agg::Count, c(1), 130)], Box::new(D::Table(1, 1, 2)))));
    // KF2 (C03-KF5 through a join): t1.aggregate([], [count(c1) AS n40]).join_on(t0, Inner, [n40 <> 3, NULL IN (n40, a2.c0)])
    let kf2 = D::JoinOn(JK::Inner, vec![E::Cmp("<>", Box::new(c(0)), Box::new(E::Lit(v(3), Ty::Int))), E::InList(false, Box::new(E::Lit(n.clone(), Ty::Int)), vec![c(0), c(1)])],
        Box::new(D::Aggregate(vec![], vec![(Agg::Count, c(1), 140)], Box::new(D::Table(1, 1, 2)))), Box::new(D::Table(0, 2, 3)));
    vec![("KF1", vec![t0.clone(), t1.clone()], kf1, None), ("KF2", vec![t0.clone(), t1.clone()], kf2, None), ("W5", vec![t0.clone(), t1.clone()], w5, None), ("W6", vec![t0.clone(), t1.clone()], w6, None),
         ("W1", vec![t0.clone(), t1.clone()], w1, None), ("W2", vec![t0.clone(), t1.clone()], w2, None), ("W3", vec![t0.clone(), t1.clone()], w3, Some(t3)), ("W4", vec![t0, t1], w4, None)]
}

fn run_case(id: u64, stream: &str, tabs: &[Tab], d: &D, tail: &Option<Tail>, tp: usize, bs: usize, secs: u64) {
    TAB_TYPES.with(|t| *t.borrow_mut() = tabs.iter().map(|x| x.types.clone()).collect());
    let widths: Vec<usize> = tabs.iter().map(|t| t.types.len()).collect();
    let (s, q) = tr_with(d).expect("pipeline rejected by the model");
    let sql = sql_of(&q, &s, &widths, tail);
    let out_names: Vec<usize> = match tail { None => s.iter().map(|c| c.1).collect(), Some(t) => t.sel.iter().map(|i| s[*i].1).collect() };
    let tv = tabs.to_vec();
    let (odf, h1) = { let (t, d2, tl) = (tv.clone(), d.clone(), tail.clone()); run_job(secs, || { let (t, d2, tl) = (t.clone(), d2.clone(), tl.clone()); move || run_df(t, tp, bs, d2, tl) }) };
    let (osql, h2) = { let (t, s2) = (tv.clone(), sql.clone()); run_job(secs, || { let (t, s2) = (t.clone(), s2.clone()); move || run_sql(t, tp, bs, s2) }) };
    let mut ok = true;
    let mut diffs: Vec<String> = vec![];
    let sorted_top = matches!(d, D::Limit(_, _, inner) if matches!(**inner, D::Sort(..))) && tail.is_none();
    match (&odf, &osql) {
        (Out::Hang, _) | (_, Out::Hang) => {}
        (Out::Panic(m), _) => { ok = false; diffs.push(format!("df: panic {m}")); }
        (_, Out::Panic(m)) => { ok = false; diffs.push(format!("sql: panic {m}")); }
        (Out::Rows(a, sa), Out::Rows(b, sb)) => {
            if bag(a) != bag(b) { if sorted_top && a.len() == b.len() { diffs.push("different top-k".into()); } else { ok = false; diffs.push("rows differ".into()); } }
            let want: Vec<String> = out_names.iter().map(|n| name_str(*n)).collect();
            let got: Vec<String> = sa.iter().map(|x| x.0.clone()).collect();
            if got != want { ok = false; diffs.push(format!("DataFrame field names {:?}, expected {:?}", got, want)); }
            if tail.is_none() && nodup(&s) { let gs: Vec<String> = sb.iter().map(|x| x.0.clone()).collect(); if gs != got { ok = false; diffs.push(format!("SQL field names {:?} differ from the DataFrame's {:?}", gs, got)); } }
            let (ta, tb): (Vec<&String>, Vec<&String>) = (sa.iter().map(|x| &x.1).collect(), sb.iter().map(|x| &x.1).collect());
            if ta != tb && !(ta.len() == tb.len() && ta.iter().zip(tb.iter()).all(|(x, y)| x == y || x.as_str() == "null" || y.as_str() == "null")) { ok = false; diffs.push(format!("field types differ: DataFrame {:?}, SQL {:?}", ta, tb)); }
        }
        (Out::Err(..), Out::Err(..)) => {}
        (Out::Err(st, e), Out::Rows(..)) => { ok = false; diffs.push(format!("df fails at {st} where the SQL text succeeds: {}", e.chars().take(200).collect::<String>())); }
        (Out::Rows(..), Out::Err(st, e)) => { ok = false; diffs.push(format!("sql fails at {st} where the DataFrame succeeds: {}", e.chars().take(200).collect::<String>())); }
    }
    println!("{{\"id\":{id},\"stream\":\"{stream}\",\"tp\":{tp},\"bs\":{bs},\"tables\":{},\"d\":{},\"tail\":{},\"q\":{},\"names\":[{}],\"sql\":{},\"outs\":{{\"df\":{},\"sql\":{}}},\"hung\":{},\"diffs\":[{}],\"ok\":{ok}}}",
        tables_json(tabs), d_json(d), tail_json(tail), q_json(&q, &widths), out_names.iter().map(|n| n.to_string()).collect::<Vec<_>>().join(","),
        json_str(&sql), odf.json(), osql.json(), h1 + h2, diffs.iter().map(|x| json_str(x)).collect::<Vec<_>>().join(","));
}

fn kind(d: &D) -> &'static str {
    match d { D::Table(..) => "table", D::Filter(..) => "filter", D::Select(..) => "select", D::WithColumn(..) => "with_column", D::Rename(..) => "rename", D::Drop(..) => "drop",
        D::Join(..) => "join", D::JoinOn(..) => "join_on", D::Aggregate(..) => "aggregate", D::Sort(..) => "sort", D::Limit(..) => "limit", D::Distinct(..) => "distinct",
        D::Union(..) => "union", D::UnionByName(..) => "union_by_name", D::Intersect(..) => "intersect", D::Except(..) => "except" }
}

fn main() {
    let args: Vec<String> = std::env::args().collect();
    let seed: u64 = arg(&args, "--seed", "1").parse().unwrap();
    let n: u64 = arg(&args, "--n", "100").parse().unwrap();
    let only: i64 = arg(&args, "--case", "-1").parse().unwrap();
    let secs: u64 = arg(&args, "--timeout", "20").parse().unwrap();
    for (k, (name, tabs, d, tail)) in witnesses().into_iter().enumerate() {
        let id = 1_000_000 + k as u64;
        if only >= 0 && id as i64 != only { continue; }
        run_case(id, &format!("witness:{name}"), &tabs, &d, &tail, 2, 8192, secs);
    }
    let mut rng = Rng::new(seed);
    for id in 0..n {
        let tabs = Gen::gen_tables(&mut rng);
        TAB_TYPES.with(|t| *t.borrow_mut() = tabs.iter().map(|x| x.types.clone()).collect());
        let tp = 1 + rng.below(3) as usize;
        let bs = *rng.pick(&[8192usize, 8192, 2, 3]);
        let (d, tail) = { let mut g = PGen { rng: &mut rng, tabs: tabs.clone(), alias: 0, fresh: 0 }; let d = g.pipeline(2); let t = g.tail(&d); (d, t) };
        if only >= 0 && id as i64 != only { continue; }
        run_case(id, kind(&d), &tabs, &d, &tail, tp, bs, secs);
    }
}
