//! C02: query results do not depend on execution configuration or parallelism.
//! Queries come from the C01 generator (refsql_gen, engine E1 RefSQL).  Every query is executed by the REAL engine
//! (SessionContext::sql(..).collect()) under K sampled configurations of result-neutral settings:
//!   * session options (string keys of datafusion/common/src/config.rs, see OPTS below),
//!   * the physical layout of the same table rows: 1..4 MemTable partitions, rows dealt round-robin / in contiguous
//!     runs / at random, each partition cut into batches of 1, 2, 3 or all rows (empty partitions and batches occur),
//!   * one configuration per query runs two copies of the query concurrently in one session (tokio::join!).
//! Configuration 0 is always the plain one (target_partitions 1, batch_size 8192, one partition, one batch, defaults).
//! One JSON line per query: tables, query JSON (for the Coq reference, via lib/props/C01.py renderers), SQL text, and
//! for every run its configuration and the engine's rows / error.
//! "ok" = the DIRECT oracle on the engine's own outputs (independent of the Coq model):
//!   kind "bag"  (no top-level ORDER BY): every run returns the same multiset of rows (or every run fails);
//!   kind "sort" (top-level ORDER BY):    same multiset in every run  (the order on the keys is checked in Coq by `agrees`);
//!   kind "topk" (ORDER BY + LIMIT):      same number of rows in every run (valid top-k is checked in Coq by `agrees`).
//! "diff" = [a, b]: indices of two runs that differ, when ok is false.
//! "suspects": a query that fails the oracle is re-run with each override of SUSPECTS applied to every configuration;
//!   lib/props/C02.py attributes a failure to a listed known finding only if the override makes all runs agree again.
//!   c02 --seed S --n N [--k K] [--case ID [--explain]]     generated queries
//!   c02 --witness                                          the fixed witness cases of the listed known findings
//!   development: --probe "<sql>" (ad-hoc SQL over the tables of --case ID), --cfg J [--tp N] [--bs N] [--set k=v,..]
//!   [--unset k,..] [--unset-all] [--plain-layout] [--noconc]  (configuration 0 and a modified configuration J only)
#[path = "../refsql_gen.rs"]
mod refsql_gen;

use std::panic::{catch_unwind, AssertUnwindSafe};
use std::sync::Arc;

use arrow::array::{Array, ArrayRef, BooleanArray, Float64Array, Int64Array, StringArray};
use arrow::compute::cast;
use arrow::datatypes::{DataType, Field, Schema};
use arrow::record_batch::RecordBatch;
use datafusion::datasource::MemTable;
use datafusion::prelude::*;
use h_util::{arg, json_str, Rng};
use refsql_gen::*;

/// (key, values): values[0] is the default (written as "" = leave the option alone)
const OPTS: &[(&str, &[&str])] = &[
    ("datafusion.execution.coalesce_batches", &["", "false"]),
    ("datafusion.optimizer.repartition_joins", &["", "false"]),
    ("datafusion.optimizer.repartition_aggregations", &["", "false"]),
    ("datafusion.optimizer.repartition_sorts", &["", "false"]),
    ("datafusion.optimizer.repartition_windows", &["", "false"]),
    ("datafusion.optimizer.repartition_file_scans", &["", "false"]),
    ("datafusion.optimizer.prefer_hash_join", &["", "false"]),
    ("datafusion.optimizer.enable_round_robin_repartition", &["", "false"]),
    ("datafusion.optimizer.hash_join_single_partition_threshold", &["", "0"]),
    ("datafusion.optimizer.hash_join_single_partition_threshold_rows", &["", "0"]),
    ("datafusion.execution.skip_partial_aggregation_probe_ratio_threshold", &["", "0"]),
    ("datafusion.execution.skip_partial_aggregation_probe_rows_threshold", &["", "0", "1"]),
    ("datafusion.optimizer.enable_topk_aggregation", &["", "false"]),
    ("datafusion.optimizer.enable_topk_repartition", &["", "false"]),
    ("datafusion.optimizer.enable_distinct_aggregation_soft_limit", &["", "false"]),
    ("datafusion.optimizer.enable_dynamic_filter_pushdown", &["", "false"]),
    ("datafusion.optimizer.enable_join_dynamic_filter_pushdown", &["", "false"]),
    ("datafusion.optimizer.enable_aggregate_dynamic_filter_pushdown", &["", "false"]),
    ("datafusion.optimizer.enable_topk_dynamic_filter_pushdown", &["", "false"]),
    ("datafusion.optimizer.enable_sort_pushdown", &["", "false"]),
    ("datafusion.optimizer.enable_window_limits", &["", "false"]),
    ("datafusion.optimizer.prefer_existing_sort", &["", "true"]),
    ("datafusion.optimizer.prefer_existing_union", &["", "true"]),
    ("datafusion.optimizer.allow_symmetric_joins_without_pruning", &["", "false"]),
    ("datafusion.execution.sort_spill_reservation_bytes", &["", "0", "64"]),
    ("datafusion.execution.sort_in_place_threshold_bytes", &["", "0", "1"]),
    ("datafusion.execution.hash_join_buffering_capacity", &["", "1", "1048576"]),
];

/// overrides tried on a query that fails the oracle (see run_case)
const SUSPECTS: &[(&str, &str)] = &[
    ("datafusion.optimizer.enable_join_dynamic_filter_pushdown", "false"),
    ("datafusion.optimizer.prefer_hash_join", "true"),
    ("datafusion.optimizer.repartition_sorts", "false"),
];

#[derive(Clone)]
struct Cfg {
    tp: usize,
    bs: usize,
    opts: Vec<(String, String)>,
    /// per table: partitions -> batches -> row indices
    layout: Vec<Vec<Vec<Vec<usize>>>>,
    concurrent: bool,
}

fn plain_layout(tabs: &[Tab]) -> Vec<Vec<Vec<Vec<usize>>>> {
    tabs.iter().map(|t| vec![vec![(0..t.rows.len()).collect()]]).collect()
}

fn gen_layout(rng: &mut Rng, tabs: &[Tab]) -> Vec<Vec<Vec<Vec<usize>>>> {
    tabs.iter().map(|t| {
        let n = t.rows.len();
        let np = 1 + rng.below(4) as usize;
        let mut parts: Vec<Vec<usize>> = vec![vec![]; np];
        match rng.below(3) {
            0 => for i in 0..n { parts[i % np].push(i); },
            1 => { // contiguous runs
                let per = (n + np - 1) / np.max(1);
                for i in 0..n { parts[if per == 0 { 0 } else { (i / per).min(np - 1) }].push(i); }
            }
            _ => for i in 0..n { let p = rng.below(np as u64) as usize; parts[p].push(i); },
        }
        if rng.chance(1, 4) { for p in parts.iter_mut() { p.reverse(); } }
        parts.into_iter().map(|p| {
            let b = *rng.pick(&[1usize, 2, 3, usize::MAX]);
            let mut batches: Vec<Vec<usize>> = if p.is_empty() { if rng.chance(1, 2) { vec![vec![]] } else { vec![] } }
                                               else { p.chunks(b.min(p.len())).map(|c| c.to_vec()).collect() };
            if rng.chance(1, 8) { batches.push(vec![]); }
            batches
        }).collect()
    }).collect()
}

fn gen_cfg(rng: &mut Rng, tabs: &[Tab]) -> Cfg {
    let tp = *rng.pick(&[1usize, 2, 3, 8]);
    let bs = *rng.pick(&[1usize, 2, 3, 8192]);
    let mut opts = vec![];
    // a third of the configurations flips few options, a third about a third of them, a third about half
    let (num, den) = *rng.pick(&[(1u64, 9u64), (1, 3), (1, 2)]);
    for (k, vs) in OPTS {
        if rng.chance(num, den) {
            let v = vs[1 + rng.below(vs.len() as u64 - 1) as usize];
            opts.push((k.to_string(), v.to_string()));
        }
    }
    Cfg { tp, bs, opts, layout: gen_layout(rng, tabs), concurrent: false }
}

fn column(t: Ty, vals: &[&V]) -> ArrayRef {
    match t {
        Ty::Int | Ty::Rat => Arc::new(Int64Array::from(vals.iter().map(|v| match v { V::I(z) => Some(*z), _ => None }).collect::<Vec<_>>())),
        Ty::Bool => Arc::new(BooleanArray::from(vals.iter().map(|v| match v { V::B(b) => Some(*b), _ => None }).collect::<Vec<_>>())),
        Ty::Str => Arc::new(StringArray::from(vals.iter().map(|v| match v { V::S(s) => Some(s.clone()), _ => None }).collect::<Vec<_>>())),
    }
}
fn arrow_ty(t: Ty) -> DataType { match t { Ty::Int | Ty::Rat => DataType::Int64, Ty::Bool => DataType::Boolean, Ty::Str => DataType::Utf8 } }

fn register(ctx: &SessionContext, n: usize, t: &Tab, layout: &[Vec<Vec<usize>>]) {
    let schema = Arc::new(Schema::new(t.types.iter().enumerate().map(|(i, ty)| Field::new(format!("c{i}"), arrow_ty(*ty), true)).collect::<Vec<_>>()));
    let parts: Vec<Vec<RecordBatch>> = layout.iter().map(|batches| batches.iter().map(|idx| {
        let rows: Vec<&Vec<V>> = idx.iter().map(|i| &t.rows[*i]).collect();
        let cols: Vec<ArrayRef> = (0..t.types.len()).map(|c| column(t.types[c], &rows.iter().map(|r| &r[c]).collect::<Vec<_>>())).collect();
        RecordBatch::try_new(schema.clone(), cols).unwrap()
    }).collect()).collect();
    ctx.register_table(format!("t{n}").as_str(), Arc::new(MemTable::try_new(schema, parts).unwrap())).unwrap();
}

fn cell(a: &ArrayRef, r: usize) -> Result<String, String> {
    if a.is_null(r) { return Ok("null".into()); }
    match a.data_type() {
        DataType::Null => Ok("null".into()),
        DataType::Boolean => Ok(a.as_any().downcast_ref::<BooleanArray>().unwrap().value(r).to_string()),
        DataType::Float64 | DataType::Float32 | DataType::Float16 => {
            let c = cast(a, &DataType::Float64).map_err(|e| e.to_string())?;
            let x = c.as_any().downcast_ref::<Float64Array>().unwrap().value(r);
            if x.is_finite() { Ok(format!("{{\"f\":{:?}}}", x)) } else { Ok(format!("{{\"f\":null,\"text\":\"{:?}\"}}", x)) }
        }
        DataType::Int8 | DataType::Int16 | DataType::Int32 | DataType::Int64 | DataType::UInt8 | DataType::UInt16 | DataType::UInt32 | DataType::UInt64 => {
            let c = cast(a, &DataType::Int64).map_err(|e| e.to_string())?;
            Ok(c.as_any().downcast_ref::<Int64Array>().unwrap().value(r).to_string())
        }
        DataType::Utf8 | DataType::LargeUtf8 | DataType::Utf8View => {
            let c = cast(a, &DataType::Utf8).map_err(|e| e.to_string())?;
            Ok(json_str(c.as_any().downcast_ref::<StringArray>().unwrap().value(r)))
        }
        other => Err(format!("unexpected result column type {other:?}")),
    }
}

async fn exec(ctx: &SessionContext, sql: &str, explain: bool) -> Result<Vec<String>, String> {
    let df = ctx.sql(sql).await.map_err(|e| format!("plan: {e}"))?;
    if explain {
        let st = ctx.state();
        let lp = df.logical_plan().clone();
        match st.optimize(&lp) { Ok(p) => eprintln!("--- optimized\n{}", p.display_indent()), Err(e) => eprintln!("optimize error {e}") }
        if let Ok(pp) = st.create_physical_plan(&lp).await { eprintln!("--- physical\n{}", datafusion::physical_plan::displayable(pp.as_ref()).indent(false)); }
    }
    let out = df.collect().await.map_err(|e| format!("exec: {e}"))?;
    let mut rows = vec![];
    for bt in &out {
        for r in 0..bt.num_rows() {
            let mut cs = vec![];
            for c in 0..bt.num_columns() { cs.push(cell(bt.column(c), r)?); }
            rows.push(format!("[{}]", cs.join(",")));
        }
    }
    Ok(rows)
}

fn tables_json(tabs: &[Tab]) -> String {
    format!("[{}]", tabs.iter().map(|t| format!("{{\"types\":[{}],\"rows\":[{}]}}",
        t.types.iter().map(|x| format!("\"{}\"", ty_name(*x))).collect::<Vec<_>>().join(","),
        t.rows.iter().map(|r| format!("[{}]", r.iter().map(v_json).collect::<Vec<_>>().join(","))).collect::<Vec<_>>().join(","))).collect::<Vec<_>>().join(","))
}

fn cfg_json(c: &Cfg) -> String {
    let opts = c.opts.iter().map(|(k, v)| format!("{}:{}", json_str(k), json_str(v))).collect::<Vec<_>>().join(",");
    let lay = c.layout.iter().map(|t| format!("[{}]", t.iter().map(|p| format!("[{}]", p.iter().map(|b| format!("[{}]",
        b.iter().map(|i| i.to_string()).collect::<Vec<_>>().join(","))).collect::<Vec<_>>().join(","))).collect::<Vec<_>>().join(","))).collect::<Vec<_>>().join(",");
    format!("{{\"target_partitions\":{},\"batch_size\":{},\"opts\":{{{opts}}},\"layout\":[{lay}],\"concurrent\":{}}}", c.tp, c.bs, c.concurrent)
}

fn session(c: &Cfg, tabs: &[Tab]) -> Result<SessionContext, String> {
    let mut sc = SessionConfig::new().with_target_partitions(c.tp).with_batch_size(c.bs);
    for (k, v) in &c.opts { sc.options_mut().set(k, v).map_err(|e| format!("config: {k}={v}: {e}"))?; }
    let ctx = SessionContext::new_with_config(sc);
    for (i, t) in tabs.iter().enumerate() { register(&ctx, i, t, &c.layout[i]); }
    Ok(ctx)
}

type Out = Result<Vec<String>, String>;

fn top_kind(q: &Q) -> &'static str {
    match q { Q::Sort(..) => "sort", Q::Limit(_, _, s) if matches!(**s, Q::Sort(..)) => "topk", _ => "bag" }
}

fn same(kind: &str, a: &Out, b: &Out) -> bool {
    match (a, b) {
        (Err(_), Err(_)) => true,
        (Ok(x), Ok(y)) => {
            if kind == "topk" { return x.len() == y.len(); }
            let (mut x, mut y) = (x.clone(), y.clone());
            x.sort(); y.sort();
            x == y
        }
        _ => false,
    }
}

fn main() {
    let args: Vec<String> = std::env::args().collect();
    let seed: u64 = arg(&args, "--seed", "1").parse().unwrap();
    let n: u64 = arg(&args, "--n", "100").parse().unwrap();
    let k: usize = arg(&args, "--k", "6").parse().unwrap();
    let only: i64 = arg(&args, "--case", "-1").parse().unwrap();
    let explain = args.iter().any(|a| a == "--explain");
    // development aids: --probe "<sql>" replaces the SQL text; --cfg J keeps only configurations 0 and J;
    // --tp / --bs / --set "k=v,k=v" / --unset "k,k" / --plain-layout / --noconc modify configuration J
    let probe = arg(&args, "--probe", "");
    let only_cfg: i64 = arg(&args, "--cfg", "-1").parse().unwrap();
    let rt = tokio::runtime::Builder::new_multi_thread().worker_threads(4).enable_all().build().unwrap();
    if args.iter().any(|a| a == "--witness") { witness(&rt); return; }
    let mut rng = Rng::new(seed ^ 0xC02);
    for id in 0..n {
        let stream = STREAMS[(id % STREAMS.len() as u64) as usize];
        let tabs = Gen::gen_tables(&mut rng);
        let (q, widths) = { let mut g = Gen { rng: &mut rng, tabs: tabs.clone() }; let q = g.query(stream); (q, g.tab_widths()) };
        #[allow(unused_mut)]
        let mut cfgs = vec![Cfg { tp: 1, bs: 8192, opts: vec![], layout: plain_layout(&tabs), concurrent: false }];
        for _ in 1..k.max(2) { cfgs.push(gen_cfg(&mut rng, &tabs)); }
        let conc = 1 + rng.below(cfgs.len() as u64 - 1) as usize;
        cfgs[conc].concurrent = true;
        if only >= 0 && id as i64 != only { continue; }
        if only_cfg > 0 {
            let mut c = cfgs[only_cfg as usize].clone();
            let tp = arg(&args, "--tp", ""); if !tp.is_empty() { c.tp = tp.parse().unwrap(); }
            let bs = arg(&args, "--bs", ""); if !bs.is_empty() { c.bs = bs.parse().unwrap(); }
            if args.iter().any(|a| a == "--unset-all") { c.opts.clear(); }
            for kv in arg(&args, "--set", "").split(',').filter(|x| !x.is_empty()) {
                let (k, v) = kv.split_once('=').unwrap();
                c.opts.retain(|(k2, _)| k2 != k);
                c.opts.push((k.to_string(), v.to_string()));
            }
            for k in arg(&args, "--unset", "").split(',').filter(|x| !x.is_empty()) { c.opts.retain(|(k2, _)| k2 != k); }
            if args.iter().any(|a| a == "--plain-layout") { c.layout = plain_layout(&tabs); }
            if args.iter().any(|a| a == "--noconc") { c.concurrent = false; }
            cfgs = vec![cfgs[0].clone(), c];
        }
        let sql = if probe.is_empty() { to_sql(&q, &widths) } else { probe.clone() };
        let qj = q_json(&q, &widths);
        let kind = top_kind(&q);
        run_case(&rt, &id.to_string(), stream, kind, &tabs, &qj, &sql, &cfgs, explain);
    }
}

/// execute one query under all its configurations and print the JSON line
fn run_case(rt: &tokio::runtime::Runtime, id: &str, stream: &str, kind: &str, tabs: &[Tab], qj: &str, sql: &str, cfgs: &[Cfg], explain: bool) {
    {
        let mut runs: Vec<(usize, Out, bool)> = vec![]; // (config index, result, panicked)
        for (ci, c) in cfgs.iter().enumerate() {
            if explain { eprintln!("=== config {ci}: {}", cfg_json(c)); }
            let res = catch_unwind(AssertUnwindSafe(|| -> Vec<Out> {
                let ctx = match session(c, tabs) { Ok(x) => x, Err(e) => return vec![Err(e)] };
                if c.concurrent {
                    let (a, b) = rt.block_on(async { tokio::join!(exec(&ctx, sql, false), exec(&ctx, sql, false)) });
                    vec![a, b]
                } else { vec![rt.block_on(exec(&ctx, sql, explain))] }
            }));
            match res {
                Ok(outs) => for o in outs { runs.push((ci, o, false)); },
                Err(p) => {
                    let msg = p.downcast_ref::<String>().cloned().or_else(|| p.downcast_ref::<&str>().map(|s| s.to_string())).unwrap_or_default();
                    runs.push((ci, Err(format!("panic: {msg}")), true));
                }
            }
        }
        let mut ok = !runs.iter().any(|r| r.2);
        let mut diff = String::from("null");
        'outer: for a in 0..runs.len() {
            for b in a + 1..runs.len() {
                if !same(kind, &runs[a].1, &runs[b].1) { ok = false; diff = format!("[{a},{b}]"); break 'outer; }
            }
        }
        // a query that fails the oracle is re-run with each SUSPECT override applied to every configuration: the driver
        // attributes the failure to a listed known finding only if the override makes all configurations agree
        let mut suspects = vec![];
        if !ok {
            for (k, v) in SUSPECTS {
                let mut outs: Vec<Out> = vec![];
                for c in cfgs {
                    let mut c2 = c.clone();
                    c2.opts.retain(|(k2, _)| k2 != k);
                    c2.opts.push((k.to_string(), v.to_string()));
                    c2.concurrent = false;
                    let res = catch_unwind(AssertUnwindSafe(|| -> Out {
                        let ctx = session(&c2, tabs)?;
                        rt.block_on(exec(&ctx, sql, false))
                    }));
                    outs.push(match res { Ok(o) => o, Err(_) => Err("panic".into()) });
                }
                let all_same = (1..outs.len()).all(|i| same(kind, &outs[0], &outs[i]));
                let first = match &outs[0] { Ok(rows) => format!("{{\"rows\":[{}]}}", rows.join(",")), Err(e) => format!("{{\"err\":{}}}", json_str(e)) };
                suspects.push(format!("{{\"opt\":{},\"ok\":{all_same},\"out\":{first}}}", json_str(&format!("{k}={v}"))));
            }
        }
        let runs_json = runs.iter().map(|(ci, o, p)| {
            let out = match o { Ok(rows) => format!("{{\"rows\":[{}]}}", rows.join(",")), Err(e) => format!("{{\"err\":{}}}", json_str(e)) };
            format!("{{\"cfg\":{ci},\"out\":{out},\"panic\":{p}}}")
        }).collect::<Vec<_>>().join(",");
        println!("{{\"id\":{},\"stream\":\"{stream}\",\"kind\":\"{kind}\",\"tables\":{},\"q\":{qj},\"sql\":{},\"cfgs\":[{}],\"runs\":[{runs_json}],\"suspects\":[{}],\"diff\":{diff},\"ok\":{ok}}}",
            json_str(id), tables_json(tabs), json_str(sql), cfgs.iter().map(cfg_json).collect::<Vec<_>>().join(","), suspects.join(","));
    }
}

// ---------------------------------------------------------------- fixed witness cases of the listed known findings
struct Wit { id: &'static str, kind: &'static str, tabs: Vec<Tab>, sql: &'static str, qjson: &'static str, cfgs: Vec<Cfg> }

fn iv(v: Option<i64>) -> V { match v { Some(z) => V::I(z), None => V::Null } }
fn sv(v: Option<&str>) -> V { match v { Some(z) => V::S(z.to_string()), None => V::Null } }
fn bv(v: Option<bool>) -> V { match v { Some(z) => V::B(z), None => V::Null } }
fn cfg(tabs: &[Tab], tp: usize, opts: &[(&str, &str)]) -> Cfg {
    Cfg { tp, bs: 8192, opts: opts.iter().map(|(k, v)| (k.to_string(), v.to_string())).collect(), layout: plain_layout(tabs), concurrent: false }
}

fn witnesses() -> Vec<Wit> {
    let mut w = vec![];
    // KF-C02-1: SortMergeJoinExec (prefer_hash_join = false) with a join filter over the output of another join panics
    // (sort_merge_join/filter.rs get_filter_columns: index out of bounds) as soon as target_partitions >= 2
    let t = vec![Tab { types: vec![Ty::Int, Ty::Int], parts: 1,
        rows: vec![vec![iv(Some(2)), iv(Some(-1))], vec![iv(Some(0)), iv(Some(1))], vec![iv(Some(1)), iv(None)], vec![iv(Some(2)), iv(Some(2))], vec![iv(None), iv(None)]] }];
    let cfgs = vec![cfg(&t, 1, &[]), cfg(&t, 1, &[("datafusion.optimizer.prefer_hash_join", "false")]), cfg(&t, 2, &[("datafusion.optimizer.prefer_hash_join", "false")])];
    w.push(Wit { id: "witness-KF-C02-1", kind: "bag", tabs: t, cfgs,
        sql: "SELECT a3.c0 AS r0 FROM t0 AS a3 RIGHT JOIN t0 AS a4 ON ((a3.c0 = a4.c0) AND (a4.c1 < 0)) INNER JOIN t0 AS a5 ON ((a3.c1 = a5.c1) AND ((a5.c0 = 2) OR (a4.c0 IS NULL)))",
        qjson: "[\"project\",[[\"col\",0,0]],[\"join\",\"inner\",4,2,[\"and\",[\"cmp\",\"=\",[\"col\",0,1],[\"col\",0,5]],[\"or\",[\"cmp\",\"=\",[\"col\",0,4],[\"lit\",2]],[\"isnull\",false,[\"col\",0,2]]]],[\"join\",\"right\",2,2,[\"and\",[\"cmp\",\"=\",[\"col\",0,0],[\"col\",0,2]],[\"cmp\",\"<\",[\"col\",0,3],[\"lit\",0]]],[\"table\",0],[\"table\",0]],[\"table\",0]]]" });
    // KF-C02-2: join dynamic filter pushdown (on by default) through a HashJoinExec that carries an embedded projection,
    // below a SortExec pushed under the joins: the plan chosen for target_partitions = 1 returns no row at all
    let t = vec![
        Tab { types: vec![Ty::Int, Ty::Str], parts: 1, rows: vec![vec![iv(None), sv(Some(""))], vec![iv(Some(1)), sv(Some("a"))], vec![iv(Some(0)), sv(Some("a"))], vec![iv(None), sv(Some("c"))]] },
        Tab { types: vec![Ty::Int, Ty::Str, Ty::Bool], parts: 1, rows: vec![
            vec![iv(Some(2)), sv(Some("a")), bv(Some(false))], vec![iv(Some(2)), sv(Some("b")), bv(Some(true))], vec![iv(Some(2)), sv(Some("b")), bv(Some(false))],
            vec![iv(Some(-1)), sv(None), bv(Some(true))], vec![iv(Some(3)), sv(Some("a")), bv(Some(false))], vec![iv(Some(-1)), sv(Some("c")), bv(Some(true))],
            vec![iv(None), sv(Some("b")), bv(Some(true))], vec![iv(Some(1)), sv(Some("b")), bv(None)]] }];
    let cfgs = vec![cfg(&t, 1, &[]), cfg(&t, 2, &[]), cfg(&t, 1, &[("datafusion.optimizer.enable_join_dynamic_filter_pushdown", "false")])];
    w.push(Wit { id: "witness-KF-C02-2", kind: "sort", tabs: t, cfgs,
        sql: "SELECT a2.c0 AS r0, a3.c0 AS r1, a3.c1 AS r2, a4.c0 AS r3 FROM t0 AS a2 CROSS JOIN t1 AS a3 INNER JOIN t0 AS a4 ON (a3.c1 = a4.c1) WHERE (a3.c0 IN (SELECT a6.c0 FROM (VALUES (2)) AS a6(c0))) ORDER BY a3.c0 ASC NULLS LAST",
        qjson: "[\"sort\",[[[\"col\",0,1],false,false]],[\"project\",[[\"col\",0,0],[\"col\",0,2],[\"col\",0,3],[\"col\",0,5]],[\"filter\",[\"insub\",false,[\"col\",0,2],[\"project\",[[\"col\",0,0]],[\"values\",[[2]]]]],[\"join\",\"inner\",5,2,[\"cmp\",\"=\",[\"col\",0,3],[\"col\",0,6]],[\"join\",\"cross\",2,3,[\"lit\",true],[\"table\",0],[\"table\",1]],[\"table\",0]]]]]" });
    // KF-C02-3: SortMergeJoinExec outer join with a join filter returns other rows than the hash join
    let t = vec![Tab { types: vec![Ty::Int, Ty::Str, Ty::Bool], parts: 1, rows: vec![
        vec![iv(Some(-1)), sv(None), bv(Some(true))], vec![iv(Some(2)), sv(Some("b")), bv(Some(true))], vec![iv(Some(1)), sv(Some("a")), bv(Some(false))]] }];
    let cfgs = vec![cfg(&t, 1, &[]), cfg(&t, 3, &[]), cfg(&t, 3, &[("datafusion.optimizer.prefer_hash_join", "false")])];
    w.push(Wit { id: "witness-KF-C02-3", kind: "bag", tabs: t, cfgs,
        sql: "SELECT COALESCE(a2.c1, a2.c1) AS r0 FROM t0 AS a1 FULL JOIN t0 AS a2 ON ((a1.c0 = a2.c0) AND ((-1) >= CAST(NULL AS BIGINT)))",
        qjson: "[\"project\",[[\"coalesce\",[[\"col\",0,4],[\"col\",0,4]]]],[\"join\",\"full\",3,3,[\"and\",[\"cmp\",\"=\",[\"col\",0,0],[\"col\",0,3]],[\"cmp\",\">=\",[\"lit\",-1],[\"lit\",null]]],[\"table\",0],[\"table\",0]]]" });
    // KF-C02-4: SortMergeJoinExec LEFT JOIN against a VALUES relation: the NULL padding violates the declared schema
    let t = vec![Tab { types: vec![Ty::Int, Ty::Int], parts: 1, rows: vec![
        vec![iv(Some(-1)), iv(None)], vec![iv(Some(3)), iv(None)], vec![iv(Some(2)), iv(Some(3))], vec![iv(Some(1)), iv(Some(3))]] }];
    let cfgs = vec![cfg(&t, 1, &[]), cfg(&t, 2, &[]), cfg(&t, 2, &[("datafusion.optimizer.prefer_hash_join", "false")])];
    w.push(Wit { id: "witness-KF-C02-4", kind: "bag", tabs: t, cfgs,
        sql: "SELECT a1.c1 AS r0, (-1) AS r1 FROM t0 AS a1 LEFT JOIN (VALUES (2)) AS a2(c0) ON ((a1.c1 = a2.c0) AND ((a2.c0 IS NOT DISTINCT FROM a1.c1) OR (a1.c1 >= a1.c1)))",
        qjson: "[\"project\",[[\"col\",0,1],[\"lit\",-1]],[\"join\",\"left\",2,1,[\"and\",[\"cmp\",\"=\",[\"col\",0,1],[\"col\",0,2]],[\"or\",[\"distinct\",true,[\"col\",0,2],[\"col\",0,1]],[\"cmp\",\">=\",[\"col\",0,1],[\"col\",0,1]]]],[\"table\",0],[\"values\",[[2]]]]]" });
    // KF-C02-5: ORDER BY x NULLS FIRST, x NULLS LAST (the same column twice) over UNION ALL: with repartition_sorts (default)
    // the sort is pushed into the union inputs and SanityCheckPlan rejects the plan
    let t = vec![Tab { types: vec![Ty::Int, Ty::Str, Ty::Bool], parts: 1, rows: vec![
        vec![iv(Some(1)), sv(Some("a")), bv(None)], vec![iv(Some(-1)), sv(Some("c")), bv(Some(true))], vec![iv(Some(-1)), sv(Some("a")), bv(None)],
        vec![iv(Some(2)), sv(Some("")), bv(Some(false))], vec![iv(Some(3)), sv(None), bv(Some(false))], vec![iv(Some(1)), sv(Some("a")), bv(Some(false))],
        vec![iv(Some(2)), sv(None), bv(Some(true))], vec![iv(Some(1)), sv(Some("b")), bv(Some(true))]] }];
    let cfgs = vec![cfg(&t, 1, &[]), cfg(&t, 1, &[("datafusion.optimizer.repartition_sorts", "false")])];
    w.push(Wit { id: "witness-KF-C02-5", kind: "topk", tabs: t, cfgs,
        sql: "SELECT a1.xa1_0 AS r0, a1.xa1_1 AS r1 FROM ((SELECT a2.c1 AS xa1_0, a2.c1 AS xa1_1 FROM t0 AS a2) UNION ALL (SELECT a3.c1 AS xa1_0, a3.c1 AS xa1_1 FROM t0 AS a3 LEFT SEMI JOIN (SELECT a5.c0 AS xa4_0, a5.c1 AS xa4_1, a5.c2 AS xa4_2 FROM t0 AS a5 WHERE ((a5.c0 <= a5.c0) AND ('a' IN (CAST(NULL AS VARCHAR))))) AS a4 ON ((a3.c1 = a4.xa4_1) OR FALSE))) AS a1 ORDER BY a1.xa1_0 ASC NULLS FIRST, a1.xa1_1 ASC NULLS LAST OFFSET 0",
        qjson: "[\"limit\",0,null,[\"sort\",[[[\"col\",0,0],false,true],[[\"col\",0,1],false,false]],[\"setop\",\"union\",true,[\"project\",[[\"col\",0,1],[\"col\",0,1]],[\"table\",0]],[\"project\",[[\"col\",0,1],[\"col\",0,1]],[\"semi\",false,[\"or\",[\"cmp\",\"=\",[\"col\",0,1],[\"col\",0,4]],[\"lit\",false]],[\"table\",0],[\"filter\",[\"and\",[\"cmp\",\"<=\",[\"col\",0,0],[\"col\",0,0]],[\"inlist\",false,[\"lit\",\"a\"],[[\"lit\",null]]]],[\"table\",0]]]]]]]" });
    w
}

fn witness(rt: &tokio::runtime::Runtime) {
    for w in witnesses() {
        run_case(rt, w.id, "witness", w.kind, &w.tabs, w.qjson, w.sql, &w.cfgs, false);
    }
}
