//! C43: configuration options round-trip through their text form.
//!
//! Configurations exercised: the session `ConfigOptions` ("session") and `TableOptions` with the current format
//! CSV / JSON / PARQUET ("csv" / "json" / "parquet").  EVERY key of `entries()` is enumerated at run time
//! (no key table in the harness); to each key a type-independent pool of texts is applied (bool / integer /
//! float / enum spellings of every enum / junk / non-ASCII / random), so validity is decided by the
//! implementation and the oracle below is type-independent.
//!
//! One JSON line per case:
//!   {"k":"set", "cfg", "key", "listed", "text", "pre": printed value of key before (null = None / unlisted),
//!    "res":"ok"|"err", "err", "post": printed value after, "changed":[other keys whose entry changed],
//!    "fix": "ok"|"err"|"moved"|null   (setting the printed value again: accepted and entries() unchanged),
//!    "hist": n (position in a history, 0 = from the default state), "why", "ok"}
//!   {"k":"sql", ...}  SET key = 'text' through SessionContext + SHOW key  vs  the API path
//!   {"k":"keys", ...} the enumerated keys per configuration (for the evidence)
//! Not exercised (by design of TableOptions, not options): `execution.*` keys are accepted and ignored,
//! `format.metadata::k` is stored in key_value_metadata which entries() does not list.
//! "ok" = the direct property oracle:
//!   * err  -> entries() identical to before (nothing changed, no entry appeared / disappeared)
//!   * ok   -> the key is a listed key; no OTHER entry changed (documented exception: the umbrella key
//!             datafusion.optimizer.enable_dynamic_filter_pushdown also assigns its four dependants);
//!             the printed value after is Some(p), and set(key, p) is accepted and leaves entries() unchanged
//!             (printing canonicalises: fixed point); when text == pre the entries are unchanged (round trip)
//!   * sql  -> SET is accepted iff the API accepts, the session's entries afterwards equal the API's,
//!             SHOW key reports exactly entries()[key]
use std::collections::BTreeMap;
use std::panic::{catch_unwind, AssertUnwindSafe};

use arrow::array::{Array, StringArray};
use arrow::datatypes::DataType;
use datafusion::common::config::{ConfigEntry, ConfigFileType, ConfigOptions, TableOptions};
use datafusion::execution::session_state::{SessionState, SessionStateBuilder};
use datafusion::prelude::*;
use h_util::{arg, json_str, Rng};

const UMBRELLA: &str = "datafusion.optimizer.enable_dynamic_filter_pushdown";
const UMBRELLA_DEPS: [&str; 3] = [
    "datafusion.optimizer.enable_topk_dynamic_filter_pushdown",
    "datafusion.optimizer.enable_join_dynamic_filter_pushdown",
    "datafusion.optimizer.enable_aggregate_dynamic_filter_pushdown",
];

#[derive(Clone)]
enum Cfg {
    Session(ConfigOptions),
    Table(TableOptions),
}
impl Cfg {
    fn set(&mut self, k: &str, v: &str) -> Result<(), String> {
        match self {
            Cfg::Session(c) => c.set(k, v).map_err(|e| e.to_string()),
            Cfg::Table(c) => c.set(k, v).map_err(|e| e.to_string()),
        }
    }
    fn entries(&self) -> Vec<ConfigEntry> {
        match self {
            Cfg::Session(c) => c.entries(),
            Cfg::Table(c) => c.entries(),
        }
    }
}

fn new_cfg(name: &str) -> Cfg {
    match name {
        "session" => Cfg::Session(ConfigOptions::new()),
        _ => {
            let mut t = TableOptions::default_from_session_config(&ConfigOptions::new());
            t.set_config_format(match name {
                "csv" => ConfigFileType::CSV,
                "json" => ConfigFileType::JSON,
                _ => ConfigFileType::PARQUET,
            });
            Cfg::Table(t)
        }
    }
}

type Ent = Vec<(String, Option<String>)>;
fn ents(c: &Cfg) -> Ent {
    c.entries().into_iter().map(|e| (e.key, e.value)).collect()
}
fn get(e: &Ent, k: &str) -> Option<Option<String>> {
    e.iter().find(|(key, _)| key == k).map(|(_, v)| v.clone())
}
fn jopt(v: &Option<String>) -> String {
    match v {
        Some(s) => json_str(s),
        None => "null".into(),
    }
}
fn jlist(xs: &[String]) -> String {
    let v: Vec<String> = xs.iter().map(|s| json_str(s)).collect();
    format!("[{}]", v.join(","))
}
/// keys whose entry differs between a and b (including keys present in only one of them, and order changes)
fn diff(a: &Ent, b: &Ent) -> Vec<String> {
    let ma: BTreeMap<&String, &Option<String>> = a.iter().map(|(k, v)| (k, v)).collect();
    let mb: BTreeMap<&String, &Option<String>> = b.iter().map(|(k, v)| (k, v)).collect();
    let mut out = vec![];
    for (k, v) in &ma {
        if mb.get(*k) != Some(v) {
            out.push((*k).clone());
        }
    }
    for k in mb.keys() {
        if !ma.contains_key(*k) {
            out.push((*k).clone());
        }
    }
    if out.is_empty() && a != b {
        out.push("<order-or-duplicates>".into());
    }
    out
}

// ------------------------------------------------------------------ text pool
const POOL: &[&str] = &[
    // bool spellings
    "true", "false", "TRUE", "False", "tRuE", "fALSE", "t", "f", "yes", "no", "on", " true", "true ", "tru", "truee",
    // integers: boundaries of u8 / u32 / i32 / i64 / u64, signs, leading zeros, separators, radix, whitespace
    "0", "1", "2", "3", "+5", "+0", "-0", "007", "00", "100", "101", "+100", "0100", "255", "256", "65536",
    "2147483647", "2147483648", "-2147483648", "-2147483649", "4294967295", "4294967296",
    "9223372036854775807", "9223372036854775808", "-9223372036854775808", "-9223372036854775809",
    "18446744073709551615", "18446744073709551616", "+18446744073709551615", "018446744073709551615",
    "000000000000000000000000000000000000017", "99999999999999999999999999", "-1", "-5", "+", "-", "++1", "+-1",
    "", " ", "  ", "\t", " 1", "1 ", "1 2", "1_000", "1,000", "0x10", "1e3", "1.", "\u{0663}", "\u{ff11}",
    // floats
    "0.5", "0.15", "1.0", ".5", "5.", "1e-3", "1E5", "NaN", "nan", "inf", "-inf", "infinity", "-0.0", "1e400", "0.1e", "1.5.2",
    // enum spellings (all enum-valued options), canonical, mixed case, aliases, near misses
    "zstd", "ZSTD", "Zstd", "lz4_frame", "Lz4_Frame", "lz4", "uncompressed", "UNCOMPRESSED", "gzip", "GZ", "bzip2", "bz2", "xz", "zst",
    "indent", "Indent", "tree", "TREE", "pgjson", "PGJSON", "graphviz", "json", "dev", "DEV", " dev", "summary", " Summary ", "summary\n",
    "all", "ALL", "none", " None ", "rows", "bytes", "timing", "uncategorized", "rows,bytes", "rows, bytes", "Rows , TIMING",
    "rows,rows", "rows,bytes,rows", "rows,,bytes", ",", "rows,", "all,rows", "none,rows",
    "pretty", "Pretty", "iso8601", "ISO8601", "iso-8601", "exception", "EXCEPTION", "last_win", "LAST_WIN", "Last_Win", "lastwin",
    "generic", "Generic", "mysql", "MySQL", "postgresql", "PostgreSQL", "postgres", "POSTGRES", "hive", "sqlite", "snowflake",
    "redshift", "mssql", "clickhouse", "ClickHouse", "bigquery", "ansi", "duckdb", "databricks", "spark", "sparksql", "SparkSQL", "oracle",
    "1.0", "2.0", "2.00", "1", "always", "Always", "necessary", "non_numeric", "nonnumeric", "NonNumeric", "never", "Never",
    "nulls_max", "NULLS_MIN", "page", "PAGE", "chunk", "zstd(3)", "ZSTD(3)", "snappy", "plain", "us", "NS",
    // strings / junk / non-ASCII whose case mapping lands in ASCII / quoting
    "junk", "a'b", "a\"b", "a.b", "x=y", ";", ",", "\n", "\u{212a}", "uncompre\u{df}ed", "z\u{17f}td", "z\u{fb06}d", "\u{130}ndent", "pg\u{212a}son",
    "\u{e9}", "%Y-%m-%d", "%H:%M", "UTC", "+08:00", "America/New_York", "datafusion", "public", "NULL", "null", "None", "Some(1)",
];

fn rand_text(rng: &mut Rng, cur: &Option<String>) -> String {
    match rng.below(8) {
        0 => rng.next().to_string(),
        1 => {
            // digit string, optional sign, leading zeros, up to 24 digits
            let mut s = String::new();
            match rng.below(5) {
                0 => s.push('+'),
                1 => s.push('-'),
                _ => {}
            }
            for _ in 0..rng.below(4) {
                s.push('0');
            }
            for _ in 0..rng.range(1, 24) {
                s.push((b'0' + rng.below(10) as u8) as char);
            }
            s
        }
        2 => {
            // near a power-of-two boundary
            let b = *rng.pick(&[8u32, 16, 31, 32, 63, 64]);
            let base: i128 = 1i128 << b;
            (base + rng.range(-2, 2) as i128).to_string()
        }
        3 | 4 => {
            // case / whitespace mutation of the current printed value or of a pool text
            let src = match (cur, rng.below(2)) {
                (Some(c), 0) => c.clone(),
                _ => rng.pick(POOL).to_string(),
            };
            let mut s: String = src
                .chars()
                .map(|c| if rng.chance(1, 2) { c.to_ascii_uppercase() } else { c.to_ascii_lowercase() })
                .collect();
            match rng.below(6) {
                0 => s.insert(0, ' '),
                1 => s.push(' '),
                2 => s.push('\t'),
                _ => {}
            }
            s
        }
        5 => format!("{}", (rng.range(-1000, 1000) as f64) / 8.0),
        6 => {
            let n = rng.range(0, 6);
            (0..n).map(|_| (rng.range(0x20, 0x7e) as u8) as char).collect()
        }
        _ => {
            // comma lists of metric categories
            let cats = ["rows", "bytes", "timing", "uncategorized", "Rows", " bytes", "timing ", "x", ""];
            let n = rng.range(1, 4);
            (0..n).map(|_| rng.pick(&cats).to_string()).collect::<Vec<_>>().join(",")
        }
    }
}

// ------------------------------------------------------------------ one API case
struct Outcome {
    line: String,
    accepted: bool,
}

fn set_case(cfg_name: &str, cfg: &mut Cfg, key: &str, text: &str, hist: u64) -> Outcome {
    let e0 = ents(cfg);
    let listed = get(&e0, key);
    let pre = listed.clone().unwrap_or(None);
    let r = cfg.set(key, text);
    let e1 = ents(cfg);
    let post = get(&e1, key).unwrap_or(None);
    let d = diff(&e0, &e1);
    let others: Vec<String> = d.iter().filter(|k| k.as_str() != key).cloned().collect();
    let mut why = String::new();
    let mut fix = "null".to_string();
    match &r {
        Err(_) => {
            if !d.is_empty() {
                why = "rejected value changed the configuration".into();
            }
        }
        Ok(()) => {
            if listed.is_none() && get(&e1, key).is_none() {
                why = "set succeeded on a key that entries() does not list".into();
            }
            // documented: the umbrella key assigns its dependants; a column-specific key `field::col` of a column
            // not seen before makes the column's other (unset) entries appear
            let col = key.find("::").map(|i| &key[i..]);
            let allowed = |k: &String| {
                (key == UMBRELLA && UMBRELLA_DEPS.contains(&k.as_str()))
                    || (col.map(|c| k.ends_with(c)).unwrap_or(false) && get(&e0, k).is_none() && get(&e1, k) == Some(None))
            };
            if why.is_empty() && others.iter().any(|k| !allowed(k)) {
                why = "set changed another entry".into();
            }
            if why.is_empty() && pre.as_deref() == Some(text) && !d.is_empty() && !(key == UMBRELLA) {
                why = "setting the printed value changed the configuration".into();
            }
            match &post {
                None => {
                    if why.is_empty() {
                        why = "entry has no text after a successful set".into();
                    }
                }
                Some(p) => {
                    let mut c2 = cfg.clone();
                    match c2.set(key, p) {
                        Err(_) => {
                            fix = "\"err\"".into();
                            if why.is_empty() {
                                why = "printed value is rejected when set back".into();
                            }
                        }
                        Ok(()) => {
                            if ents(&c2) == e1 {
                                fix = "\"ok\"".into();
                            } else {
                                fix = "\"moved\"".into();
                                if why.is_empty() {
                                    why = "printed value set back changes the configuration".into();
                                }
                            }
                        }
                    }
                }
            }
        }
    }
    let err = match &r {
        Err(e) => json_str(&e.chars().take(160).collect::<String>()),
        Ok(()) => "null".into(),
    };
    let line = format!(
        "{{\"k\":\"set\",\"cfg\":{},\"key\":{},\"listed\":{},\"text\":{},\"pre\":{},\"res\":\"{}\",\"err\":{},\"post\":{},\"changed\":{},\"fix\":{},\"hist\":{},\"why\":{},\"ok\":{}}}",
        json_str(cfg_name),
        json_str(key),
        listed.is_some(),
        json_str(text),
        jopt(&pre),
        if r.is_ok() { "ok" } else { "err" },
        err,
        jopt(&post),
        jlist(&others),
        fix,
        hist,
        json_str(&why),
        why.is_empty()
    );
    Outcome { line, accepted: r.is_ok() }
}

// ------------------------------------------------------------------ SQL path
fn sql_quote(s: &str) -> String {
    s.replace('\'', "''")
}
/// texts sent through SQL: no backslash / NUL (literal syntax), and no large number -- SHOW is an ordinary query that
/// runs under the modified session (a batch size or partition count of 2^64-1 makes it allocate without bound);
/// the numeric boundaries are covered on the API path, SET only forwards the text to ConfigOptions::set
fn sql_ok_text(s: &str) -> bool {
    let digits = s.trim().trim_start_matches('+').trim_start_matches('0');
    let big = !digits.is_empty()
        && digits.chars().all(|c| c.is_ascii_digit())
        && (digits.len() > 4 || digits.parse::<u32>().unwrap_or(u32::MAX) > 300);
    !s.contains('\\') && !s.contains('\0') && !big
}

async fn show(ctx: &SessionContext, key: &str) -> Result<Vec<Option<String>>, String> {
    let df = ctx.sql(&format!("SHOW {key}")).await.map_err(|e| e.to_string())?;
    let bs = df.collect().await.map_err(|e| e.to_string())?;
    let mut out = vec![];
    for b in bs {
        let col = b.column_by_name("value").ok_or("no value column")?.clone();
        let col = arrow::compute::cast(&col, &DataType::Utf8).map_err(|e| e.to_string())?;
        let a = col.as_any().downcast_ref::<StringArray>().ok_or("not utf8")?;
        for i in 0..a.len() {
            out.push(if a.is_null(i) { None } else { Some(a.value(i).to_string()) });
        }
    }
    Ok(out)
}

fn sql_case(rt: &tokio::runtime::Runtime, template: &SessionState, base: &ConfigOptions, key: &str, text: &str) -> String {
    let mut api = base.clone();
    let api_r = api.set(key, text).map_err(|e| e.to_string());
    let api_e = ents(&Cfg::Session(api.clone()));
    let ctx = SessionContext::new_with_state(template.clone());
    let pre_e = ents(&Cfg::Session(ctx.copied_config().options().as_ref().clone()));
    let base_e = ents(&Cfg::Session(base.clone()));
    let stmt = format!("SET {} = '{}'", key, sql_quote(text));
    let sql_r: Result<(), String> = rt.block_on(async {
        let df = ctx.sql(&stmt).await.map_err(|e| e.to_string())?;
        df.collect().await.map_err(|e| e.to_string())?;
        Ok(())
    });
    let sql_e = ents(&Cfg::Session(ctx.copied_config().options().as_ref().clone()));
    let shown = rt.block_on(show(&ctx, key));
    let mut why = String::new();
    if pre_e != base_e {
        why = "fresh session does not start from the base options".into();
    } else if api_r.is_ok() != sql_r.is_ok() {
        why = "SET and ConfigOptions::set disagree on acceptance".into();
    } else if sql_e != api_e {
        why = format!("entries after SET differ from the API path at {:?}", diff(&api_e, &sql_e));
    }
    let want = get(&api_e, key);
    // SHOW must work for every listed key; it may legitimately stop working only after an ACCEPTED change of the
    // options SHOW itself depends on (information_schema switched off, default catalog / schema renamed)
    let fragile = ["datafusion.catalog.information_schema", "datafusion.catalog.default_catalog", "datafusion.catalog.default_schema"];
    if why.is_empty() && shown.is_err() && want.is_some() && !(fragile.contains(&key) && api_r.is_ok()) {
        why = "SHOW failed on a listed key".into();
    }
    let (shown_j, show_err) = match &shown {
        Ok(v) => {
            if why.is_empty() {
                match &want {
                    Some(w) => {
                        if v.len() != 1 || &v[0] != w {
                            why = "SHOW reports a different value than entries()".into();
                        }
                    }
                    None => why = "SHOW succeeded on an unlisted key".into(),
                }
            }
            (format!("[{}]", v.iter().map(jopt).collect::<Vec<_>>().join(",")), "null".to_string())
        }
        Err(e) => ("null".to_string(), json_str(&e.chars().take(160).collect::<String>())),
    };
    format!(
        "{{\"k\":\"sql\",\"key\":{},\"text\":{},\"stmt\":{},\"api\":\"{}\",\"sql\":\"{}\",\"sql_err\":{},\"post\":{},\"shown\":{},\"show_err\":{},\"why\":{},\"ok\":{}}}",
        json_str(key),
        json_str(text),
        json_str(&stmt),
        if api_r.is_ok() { "ok" } else { "err" },
        if sql_r.is_ok() { "ok" } else { "err" },
        match &sql_r {
            Err(e) => json_str(&e.chars().take(160).collect::<String>()),
            Ok(()) => "null".into(),
        },
        jopt(&want.unwrap_or(None)),
        shown_j,
        show_err,
        json_str(&why),
        why.is_empty()
    )
}

fn guarded<F: FnOnce() -> String>(desc: String, f: F) -> String {
    match catch_unwind(AssertUnwindSafe(f)) {
        Ok(l) => l,
        Err(p) => {
            let msg = p.downcast_ref::<String>().cloned().or_else(|| p.downcast_ref::<&str>().map(|s| s.to_string())).unwrap_or_default();
            format!("{{\"k\":\"panic\",\"desc\":{},\"why\":{},\"ok\":false}}", json_str(&desc), json_str(&msg))
        }
    }
}

fn main() {
    let args: Vec<String> = std::env::args().collect();
    let seed: u64 = arg(&args, "--seed", "1").parse().unwrap();
    let n: u64 = arg(&args, "--n", "4").parse().unwrap(); // random texts per key; SQL cases per key = n as well
    let hist_n: u64 = arg(&args, "--hist", "20").parse().unwrap();
    let probe_key = arg(&args, "--key", "");
    let sql_only = arg(&args, "--sqlkey", "");
    let probe_text = arg(&args, "--text", "\u{1}");
    std::panic::set_hook(Box::new(|_| {}));
    let mut rng = Rng::new(seed);
    let rt = tokio::runtime::Builder::new_current_thread().enable_all().build().unwrap();

    if !probe_key.is_empty() {
        let cfgn = arg(&args, "--cfg", "session");
        let mut c = new_cfg(&cfgn);
        println!("{}", set_case(&cfgn, &mut c, &probe_key, &probe_text, 0).line);
        return;
    }

    // ---------------- fixed witnesses of the findings (run first on every run)
    {
        let mut c = new_cfg("session");
        println!("{}", guarded("witness1".into(), || set_case("session", &mut c, "datafusion.execution.parquet.max_predicate_cache_size", "abc", 0).line));
        let mut c = new_cfg("session");
        println!("{}", guarded("witness2".into(), || set_case("session", &mut c, "datafusion.execution.coalesce_batches.zzz", "false", 0).line));
        let mut c = new_cfg("parquet");
        println!("{}", guarded("witness3".into(), || set_case("parquet", &mut c, "format.bloom_filter_enabled::col1", "junk", 0).line));
    }

    let extra_keys: BTreeMap<&str, Vec<&str>> = [
        ("session", vec![
            "", "datafusion", "datafusion.", "datafusion.execution", "datafusion.execution.", "datafusion.execution.batch_siz",
            "datafusion.execution.batch_size.x", "datafusion.execution.batch_size.", "Datafusion.execution.batch_size",
            "datafusion.execution.BATCH_SIZE", "datafusion.execution.parquet", "datafusion.execution.parquet.", "datafusion.execution.parquet.pruning.x",
            "datafusion..execution.batch_size", "execution.batch_size", "nope.key", "datafusion.execution.coalesce_batches.zzz",
            "datafusion.execution.target_partitions.zzz", "datafusion.optimizer.default_filter_selectivity.zzz",
            "datafusion.execution.max_buffered_batches_per_output_file.zzz", "datafusion.explain.format.zzz", "datafusion.execution.time_zone.zzz",
            "datafusion.execution.parquet.max_row_group_bytes.zzz", "datafusion.runtime.memory_limit", "datafusion.extension.x", " datafusion.execution.batch_size",
        ]),
        ("csv", vec!["format", "format.", "format.nope", "format.delimiter.x", "csv.delimiter", "nope.x", "format.delimiter::c"]),
        ("json", vec!["format.nope", "format.compression.x", "json.compression"]),
        ("parquet", vec![
            "format.nope", "format.compression::col1", "format.bloom_filter_enabled::col1", "format.bloom_filter_fpp::col1", "format.encoding::a.b",
            "format.nope::col1", "format.compression::", "format.metadata::", "format.metadata::a::b",
            "format.pruning.x",
        ]),
    ]
    .into_iter()
    .collect();

    // ---------------- per configuration, per key
    for cfgn in ["session", "csv", "json", "parquet"] {
        if !sql_only.is_empty() {
            break;
        }
        let c0 = new_cfg(cfgn);
        let e0 = ents(&c0);
        let keys: Vec<String> = e0.iter().map(|(k, _)| k.clone()).collect();
        println!("{{\"k\":\"keys\",\"cfg\":{},\"n\":{},\"keys\":{},\"none\":{}}}", json_str(cfgn), keys.len(), jlist(&keys),
            jlist(&e0.iter().filter(|(_, v)| v.is_none()).map(|(k, _)| k.clone()).collect::<Vec<_>>()));
        // (1) round trip of every default
        for (k, v) in &e0 {
            if let Some(p) = v {
                let mut c = c0.clone();
                println!("{}", guarded(format!("{cfgn} {k} default"), || set_case(cfgn, &mut c, k, p, 0).line));
            }
        }
        // (2) pool + random texts on every listed key, from the default state
        for (k, v) in &e0 {
            let mut texts: Vec<String> = POOL.iter().map(|s| s.to_string()).collect();
            for _ in 0..n {
                texts.push(rand_text(&mut rng, v));
            }
            for t in &texts {
                let mut c = c0.clone();
                println!("{}", guarded(format!("{cfgn} {k} {t:?}"), || set_case(cfgn, &mut c, k, t, 0).line));
            }
        }
        // (3) unknown / malformed / unlisted keys
        for k in extra_keys.get(cfgn).cloned().unwrap_or_default() {
            for t in ["true", "false", "1", "8", "zstd", "junk", ""] {
                let mut c = c0.clone();
                println!("{}", guarded(format!("{cfgn} {k} {t:?}"), || set_case(cfgn, &mut c, k, t, 0).line));
            }
        }
        // (4) histories: sequences of sets (valid and invalid) on one configuration, every step checked from
        //     the non-default state it starts in; then the round trip of every printed entry
        for h in 0..hist_n {
            let mut c = c0.clone();
            let steps = rng.range(3, 12) as u64;
            for s in 0..steps {
                let k = rng.pick(&keys).clone();
                let cur = get(&ents(&c), &k).unwrap_or(None);
                let t = if rng.chance(2, 3) { rng.pick(POOL).to_string() } else { rand_text(&mut rng, &cur) };
                println!("{}", guarded(format!("{cfgn} hist {h} {k} {t:?}"), || set_case(cfgn, &mut c, &k, &t, 1 + s).line));
            }
            let e = ents(&c);
            for (k, v) in &e {
                if let Some(p) = v {
                    let mut c2 = c.clone();
                    let o = catch_unwind(AssertUnwindSafe(|| set_case(cfgn, &mut c2, k, p, 100 + steps)));
                    match o {
                        Ok(o) => {
                            // only print the interesting ones (non-default value, or a failure) to bound the output
                            if !o.line.ends_with("\"ok\":true}") || !o.accepted || get(&e0, k) != Some(v.clone()) {
                                println!("{}", o.line);
                            }
                        }
                        Err(_) => println!("{{\"k\":\"panic\",\"desc\":{},\"why\":\"panic\",\"ok\":false}}", json_str(&format!("{cfgn} hist {h} rt {k}"))),
                    }
                }
            }
        }
    }

    // ---------------- SQL path: SET / SHOW against the API
    let base = SessionConfig::new().with_information_schema(true).options().as_ref().clone();
    let template = SessionStateBuilder::new()
        .with_config(SessionConfig::from(base.clone()))
        .with_default_features()
        .build();
    let e0 = ents(&Cfg::Session(base.clone()));
    for (k, v) in &e0 {
        if !sql_only.is_empty() && &sql_only != k {
            continue;
        }
        let mut texts: Vec<String> = vec![];
        if let Some(p) = v {
            texts.push(p.clone());
        }
        for _ in 0..n {
            texts.push(if rng.chance(3, 4) { rng.pick(POOL).to_string() } else { rand_text(&mut rng, v) });
        }
        for t in texts {
            if !sql_ok_text(&t) {
                continue;
            }
            println!("{}", guarded(format!("sql {k} {t:?}"), || sql_case(&rt, &template, &base, k, &t)));
        }
    }
    for k in ["datafusion.execution.batch_siz", "datafusion.execution.coalesce_batches.zzz", "nope.key", "datafusion.execution"] {
        println!("{}", guarded(format!("sql {k}"), || sql_case(&rt, &template, &base, k, "1")));
    }
}
