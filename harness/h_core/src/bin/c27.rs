fn main() {}
