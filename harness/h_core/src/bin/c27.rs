//! C27: partition-value pruning of listing tables never drops matching files.
//! Kinds of lines:
//!  "prefix": evaluate_partition_prefix(cols, filters)            (model-compared)
//!  "pruned": pruned_partition_list over an in-memory layout       (model-compared + oracle)
//!  "parse":  parse_partitions_for_path                            (model-compared)
//!  "sql":    ListingTable scan through SQL with arbitrary filters (oracle only)
use std::sync::Arc;

use arrow::datatypes::{DataType, Field, Schema};
use bytes::Bytes;
use datafusion::datasource::file_format::csv::CsvFormat;
use datafusion::datasource::listing::helpers::{evaluate_partition_prefix, parse_partitions_for_path, pruned_partition_list};
use datafusion::datasource::listing::{ListingOptions, ListingTable, ListingTableConfig, ListingTableUrl};
use datafusion::prelude::*;
use datafusion_common::ScalarValue;
use futures::TryStreamExt;
use h_util::{arg, json_str, Rng};
use object_store::memory::InMemory;
use object_store::path::Path;
use object_store::{ObjectStore, ObjectStoreExt, PutPayload};

#[derive(Clone, Debug)]
enum Lit { I(i32), S(String) }

fn lit_expr(l: &Lit) -> Expr {
    match l { Lit::I(i) => lit(ScalarValue::Int32(Some(*i))), Lit::S(s) => lit(ScalarValue::Utf8(Some(s.clone()))) }
}
fn lit_json(l: &Lit) -> String {
    match l { Lit::I(i) => format!("{{\"i\":{i}}}"), Lit::S(s) => format!("{{\"s\":{}}}", json_str(s)) }
}
fn lit_sql(l: &Lit) -> String {
    match l { Lit::I(i) => format!("{i}"), Lit::S(s) => format!("'{}'", s.replace('\'', "''")) }
}

const INT_DIRS: &[&str] = &["1", "01", "+1", "2", "10", "-3", "0", "00", "007"];
const STR_DIRS: &[&str] = &["foo", "bar", "a%20b", "a%2Fb", "x.y", "Foo", "1", "01", "a%3Fb", "100%25"];
// directory names that percent-encode a character that needs no encoding (non-canonical spelling)
const STR_DIRS_OVER: &[&str] = &["%66oo", "b%61r", "x%2Ey"];
const INT_LITS: &[i32] = &[1, 2, 10, 0, -3, 7, 5];
const STR_LITS: &[&str] = &["foo", "bar", "a b", "a/b", "x.y", "Foo", "1", "01", "a?b", "100%", "zzz"];

fn pct_decode(s: &str) -> String {
    let b = s.as_bytes();
    let mut out = vec![];
    let mut i = 0;
    while i < b.len() {
        if b[i] == b'%' && i + 2 < b.len() {
            let h = (b[i + 1] as char).to_digit(16);
            let l = (b[i + 2] as char).to_digit(16);
            if let (Some(h), Some(l)) = (h, l) { out.push((h * 16 + l) as u8); i += 3; continue; }
        }
        out.push(b[i]);
        i += 1;
    }
    String::from_utf8(out).unwrap_or_else(|_| s.to_string())
}

/// does the directory text denote the literal's value at the column type? (independent oracle)
fn dir_equals(ty: &DataType, dir: &str, l: &Lit) -> bool {
    let v = pct_decode(dir);
    match (ty, l) {
        (DataType::Int32, Lit::I(i)) => v.parse::<i32>().map(|x| x == *i).unwrap_or(false),
        (DataType::Utf8, Lit::S(s)) => v == *s,
        _ => false,
    }
}

struct Layout {
    cols: Vec<(String, DataType)>,
    files: Vec<(Vec<String>, String)>, // (directory value texts per column, file name)
}

fn gen_layout(rng: &mut Rng, over: bool) -> Layout {
    let ncols = 1 + rng.below(3) as usize;
    let names = ["a", "month", "c"];
    let cols: Vec<(String, DataType)> = (0..ncols).map(|i| (names[i].to_string(), if rng.chance(1, 2) { DataType::Int32 } else { DataType::Utf8 })).collect();
    let nfiles = 1 + rng.below(7) as usize;
    let mut files = vec![];
    for i in 0..nfiles {
        let dirs: Vec<String> = cols.iter().map(|(_, t)| match t {
            DataType::Int32 => rng.pick(INT_DIRS).to_string(),
            _ => if over && rng.chance(1, 3) { rng.pick(STR_DIRS_OVER).to_string() } else { rng.pick(STR_DIRS).to_string() },
        }).collect();
        files.push((dirs, format!("f{i}.csv")));
    }
    Layout { cols, files }
}

fn gen_atoms(rng: &mut Rng, l: &Layout) -> Vec<(String, Lit)> {
    let n = rng.below(4) as usize;
    (0..n).map(|_| {
        let ci = rng.below(l.cols.len() as u64) as usize;
        let (name, t) = l.cols[ci].clone();
        // two thirds of the literals denote the value of an existing directory, so that filters match
        let from_file = rng.chance(2, 3);
        let dir = rng.pick(&l.files).0[ci].clone();
        let lt = match t {
            DataType::Int32 => match (from_file, pct_decode(&dir).parse::<i32>()) { (true, Ok(v)) => Lit::I(v), _ => Lit::I(*rng.pick(INT_LITS)) },
            _ => if from_file { Lit::S(pct_decode(&dir)) } else { Lit::S(rng.pick(STR_LITS).to_string()) },
        };
        (name, lt)
    }).collect()
}

fn atoms_to_filters(rng: &mut Rng, atoms: &[(String, Lit)]) -> Vec<Expr> {
    // randomly spread the conjunction over several filters / nested ANDs / flipped operands
    let mut exprs: Vec<Expr> = atoms.iter().map(|(c, l)| if rng.chance(1, 3) { lit_expr(l).eq(col(c.as_str())) } else { col(c.as_str()).eq(lit_expr(l)) }).collect();
    let mut out = vec![];
    while !exprs.is_empty() {
        let k = 1 + rng.below(exprs.len() as u64) as usize;
        let chunk: Vec<Expr> = exprs.drain(..k).collect();
        out.push(chunk.into_iter().reduce(|a, b| a.and(b)).unwrap());
    }
    out
}

fn cols_json(cols: &[(String, DataType)]) -> String {
    let v: Vec<String> = cols.iter().map(|(n, t)| format!("[{},\"{}\"]", json_str(n), if *t == DataType::Int32 { "int" } else { "str" })).collect();
    format!("[{}]", v.join(","))
}
fn atoms_json(atoms: &[(String, Lit)]) -> String {
    let v: Vec<String> = atoms.iter().map(|(n, l)| format!("[{},{}]", json_str(n), lit_json(l))).collect();
    format!("[{}]", v.join(","))
}
fn segs(cols: &[(String, DataType)], f: &(Vec<String>, String)) -> Vec<String> {
    let mut v: Vec<String> = cols.iter().zip(f.0.iter()).map(|((n, _), d)| format!("{n}={d}")).collect();
    v.push(f.1.clone());
    v
}
fn files_json(cols: &[(String, DataType)], files: &[(Vec<String>, String)]) -> String {
    let v: Vec<String> = files.iter().map(|f| format!("[{}]", segs(cols, f).iter().map(|s| json_str(s)).collect::<Vec<_>>().join(","))).collect();
    format!("[{}]", v.join(","))
}

async fn make_store(l: &Layout) -> Arc<InMemory> {
    let store = Arc::new(InMemory::new());
    for (i, f) in l.files.iter().enumerate() {
        let p = Path::parse(format!("tbl/{}", segs(&l.cols, f).join("/"))).expect("valid stored path");
        store.put(&p, PutPayload::from(Bytes::from(format!("x\n{}\n{}\n", i * 2, i * 2 + 1)))).await.unwrap();
    }
    store
}

fn main() {
    std::panic::set_hook(Box::new(|_| {}));
    let args: Vec<String> = std::env::args().collect();
    let seed: u64 = arg(&args, "--seed", "1").parse().unwrap();
    let n: usize = arg(&args, "--n", "300").parse().unwrap();
    let mut rng = Rng::new(seed);
    let rt = tokio::runtime::Builder::new_multi_thread().worker_threads(2).enable_all().build().unwrap();

    // ---- prefix + pruned
    for h in 0..n {
        let over = h % 10 == 9;
        let mut l = gen_layout(&mut rng, over);
        let mut atoms = gen_atoms(&mut rng, &l);
        if h == 0 {
            // corpus: the witness of the listed known finding (over-encoded directory name) always runs first
            l = Layout { cols: vec![("a".to_string(), DataType::Utf8)], files: vec![(vec!["%66oo".to_string()], "f0.csv".to_string()), (vec!["foo".to_string()], "f1.csv".to_string())] };
            atoms = vec![("a".to_string(), Lit::S("foo".to_string()))];
        }
        let filters = atoms_to_filters(&mut rng, &atoms);
        let prefix = evaluate_partition_prefix(&l.cols, &filters);
        let parts: Vec<String> = prefix.as_ref().map(|p| p.parts().map(|x| x.as_ref().to_string()).collect()).unwrap_or_default();
        println!("{{\"k\":\"prefix\",\"cols\":{},\"atoms\":{},\"parts\":[{}],\"ok\":true}}", cols_json(&l.cols), atoms_json(&atoms), parts.iter().map(|s| json_str(s)).collect::<Vec<_>>().join(","));

        let ctx = SessionContext::new();
        let state = ctx.state();
        let res: Result<Vec<String>, String> = rt.block_on(async {
            let store = make_store(&l).await;
            let url = ListingTableUrl::parse("memory:///tbl/").map_err(|e| e.to_string())?;
            let s = pruned_partition_list(&state, store.as_ref(), &url, &filters, ".csv", &l.cols).await.map_err(|e| e.to_string())?;
            let v: Vec<_> = s.try_collect().await.map_err(|e| e.to_string())?;
            Ok(v.into_iter().map(|pf| pf.object_meta.location.as_ref().to_string()).collect())
        });
        match res {
            Ok(mut kept) => {
                kept.sort();
                // oracle: every file whose directory values satisfy all atoms must be listed (and no other)
                let mut expect: Vec<String> = l.files.iter().filter(|f| {
                    atoms.iter().all(|(c, lt)| {
                        let i = l.cols.iter().position(|(n, _)| n == c).unwrap();
                        dir_equals(&l.cols[i].1, &f.0[i], lt)
                    })
                }).map(|f| format!("tbl/{}", segs(&l.cols, f).join("/"))).collect();
                expect.sort();
                let missing: Vec<&String> = expect.iter().filter(|e| !kept.contains(e)).collect();
                let extra: Vec<&String> = kept.iter().filter(|e| !expect.contains(e)).collect();
                let ok = missing.is_empty() && extra.is_empty();
                // a dropped file under an over-encoded directory name is the listed known finding
                let overenc = !missing.is_empty() && missing.iter().all(|m| STR_DIRS_OVER.iter().any(|d| m.contains(&format!("={d}/"))));
                let why = if ok { String::new() } else { format!("missing {:?} extra {:?}", missing, extra) };
                let keptsegs: Vec<String> = kept.iter().map(|k| format!("[{}]", k.trim_start_matches("tbl/").split('/').map(json_str).collect::<Vec<_>>().join(","))).collect();
                // the model compares in listing order = sorted path order of InMemory; send files sorted the same way
                let mut sorted_files = l.files.clone();
                sorted_files.sort_by_key(|f| format!("tbl/{}", segs(&l.cols, f).join("/")));
                println!("{{\"k\":\"pruned\",\"over\":{over},\"cols\":{},\"atoms\":{},\"files\":{},\"kept\":[{}],\"ok\":{ok},\"overencoded_only\":{overenc},\"why\":{}}}",
                    cols_json(&l.cols), atoms_json(&atoms), files_json(&l.cols, &sorted_files), keptsegs.join(","), json_str(&why));
            }
            Err(e) => {
                println!("{{\"k\":\"pruned\",\"over\":{over},\"cols\":{},\"atoms\":{},\"files\":{},\"error\":{},\"ok\":false,\"overencoded_only\":false,\"why\":{}}}",
                    cols_json(&l.cols), atoms_json(&atoms), files_json(&l.cols, &l.files), json_str(&e), json_str(&format!("listing failed: {e}")));
            }
        }
    }

    // ---- parse_partitions_for_path
    for _ in 0..n {
        let l = gen_layout(&mut rng, false);
        let url = ListingTableUrl::parse("memory:///tbl/").unwrap();
        let f = rng.pick(&l.files).clone();
        let mut sg = segs(&l.cols, &f);
        // sometimes break the layout: wrong column name, missing directory, extra directory
        match rng.below(8) { 0 => { sg[0] = format!("zz={}", f.0[0]); } 1 => { sg.remove(0); } 2 => { sg.insert(0, "extra".to_string()); } _ => {} }
        let p = Path::parse(format!("tbl/{}", sg.join("/"))).unwrap();
        let got = parse_partitions_for_path(&url, &p, l.cols.iter().map(|(n, _)| n.as_str()));
        let gj = match &got { Some(v) => format!("[{}]", v.iter().map(|s| json_str(s)).collect::<Vec<_>>().join(",")), None => "null".to_string() };
        // oracle: on an intact layout the parsed values are the decoded directory values
        let intact = sg == segs(&l.cols, &f);
        let ok = !intact || got.as_ref().map(|v| v.iter().map(|s| s.to_string()).collect::<Vec<_>>()) == Some(f.0.iter().map(|d| pct_decode(d)).collect());
        println!("{{\"k\":\"parse\",\"cols\":{},\"file\":[{}],\"got\":{gj},\"ok\":{ok}}}", cols_json(&l.cols), sg.iter().map(|s| json_str(s)).collect::<Vec<_>>().join(","));
    }

    // ---- SQL through ListingTable with arbitrary filters (oracle: filtered scan == scan then filter)
    for h in 0..n / 3 {
        let l = gen_layout(&mut rng, false);
        let (c0, t0) = l.cols[0].clone();
        let l0 = match t0 { DataType::Int32 => Lit::I(*rng.pick(INT_LITS)), _ => Lit::S(rng.pick(STR_LITS).to_string()) };
        let (c1, t1) = rng.pick(&l.cols).clone();
        let l1 = match t1 { DataType::Int32 => Lit::I(*rng.pick(INT_LITS)), _ => Lit::S(rng.pick(STR_LITS).to_string()) };
        let pred = match rng.below(7) {
            0 => format!("{c0} = {}", lit_sql(&l0)),
            1 => format!("{c0} = {} AND {c1} = {}", lit_sql(&l0), lit_sql(&l1)),
            2 => format!("{c0} = {} AND x >= 2", lit_sql(&l0)),
            3 => format!("{c0} IN ({}, {})", lit_sql(&l0), lit_sql(&l1_same_type(&t0, &mut rng))),
            4 => format!("{c0} = {} OR {c1} = {}", lit_sql(&l0), lit_sql(&l1)),
            5 => format!("{c0} >= {}", lit_sql(&l0)),
            _ => format!("{} = {c0} AND {c1} <> {}", lit_sql(&l0), lit_sql(&l1)),
        };
        // a SESSION history: several queries on one context (its list-files cache persists between
        // them): two different partition filters first, then the generated predicate, then no filter.
        // The reference rows come from a second, fresh context over a copy of the store.
        let from_dir = |rng: &mut Rng| -> String {
            let d = rng.pick(&l.files).0[0].clone();
            match t0 { DataType::Int32 => match pct_decode(&d).parse::<i32>() { Ok(v) => format!("{c0} = {v}"), _ => format!("{c0} = 1") }, _ => format!("{c0} = {}", lit_sql(&Lit::S(pct_decode(&d)))) }
        };
        let preds: Vec<String> = vec![from_dir(&mut rng), from_dir(&mut rng), pred.clone(), "TRUE".to_string()];
        let res: Result<Vec<(Vec<String>, Vec<String>)>, String> = rt.block_on(async {
            let colsel = l.cols.iter().map(|(n, _)| n.clone()).collect::<Vec<_>>().join(", ");
            let mk = |store: Arc<InMemory>| -> Result<SessionContext, String> {
                let ctx = SessionContext::new();
                ctx.register_object_store(&url::Url::parse("memory://").unwrap(), store);
                let opts = ListingOptions::new(Arc::new(CsvFormat::default().with_has_header(true)))
                    .with_file_extension(".csv")
                    .with_table_partition_cols(l.cols.clone());
                let schema = Arc::new(Schema::new(vec![Field::new("x", DataType::Int64, true)]));
                let cfg = ListingTableConfig::new(ListingTableUrl::parse("memory:///tbl/").map_err(|e| e.to_string())?)
                    .with_listing_options(opts).with_schema(schema);
                let table = ListingTable::try_new(cfg).map_err(|e| e.to_string())?;
                ctx.register_table("t", Arc::new(table)).map_err(|e| e.to_string())?;
                Ok(ctx)
            };
            let ctx = mk(make_store(&l).await)?;      // session under test
            let refctx = mk(make_store(&l).await)?;   // reference: unfiltered scan only, then filtered in memory
            let all = refctx.sql(&format!("SELECT x, {colsel} FROM t")).await.map_err(|e| e.to_string())?.collect().await.map_err(|e| e.to_string())?;
            let sch = all.first().map(|b| b.schema()).ok_or("no batches")?;
            let mem = datafusion::datasource::MemTable::try_new(sch, vec![all]).map_err(|e| e.to_string())?;
            refctx.register_table("m", Arc::new(mem)).map_err(|e| e.to_string())?;
            let fmt = |bs: Vec<arrow::record_batch::RecordBatch>| -> Vec<String> {
                let mut rows = vec![];
                for b in bs { for r in 0..b.num_rows() {
                    rows.push((0..b.num_columns()).map(|c| arrow::util::display::array_value_to_string(b.column(c), r).unwrap()).collect::<Vec<_>>().join("|"));
                } }
                rows.sort();
                rows
            };
            let mut out = vec![];
            for p in &preds {
                let a = ctx.sql(&format!("SELECT x, {colsel} FROM t WHERE {p}")).await.map_err(|e| e.to_string())?.collect().await.map_err(|e| e.to_string())?;
                let b = refctx.sql(&format!("SELECT x, {colsel} FROM m WHERE {p}")).await.map_err(|e| e.to_string())?.collect().await.map_err(|e| e.to_string())?;
                out.push((fmt(a), fmt(b)));
            }
            Ok(out)
        });
        let desc = format!("cols={} files={} session queries WHERE {:?}", cols_json(&l.cols), files_json(&l.cols, &l.files), preds);
        match res {
            Ok(v) => {
                let bad = v.iter().position(|(a, b)| a != b);
                let ok = bad.is_none();
                let rows: usize = v.iter().map(|(a, _)| a.len()).sum();
                println!("{{\"k\":\"sql\",\"h\":{h},\"desc\":{},\"rows_pruned\":{},\"rows_scan_then_filter\":{},\"ok\":{ok},\"why\":{}}}", json_str(&desc), rows, v.iter().map(|(_, b)| b.len()).sum::<usize>(),
                    json_str(&match bad { None => String::new(), Some(i) => format!("query #{i} (WHERE {}) of the session: listing-table result {:?} != scan-all-then-filter {:?}", preds[i], v[i].0, v[i].1) }));
            }
            Err(e) => println!("{{\"k\":\"sql\",\"h\":{h},\"desc\":{},\"error\":{},\"ok\":true,\"why\":\"\"}}", json_str(&desc), json_str(&e)),
        }
    }
}

fn l1_same_type(t: &DataType, rng: &mut Rng) -> Lit {
    match t { DataType::Int32 => Lit::I(*rng.pick(INT_LITS)), _ => Lit::S(rng.pick(STR_LITS).to_string()) }
}
