//! C29: statistics reported as exact are exact.
//! Two kinds of JSON lines:
//!  k = "alg": the REAL `Precision<usize>` algebra (add / sub / multiply / min / max / to_inexact) and `Statistics::with_fetch` (num_rows
//!       and whether column statistics keep their exactness) run on generated values incl. usize::MAX boundaries; "out" is what the
//!       implementation returned.  ok = the direct oracle: a result is Exact only if both operands are Exact and then it is the exact
//!       arithmetic result; with_fetch on Exact(n) with 1 partition is Exact(min(fetch, n - skip)) (0 if n <= skip).
//!  k = "stats": for a physical plan (same zoo as c53) and EVERY node of it: `StatisticsContext::compute(node, partition)` for the whole
//!       node (partition = null) and for each partition; every statistic it reports as `Precision::Exact` (num_rows; per column
//!       null_count, distinct_count, min_value, max_value, sum_value) is compared with the value measured on the output of executing a
//!       fresh copy of that sub-plan (that partition).  ok = every Exact claim equals the measured value (min/max/sum claims over an
//!       output without non-null values in that column are vacuous and skipped).
//!   c29 --seed S --n N [--case ID] [--explain]
#[path = "../refsql_gen.rs"]
mod refsql_gen;
#[path = "../refsql_run.rs"]
mod refsql_run;
#[path = "../planzoo.rs"]
mod planzoo;

use std::collections::HashSet;
use std::sync::Arc;

use arrow::array::Array;
use arrow::datatypes::{DataType, Field, Schema};
use arrow::record_batch::RecordBatch;
use datafusion::common::stats::Precision;
use datafusion::common::{ColumnStatistics, ScalarValue, Statistics};
use datafusion::execution::TaskContext;
use datafusion::physical_plan::statistics::{StatisticsArgs, StatisticsContext};
use datafusion::physical_plan::{displayable, execute_stream, ExecutionPlan};
use datafusion::prelude::*;
use futures::StreamExt;
use h_util::{arg, json_str, Rng};
use planzoo::*;
use refsql_gen::*;
use refsql_run::{attempt, register, Attempt};

// ------------------------------------------------------------------------------------------------ algebra
fn p_json(p: &Precision<usize>) -> String {
    match p { Precision::Exact(v) => format!("{{\"E\":\"{v}\"}}"), Precision::Inexact(v) => format!("{{\"I\":\"{v}\"}}"), Precision::Absent => "\"A\"".into() }
}
fn gen_usize(rng: &mut Rng) -> usize {
    match rng.below(10) {
        0 => usize::MAX,
        1 => usize::MAX - rng.below(3) as usize,
        2 => (usize::MAX / 2) + rng.below(3) as usize,
        3 => 1usize << 32,
        4 => 0,
        _ => rng.below(12) as usize,
    }
}
fn gen_p(rng: &mut Rng) -> Precision<usize> {
    match rng.below(5) { 0 => Precision::Absent, 1 | 2 => Precision::Inexact(gen_usize(rng)), _ => Precision::Exact(gen_usize(rng)) }
}
fn alg_case(id: usize, rng: &mut Rng) -> String {
    if rng.chance(1, 2) {
        let (a, b) = (gen_p(rng), gen_p(rng));
        let op = *rng.pick(&["add", "sub", "mul", "min", "max", "inexact"]);
        let out = match op { "add" => a.add(&b), "sub" => a.sub(&b), "mul" => a.multiply(&b), "min" => a.min(&b), "max" => a.max(&b), _ => a.clone().to_inexact() };
        // direct oracle
        let ok = match (&a, &b, &out, op) {
            (_, _, o, "inexact") => !matches!(o, Precision::Exact(_)) && o.get_value() == a.get_value(),
            (Precision::Exact(x), Precision::Exact(y), Precision::Exact(z), _) => {
                let (x, y, z) = (*x as u128, *y as u128, *z as u128);
                match op { "add" => z == x + y, "sub" => x >= y && z == x - y, "mul" => z == x * y, "min" => z == x.min(y), _ => z == x.max(y) }
            }
            (_, _, Precision::Exact(_), _) => false,
            _ => true,
        };
        format!("{{\"k\":\"alg\",\"id\":{id},\"op\":\"{op}\",\"a\":{},\"b\":{},\"out\":{},\"ok\":{ok}}}", p_json(&a), p_json(&b), p_json(&out))
    } else {
        let nr = gen_p(rng);
        let fetch = if rng.chance(1, 4) { None } else { Some(gen_usize(rng)) };
        let skip = if rng.chance(1, 2) { 0 } else { gen_usize(rng) };
        let np = *rng.pick(&[1usize, 1, 1, 2, 3, usize::MAX]);
        let nulls = Precision::Exact(rng.below(3) as usize);
        let st = Statistics { num_rows: nr.clone(), total_byte_size: Precision::Absent,
            column_statistics: vec![ColumnStatistics { null_count: nulls.clone(), ..ColumnStatistics::new_unknown() }] };
        let out = st.with_fetch(fetch, skip, np);
        match out {
            Err(e) => format!("{{\"k\":\"alg\",\"id\":{id},\"op\":\"with_fetch\",\"a\":{},\"fetch\":{},\"skip\":\"{skip}\",\"np\":\"{np}\",\"err\":{},\"ok\":false}}",
                p_json(&nr), fetch.map(|f| format!("\"{f}\"")).unwrap_or("null".into()), json_str(&e.to_string())),
            Ok(o) => {
                let kept = o.column_statistics[0].null_count == nulls;
                let ok = match (&nr, &o.num_rows) {
                    (Precision::Exact(n), Precision::Exact(m)) => {
                        let want = (*n as u128).saturating_sub(skip as u128).min(fetch.map(|f| f as u128).unwrap_or(u128::MAX));
                        // with n partitions of n rows each the claim is n_partitions times that; oracle only for 1 partition
                        np != 1 || *m as u128 == want
                    }
                    (_, Precision::Exact(_)) => false,
                    _ => true,
                };
                format!("{{\"k\":\"alg\",\"id\":{id},\"op\":\"with_fetch\",\"a\":{},\"fetch\":{},\"skip\":\"{skip}\",\"np\":\"{np}\",\"out\":{},\"kept\":{kept},\"ok\":{ok}}}",
                    p_json(&nr), fetch.map(|f| format!("\"{f}\"")).unwrap_or("null".into()), p_json(&o.num_rows))
            }
        }
    }
}

// ------------------------------------------------------------------------------------------------ measured statistics
struct ColM { nulls: usize, distinct: usize, min: Option<ScalarValue>, max: Option<ScalarValue>, sum: Option<i128> }

fn measure(schema: &Schema, batches: &[RecordBatch]) -> (usize, Vec<ColM>) {
    let rows: usize = batches.iter().map(|b| b.num_rows()).sum();
    let mut cols = vec![];
    for c in 0..schema.fields().len() {
        let mut m = ColM { nulls: 0, distinct: 0, min: None, max: None, sum: None };
        let mut seen: HashSet<ScalarValue> = HashSet::new();
        let int = matches!(schema.field(c).data_type(), DataType::Int64 | DataType::Int32 | DataType::UInt64);
        for b in batches {
            let a = b.column(c);
            let ln = a.logical_nulls();
            for r in 0..a.len() {
                if ln.as_ref().map(|n| n.is_null(r)).unwrap_or(false) { m.nulls += 1; continue; }
                let v = match ScalarValue::try_from_array(a, r) { Ok(v) => v, Err(_) => continue };
                if int {
                    let x: Option<i128> = match &v { ScalarValue::Int64(Some(x)) => Some(*x as i128), ScalarValue::Int32(Some(x)) => Some(*x as i128), ScalarValue::UInt64(Some(x)) => Some(*x as i128), _ => None };
                    if let Some(x) = x { m.sum = Some(m.sum.unwrap_or(0) + x); }
                }
                if m.min.as_ref().map(|o| v.partial_cmp(o) == Some(std::cmp::Ordering::Less)).unwrap_or(true) { m.min = Some(v.clone()); }
                if m.max.as_ref().map(|o| v.partial_cmp(o) == Some(std::cmp::Ordering::Greater)).unwrap_or(true) { m.max = Some(v.clone()); }
                seen.insert(v);
            }
        }
        m.distinct = seen.len();
        cols.push(m);
    }
    (rows, cols)
}

fn sv_num(v: &ScalarValue) -> Option<i128> {
    match v {
        ScalarValue::Int64(Some(x)) => Some(*x as i128), ScalarValue::Int32(Some(x)) => Some(*x as i128), ScalarValue::UInt64(Some(x)) => Some(*x as i128),
        ScalarValue::Int16(Some(x)) => Some(*x as i128), ScalarValue::Int8(Some(x)) => Some(*x as i128), ScalarValue::UInt32(Some(x)) => Some(*x as i128),
        ScalarValue::Boolean(Some(b)) => Some(*b as i128),
        _ => None,
    }
}

struct Claim { stat: &'static str, col: i64, claimed: String, measured: String, num: Option<(i128, i128)>, ok: bool }

fn claims(st: &Statistics, rows: usize, cols: &[ColM]) -> (Vec<Claim>, usize) {
    let mut v = vec![];
    let mut vac = 0;
    if let Precision::Exact(n) = st.num_rows {
        v.push(Claim { stat: "num_rows", col: -1, claimed: n.to_string(), measured: rows.to_string(), num: Some((n as i128, rows as i128)), ok: n == rows });
    }
    for (i, cs) in st.column_statistics.iter().enumerate() {
        if i >= cols.len() { break; }
        let m = &cols[i];
        if let Precision::Exact(n) = cs.null_count {
            v.push(Claim { stat: "null_count", col: i as i64, claimed: n.to_string(), measured: m.nulls.to_string(), num: Some((n as i128, m.nulls as i128)), ok: n == m.nulls });
        }
        if let Precision::Exact(n) = cs.distinct_count {
            v.push(Claim { stat: "distinct_count", col: i as i64, claimed: n.to_string(), measured: m.distinct.to_string(), num: Some((n as i128, m.distinct as i128)), ok: n == m.distinct });
        }
        for (name, claim, meas) in [("min_value", &cs.min_value, &m.min), ("max_value", &cs.max_value, &m.max)] {
            if let Precision::Exact(c) = claim {
                match meas {
                    None => vac += 1,
                    Some(x) => {
                        let num = match (sv_num(c), sv_num(x)) { (Some(a), Some(b)) => Some((a, b)), _ => None };
                        let ok = match num { Some((a, b)) => a == b, None => c.partial_cmp(x) == Some(std::cmp::Ordering::Equal) };
                        v.push(Claim { stat: name, col: i as i64, claimed: c.to_string(), measured: x.to_string(), num, ok });
                    }
                }
            }
        }
        if let Precision::Exact(c) = &cs.sum_value {
            match (sv_num(c), m.sum) {
                (Some(a), Some(b)) => v.push(Claim { stat: "sum_value", col: i as i64, claimed: a.to_string(), measured: b.to_string(), num: Some((a, b)), ok: a == b }),
                _ => vac += 1,
            }
        }
    }
    (v, vac)
}

struct NodeS { idx: usize, kids: Vec<usize>, name: String, part: i64, claims: Vec<Claim>, vac: usize, err: Option<String> }

async fn run_part(node: &Arc<dyn ExecutionPlan>, part: Option<usize>, tctx: &Arc<TaskContext>) -> Result<Vec<RecordBatch>, String> {
    let f = fresh(node).map_err(|e| e.to_string())?;
    let mut out = vec![];
    match part {
        None => {
            let mut s = execute_stream(f, Arc::clone(tctx)).map_err(|e| e.to_string())?;
            while let Some(b) = s.next().await { out.push(b.map_err(|e| e.to_string())?); }
        }
        Some(p) => {
            let mut s = f.execute(p, Arc::clone(tctx)).map_err(|e| e.to_string())?;
            while let Some(b) = s.next().await { out.push(b.map_err(|e| e.to_string())?); }
        }
    }
    Ok(out)
}

enum Status { Ok(Vec<NodeS>), PlanErr(String) }

async fn examine(plan: Arc<dyn ExecutionPlan>, tctx: Arc<TaskContext>, explain: bool) -> Status {
    if explain { eprintln!("{}", displayable(plan.as_ref()).indent(true)); }
    let mut nodes = vec![];
    post_order(&plan, &mut nodes);
    let mut res = vec![];
    for (idx, (node, kids)) in nodes.iter().enumerate() {
        let np = node.properties().partitioning.partition_count();
        let mut parts: Vec<Option<usize>> = vec![None];
        if np > 1 { for p in 0..np { parts.push(Some(p)); } }
        for part in parts {
            let pj = part.map(|p| p as i64).unwrap_or(-1);
            let st = match StatisticsContext::new().compute(node.as_ref(), &StatisticsArgs::new().with_partition(part)) {
                Ok(s) => s,
                Err(e) => { res.push(NodeS { idx, kids: kids.clone(), name: node.name().to_string(), part: pj, claims: vec![], vac: 0, err: Some(format!("stats: {e}")) }); continue; }
            };
            let any_exact = matches!(st.num_rows, Precision::Exact(_)) || st.column_statistics.iter().any(|c| matches!(c.null_count, Precision::Exact(_))
                || matches!(c.distinct_count, Precision::Exact(_)) || matches!(c.min_value, Precision::Exact(_)) || matches!(c.max_value, Precision::Exact(_)) || matches!(c.sum_value, Precision::Exact(_)));
            if !any_exact { res.push(NodeS { idx, kids: kids.clone(), name: node.name().to_string(), part: pj, claims: vec![], vac: 0, err: None }); continue; }
            match run_part(node, part, &tctx).await {
                Err(e) => res.push(NodeS { idx, kids: kids.clone(), name: node.name().to_string(), part: pj, claims: vec![], vac: 0, err: Some(format!("exec: {e}")) }),
                Ok(b) => {
                    let (rows, cols) = measure(node.schema().as_ref(), &b);
                    let (cl, vac) = claims(&st, rows, &cols);
                    res.push(NodeS { idx, kids: kids.clone(), name: node.name().to_string(), part: pj, claims: cl, vac, err: None });
                }
            }
        }
    }
    Status::Ok(res)
}

fn line(id: usize, stream: &str, tp: usize, bs: usize, opts: usize, desc: &str, st: Result<Status, String>) -> String {
    let head = format!("{{\"k\":\"stats\",\"id\":{id},\"stream\":{},\"tp\":{tp},\"bs\":{bs},\"opts\":{opts},\"desc\":{}", json_str(stream), json_str(desc));
    match st {
        Err(s) => format!("{head},\"status\":{},\"ok\":true}}", json_str(&s)),
        Ok(Status::PlanErr(e)) => format!("{head},\"status\":\"plan_err\",\"err\":{},\"ok\":true}}", json_str(&e.chars().take(300).collect::<String>())),
        Ok(Status::Ok(nodes)) => {
            let ok = nodes.iter().all(|n| n.claims.iter().all(|c| c.ok));
            let nj: Vec<String> = nodes.iter().map(|n| format!("{{\"idx\":{},\"kids\":{:?},\"name\":{},\"part\":{},\"vac\":{},\"err\":{},\"claims\":[{}]}}", n.idx, n.kids, json_str(&n.name), n.part, n.vac,
                n.err.as_ref().map(|e| json_str(&e.chars().take(200).collect::<String>())).unwrap_or("null".into()),
                n.claims.iter().map(|c| format!("{{\"stat\":\"{}\",\"col\":{},\"claimed\":{},\"measured\":{},\"num\":{},\"ok\":{}}}", c.stat, c.col, json_str(&c.claimed), json_str(&c.measured),
                    c.num.map(|(a, b)| format!("[\"{a}\",\"{b}\"]")).unwrap_or("null".into()), c.ok)).collect::<Vec<_>>().join(","))).collect();
            format!("{head},\"status\":\"ok\",\"nodes\":[{}],\"ok\":{ok}}}", nj.join(","))
        }
    }
}

fn session(tabs: &[Tab], tp: usize, bs: usize, opts: usize) -> SessionContext {
    let mut cfg = SessionConfig::new().with_target_partitions(tp).with_batch_size(bs);
    for (k, v) in SQL_OPTS[opts] { cfg = cfg.set_str(k, v); }
    // every sub-plan is executed several times on copies that share dynamic-filter state: keep dynamic filters out of these plans
    for k in ["enable_dynamic_filter_pushdown", "enable_join_dynamic_filter_pushdown", "enable_topk_dynamic_filter_pushdown", "enable_aggregate_dynamic_filter_pushdown"] {
        cfg = cfg.set_str(&format!("datafusion.optimizer.{k}"), "false");
    }
    let ctx = SessionContext::new_with_config(cfg);
    for (i, t) in tabs.iter().enumerate() { register(&ctx, i, t); }
    ctx
}

fn run_sql(id: usize, stream: &str, tabs: &[Tab], sql: &str, tp: usize, bs: usize, opts: usize, explain: bool) -> String {
    let (tabs2, sql2) = (tabs.to_vec(), sql.to_string());
    let r = attempt(30, move || async move {
        let ctx = session(&tabs2, tp, bs, opts);
        let df = match ctx.sql(&sql2).await { Ok(d) => d, Err(e) => return Status::PlanErr(e.to_string()) };
        let plan = match df.create_physical_plan().await { Ok(p) => p, Err(e) => return Status::PlanErr(e.to_string()) };
        examine(plan, ctx.task_ctx(), explain).await
    });
    let st = match r { Attempt::Done(s) => Ok(s), Attempt::Panic(m) => Err(format!("panic: {}", m.chars().take(200).collect::<String>())), Attempt::Hang => Err("hang".to_string()) };
    line(id, stream, tp, bs, opts, sql, st)
}

fn run_tree(id: usize, stream: &str, plan: Result<Arc<dyn ExecutionPlan>, String>, desc: &str, bs: usize, explain: bool) -> String {
    let st = match plan {
        Err(e) => Ok(Status::PlanErr(e)),
        Ok(p) => {
            let r = attempt(30, move || async move {
                let ctx = SessionContext::new_with_config(SessionConfig::new().with_batch_size(bs).with_target_partitions(2));
                examine(p, ctx.task_ctx(), explain).await
            });
            match r { Attempt::Done(s) => Ok(s), Attempt::Panic(m) => Err(format!("panic: {}", m.chars().take(200).collect::<String>())), Attempt::Hang => Err("hang".to_string()) }
        }
    };
    line(id, stream, 2, bs, 0, desc, st)
}

fn witness_tabs() -> Vec<Tab> {
    let rows = |v: &[(i64, i64)]| v.iter().map(|(a, b)| vec![V::I(*a), V::I(*b)]).collect::<Vec<_>>();
    vec![
        Tab { types: vec![Ty::Int, Ty::Int], rows: rows(&[(1, 1), (2, 2), (3, 3), (2, 5), (4, 0), (1, 7)]), parts: 2 },
        Tab { types: vec![Ty::Int, Ty::Int], rows: rows(&[(2, 1), (3, 1), (3, 2), (5, 9)]), parts: 1 },
    ]
}

fn main() {
    let args: Vec<String> = std::env::args().collect();
    let seed: u64 = arg(&args, "--seed", "1").parse().unwrap();
    let n: usize = arg(&args, "--n", "200").parse().unwrap();
    let only: i64 = arg(&args, "--case", "-1").parse().unwrap();
    let explain = args.iter().any(|a| a == "--explain");
    std::panic::set_hook(Box::new(|_| {}));
    let want = |id: usize| only < 0 || only as usize == id;
    let _ = (Field::new("x", DataType::Int64, true),);

    // fixed witnesses first: SQL corpus on fixed tables + fixed operator trees
    let wt = witness_tabs();
    let mut wid = 1_000_000;
    for (name, sql) in sql_corpus(&wt) {
        for (tp, bs, o) in [(1usize, 8192usize, 0usize), (3, 2, 0)] {
            if want(wid) { println!("{}", run_sql(wid, &format!("witness:{name}"), &wt, &sql, tp, bs, o, explain)); }
            wid += 1;
        }
    }
    for ws in 0..WITNESS_TREES {
        let mut r = Rng::new(777);
        let mut g = TreeGen { rng: &mut r, desc: vec![], bs: 2 };
        let plan = witness_tree(&mut g, ws).map_err(|e| e.to_string());
        let desc = g.desc.join(" ; ");
        if want(wid) { println!("{}", run_tree(wid, &format!("witness:tree{ws}"), plan, &desc, 2, explain)); }
        wid += 1;
    }

    let mut rng = Rng::new(seed);
    let mut aid = 2_000_000;
    for _ in 0..(4 * n) { let l = alg_case(aid, &mut rng); if want(aid) { println!("{l}"); } aid += 1; }

    let mut tabs = Gen::gen_tables(&mut rng);
    let mut corpus = sql_corpus(&tabs);
    let mut ci = (seed as usize * 7) % corpus.len();
    for i in 0..n {
        if i % 8 == 0 { tabs = Gen::gen_tables(&mut rng); corpus = sql_corpus(&tabs); }
        let tp = *rng.pick(&[1usize, 2, 3, 4]);
        let bs = *rng.pick(&[1usize, 2, 3, 8192]);
        match i % 4 {
            0 => {
                let s = STREAMS[rng.below(STREAMS.len() as u64) as usize];
                let q = { let mut g = Gen { rng: &mut rng, tabs: tabs.clone() }; g.query(s) };
                let widths: Vec<usize> = tabs.iter().map(|t| t.types.len()).collect();
                let sql = to_sql(&q, &widths);
                let o = rng.below(SQL_OPTS.len() as u64) as usize;
                if want(i) { println!("{}", run_sql(i, &format!("gen:{s}"), &tabs, &sql, tp, bs, o, explain)); }
            }
            1 => {
                let (name, sql) = corpus[ci % corpus.len()].clone();
                ci += 1;
                let o = rng.below(SQL_OPTS.len() as u64) as usize;
                if want(i) { println!("{}", run_sql(i, &format!("corpus:{name}"), &tabs, &sql, tp, bs, o, explain)); }
            }
            _ => {
                let d = 1 + rng.below(3) as u32;
                let mut g = TreeGen { rng: &mut rng, desc: vec![], bs };
                let plan = g.tree(d).map_err(|e| e.to_string());
                let desc = g.desc.join(" ; ");
                if want(i) { println!("{}", run_tree(i, "tree", plan, &desc, bs, explain)); }
            }
        }
    }
    let _ = Schema::empty();
}
