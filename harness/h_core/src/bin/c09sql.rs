//! C09 (SQL half): window functions end to end through BoundedWindowAggExec and WindowAggExec.
//!
//!   SELECT id, row_number() OVER (PARTITION BY p ORDER BY k <opts>) AS rn,
//!          f1(..) OVER (PARTITION BY p ORDER BY k <opts> <frame1>), ... FROM t
//! on a small MemTable t(id, p, k, x) (NULL partition keys, ties and NULLs in k, NULLs in x), for batch sizes
//! {1,2,3,8192} x target_partitions {1,3}.  All window expressions share PARTITION BY / ORDER BY, so they are evaluated
//! by ONE window operator over one physical row order; `rn` reveals that order (SQL leaves the order among ORDER BY
//! peers open).  "ok" = the direct oracle: rn is a permutation 1..m of every partition, k is sorted along rn, and every
//! window value equals the declarative definition (frame = set of rows by the frame definition; function over it)
//! evaluated here in Rust over that order.  The executor actually used is read from the physical plan.
use std::collections::BTreeMap;
use std::panic::{catch_unwind, AssertUnwindSafe};
use std::sync::Arc;

use arrow::array::{Array, ArrayRef, Float64Array, Int64Array};
use arrow::compute::cast;
use arrow::datatypes::{DataType, Field, Schema};
use arrow::record_batch::RecordBatch;
use datafusion::datasource::MemTable;
use datafusion::physical_plan::{collect, displayable};
use datafusion::prelude::*;
use h_util::{arg, json_str, Rng};

type Val = Option<i64>;

#[derive(Clone, Copy, Debug, PartialEq)]
enum B { UP, P(u64), CR, F(u64), UF }
#[derive(Clone, Copy, Debug, PartialEq)]
enum U { Rows, Range, Groups }
#[derive(Clone, Copy, Debug, PartialEq)]
struct Frame { u: U, sb: B, eb: B }

#[derive(Clone, Debug, PartialEq)]
enum Fun {
    Sum, Count, CountStar, Min, Max, Avg, First, Last, Nth(i64),
    RowNumber, Rank, DenseRank, PercentRank, CumeDist,
    Lag(i64, Val), Lead(i64, Val), Ntile(i64),
}

#[derive(Clone, Debug)]
struct WinCol { f: Fun, frame: Option<Frame> }

#[derive(Clone, Debug)]
struct Row { id: i64, p: Val, k: Val, x: Val }

struct Case { rows: Vec<Row>, desc: bool, nf: bool, cols: Vec<WinCol>, tp: usize, bs: usize, chunk: usize }

#[derive(Clone, Debug, PartialEq)]
enum Out { Null, I(i64), Fl(f64) }

fn valid(sb: B, eb: B) -> bool {
    if sb == B::UF || eb == B::UP { return false; }
    match (sb, eb) {
        (B::F(_), B::P(_)) | (B::F(_), B::CR) | (B::CR, B::P(_)) => false,
        (B::P(a), B::P(b)) => a >= b,
        (B::F(a), B::F(b)) => a <= b,
        _ => true,
    }
}

fn bound_sql(b: B) -> String {
    match b {
        B::UP => "UNBOUNDED PRECEDING".into(),
        B::P(n) => format!("{n} PRECEDING"),
        B::CR => "CURRENT ROW".into(),
        B::F(n) => format!("{n} FOLLOWING"),
        B::UF => "UNBOUNDED FOLLOWING".into(),
    }
}
fn bound_json(b: B) -> String {
    match b {
        B::UP => "[\"UP\"]".into(),
        B::P(n) => format!("[\"P\",\"{n}\"]"),
        B::CR => "[\"CR\"]".into(),
        B::F(n) => format!("[\"F\",\"{n}\"]"),
        B::UF => "[\"UF\"]".into(),
    }
}
fn units_str(u: U) -> &'static str { match u { U::Rows => "rows", U::Range => "range", U::Groups => "groups" } }
fn frame_sql(f: &Frame) -> String {
    format!("{} BETWEEN {} AND {}", units_str(f.u).to_uppercase(), bound_sql(f.sb), bound_sql(f.eb))
}
fn v_json(v: Val) -> String { match v { Some(z) => z.to_string(), None => "null".into() } }
fn v_sql(v: Val) -> String { match v { Some(z) if z < 0 => format!("({z})"), Some(z) => z.to_string(), None => "NULL".into() } }

fn fun_sql(f: &Fun) -> String {
    match f {
        Fun::Sum => "sum(x)".into(),
        Fun::Count => "count(x)".into(),
        Fun::CountStar => "count(*)".into(),
        Fun::Min => "min(x)".into(),
        Fun::Max => "max(x)".into(),
        Fun::Avg => "avg(x)".into(),
        Fun::First => "first_value(x)".into(),
        Fun::Last => "last_value(x)".into(),
        Fun::Nth(n) => format!("nth_value(x, {n})"),
        Fun::RowNumber => "row_number()".into(),
        Fun::Rank => "rank()".into(),
        Fun::DenseRank => "dense_rank()".into(),
        Fun::PercentRank => "percent_rank()".into(),
        Fun::CumeDist => "cume_dist()".into(),
        Fun::Lag(o, d) => match d { None => format!("lag(x, {o})"), Some(_) => format!("lag(x, {o}, {})", v_sql(*d)) },
        Fun::Lead(o, d) => match d { None => format!("lead(x, {o})"), Some(_) => format!("lead(x, {o}, {})", v_sql(*d)) },
        Fun::Ntile(n) => format!("ntile({n})"),
    }
}
fn fun_json(f: &Fun) -> String {
    match f {
        Fun::Sum => "[\"sum\"]".into(),
        Fun::Count => "[\"count\"]".into(),
        Fun::CountStar => "[\"count_star\"]".into(),
        Fun::Min => "[\"min\"]".into(),
        Fun::Max => "[\"max\"]".into(),
        Fun::Avg => "[\"avg\"]".into(),
        Fun::First => "[\"first_value\"]".into(),
        Fun::Last => "[\"last_value\"]".into(),
        Fun::Nth(n) => format!("[\"nth_value\",{n}]"),
        Fun::RowNumber => "[\"row_number\"]".into(),
        Fun::Rank => "[\"rank\"]".into(),
        Fun::DenseRank => "[\"dense_rank\"]".into(),
        Fun::PercentRank => "[\"percent_rank\"]".into(),
        Fun::CumeDist => "[\"cume_dist\"]".into(),
        Fun::Lag(o, d) => format!("[\"lag\",{o},{}]", v_json(*d)),
        Fun::Lead(o, d) => format!("[\"lead\",{o},{}]", v_json(*d)),
        Fun::Ntile(n) => format!("[\"ntile\",{n}]"),
    }
}
fn uses_frame(f: &Fun) -> bool {
    matches!(f, Fun::Sum | Fun::Count | Fun::CountStar | Fun::Min | Fun::Max | Fun::Avg | Fun::First | Fun::Last | Fun::Nth(_))
}

fn order_sql(desc: bool, nf: bool) -> String {
    format!("k {} NULLS {}", if desc { "DESC" } else { "ASC" }, if nf { "FIRST" } else { "LAST" })
}

fn to_sql(c: &Case) -> String {
    let w = format!("PARTITION BY p ORDER BY {}", order_sql(c.desc, c.nf));
    let mut s = format!("SELECT id, row_number() OVER ({w}) AS rn");
    for (i, wc) in c.cols.iter().enumerate() {
        let fr = match &wc.frame { Some(f) => format!(" {}", frame_sql(f)), None => String::new() };
        s.push_str(&format!(", {} OVER ({w}{fr}) AS w{i}", fun_sql(&wc.f)));
    }
    s.push_str(" FROM t");
    s
}

// ------------------------------------------------------------------ declarative oracle
fn ord(k: Val, desc: bool, nf: bool) -> (i8, i128) {
    match k { None => (if nf { -1 } else { 1 }, 0), Some(v) => (0, if desc { -(v as i128) } else { v as i128 }) }
}
fn shift(o: (i8, i128), d: i128) -> (i8, i128) { if o.0 == 0 { (0, o.1 + d) } else { o } }

fn default_frame() -> Frame { Frame { u: U::Range, sb: B::UP, eb: B::CR } }

fn frame_rows(ks: &[Val], desc: bool, nf: bool, f: &Frame, i: usize) -> Vec<usize> {
    let n = ks.len();
    let pos: Vec<(i8, i128)> = match f.u {
        U::Rows => (0..n).map(|j| (0, j as i128)).collect(),
        U::Range => ks.iter().map(|k| ord(*k, desc, nf)).collect(),
        U::Groups => {
            let mut g = vec![(0i8, 0i128); n];
            for j in 1..n { g[j] = (0, g[j - 1].1 + if ks[j] != ks[j - 1] { 1 } else { 0 }); }
            g
        }
    };
    let pi = pos[i];
    (0..n)
        .filter(|&j| {
            let pj = pos[j];
            let lo = match f.sb { B::UP => true, B::P(a) => pj >= shift(pi, -(a as i128)), B::CR => pj >= pi, B::F(a) => pj >= shift(pi, a as i128), B::UF => false };
            let hi = match f.eb { B::UP => false, B::P(a) => pj <= shift(pi, -(a as i128)), B::CR => pj <= pi, B::F(a) => pj <= shift(pi, a as i128), B::UF => true };
            lo && hi
        })
        .collect()
}

fn expect(c: &Case, wc: &WinCol, ks: &[Val], xs: &[Val], i: usize) -> Out {
    let n = ks.len() as i64;
    let oi = ord(ks[i], c.desc, c.nf);
    let before = ks.iter().filter(|k| ord(**k, c.desc, c.nf) < oi).count() as i64;
    let upto = ks.iter().filter(|k| ord(**k, c.desc, c.nf) <= oi).count() as i64;
    let ov = |v: Val| match v { Some(z) => Out::I(z), None => Out::Null };
    match &wc.f {
        Fun::RowNumber => Out::I(i as i64 + 1),
        Fun::Rank => Out::I(before + 1),
        Fun::DenseRank => {
            let mut d = 1;
            for j in 1..=i { if ks[j] != ks[j - 1] { d += 1; } }
            Out::I(d)
        }
        Fun::PercentRank => if n <= 1 { Out::Fl(0.0) } else { Out::Fl(before as f64 / (n - 1) as f64) },
        Fun::CumeDist => Out::Fl(upto as f64 / n as f64),
        Fun::Lag(o, d) => { let j = i as i64 - o; if j >= 0 && j < n { ov(xs[j as usize]) } else { ov(*d) } }
        Fun::Lead(o, d) => { let j = i as i64 + o; if j >= 0 && j < n { ov(xs[j as usize]) } else { ov(*d) } }
        Fun::Ntile(b) => {
            let (m, b, ii) = (n, *b, i as i64);
            let base = m / b; let rem = m % b; let large = rem * (base + 1);
            Out::I(if ii < large { ii / (base + 1) + 1 } else { rem + (ii - large) / base + 1 })
        }
        f => {
            let fr = wc.frame.unwrap_or_else(default_frame);
            let rows = frame_rows(ks, c.desc, c.nf, &fr, i);
            let vals: Vec<Val> = rows.iter().map(|&j| xs[j]).collect();
            let nn: Vec<i64> = vals.iter().flatten().cloned().collect();
            match f {
                Fun::Sum => if nn.is_empty() { Out::Null } else { Out::I(nn.iter().sum()) },
                Fun::Count => Out::I(nn.len() as i64),
                Fun::CountStar => Out::I(vals.len() as i64),
                Fun::Min => nn.iter().min().map(|z| Out::I(*z)).unwrap_or(Out::Null),
                Fun::Max => nn.iter().max().map(|z| Out::I(*z)).unwrap_or(Out::Null),
                Fun::Avg => if nn.is_empty() { Out::Null } else { Out::Fl(nn.iter().sum::<i64>() as f64 / nn.len() as f64) },
                Fun::First => vals.first().map(|v| ov(*v)).unwrap_or(Out::Null),
                Fun::Last => vals.last().map(|v| ov(*v)).unwrap_or(Out::Null),
                Fun::Nth(k) => vals.get((*k - 1) as usize).map(|v| ov(*v)).unwrap_or(Out::Null),
                _ => unreachable!(),
            }
        }
    }
}

fn out_eq(a: &Out, b: &Out) -> bool {
    match (a, b) {
        (Out::Null, Out::Null) => true,
        (Out::I(x), Out::I(y)) => x == y,
        (Out::Fl(x), Out::Fl(y)) => (x - y).abs() < 1e-9,
        (Out::I(x), Out::Fl(y)) | (Out::Fl(y), Out::I(x)) => (*x as f64 - y).abs() < 1e-9,
        _ => false,
    }
}
fn out_json(o: &Out) -> String {
    match o { Out::Null => "null".into(), Out::I(z) => z.to_string(), Out::Fl(x) => format!("{{\"f\":{:?}}}", x) }
}

// ------------------------------------------------------------------ running the engine
fn cell(a: &ArrayRef, r: usize) -> Result<Out, String> {
    if a.is_null(r) { return Ok(Out::Null); }
    match a.data_type() {
        DataType::Float64 | DataType::Float32 => {
            let c = cast(a, &DataType::Float64).map_err(|e| e.to_string())?;
            Ok(Out::Fl(c.as_any().downcast_ref::<Float64Array>().unwrap().value(r)))
        }
        DataType::Int8 | DataType::Int16 | DataType::Int32 | DataType::Int64 | DataType::UInt8 | DataType::UInt16 | DataType::UInt32 | DataType::UInt64 => {
            let c = cast(a, &DataType::Int64).map_err(|e| e.to_string())?;
            Ok(Out::I(c.as_any().downcast_ref::<Int64Array>().unwrap().value(r)))
        }
        other => Err(format!("unexpected result column type {other:?}")),
    }
}

async fn exec(ctx: &SessionContext, sql: &str, explain: bool) -> Result<(String, Vec<Vec<Out>>), String> {
    let df = ctx.sql(sql).await.map_err(|e| format!("plan: {e}"))?;
    let plan = df.create_physical_plan().await.map_err(|e| format!("physical plan: {e}"))?;
    let text = format!("{}", displayable(plan.as_ref()).indent(false));
    if explain { eprintln!("{text}"); }
    let nb = text.matches("BoundedWindowAggExec").count();
    let nw = text.matches("WindowAggExec").count() - nb;
    let exec = match (nb, nw) { (0, 0) => "none", (_, 0) => "bounded", (0, _) => "whole", _ => "both" }.to_string();
    let out = collect(plan, ctx.task_ctx()).await.map_err(|e| format!("exec: {e}"))?;
    let mut rows = vec![];
    for bt in &out {
        for r in 0..bt.num_rows() {
            let mut cs = vec![];
            for c in 0..bt.num_columns() { cs.push(cell(bt.column(c), r)?); }
            rows.push(cs);
        }
    }
    Ok((exec, rows))
}

fn register(ctx: &SessionContext, c: &Case) {
    let schema = Arc::new(Schema::new(vec![
        Field::new("id", DataType::Int64, false),
        Field::new("p", DataType::Int64, true),
        Field::new("k", DataType::Int64, true),
        Field::new("x", DataType::Int64, true),
    ]));
    let chunk = c.chunk.max(1);
    let mk = |rs: &[Row]| {
        let cols: Vec<ArrayRef> = vec![
            Arc::new(Int64Array::from(rs.iter().map(|r| r.id).collect::<Vec<_>>())),
            Arc::new(Int64Array::from(rs.iter().map(|r| r.p).collect::<Vec<_>>())),
            Arc::new(Int64Array::from(rs.iter().map(|r| r.k).collect::<Vec<_>>())),
            Arc::new(Int64Array::from(rs.iter().map(|r| r.x).collect::<Vec<_>>())),
        ];
        RecordBatch::try_new(schema.clone(), cols).unwrap()
    };
    let mut batches: Vec<RecordBatch> = c.rows.chunks(chunk).map(mk).collect();
    if batches.is_empty() { batches.push(mk(&[])); }
    ctx.register_table("t", Arc::new(MemTable::try_new(schema, vec![batches]).unwrap())).unwrap();
}

fn judge(c: &Case, rows: &[Vec<Out>]) -> (bool, String) {
    if rows.len() != c.rows.len() { return (false, format!("{} result rows for {} input rows", rows.len(), c.rows.len())); }
    let byid: BTreeMap<i64, &Row> = c.rows.iter().map(|r| (r.id, r)).collect();
    let mut parts: BTreeMap<Option<i64>, Vec<(i64, &Vec<Out>)>> = BTreeMap::new();
    for r in rows {
        let (id, rn) = match (&r[0], &r[1]) { (Out::I(a), Out::I(b)) => (*a, *b), _ => return (false, "id / rn not integers".into()) };
        let Some(src) = byid.get(&id) else { return (false, format!("unknown id {id}")) };
        parts.entry(src.p).or_default().push((rn, r));
    }
    for (p, mut rs) in parts {
        rs.sort_by_key(|x| x.0);
        let m = rs.len();
        if (0..m).any(|i| rs[i].0 != i as i64 + 1) { return (false, format!("partition {p:?}: rn is not 1..{m}")); }
        let src: Vec<&Row> = rs.iter().map(|(_, r)| *byid.get(match &r[0] { Out::I(a) => a, _ => unreachable!() }).unwrap()).collect();
        let n_in = c.rows.iter().filter(|r| r.p == p).count();
        if n_in != m { return (false, format!("partition {p:?}: {m} rows out, {n_in} in")); }
        let ks: Vec<Val> = src.iter().map(|r| r.k).collect();
        let xs: Vec<Val> = src.iter().map(|r| r.x).collect();
        for i in 1..m {
            if ord(ks[i - 1], c.desc, c.nf) > ord(ks[i], c.desc, c.nf) { return (false, format!("partition {p:?}: keys not sorted along rn")); }
        }
        for (ci, wc) in c.cols.iter().enumerate() {
            for i in 0..m {
                let want = expect(c, wc, &ks, &xs, i);
                let got = &rs[i].1[2 + ci];
                if !out_eq(&want, got) {
                    return (false, format!("partition {p:?} row {i} (id {}): w{ci} = {} but the definition gives {}", src[i].id, out_json(got), out_json(&want)));
                }
            }
        }
    }
    (true, String::new())
}

fn frame_json(f: &Option<Frame>) -> String {
    match f {
        None => "null".into(),
        Some(f) => format!("{{\"units\":\"{}\",\"sb\":{},\"eb\":{}}}", units_str(f.u), bound_json(f.sb), bound_json(f.eb)),
    }
}

fn run_case(rt: &tokio::runtime::Runtime, id: u64, stream: &str, c: &Case, explain: bool) {
    let sql = to_sql(c);
    let res = catch_unwind(AssertUnwindSafe(|| {
        let ctx = SessionContext::new_with_config(SessionConfig::new().with_target_partitions(c.tp).with_batch_size(c.bs));
        register(&ctx, c);
        rt.block_on(exec(&ctx, &sql, explain))
    }));
    let (exec, out, ok, why) = match res {
        Ok(Ok((exec, rows))) => {
            let (ok, why) = judge(c, &rows);
            let rs: Vec<String> = rows.iter().map(|r| format!("[{}]", r.iter().map(out_json).collect::<Vec<_>>().join(","))).collect();
            (exec, format!("{{\"rows\":[{}]}}", rs.join(",")), ok, why)
        }
        Ok(Err(e)) => ("?".to_string(), format!("{{\"err\":{}}}", json_str(&e)), false, format!("error: {e}")),
        Err(p) => {
            let msg = p.downcast_ref::<String>().cloned().or_else(|| p.downcast_ref::<&str>().map(|s| s.to_string())).unwrap_or_default();
            ("?".to_string(), format!("{{\"err\":{}}}", json_str(&format!("panic: {msg}"))), false, format!("panic: {msg}"))
        }
    };
    let rows_j: Vec<String> = c.rows.iter().map(|r| format!("[{},{},{},{}]", r.id, v_json(r.p), v_json(r.k), v_json(r.x))).collect();
    let cols_j: Vec<String> = c.cols.iter().map(|wc| format!("{{\"fn\":{},\"frame\":{}}}", fun_json(&wc.f), frame_json(&wc.frame))).collect();
    println!(
        "{{\"k\":\"sql\",\"id\":{id},\"stream\":\"{stream}\",\"tp\":{},\"bs\":{},\"chunk\":{},\"exec\":\"{exec}\",\"desc\":{},\"nf\":{},\"rows\":[{}],\"cols\":[{}],\"sql\":{},\"out\":{out},\"ok\":{ok},\"why\":{}}}",
        c.tp, c.bs, c.chunk, c.desc, c.nf, rows_j.join(","), cols_j.join(","), json_str(&sql), json_str(&why)
    );
}

// ------------------------------------------------------------------ generators
fn gen_rows(rng: &mut Rng) -> Vec<Row> {
    let n = match rng.below(12) { 0 => 0, 1 => 1, _ => rng.range(2, 14) } as usize;
    let kw = *rng.pick(&[2i64, 4, 9]);
    let np = *rng.pick(&[1i64, 2, 3]);
    (0..n)
        .map(|i| Row {
            id: i as i64,
            p: if np == 1 { Some(1) } else if rng.chance(1, 5) { None } else { Some(rng.range(1, np)) },
            k: if rng.chance(1, 6) { None } else { Some(rng.range(-1, kw)) },
            x: if rng.chance(1, 5) { None } else { Some(rng.range(-5, 9)) },
        })
        .collect()
}

fn gen_frame(rng: &mut Rng, bounded_end: bool, force_unb_following: bool) -> Frame {
    loop {
        let u = *rng.pick(&[U::Rows, U::Range, U::Groups]);
        let mk = |rng: &mut Rng, k: u64| match k {
            0 => B::UP,
            1 => B::P(if u != U::Range && rng.chance(1, 16) { u64::MAX - rng.below(3) } else { rng.below(4) }),
            2 => B::CR,
            3 => B::F(rng.below(4)),
            _ => B::UF,
        };
        let a = rng.below(4);
        let b = if force_unb_following { 4 } else { 1 + rng.below(if bounded_end { 3 } else { 4 }) };
        let (sb, eb) = (mk(rng, a), mk(rng, b));
        if valid(sb, eb) { return Frame { u, sb, eb }; }
    }
}

fn gen_fun(rng: &mut Rng) -> Fun {
    match rng.below(17) {
        0 => Fun::Sum, 1 => Fun::Count, 2 => Fun::CountStar, 3 => Fun::Min, 4 => Fun::Max, 5 => Fun::Avg,
        6 => Fun::First, 7 => Fun::Last, 8 => Fun::Nth(rng.range(1, 4)),
        9 => Fun::RowNumber, 10 => Fun::Rank, 11 => Fun::DenseRank, 12 => Fun::PercentRank, 13 => Fun::CumeDist,
        14 => Fun::Lag(rng.range(0, 3), if rng.chance(1, 2) { Some(rng.range(-9, 9)) } else { None }),
        15 => Fun::Lead(rng.range(0, 3), if rng.chance(1, 2) { Some(rng.range(-9, 9)) } else { None }),
        _ => Fun::Ntile(rng.range(1, 5)),
    }
}
fn gen_frame_fun(rng: &mut Rng) -> Fun {
    match rng.below(9) {
        0 => Fun::Sum, 1 => Fun::Count, 2 => Fun::CountStar, 3 => Fun::Min, 4 => Fun::Max, 5 => Fun::Avg,
        6 => Fun::First, 7 => Fun::Last, _ => Fun::Nth(rng.range(1, 4)),
    }
}

fn gen_case(rng: &mut Rng, whole: bool) -> Case {
    let rows = gen_rows(rng);
    let ncols = 1 + rng.below(3) as usize;
    let mut cols = vec![];
    for i in 0..ncols {
        if whole && i == 0 {
            // an aggregate / value function over a frame that ends UNBOUNDED FOLLOWING: needs the whole partition
            cols.push(WinCol { f: gen_frame_fun(rng), frame: Some(gen_frame(rng, false, true)) });
            continue;
        }
        let f = if rng.chance(3, 5) { gen_frame_fun(rng) } else { gen_fun(rng) };
        let frame = if uses_frame(&f) && rng.chance(9, 10) { Some(gen_frame(rng, !whole, false)) } else { None };
        cols.push(WinCol { f, frame });
    }
    Case {
        rows,
        desc: rng.chance(1, 2),
        nf: rng.chance(1, 2),
        cols,
        tp: *rng.pick(&[1usize, 3]),
        bs: *rng.pick(&[1usize, 2, 3, 8192]),
        chunk: *rng.pick(&[1usize, 2, 3, 100]),
    }
}

fn witnesses() -> Vec<(&'static str, Case)> {
    let rows: Vec<Row> = (0..6).map(|i| Row { id: i, p: Some(1), k: Some(i / 2), x: Some(i + 1) }).collect();
    let mk = |f: Fun, fr: Frame, bs: usize| Case { rows: rows.clone(), desc: false, nf: false, cols: vec![WinCol { f, frame: Some(fr) }], tp: 1, bs, chunk: 100 };
    vec![
        ("rows-following-offset-overflow", mk(Fun::Sum, Frame { u: U::Rows, sb: B::CR, eb: B::F(u64::MAX) }, 8192)),
        ("groups-following-offset-overflow", mk(Fun::Sum, Frame { u: U::Groups, sb: B::CR, eb: B::F(u64::MAX) }, 8192)),
        // RANGE .. n PRECEDING end bound is taken as causal: a NULL-key row is answered before its NULL peers have arrived
        ("range-end-preceding-null-peers", Case {
            rows: vec![Row { id: 0, p: Some(1), k: Some(1), x: Some(1) }, Row { id: 1, p: Some(1), k: None, x: Some(2) }, Row { id: 2, p: Some(1), k: None, x: Some(3) }],
            desc: false, nf: false,
            cols: vec![WinCol { f: Fun::Count, frame: Some(Frame { u: U::Range, sb: B::UP, eb: B::P(1) }) }],
            tp: 1, bs: 1, chunk: 100,
        }),
        ("plain-bounded", mk(Fun::Sum, Frame { u: U::Groups, sb: B::F(1), eb: B::F(2) }, 1)),
        ("plain-whole", mk(Fun::Sum, Frame { u: U::Rows, sb: B::P(1), eb: B::UF }, 2)),
    ]
}

fn main() {
    let args: Vec<String> = std::env::args().collect();
    let seed: u64 = arg(&args, "--seed", "1").parse().unwrap();
    let n: u64 = arg(&args, "--n", "100").parse().unwrap();
    let only: i64 = arg(&args, "--case", "-1").parse().unwrap();
    let explain = args.iter().any(|a| a == "--explain");
    std::panic::set_hook(Box::new(|_| {}));
    let rt = tokio::runtime::Builder::new_multi_thread().worker_threads(2).enable_all().build().unwrap();
    for (k, (name, c)) in witnesses().into_iter().enumerate() {
        let id = 1_000_000 + k as u64;
        if only >= 0 && id as i64 != only { continue; }
        run_case(&rt, id, &format!("witness:{name}"), &c, explain);
    }
    let mut rng = Rng::new(seed ^ 0x5C09);
    for id in 0..n {
        let whole = id % 2 == 1;
        let c = gen_case(&mut rng, whole);
        if only >= 0 && id as i64 != only { continue; }
        run_case(&rt, id, if whole { "whole" } else { "bounded" }, &c, explain);
    }
}
