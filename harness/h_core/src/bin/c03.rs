//! C03: logical optimization preserves query results and output schema.
//! For every generated query (the C01 generator refsql_gen plus three C03 streams that aim at the anchored rules:
//! filters over outer joins, empty inputs, LIMIT shapes) the ANALYSED logical plan is built once and then optimised
//! and executed under 2 + 2*R rule sets (R = number of rules of `Optimizer::new()`):
//!   "none" (optimizer disabled, analyzer kept), "all" (default list), "only:<rule>", "without:<rule>".
//! Every optimised logical plan's schema is compared with the analysed plan's schema (names, logical types), every
//! result batch schema with the baseline's, and the rows of every variant with the baseline's rows
//! (baseline = "none" if it can be executed, else "all"): as bags; as ORDER BY key sequences under a top-level
//! ORDER BY; by length under a LIMIT without a total ORDER BY (membership is checked against the reference in Coq).
//! Identical optimised plans (LogicalPlan ==) are executed once.  One JSON line per query; "ok" = all of the above held.
//!   c03 --seed S --n N [--case ID [--explain]]
#[path = "../refsql_gen.rs"]
mod refsql_gen;

use std::cmp::Ordering;
use std::panic::{catch_unwind, AssertUnwindSafe};
use std::sync::Arc;

use arrow::array::{Array, ArrayRef, BooleanArray, Float64Array, Int64Array, StringArray};
use arrow::compute::cast;
use arrow::datatypes::{DataType, Field, Schema};
use arrow::record_batch::RecordBatch;
use datafusion::datasource::MemTable;
use datafusion::execution::session_state::SessionState;
use datafusion::logical_expr::LogicalPlan;
use datafusion::optimizer::optimizer::Optimizer;
use datafusion::optimizer::OptimizerRule;
use datafusion::prelude::*;
use futures::FutureExt;
use h_util::{arg, json_str, Rng};
use refsql_gen::*;

type Rule = Arc<dyn OptimizerRule + Send + Sync>;
const VARIANT_SECS: u64 = 20;

// ---------------------------------------------------------------- tables (as in c01.rs)
fn column(t: Ty, vals: &[&V]) -> ArrayRef {
    match t {
        Ty::Int | Ty::Rat => Arc::new(Int64Array::from(vals.iter().map(|v| match v { V::I(z) => Some(*z), _ => None }).collect::<Vec<_>>())),
        Ty::Bool => Arc::new(BooleanArray::from(vals.iter().map(|v| match v { V::B(b) => Some(*b), _ => None }).collect::<Vec<_>>())),
        Ty::Str => Arc::new(StringArray::from(vals.iter().map(|v| match v { V::S(s) => Some(s.clone()), _ => None }).collect::<Vec<_>>())),
    }
}
fn arrow_ty(t: Ty) -> DataType { match t { Ty::Int | Ty::Rat => DataType::Int64, Ty::Bool => DataType::Boolean, Ty::Str => DataType::Utf8 } }
fn register(ctx: &SessionContext, n: usize, t: &Tab) {
    let schema = Arc::new(Schema::new(t.types.iter().enumerate().map(|(i, ty)| Field::new(format!("c{i}"), arrow_ty(*ty), true)).collect::<Vec<_>>()));
    let mut parts: Vec<Vec<RecordBatch>> = vec![];
    for p in 0..t.parts {
        let rows: Vec<&Vec<V>> = t.rows.iter().enumerate().filter(|(i, _)| i % t.parts == p).map(|(_, r)| r).collect();
        let cols: Vec<ArrayRef> = (0..t.types.len()).map(|c| column(t.types[c], &rows.iter().map(|r| &r[c]).collect::<Vec<_>>())).collect();
        parts.push(vec![RecordBatch::try_new(schema.clone(), cols).unwrap()]);
    }
    ctx.register_table(format!("t{n}").as_str(), Arc::new(MemTable::try_new(schema, parts).unwrap())).unwrap();
}
fn tables_json(tabs: &[Tab]) -> String {
    format!("[{}]", tabs.iter().map(|t| format!("{{\"types\":[{}],\"parts\":{},\"rows\":[{}]}}",
        t.types.iter().map(|x| format!("\"{}\"", ty_name(*x))).collect::<Vec<_>>().join(","), t.parts,
        t.rows.iter().map(|r| format!("[{}]", r.iter().map(v_json).collect::<Vec<_>>().join(","))).collect::<Vec<_>>().join(","))).collect::<Vec<_>>().join(","))
}

// ---------------------------------------------------------------- result cells
#[derive(Clone, Debug, PartialEq)]
enum Cell { Null, I(i64), B(bool), S(String), F(f64) }
fn cell(a: &ArrayRef, r: usize) -> Result<Cell, String> {
    if a.is_null(r) { return Ok(Cell::Null); }
    match a.data_type() {
        DataType::Null => Ok(Cell::Null),
        DataType::Boolean => Ok(Cell::B(a.as_any().downcast_ref::<BooleanArray>().unwrap().value(r))),
        DataType::Float64 | DataType::Float32 | DataType::Float16 => {
            let c = cast(a, &DataType::Float64).map_err(|e| e.to_string())?;
            Ok(Cell::F(c.as_any().downcast_ref::<Float64Array>().unwrap().value(r)))
        }
        DataType::Int8 | DataType::Int16 | DataType::Int32 | DataType::Int64 | DataType::UInt8 | DataType::UInt16 | DataType::UInt32 | DataType::UInt64 => {
            let c = cast(a, &DataType::Int64).map_err(|e| e.to_string())?;
            Ok(Cell::I(c.as_any().downcast_ref::<Int64Array>().unwrap().value(r)))
        }
        DataType::Utf8 | DataType::LargeUtf8 | DataType::Utf8View => {
            let c = cast(a, &DataType::Utf8).map_err(|e| e.to_string())?;
            Ok(Cell::S(c.as_any().downcast_ref::<StringArray>().unwrap().value(r).to_string()))
        }
        other => Err(format!("unexpected result column type {other:?}")),
    }
}
fn cell_json(c: &Cell) -> String {
    match c {
        Cell::Null => "null".into(),
        Cell::I(z) => z.to_string(),
        Cell::B(b) => b.to_string(),
        Cell::S(s) => json_str(s),
        Cell::F(x) => if x.is_finite() { format!("{{\"f\":{:?}}}", x) } else { format!("{{\"f\":null,\"text\":\"{:?}\"}}", x) },
    }
}
type Rows = Vec<Vec<Cell>>;
fn rows_json(rows: &Rows) -> String {
    format!("[{}]", rows.iter().map(|r| format!("[{}]", r.iter().map(cell_json).collect::<Vec<_>>().join(","))).collect::<Vec<_>>().join(","))
}

// ---------------------------------------------------------------- schema comparison (names + logically equivalent types)
fn logical_ty(t: &DataType) -> String {
    match t {
        DataType::Utf8 | DataType::LargeUtf8 | DataType::Utf8View => "Utf8".into(),
        DataType::Binary | DataType::LargeBinary | DataType::BinaryView => "Binary".into(),
        DataType::Dictionary(_, v) => logical_ty(v),
        DataType::RunEndEncoded(_, v) => logical_ty(v.data_type()),
        other => format!("{other:?}"),
    }
}
/// (qualified name, logical type, nullable)
fn lschema(p: &LogicalPlan) -> Vec<(String, String, bool)> {
    p.schema().iter().map(|(q, f)| (match q { Some(q) => format!("{q}.{}", f.name()), None => f.name().clone() }, logical_ty(f.data_type()), f.is_nullable())).collect()
}
fn bschema(s: &Schema) -> Vec<(String, String, bool)> {
    s.fields().iter().map(|f| (f.name().clone(), logical_ty(f.data_type()), f.is_nullable())).collect()
}
fn schema_json(s: &[(String, String, bool)]) -> String {
    format!("[{}]", s.iter().map(|(n, t, nl)| format!("[{},{},{}]", json_str(n), json_str(t), nl)).collect::<Vec<_>>().join(","))
}
fn same_names_types(a: &[(String, String, bool)], b: &[(String, String, bool)]) -> bool {
    a.len() == b.len() && a.iter().zip(b).all(|(x, y)| x.0 == y.0 && x.1 == y.1)
}

// ---------------------------------------------------------------- execution of one logical plan
#[derive(Clone, Debug)]
enum Out { Rows(Rows, Vec<(String, String, bool)>), Err(String) }

async fn run_plan(state: &SessionState, plan: &LogicalPlan) -> Out {
    let pp = match state.query_planner().create_physical_plan(plan, state).await { Ok(p) => p, Err(e) => return Out::Err(format!("physical: {e}")) };
    let bs = bschema(pp.schema().as_ref());
    let out = match datafusion::physical_plan::collect(pp, state.task_ctx()).await { Ok(o) => o, Err(e) => return Out::Err(format!("exec: {e}")) };
    let mut rows = vec![];
    for bt in &out {
        for r in 0..bt.num_rows() {
            let mut cs = vec![];
            for c in 0..bt.num_columns() { match cell(bt.column(c), r) { Ok(x) => cs.push(x), Err(e) => return Out::Err(e) } }
            rows.push(cs);
        }
    }
    Out::Rows(rows, bs)
}

// ---------------------------------------------------------------- comparison of two results
#[derive(Clone, Debug)]
enum Mode { Bag, Ordered(Vec<(E, bool, bool)>, bool), AnyK }
fn mode_of(q: &Q) -> Mode {
    match q {
        Q::Sort(ks, _) => Mode::Ordered(ks.clone(), false),
        Q::Limit(_, _, q1) => match &**q1 {
            Q::Sort(ks, _) => Mode::Ordered(ks.clone(), true),
            _ => { let mut c: &Q = q1; while let Q::Limit(_, _, x) = c { c = x; } if matches!(c, Q::Sort(..)) { Mode::Bag } else { Mode::AnyK } }
        },
        _ => Mode::Bag,
    }
}
fn mode_name(m: &Mode) -> &'static str { match m { Mode::Bag => "bag", Mode::Ordered(_, false) => "ordered", Mode::Ordered(_, true) => "ordered_limit", Mode::AnyK => "anyk" } }
fn cell_cmp_nn(a: &Cell, b: &Cell) -> Ordering {
    match (a, b) {
        (Cell::I(x), Cell::I(y)) => x.cmp(y),
        (Cell::B(x), Cell::B(y)) => x.cmp(y),
        (Cell::S(x), Cell::S(y)) => x.as_bytes().cmp(y.as_bytes()),
        (Cell::F(x), Cell::F(y)) => x.partial_cmp(y).unwrap_or(Ordering::Equal),
        (Cell::I(x), Cell::F(y)) => (*x as f64).partial_cmp(y).unwrap_or(Ordering::Equal),
        (Cell::F(x), Cell::I(y)) => x.partial_cmp(&(*y as f64)).unwrap_or(Ordering::Equal),
        _ => Ordering::Equal,
    }
}
/// value of an ORDER BY key over an output row (the generator's keys: a column, or column op literal)
fn key_val(e: &E, r: &[Cell]) -> Option<Cell> {
    match e {
        E::Col(0, i) => r.get(*i).cloned(),
        E::Lit(V::I(z), _) => Some(Cell::I(*z)),
        E::Lit(V::Null, _) => Some(Cell::Null),
        E::Arith(op, a, b) => {
            match (key_val(a, r)?, key_val(b, r)?) {
                (Cell::Null, _) | (_, Cell::Null) => Some(Cell::Null),
                (Cell::I(x), Cell::I(y)) => match *op {
                    "+" => x.checked_add(y).map(Cell::I), "-" => x.checked_sub(y).map(Cell::I), "*" => x.checked_mul(y).map(Cell::I),
                    "%" => if y == 0 { None } else { x.checked_rem(y).map(Cell::I) }, "/" => if y == 0 { None } else { x.checked_div(y).map(Cell::I) },
                    _ => None },
                _ => None,
            }
        }
        _ => None,
    }
}
fn key_cmp(ks: &[(E, bool, bool)], a: &[Cell], b: &[Cell]) -> Option<Ordering> {
    for (e, desc, nf) in ks {
        let (x, y) = (key_val(e, a)?, key_val(e, b)?);
        let c = match (&x, &y) {
            (Cell::Null, Cell::Null) => Ordering::Equal,
            (Cell::Null, _) => if *nf { Ordering::Less } else { Ordering::Greater },
            (_, Cell::Null) => if *nf { Ordering::Greater } else { Ordering::Less },
            _ => { let c = cell_cmp_nn(&x, &y); if *desc { c.reverse() } else { c } }
        };
        if c != Ordering::Equal { return Some(c); }
    }
    Some(Ordering::Equal)
}
fn canon(rows: &Rows) -> Vec<String> { let mut v: Vec<String> = rows.iter().map(|r| r.iter().map(cell_json).collect::<Vec<_>>().join(",")).collect(); v.sort(); v }
/// None = equivalent; Some(reason) = the two results are different answers to the query
fn differ(m: &Mode, a: &Rows, b: &Rows) -> Option<String> {
    match m {
        Mode::Bag => if canon(a) == canon(b) { None } else { Some("row bags differ".into()) },
        Mode::AnyK => if a.len() == b.len() { None } else { Some(format!("row counts differ under LIMIT: {} vs {}", a.len(), b.len())) },
        Mode::Ordered(ks, lim) => {
            if a.len() != b.len() { return Some(format!("row counts differ: {} vs {}", a.len(), b.len())); }
            if !*lim && canon(a) != canon(b) { return Some("row bags differ".into()); }
            for i in 0..a.len() {
                match key_cmp(ks, &a[i], &b[i]) { Some(Ordering::Equal) => {}, Some(_) => return Some(format!("ORDER BY key sequences differ at position {i}")), None => return None }
                if i > 0 { if let Some(Ordering::Greater) = key_cmp(ks, &b[i - 1], &b[i]) { return Some(format!("rows not sorted at position {i}")); } }
            }
            None
        }
    }
}

// ---------------------------------------------------------------- C03 streams (on top of refsql_gen's 19)
const C03_STREAMS: [&str; 3] = ["c03_outer", "c03_empty", "c03_limit"];
fn bx(e: E) -> Box<E> { Box::new(e) }
fn shift_cols(e: &E, by: usize) -> E {
    let s = |x: &E| bx(shift_cols(x, by));
    match e {
        E::Col(0, i) => E::Col(0, i + by),
        E::Col(..) | E::Lit(..) => e.clone(),
        E::Arith(op, a, b) => E::Arith(op, s(a), s(b)),
        E::Cmp(op, a, b) => E::Cmp(op, s(a), s(b)),
        E::And(a, b) => E::And(s(a), s(b)),
        E::Or(a, b) => E::Or(s(a), s(b)),
        E::Not(a) => E::Not(s(a)),
        E::IsNull(n, a) => E::IsNull(*n, s(a)),
        E::Distinct(n, a, b) => E::Distinct(*n, s(a), s(b)),
        E::Between(n, a, lo, hi) => E::Between(*n, s(a), s(lo), s(hi)),
        E::InList(n, a, l) => E::InList(*n, s(a), l.iter().map(|x| shift_cols(x, by)).collect()),
        E::Case(ws, els) => E::Case(ws.iter().map(|(w, t)| (shift_cols(w, by), shift_cols(t, by))).collect(), els.as_ref().map(|x| s(x))),
        E::Coalesce(l) => E::Coalesce(l.iter().map(|x| shift_cols(x, by)).collect()),
        E::Nullif(a, b) => E::Nullif(s(a), s(b)),
        E::Scalar(_) | E::Exists(..) | E::InSub(..) => e.clone(),   // not produced by Gen::pred
    }
}
fn total_sort(q: Q, w: usize, rng: &mut Rng) -> Q {
    Q::Sort((0..w).map(|i| (E::Col(0, i), rng.chance(1, 2), rng.chance(1, 2))).collect(), Box::new(q))
}
fn empty_of(g: &mut Gen, q: Q) -> Q {
    match g.rng.below(4) {
        0 => Q::Filter(E::Lit(V::B(false), Ty::Bool), Box::new(q)),
        1 => Q::Filter(E::Cmp("=", bx(E::Lit(V::I(1), Ty::Int)), bx(E::Lit(V::I(0), Ty::Int))), Box::new(q)),
        2 => Q::Filter(E::Lit(V::Null, Ty::Bool), Box::new(q)),
        _ => Q::Limit(0, Some(0), Box::new(q)),
    }
}
fn table_of(g: &mut Gen) -> (Q, Vec<Ty>) { let n = g.rng.below(g.tabs.len() as u64) as usize; (Q::Table(n), g.tabs[n].types.clone()) }
fn side(g: &mut Gen) -> (Q, Vec<Ty>) {
    let (q, ts) = table_of(g);
    if g.rng.chance(1, 4) { let p = g.pred(&ts, 1); (Q::Filter(p, Box::new(q)), ts) } else { (q, ts) }
}
fn eq_on(g: &mut Gen, tl: &[Ty], tr: &[Ty]) -> E {
    // c0 is BIGINT in every table
    let mut on = E::Cmp("=", bx(E::Col(0, 0)), bx(E::Col(0, tl.len())));
    match g.rng.below(10) {
        0 | 1 => { let p = g.pred(tr, 1); on = E::And(bx(on), bx(shift_cols(&p, tl.len()))); }      // right-only ON conjunct
        2 | 3 => { let p = g.pred(tl, 1); on = E::And(bx(on), bx(p)); }                             // left-only ON conjunct
        4 => { let mut ts = tl.to_vec(); ts.extend_from_slice(tr); let p = g.pred(&ts, 1); on = E::And(bx(on), bx(p)); }
        _ => {}
    }
    on
}
fn c03_outer(g: &mut Gen) -> Q {
    let (l, tl) = side(g);
    let (r, tr) = side(g);
    let k = *g.rng.pick(&[JK::Left, JK::Left, JK::Right, JK::Right, JK::Full, JK::Full, JK::Inner]);
    let on = eq_on(g, &tl, &tr);
    let mut ts = tl.clone();
    ts.extend_from_slice(&tr);
    let mut q = Q::Join(k, on, Box::new(l), Box::new(r));
    if g.rng.chance(1, 5) { // a second outer join on top
        let (r2, tr2) = side(g);
        let k2 = *g.rng.pick(&[JK::Left, JK::Right, JK::Full, JK::Inner]);
        let on2 = E::Cmp("=", bx(E::Col(0, *g.rng.pick(&[0, tl.len()]))), bx(E::Col(0, ts.len())));
        ts.extend_from_slice(&tr2);
        q = Q::Join(k2, on2, Box::new(q), Box::new(r2));
    }
    let wl = tl.len();
    let p = match g.rng.below(13) {
        0 | 1 | 2 => { let p = g.pred(&ts[wl..].to_vec(), 2); Some(shift_cols(&p, wl)) }   // right side only
        3 | 4 => Some(g.pred(&tl, 2)),                                                       // left side only
        5 | 6 => Some(g.pred(&ts, 2)),
        7 | 11 => Some(E::IsNull(false, bx(E::Col(0, wl + g.rng.below(tr.len() as u64) as usize)))),   // the anti-join idiom
        8 => Some(E::IsNull(false, bx(E::Col(0, g.rng.below(wl as u64) as usize)))),
        9 => { let a = g.pred(&ts[wl..].to_vec(), 1); let b_ = g.pred(&tl, 1); Some(if g.rng.chance(1, 2) { E::Or(bx(shift_cols(&a, wl)), bx(b_)) } else { E::And(bx(shift_cols(&a, wl)), bx(b_)) }) }
        10 => Some(E::Not(bx(E::IsNull(g.rng.chance(1, 2), bx(E::Col(0, wl + g.rng.below(tr.len() as u64) as usize)))))),
        _ => None,
    };
    if let Some(p) = p { q = Q::Filter(p, Box::new(q)); }
    if g.rng.chance(1, 3) {
        let n = 1 + g.rng.below(3) as usize;
        let es: Vec<E> = (0..n).map(|_| E::Col(0, g.rng.below(ts.len() as u64) as usize)).collect();
        let ots: Vec<Ty> = es.iter().map(|e| if let E::Col(0, i) = e { ts[*i] } else { Ty::Int }).collect();
        q = Q::Project(es, Box::new(q));
        if g.rng.chance(1, 4) { q = g.order(q, &ots); }
    } else if g.rng.chance(1, 6) { q = g.order(q, &ts); }
    q
}
fn c03_empty(g: &mut Gen) -> Q {
    let (l0, tl) = side(g);
    let (r0, tr) = side(g);
    let which = g.rng.below(3); // 0 left empty, 1 right empty, 2 both
    let l = if which != 1 { empty_of(g, l0) } else { l0 };
    let r = if which != 0 { empty_of(g, r0) } else { r0 };
    let mut ts = tl.clone();
    ts.extend_from_slice(&tr);
    match g.rng.below(12) {
        0..=6 => {
            let k = *g.rng.pick(&[JK::Inner, JK::Left, JK::Left, JK::Right, JK::Right, JK::Full, JK::Full, JK::Cross]);
            let on = if k == JK::Cross { E::Lit(V::B(true), Ty::Bool) } else { eq_on(g, &tl, &tr) };
            let mut q = Q::Join(k, on, Box::new(l), Box::new(r));
            if g.rng.chance(1, 4) { let p = g.pred(&ts, 1); q = Q::Filter(p, Box::new(q)); }
            if g.rng.chance(1, 4) { q = Q::Group(vec![], vec![(Agg::CountStar, E::Lit(V::I(1), Ty::Int))], None, Box::new(q)); }
            q
        }
        7 | 8 => { let on = eq_on(g, &tl, &tr); Q::Semi(g.rng.chance(1, 2), on, Box::new(l), Box::new(r)) }
        9 => { // UNION ALL of single-column branches
            let a = Q::Project(vec![E::Col(0, 0)], Box::new(l));
            let b_ = Q::Project(vec![E::Col(0, 0)], Box::new(r));
            Q::SetOp(SetOp::Union, g.rng.chance(2, 3), Box::new(a), Box::new(b_))
        }
        10 => { // aggregate over an empty input, with and without grouping keys
            let e = empty_of(g, Q::Table(0));
            let ks = if g.rng.chance(1, 2) { vec![E::Col(0, 0)] } else { vec![] };
            Q::Group(ks, vec![(Agg::CountStar, E::Lit(V::I(1), Ty::Int)), (Agg::Sum, E::Col(0, 0))], None, Box::new(e))
        }
        _ => Q::Distinct(Box::new(Q::Project(vec![E::Col(0, 0)], Box::new(l)))),
    }
}
fn c03_limit(g: &mut Gen) -> Q {
    let lim = |g: &mut Gen| (*g.rng.pick(&[0u64, 0, 1, 2, 3]), if g.rng.chance(5, 6) { Some(g.rng.below(6)) } else { None });
    let shape = g.rng.below(10);
    match shape {
        0 | 1 => { // limit over UNION ALL of branches whose second column has the type of t.c1 only if both are BIGINT: keep one column
            let (a, _) = side(g); let (b_, _) = side(g);
            let u = Q::SetOp(SetOp::Union, true, Box::new(Q::Project(vec![E::Col(0, 0)], Box::new(a))), Box::new(Q::Project(vec![E::Col(0, 0)], Box::new(b_))));
            let (o, n) = lim(g);
            Q::Limit(o, n, Box::new(u))
        }
        2 => { // limit over projection over UNION ALL
            let (a, _) = side(g); let (b_, _) = side(g);
            let u = Q::SetOp(SetOp::Union, true, Box::new(Q::Project(vec![E::Col(0, 0)], Box::new(a))), Box::new(Q::Project(vec![E::Col(0, 0)], Box::new(b_))));
            let p = Q::Project(vec![E::Arith("+", bx(E::Col(0, 0)), bx(E::Lit(V::I(1), Ty::Int))), E::Col(0, 0)], Box::new(u));
            let (o, n) = lim(g);
            Q::Limit(o, n, Box::new(p))
        }
        3 => { // limit over limit
            let (a, _) = side(g);
            let (o1, n1) = lim(g); let (o2, n2) = lim(g);
            Q::Limit(o2, n2, Box::new(Q::Limit(o1, n1, Box::new(a))))
        }
        4 | 5 => { // limit over limit over a total sort (deterministic)
            let (a, ts) = side(g);
            let s = total_sort(a, ts.len(), g.rng);
            let (o1, n1) = lim(g); let (o2, n2) = lim(g);
            if shape == 4 { Q::Limit(o2, n2, Box::new(Q::Limit(o1, n1, Box::new(s)))) }
            else { Q::Limit(o2, n2, Box::new(Q::Project(vec![E::Col(0, 0), E::Col(0, 1)], Box::new(Q::Limit(o1, n1, Box::new(s)))))) }
        }
        6 | 7 => { // limit over a left / right / cross join
            let (l, tl) = side(g); let (r, tr) = side(g);
            let k = *g.rng.pick(&[JK::Left, JK::Right, JK::Cross, JK::Inner, JK::Full]);
            let on = if k == JK::Cross { E::Lit(V::B(true), Ty::Bool) } else { eq_on(g, &tl, &tr) };
            let (o, n) = lim(g);
            Q::Limit(o, n, Box::new(Q::Join(k, on, Box::new(l), Box::new(r))))
        }
        8 => { let (a, ts) = side(g); let (o, n) = lim(g); Q::Limit(o, n, Box::new(total_sort(a, ts.len(), g.rng))) }
        _ => { // limit over a filter / aggregate
            let (a, ts) = side(g);
            let (o, n) = lim(g);
            if g.rng.chance(1, 2) { let p = g.pred(&ts, 1); Q::Limit(o, n, Box::new(Q::Filter(p, Box::new(a)))) }
            else { Q::Limit(o, n, Box::new(Q::Group(vec![E::Col(0, 0)], vec![(Agg::CountStar, E::Lit(V::I(1), Ty::Int))], None, Box::new(a)))) }
        }
    }
}

// ---------------------------------------------------------------- fixed witnesses (run first on every run)
fn iv(x: i64) -> V { V::I(x) }
fn sv(x: &str) -> V { V::S(x.to_string()) }
fn witnesses() -> Vec<(&'static str, Vec<Tab>, Q)> {
    let mut w = vec![];
    // KF1: NOT IN subquery under OR (LeftMark join, two-valued)
    let t0 = Tab { types: vec![Ty::Int, Ty::Str, Ty::Bool], parts: 1, rows: vec![
        vec![iv(2), sv(""), V::Null], vec![iv(2), V::Null, V::B(true)], vec![V::Null, V::Null, V::Null], vec![iv(3), V::Null, V::B(true)], vec![iv(2), sv("b"), V::B(true)]] };
    let sub = Q::Project(vec![E::Col(0, 1)], Box::new(Q::Table(0)));
    let q1 = Q::Project(vec![E::Col(0, 0), E::Col(0, 1)], Box::new(Q::Filter(
        E::Or(bx(E::InSub(true, bx(E::Col(0, 1)), Box::new(sub.clone()))), bx(E::Cmp("=", bx(E::Col(0, 0)), bx(E::Lit(V::I(99), Ty::Int))))), Box::new(Q::Table(0)))));
    w.push(("witness_kf1", vec![t0.clone()], q1));
    // NOT IN as a top-level conjunct: null-aware anti join; two-valued when extract_equijoin_predicate does not run
    let q6 = Q::Project(vec![E::Col(0, 0), E::Col(0, 1)], Box::new(Q::Filter(E::InSub(true, bx(E::Col(0, 1)), Box::new(sub)), Box::new(Q::Table(0)))));
    w.push(("witness_not_in_conjunct", vec![t0.clone()], q6));
    // KF3: NOT IN with a column-free left operand
    let t1 = Tab { types: vec![Ty::Int, Ty::Int], parts: 1, rows: vec![vec![iv(1), iv(1)], vec![iv(2), V::Null]] };
    let sub3 = Q::Project(vec![E::Lit(V::I(1), Ty::Int)], Box::new(Q::Table(1)));
    let q3 = Q::Project(vec![E::Col(0, 0)], Box::new(Q::Filter(E::InSub(true, bx(E::Lit(V::Null, Ty::Int)), Box::new(sub3)), Box::new(Q::Table(0)))));
    w.push(("witness_kf3", vec![t0.clone(), t1], q3));
    // KF4: ORDER BY over the null-supplying side of an outer join filtered to a constant
    let t4 = Tab { types: vec![Ty::Int, Ty::Int], parts: 1, rows: vec![
        vec![iv(2), V::Null], vec![iv(1), iv(3)], vec![iv(1), iv(1)], vec![iv(2), iv(1)], vec![iv(2), iv(2)], vec![iv(2), iv(1)], vec![iv(-1), V::Null], vec![iv(0), iv(1)]] };
    let on = E::And(bx(E::Cmp("=", bx(E::Col(0, 1)), bx(E::Col(0, 3)))), bx(E::Cmp("=", bx(E::Col(0, 2)), bx(E::Lit(V::I(0), Ty::Int)))));
    let j = Q::Project(vec![E::Col(0, 2)], Box::new(Q::Join(JK::Left, on, Box::new(Q::Table(0)), Box::new(Q::Table(0)))));
    let q4 = Q::Sort(vec![(E::Col(0, 0), false, true)], Box::new(j));
    w.push(("witness_kf4", vec![t4], q4));
    // push_down_filter alone: constant HAVING over an aggregate without GROUP BY
    let t5 = Tab { types: vec![Ty::Int, Ty::Int], parts: 1, rows: vec![vec![iv(1), iv(1)], vec![iv(2), V::Null]] };
    let q5 = Q::Group(vec![], vec![(Agg::CountStar, E::Lit(V::I(1), Ty::Int))], Some(E::Lit(V::B(false), Ty::Bool)), Box::new(Q::Table(0)));
    w.push(("witness_having_const", vec![t5], q5));
    // C01-KF5: physical filter pushdown below a RIGHT JOIN resolves the other input's columns by name (target_partitions = 1)
    let t5a = Tab { types: vec![Ty::Int, Ty::Int, Ty::Str], parts: 3, rows: vec![
        vec![iv(2), iv(-1), sv("a")], vec![iv(2), iv(2), sv("")], vec![iv(2), iv(1), V::Null], vec![V::Null, iv(1), sv("b")], vec![iv(-1), iv(2), V::Null], vec![iv(1), V::Null, sv("a")]] };
    let t5b = Tab { types: vec![Ty::Int, Ty::Int, Ty::Str], parts: 1, rows: vec![
        vec![V::Null, iv(3), sv("c")], vec![V::Null, iv(-1), sv("a")], vec![V::Null, iv(-1), V::Null], vec![V::Null, iv(1), sv("")]] };
    let w5 = E::And(bx(E::Distinct(false, bx(E::Col(0, 5)), bx(E::Lit(sv("a"), Ty::Str)))), bx(E::Distinct(true, bx(E::Col(0, 1)), bx(E::Col(0, 4)))));
    let j5 = Q::Filter(w5, Box::new(Q::Join(JK::Right, E::Cmp("=", bx(E::Col(0, 0)), bx(E::Col(0, 4))), Box::new(Q::Table(1)), Box::new(Q::Table(0)))));
    w.push(("witness_c01_kf5", vec![t5a, t5b], Q::Project(vec![E::Col(0, 5)], Box::new(j5))));
    // correlated NOT IN: the null-aware anti join looks for NULLs in the whole subquery input, ignoring the correlation filter
    let t8a = Tab { types: vec![Ty::Int, Ty::Bool, Ty::Int], parts: 1, rows: vec![vec![V::Null, V::B(true), iv(0)]] };
    let t8b = Tab { types: vec![Ty::Int, Ty::Int], parts: 1, rows: vec![vec![iv(0), iv(2)], vec![iv(2), iv(3)], vec![V::Null, V::Null], vec![iv(0), iv(1)], vec![V::Null, iv(3)]] };
    let sub8 = Q::Project(vec![E::Col(0, 0)], Box::new(Q::Filter(E::Cmp("<>", bx(E::Col(0, 0)), bx(E::Col(1, 0))), Box::new(Q::Table(0)))));
    let q8 = Q::Project(vec![E::Col(0, 0), E::Col(0, 1)], Box::new(Q::Filter(E::InSub(true, bx(E::Col(0, 1)), Box::new(sub8)), Box::new(Q::Table(1)))));
    w.push(("witness_correlated_not_in", vec![t8a, t8b], q8));
    // stacked filters over a projection of a self join (two columns named c0) when push_down_filter does not merge them
    let t9 = Tab { types: vec![Ty::Int, Ty::Bool], parts: 2, rows: vec![
        vec![iv(2), V::B(false)], vec![iv(3), V::B(true)], vec![iv(1), V::B(false)], vec![iv(2), V::Null], vec![iv(2), V::B(true)], vec![iv(1), V::B(false)]] };
    let on9 = E::And(bx(E::Cmp("=", bx(E::Col(0, 1)), bx(E::Col(0, 3)))), bx(E::Col(0, 3)));
    let p9 = E::Cmp("<=", bx(E::Between(false, bx(E::Col(0, 0)), bx(E::Lit(V::Null, Ty::Int)), bx(E::Col(0, 2)))),
        bx(E::Or(bx(E::InList(true, bx(E::Col(0, 0)), vec![E::Col(0, 0)])), bx(E::IsNull(true, bx(E::Col(0, 2)))))));
    let j9 = Q::Filter(p9, Box::new(Q::Join(JK::Inner, on9, Box::new(Q::Table(0)), Box::new(Q::Table(0)))));
    let q9 = Q::Group(vec![E::Col(0, 0)], vec![(Agg::Count, E::Col(0, 2)), (Agg::CountDistinct, E::Col(0, 0))], None, Box::new(j9));
    w.push(("witness_stacked_filters", vec![t9], q9));
    // ORDER BY .. LIMIT 0: Sort with fetch = 0 when eliminate_limit is not in the rule set
    let t7 = Tab { types: vec![Ty::Int, Ty::Int], parts: 1, rows: vec![vec![iv(1), iv(1)], vec![iv(2), V::Null]] };
    let q7 = Q::Limit(0, Some(0), Box::new(Q::Sort(vec![(E::Col(0, 0), false, true)], Box::new(Q::Table(0)))));
    w.push(("witness_order_limit0", vec![t7], q7));
    w
}

// ---------------------------------------------------------------- one case
fn panic_msg(p: &Box<dyn std::any::Any + Send>) -> String {
    p.downcast_ref::<String>().cloned().or_else(|| p.downcast_ref::<&str>().map(|s| s.to_string())).unwrap_or_default()
}
struct Variant { name: String, rules: Vec<Rule> }
fn variants() -> Vec<Variant> {
    let all = Optimizer::new().rules;
    let mut v = vec![Variant { name: "none".into(), rules: vec![] }, Variant { name: "all".into(), rules: all.clone() }];
    for r in &all { v.push(Variant { name: format!("only:{}", r.name()), rules: vec![r.clone()] }); }
    for (i, r) in all.iter().enumerate() {
        v.push(Variant { name: format!("without:{}", r.name()), rules: all.iter().enumerate().filter(|(j, _)| *j != i).map(|(_, x)| x.clone()).collect() });
    }
    v
}

async fn run_case(ctx: &SessionContext, sql: &str, q: &Q, explain: bool) -> Result<(String, bool), String> {
    let state = ctx.state();
    let plan = state.create_logical_plan(sql).await.map_err(|e| format!("plan: {e}"))?;
    let analyzed = state.analyzer().execute_and_check(plan, state.config_options(), |_, _| {}).map_err(|e| format!("analyze: {e}"))?;
    let s0 = lschema(&analyzed);
    let mode = mode_of(q);
    if explain { eprintln!("--- analyzed\n{}", analyzed.display_indent()); }
    let mut plans: Vec<(LogicalPlan, Out)> = vec![];          // distinct optimised plans and their results
    let mut res: Vec<(String, Result<usize, String>)> = vec![]; // variant -> index into plans | optimizer error
    let mut schema_bad: Vec<String> = vec![];
    for v in variants() {
        let opt = Optimizer::with_rules(v.rules.clone());
        let optimized = match catch_unwind(AssertUnwindSafe(|| opt.optimize(analyzed.clone(), &state, |_, _| {}))) {
            Ok(r) => r.map_err(|e| format!("optimize: {e}")),
            Err(p) => Err(format!("panic: optimize: {}", panic_msg(&p))),
        };
        match optimized {
            Err(e) => res.push((v.name, Err(e))),
            Ok(p) => {
                let s = lschema(&p);
                if !same_names_types(&s0, &s) {
                    schema_bad.push(format!("{{\"rs\":{},\"kind\":\"logical\",\"got\":{}}}", json_str(&v.name), schema_json(&s)));
                }
                let idx = match plans.iter().position(|(x, _)| *x == p) {
                    Some(i) => i,
                    None => {
                        if explain {
                            eprintln!("--- {} (plan #{})\n{}", v.name, plans.len(), p.display_indent());
                            if let Ok(pp) = state.query_planner().create_physical_plan(&p, &state).await { eprintln!("  physical:\n{}", datafusion::physical_plan::displayable(pp.as_ref()).indent(false)); }
                        }
                        // every variant gets VARIANT_SECS (C01-KF6: hash joins intermittently never finish); a timed-out variant is retried once
                        let mut o = Out::Err(String::new());
                        for attempt in 0..2 {
                            o = match tokio::time::timeout(std::time::Duration::from_secs(VARIANT_SECS), AssertUnwindSafe(run_plan(&state, &p)).catch_unwind()).await {
                                Ok(Ok(o)) => o,
                                Ok(Err(pn)) => Out::Err(format!("panic: {}", panic_msg(&pn))),
                                Err(_) => Out::Err(format!("timeout: the plan did not finish within {VARIANT_SECS} s (attempt {})", attempt + 1)),
                            };
                            if !matches!(&o, Out::Err(e) if e.starts_with("timeout:")) { break; }
                        }
                        plans.push((p, o));
                        plans.len() - 1
                    }
                };
                res.push((v.name, Ok(idx)));
            }
        }
    }
    // groups of variants with textually identical output
    let mut groups: Vec<(String, Vec<String>, Option<usize>)> = vec![];   // (out json, rule sets, plan index)
    for (name, r) in &res {
        let (oj, pi) = match r {
            Err(e) => (format!("{{\"err\":{}}}", json_str(e)), None),
            Ok(i) => match &plans[*i].1 { Out::Rows(rows, _) => (format!("{{\"rows\":{}}}", rows_json(rows)), Some(*i)), Out::Err(e) => (format!("{{\"err\":{}}}", json_str(e)), Some(*i)) },
        };
        match groups.iter_mut().find(|g| g.0 == oj) { Some(g) => g.1.push(name.clone()), None => groups.push((oj, vec![name.clone()], pi)) }
    }
    // baseline: "none" if executable, else "all"
    let rows_of = |name: &str| -> Option<(&Rows, &Vec<(String, String, bool)>)> {
        res.iter().find(|(n, _)| n == name).and_then(|(_, r)| r.as_ref().ok()).and_then(|i| match &plans[*i].1 { Out::Rows(r, b) => Some((r, b)), _ => None })
    };
    let (bname, base) = match rows_of("none") { Some(b) => ("none", Some(b)), None => ("all", rows_of("all")) };
    let mut diffs: Vec<String> = vec![];
    if let Some((brows, bsch)) = base {
        let mut seen: Vec<usize> = vec![];
        for (name, r) in &res {
            if let Ok(i) = r {
                if seen.contains(i) { continue; }
                seen.push(*i);
                if let Out::Rows(rows, sch) = &plans[*i].1 {
                    if let Some(why) = differ(&mode, brows, rows) {
                        let names: Vec<String> = res.iter().filter(|(_, r2)| r2.as_ref().ok() == Some(i)).map(|(n, _)| json_str(n)).collect();
                        diffs.push(format!("{{\"a\":{},\"b\":[{}],\"what\":{},\"rows_a\":{},\"rows_b\":{},\"plan_b\":{}}}", json_str(bname), names.join(","), json_str(&why),
                            rows_json(brows), rows_json(rows), json_str(&format!("{}", plans[*i].0.display_indent()))));
                    }
                    if !same_names_types(bsch, sch) {
                        schema_bad.push(format!("{{\"rs\":{},\"kind\":\"batch\",\"got\":{},\"base\":{}}}", json_str(name), schema_json(sch), schema_json(bsch)));
                    }
                }
            }
        }
    }
    let ok = diffs.is_empty() && schema_bad.is_empty();
    let gj: Vec<String> = groups.iter().map(|(oj, names, pi)| {
        let plan = if groups.len() > 1 { match pi { Some(i) => json_str(&format!("{}", plans[*i].0.display_indent())), None => "null".into() } } else { "null".into() };
        format!("{{\"rs\":[{}],\"out\":{oj},\"plan\":{plan}}}", names.iter().map(|n| json_str(n)).collect::<Vec<_>>().join(","))
    }).collect();
    Ok((format!("\"mode\":\"{}\",\"schema\":{},\"nplans\":{},\"nvariants\":{},\"base\":\"{bname}\",\"groups\":[{}],\"diffs\":[{}],\"schema_bad\":[{}]",
        mode_name(&mode), schema_json(&s0), plans.len(), res.len(), gj.join(","), diffs.join(","), schema_bad.join(",")), ok))
}

fn main() {
    let args: Vec<String> = std::env::args().collect();
    let seed: u64 = arg(&args, "--seed", "1").parse().unwrap();
    let n: u64 = arg(&args, "--n", "100").parse().unwrap();
    let only: i64 = arg(&args, "--case", "-1000").parse().unwrap();
    let explain = args.iter().any(|a| a == "--explain");
    if args.iter().any(|a| a == "--rules") { for r in Optimizer::new().rules { println!("{}", r.name()); } return; }
    let rt = tokio::runtime::Builder::new_multi_thread().worker_threads(2).enable_all().build().unwrap();
    let mut rng = Rng::new(seed);
    let wit = witnesses();
    let nw = wit.len() as i64;
    let nstreams = (STREAMS.len() + C03_STREAMS.len()) as u64;
    // ids -nw .. -1 are the fixed witnesses, 0 .. n-1 the generated cases
    for id in -nw..(n as i64) {
        let (stream, tabs, tp, bs, q): (String, Vec<Tab>, usize, usize, Q) = if id < 0 {
            let (name, tabs, q) = wit[(id + nw) as usize].clone();
            (name.to_string(), tabs, if name == "witness_c01_kf5" { 1 } else { 2 }, 8192, q)
        } else {
            let si = (id as u64 % nstreams) as usize;
            let stream = if si < STREAMS.len() { STREAMS[si] } else { C03_STREAMS[si - STREAMS.len()] };
            let tabs = Gen::gen_tables(&mut rng);
            let tp = 1 + rng.below(3) as usize;
            let bs = *rng.pick(&[8192usize, 8192, 2, 3]);
            let q = { let mut g = Gen { rng: &mut rng, tabs: tabs.clone() };
                match stream { "c03_outer" => c03_outer(&mut g), "c03_empty" => c03_empty(&mut g), "c03_limit" => c03_limit(&mut g), s => g.query(s) } };
            (stream.to_string(), tabs, tp, bs, q)
        };
        if only > -1000 && id != only { continue; }
        let widths: Vec<usize> = tabs.iter().map(|t| t.types.len()).collect();
        let sql = to_sql(&q, &widths);
        let qj = q_json(&q, &widths);
        let res = catch_unwind(AssertUnwindSafe(|| {
            let ctx = SessionContext::new_with_config(SessionConfig::new().with_target_partitions(tp).with_batch_size(bs));
            for (i, t) in tabs.iter().enumerate() { register(&ctx, i, t); }
            rt.block_on(run_case(&ctx, &sql, &q, explain))
        }));
        let (body, ok) = match res {
            Ok(Ok((b, ok))) => (b, ok),
            Ok(Err(e)) => (format!("\"plan_err\":{}", json_str(&e)), true),
            Err(p) => {
                let msg = p.downcast_ref::<String>().cloned().or_else(|| p.downcast_ref::<&str>().map(|s| s.to_string())).unwrap_or_default();
                (format!("\"panic\":{}", json_str(&msg)), false)
            }
        };
        println!("{{\"id\":{id},\"stream\":\"{stream}\",\"tp\":{tp},\"bs\":{bs},\"tables\":{},\"q\":{qj},\"sql\":{},{body},\"ok\":{ok}}}",
            tables_json(&tabs), json_str(&sql));
    }
}
