//! C38: SQL generated from a plan / an expression means the same as the plan / the expression.
//! Streams (one JSON line per case, witnesses first):
//!   witness:*   fixed expressions / queries, one per proposed known finding (ids 1000000..)
//!   pairs       every (parent operator, child operator, side) over column atoms, default and pretty unparser: structural
//!   frag        random typed trees over the fragment modelled in Coq (columns, small literals, all binary operators, LIKE, NOT,
//!               unary minus, IS ..., IN (atoms)); default and pretty: structural + per-row semantic + token/parse tie data
//!   wide        frag + BETWEEN, CASE, CAST, negative / NULL literals, IN with expressions: structural + semantic
//!   dialect     wide expressions unparsed with the postgres / mysql / sqlite / duckdb unparser dialect: text must parse with sqlparser's dialect
//!   plan        C01 queries (refsql_gen) -> logical plan -> plan_to_sql -> text -> plan again -> both executed: rows + column names
//! The real code under test: datafusion_sql::unparser::Unparser::{expr_to_sql, plan_to_sql}; re-parser: SessionContext::parse_sql_expr / sql.
//!   c38 --seed S --n N [--only STREAM] [--probe "<fully parenthesised sql expr>"]
#[path = "../refsql_gen.rs"]
#[allow(dead_code)]
mod refsql_gen;

use std::sync::Arc;

use arrow::array::{Array, ArrayRef, BooleanArray, Float64Array, Int64Array, StringArray};
use arrow::compute::cast as arrow_cast;
use arrow::datatypes::{DataType, Field, Schema};
use arrow::record_batch::RecordBatch;
use datafusion::common::tree_node::{Transformed, TreeNode};
use datafusion::common::{Column, DFSchema, ScalarValue};
use datafusion::datasource::MemTable;
use datafusion::logical_expr::expr::{Between, BinaryExpr, Case, Cast, InList, Like};
use datafusion::logical_expr::{Expr, Operator};
use datafusion::prelude::*;
use datafusion::sql::sqlparser::ast as sq;
use datafusion::sql::sqlparser::dialect as sqd;
use datafusion::sql::sqlparser::parser::Parser;
use datafusion::sql::sqlparser::tokenizer::{Token, Tokenizer, Whitespace};
use datafusion::sql::unparser::dialect as ud;
use datafusion::sql::unparser::Unparser;
use h_util::{arg, json_str, Rng};
use refsql_gen as rg;

// ------------------------------------------------------------------------------------------------ expression language
#[derive(Clone, Copy, PartialEq, Eq, Debug)]
enum Ty { I, B, S }

#[derive(Clone, Debug, PartialEq)]
enum X {
    Col(usize),
    LitI(i64),
    LitS(String),
    LitB(bool),
    Null,
    Bin(Operator, Box<X>, Box<X>),
    Like(bool, bool, Box<X>, Box<X>), // negated, case_insensitive
    Not(Box<X>),
    Neg(Box<X>),
    Is(u8, Box<X>), // 0 IsNull 1 IsNotNull 2 IsTrue 3 IsNotTrue 4 IsFalse 5 IsNotFalse 6 IsUnknown 7 IsNotUnknown
    In(bool, Box<X>, Vec<X>),
    Between(bool, Box<X>, Box<X>, Box<X>),
    Case(Vec<(X, X)>, Option<Box<X>>),
    Cast(Box<X>, Ty),
}

const COLS: [(&str, Ty); 8] = [("i0", Ty::I), ("i1", Ty::I), ("i2", Ty::I), ("b0", Ty::B), ("b1", Ty::B), ("b2", Ty::B), ("s0", Ty::S), ("s1", Ty::S)];
const STRS: [&str; 5] = ["a", "b", "%", "ab", "1"];

fn bx(x: X) -> Box<X> { Box::new(x) }
fn arrow_ty(t: Ty) -> DataType { match t { Ty::I => DataType::Int64, Ty::B => DataType::Boolean, Ty::S => DataType::Utf8 } }

fn to_expr(x: &X) -> Expr {
    let b = |x: &X| Box::new(to_expr(x));
    match x {
        X::Col(k) => Expr::Column(Column::new_unqualified(COLS[*k].0)),
        X::LitI(v) => lit(*v),
        X::LitS(s) => lit(s.as_str()),
        X::LitB(v) => lit(*v),
        X::Null => Expr::Literal(ScalarValue::Null, None),
        X::Bin(op, l, r) => Expr::BinaryExpr(BinaryExpr::new(b(l), *op, b(r))),
        X::Like(n, ci, l, r) => Expr::Like(Like::new(*n, b(l), b(r), None, *ci)),
        X::Not(e) => Expr::Not(b(e)),
        X::Neg(e) => Expr::Negative(b(e)),
        X::Is(k, e) => match k { 0 => Expr::IsNull(b(e)), 1 => Expr::IsNotNull(b(e)), 2 => Expr::IsTrue(b(e)), 3 => Expr::IsNotTrue(b(e)),
            4 => Expr::IsFalse(b(e)), 5 => Expr::IsNotFalse(b(e)), 6 => Expr::IsUnknown(b(e)), _ => Expr::IsNotUnknown(b(e)) },
        X::In(n, e, l) => Expr::InList(InList::new(b(e), l.iter().map(to_expr).collect(), *n)),
        X::Between(n, e, lo, hi) => Expr::Between(Between::new(b(e), *n, b(lo), b(hi))),
        X::Case(wt, el) => Expr::Case(Case::new(None, wt.iter().map(|(w, t)| (b(w), b(t))).collect(), el.as_ref().map(|e| b(e)))),
        X::Cast(e, t) => Expr::Cast(Cast::new(b(e), arrow_ty(*t))),
    }
}

const IS_SQL: [&str; 8] = ["IS NULL", "IS NOT NULL", "IS TRUE", "IS NOT TRUE", "IS FALSE", "IS NOT FALSE", "IS UNKNOWN", "IS NOT UNKNOWN"];

fn atom_text(x: &X) -> Option<String> {
    match x {
        X::Col(k) => Some(COLS[*k].0.to_string()),
        X::LitI(v) => Some(v.to_string()),
        X::LitS(s) => Some(format!("'{s}'")),
        X::LitB(v) => Some(v.to_string()),
        X::Null => Some("NULL".into()),
        _ => None,
    }
}
fn like_k(n: bool, ci: bool) -> u8 { (n as u8) + 2 * (ci as u8) } // 0 LIKE 1 NOT LIKE 2 ILIKE 3 NOT ILIKE

/// JSON of the tree (the Coq side reads it); "frag" says whether the tree lies in the modelled fragment
fn x_json(x: &X) -> String {
    match x {
        X::Bin(op, l, r) => format!("{{\"b\":\"{op:?}\",\"l\":{},\"r\":{}}}", x_json(l), x_json(r)),
        X::Like(n, ci, l, r) => format!("{{\"like\":{},\"l\":{},\"r\":{}}}", like_k(*n, *ci), x_json(l), x_json(r)),
        X::Not(e) => format!("{{\"not\":{}}}", x_json(e)),
        X::Neg(e) => format!("{{\"neg\":{}}}", x_json(e)),
        X::Is(k, e) => format!("{{\"is\":{k},\"e\":{}}}", x_json(e)),
        X::In(n, e, l) => format!("{{\"in\":{n},\"e\":{},\"items\":[{}]}}", x_json(e), l.iter().map(x_json).collect::<Vec<_>>().join(",")),
        X::Between(n, e, lo, hi) => format!("{{\"between\":{n},\"e\":{},\"lo\":{},\"hi\":{}}}", x_json(e), x_json(lo), x_json(hi)),
        X::Case(wt, el) => format!("{{\"case\":[{}],\"else\":{}}}", wt.iter().map(|(w, t)| format!("[{},{}]", x_json(w), x_json(t))).collect::<Vec<_>>().join(","),
            el.as_ref().map(|e| x_json(e)).unwrap_or("null".into())),
        X::Cast(e, t) => format!("{{\"cast\":\"{t:?}\",\"e\":{}}}", x_json(e)),
        a => format!("{{\"a\":{}}}", json_str(&atom_text(a).unwrap())),
    }
}
fn frag_atom(x: &X) -> bool {
    match x { X::Col(_) | X::LitB(_) => true, X::LitI(v) => (0..=9).contains(v), X::LitS(s) => STRS.contains(&s.as_str()), X::Null => true, _ => false }
}
fn in_frag(x: &X) -> bool {
    match x {
        X::Bin(_, l, r) | X::Like(_, _, l, r) => in_frag(l) && in_frag(r),
        X::Not(e) | X::Neg(e) | X::Is(_, e) => in_frag(e),
        X::In(_, e, l) => in_frag(e) && l.iter().all(frag_atom),
        X::Between(..) | X::Case(..) | X::Cast(..) => false,
        a => frag_atom(a),
    }
}
/// fully parenthesised SQL of the tree (what the tree means; used for messages and --probe)
fn x_sql(x: &X) -> String {
    match x {
        X::Bin(op, l, r) => format!("({} {op} {})", x_sql(l), x_sql(r)),
        X::Like(n, ci, l, r) => format!("({} {}{} {})", x_sql(l), if *n { "NOT " } else { "" }, if *ci { "ILIKE" } else { "LIKE" }, x_sql(r)),
        X::Not(e) => format!("(NOT {})", x_sql(e)),
        X::Neg(e) => format!("(- {})", x_sql(e)),
        X::Is(k, e) => format!("({} {})", x_sql(e), IS_SQL[*k as usize]),
        X::In(n, e, l) => format!("({} {}IN ({}))", x_sql(e), if *n { "NOT " } else { "" }, l.iter().map(x_sql).collect::<Vec<_>>().join(", ")),
        X::Between(n, e, lo, hi) => format!("({} {}BETWEEN {} AND {})", x_sql(e), if *n { "NOT " } else { "" }, x_sql(lo), x_sql(hi)),
        X::Case(wt, el) => format!("CASE {}{} END", wt.iter().map(|(w, t)| format!("WHEN {} THEN {}", x_sql(w), x_sql(t))).collect::<Vec<_>>().join(" "),
            el.as_ref().map(|e| format!(" ELSE {}", x_sql(e))).unwrap_or_default()),
        X::Cast(e, t) => format!("CAST({} AS {})", x_sql(e), match t { Ty::I => "BIGINT", Ty::B => "BOOLEAN", Ty::S => "VARCHAR" }),
        X::LitI(v) if *v < 0 => format!("({v})"),
        a => atom_text(a).unwrap(),
    }
}
fn kind(x: &X) -> String {
    match x {
        X::Bin(op, ..) => format!("{op:?}"),
        X::Like(..) => "Like".into(), X::Not(_) => "Not".into(), X::Neg(_) => "Negative".into(), X::Is(..) => "Is".into(), X::In(..) => "InList".into(),
        X::Between(..) => "Between".into(), X::Case(..) => "Case".into(), X::Cast(..) => "Cast".into(),
        X::LitI(v) if *v < 0 => "NegativeLiteral".into(),
        _ => "atom".into(),
    }
}
fn children(x: &X) -> Vec<(&'static str, &X)> {
    match x {
        X::Bin(_, l, r) | X::Like(_, _, l, r) => vec![("left", l), ("right", r)],
        X::Not(e) | X::Neg(e) | X::Is(_, e) | X::Cast(e, _) => vec![("arg", e)],
        X::In(_, e, l) => { let mut v: Vec<(&'static str, &X)> = vec![("arg", e)]; v.extend(l.iter().map(|i| ("item", i))); v }
        X::Between(_, e, lo, hi) => vec![("arg", e), ("low", lo), ("high", hi)],
        X::Case(wt, el) => { let mut v: Vec<(&'static str, &X)> = vec![]; for (w, t) in wt { v.push(("when", w)); v.push(("then", t)); } if let Some(e) = el { v.push(("else", e)); } v }
        _ => vec![],
    }
}
fn with_child(x: &X, k: usize, c: X) -> X {
    let mut y = x.clone();
    match &mut y {
        X::Bin(_, l, r) | X::Like(_, _, l, r) => { if k == 0 { **l = c } else { **r = c } }
        X::Not(e) | X::Neg(e) | X::Is(_, e) | X::Cast(e, _) => **e = c,
        X::In(_, e, l) => { if k == 0 { **e = c } else { l[k - 1] = c } }
        X::Between(_, e, lo, hi) => { match k { 0 => **e = c, 1 => **lo = c, _ => **hi = c } }
        X::Case(wt, el) => { if k < 2 * wt.len() { if k % 2 == 0 { wt[k / 2].0 = c } else { wt[k / 2].1 = c } } else if let Some(e) = el { **e = c } }
        _ => {}
    }
    y
}

// ------------------------------------------------------------------------------------------------ the engine side
struct Env { ctx: SessionContext, schema: DFSchema, batch: RecordBatch }

fn env() -> Env {
    // 44 fixed rows: all combinations matter more than randomness; a private LCG keeps them independent of --seed
    let ints: [Option<i64>; 9] = [None, Some(-1), Some(0), Some(1), Some(2), Some(3), Some(7), Some(i64::MAX), Some(i64::MIN + 1)];
    let bools: [Option<bool>; 3] = [None, Some(true), Some(false)];
    let strs: [Option<&str>; 7] = [None, Some("a"), Some("b"), Some("ab"), Some("%"), Some("1"), Some("")];
    let mut z: u64 = 0x2545F4914F6CDD1D;
    let mut nx = |n: usize| { z ^= z << 13; z ^= z >> 7; z ^= z << 17; (z % n as u64) as usize };
    let n = 44;
    let mut cols: Vec<ArrayRef> = vec![];
    for (k, (_, t)) in COLS.iter().enumerate() {
        match t {
            Ty::I => cols.push(Arc::new(Int64Array::from((0..n).map(|r| if r < 27 && k < 3 { bools_idx(r, k).map(|j| [Some(0i64), Some(1), None][j]).unwrap() } else { ints[nx(if r < 38 { 7 } else { 9 })] }).collect::<Vec<_>>()))),
            Ty::B => cols.push(Arc::new(BooleanArray::from((0..n).map(|r| if r < 27 { bools[bools_idx(r, k - 3).unwrap()] } else { bools[nx(3)] }).collect::<Vec<_>>()))),
            Ty::S => cols.push(Arc::new(StringArray::from((0..n).map(|_| strs[nx(7)]).collect::<Vec<_>>()))),
        }
    }
    let schema = Arc::new(Schema::new(COLS.iter().map(|(n, t)| Field::new(*n, arrow_ty(*t), true)).collect::<Vec<_>>()));
    let batch = RecordBatch::try_new(schema.clone(), cols).unwrap();
    let ctx = SessionContext::new_with_config(SessionConfig::new().with_target_partitions(1));
    Env { ctx, schema: DFSchema::try_from(schema.as_ref().clone()).unwrap(), batch }
}
/// rows 0..26 enumerate all 27 combinations of three three-valued columns
fn bools_idx(r: usize, k: usize) -> Option<usize> { Some((r / [1, 3, 9][k]) % 3) }

fn cell(a: &ArrayRef, r: usize) -> String {
    if a.is_null(r) { return "null".into(); }
    match a.data_type() {
        DataType::Null => "null".into(),
        DataType::Boolean => a.as_any().downcast_ref::<BooleanArray>().unwrap().value(r).to_string(),
        DataType::Float64 | DataType::Float32 => { let c = arrow_cast(a, &DataType::Float64).unwrap(); format!("{:?}", c.as_any().downcast_ref::<Float64Array>().unwrap().value(r)) }
        DataType::Int8 | DataType::Int16 | DataType::Int32 | DataType::Int64 | DataType::UInt8 | DataType::UInt16 | DataType::UInt32 | DataType::UInt64 => {
            let c = arrow_cast(a, &DataType::Int64).unwrap(); c.as_any().downcast_ref::<Int64Array>().unwrap().value(r).to_string() }
        DataType::Utf8 | DataType::LargeUtf8 | DataType::Utf8View => { let c = arrow_cast(a, &DataType::Utf8).unwrap(); json_str(c.as_any().downcast_ref::<StringArray>().unwrap().value(r)) }
        other => format!("?{other:?}"),
    }
}

/// per-row values of `e` over the fixed table ("E" = that row raises an error); Err = the expression does not plan (type error)
fn eval_rows(env: &Env, e: &Expr) -> Result<Vec<String>, String> {
    let pe = env.ctx.create_physical_expr(e.clone(), &env.schema).map_err(|e| e.to_string())?;
    let n = env.batch.num_rows();
    if let Ok(v) = pe.evaluate(&env.batch).and_then(|v| v.into_array(n)) {
        return Ok((0..n).map(|r| cell(&v, r)).collect());
    }
    Ok((0..n).map(|r| { let b = env.batch.slice(r, 1); match pe.evaluate(&b).and_then(|v| v.into_array(1)) { Ok(v) => cell(&v, 0), Err(_) => "E".into() } }).collect())
}

/// string types are logically equivalent: the re-planner maps VARCHAR to Utf8View
fn norm(e: Expr) -> Expr {
    e.transform_up(|e| Ok(match e {
        Expr::Cast(Cast { expr, field }) => {
            let dt = match field.data_type() { DataType::Utf8View | DataType::LargeUtf8 => DataType::Utf8, d => d.clone() };
            Transformed::yes(Expr::Cast(Cast::new(expr, dt)))
        }
        Expr::Literal(ScalarValue::Utf8View(s), m) | Expr::Literal(ScalarValue::LargeUtf8(s), m) => Transformed::yes(Expr::Literal(ScalarValue::Utf8(s), m)),
        // the planner folds a minus sign in front of a number into the literal
        Expr::Negative(inner) => match inner.as_ref() {
            Expr::Literal(ScalarValue::Int64(Some(v)), m) if *v != i64::MIN => Transformed::yes(Expr::Literal(ScalarValue::Int64(Some(-*v)), m.clone())),
            _ => Transformed::no(Expr::Negative(inner)),
        },
        e => Transformed::no(e),
    })).unwrap().data
}

#[derive(Clone, Copy, PartialEq)]
enum Mode { Default, Pretty }
impl Mode { fn name(self) -> &'static str { match self { Mode::Default => "default", Mode::Pretty => "pretty" } } }

fn unparse(e: &Expr, mode: Mode) -> Result<String, String> {
    let u = Unparser::default().with_pretty(mode == Mode::Pretty);
    u.expr_to_sql(e).map(|a| a.to_string()).map_err(|e| e.to_string())
}

struct Trip { sql: Result<String, String>, back: Option<Result<Expr, String>>, struct_ok: bool }
/// unparse -> text -> the session's SQL expression parser
fn trip(env: &Env, x: &X, mode: Mode) -> Trip {
    let e = to_expr(x);
    let sql = unparse(&e, mode);
    let back = sql.as_ref().ok().map(|s| env.ctx.parse_sql_expr(s, &env.schema).map_err(|e| e.to_string()));
    let struct_ok = match &back { Some(Ok(b)) => norm(b.clone()) == norm(e), _ => false };
    Trip { sql, back, struct_ok }
}

fn weight(x: &X) -> usize { 1 + (kind(x) == "NegativeLiteral") as usize + children(x).iter().map(|(_, c)| weight(c)).sum::<usize>() }
/// every tree obtained by one reduction step somewhere: a node replaced by one of its children or by a column, an IN list item dropped
fn reductions(x: &X) -> Vec<X> {
    let mut out: Vec<X> = children(x).into_iter().map(|(_, c)| c.clone()).collect();
    if weight(x) > 1 { out.push(X::Col(0)); }
    if let X::In(n, e, l) = x { if l.len() > 1 { for k in 0..l.len() { let mut l2 = l.clone(); l2.remove(k); out.push(X::In(*n, e.clone(), l2)); } } }
    let ch: Vec<X> = children(x).into_iter().map(|(_, c)| c.clone()).collect();
    for (k, c) in ch.iter().enumerate() { for r in reductions(c) { out.push(with_child(x, k, r)); } }
    out
}
/// a minimal tree (under single reduction steps) that still fails `bad`
fn shrink(x: &X, bad: &dyn Fn(&X) -> bool) -> X {
    let mut cur = x.clone();
    'outer: loop {
        for r in reductions(&cur) { if weight(&r) < weight(&cur) && bad(&r) { cur = r; continue 'outer; } }
        return cur;
    }
}

fn df_prec(x: &X) -> Option<u8> { if let X::Bin(op, ..) = x { Some(op.precedence()) } else { None } }
/// digest of Operator::precedence over the operators the generators use (part of the pretty-mode class key)
fn table_digest() -> String { ALL_OPS.iter().map(|o| format!("{}", o.precedence())).collect::<Vec<_>>().join(".") }

/// class key of a failing expression = shape of its minimal failing sub-tree
fn class_key(mode: Mode, min: &X) -> String {
    let ch = children(min);
    let is_neg = matches!(min, X::Neg(_));
    let small = |c: &X| kind(c) == "atom" || (kind(c) == "NegativeLiteral" && !is_neg);
    let big: Vec<&(&'static str, &X)> = ch.iter().filter(|(_, c)| !small(c)).collect();
    if big.len() != 1 || children(big[0].1).iter().any(|(_, g)| !(kind(g) == "atom" || kind(g) == "NegativeLiteral")) {
        return format!("{}:complex:{}", mode.name(), x_sql(min));
    }
    let (pos, child) = *big[0];
    let wrapped = |k: &str| k == "Between" || !matches!(k, "Like" | "Not" | "Negative" | "NegativeLiteral" | "Is" | "InList" | "Case" | "Cast");
    if mode == Mode::Pretty && wrapped(&kind(child)) {
        // the child is a form the default unparser parenthesises: the parentheses were dropped by remove_unnecessary_nesting
        return match (df_prec(min), df_prec(child)) {
            (Some(pp), Some(cp)) if pp == cp && pos == "right" => {
                if let X::Bin(Operator::Minus | Operator::Divide, ..) = min { format!("pretty:same-precedence-right-operand-of-nonassociative:{}", kind(min)) }
                else { "pretty:same-precedence-right-operand".to_string() }
            }
            _ => format!("pretty:precedence-table-disagrees-with-parser[{}]", table_digest()),
        };
    }
    format!("unparenthesised:{}", kind(child))
}

// ------------------------------------------------------------------------------------------------ sqlparser views (tie data)
fn sq_op_name(op: &sq::BinaryOperator) -> Option<&'static str> {
    use sq::BinaryOperator as B;
    Some(match op {
        B::Eq => "Eq", B::NotEq => "NotEq", B::Lt => "Lt", B::LtEq => "LtEq", B::Gt => "Gt", B::GtEq => "GtEq", B::Plus => "Plus", B::Minus => "Minus",
        B::Multiply => "Multiply", B::Divide => "Divide", B::Modulo => "Modulo", B::And => "And", B::Or => "Or",
        B::PGRegexMatch => "RegexMatch", B::PGRegexIMatch => "RegexIMatch", B::PGRegexNotMatch => "RegexNotMatch", B::PGRegexNotIMatch => "RegexNotIMatch",
        B::PGLikeMatch => "LikeMatch", B::PGILikeMatch => "ILikeMatch", B::PGNotLikeMatch => "NotLikeMatch", B::PGNotILikeMatch => "NotILikeMatch",
        B::BitwiseAnd => "BitwiseAnd", B::BitwiseOr => "BitwiseOr", B::BitwiseXor => "BitwiseXor", B::PGBitwiseShiftRight => "BitwiseShiftRight",
        B::PGBitwiseShiftLeft => "BitwiseShiftLeft", B::StringConcat => "StringConcat", B::DuckIntegerDivide => "IntegerDivide",
        B::AtArrow => "AtArrow", B::ArrowAt => "ArrowAt", B::Arrow => "Arrow", B::LongArrow => "LongArrow", B::HashArrow => "HashArrow", B::HashLongArrow => "HashLongArrow",
        B::AtAt => "AtAt", B::HashMinus => "HashMinus", B::AtQuestion => "AtQuestion", B::Question => "Question", B::QuestionAnd => "QuestionAnd", B::QuestionPipe => "QuestionPipe",
        _ => return None,
    })
}
/// sqlparser AST in the vocabulary of the Coq model; None outside the fragment
fn ast_json(e: &sq::Expr) -> Option<String> {
    use sq::Expr as A;
    Some(match e {
        A::Identifier(i) if i.quote_style.is_none() => format!("{{\"a\":{}}}", json_str(&i.value)),
        A::Value(v) => format!("{{\"a\":{}}}", json_str(&v.value.to_string())),
        A::Nested(a) => format!("{{\"n\":{}}}", ast_json(a)?),
        A::BinaryOp { left, op, right } => format!("{{\"b\":\"{}\",\"l\":{},\"r\":{}}}", sq_op_name(op)?, ast_json(left)?, ast_json(right)?),
        A::IsDistinctFrom(l, r) => format!("{{\"b\":\"IsDistinctFrom\",\"l\":{},\"r\":{}}}", ast_json(l)?, ast_json(r)?),
        A::IsNotDistinctFrom(l, r) => format!("{{\"b\":\"IsNotDistinctFrom\",\"l\":{},\"r\":{}}}", ast_json(l)?, ast_json(r)?),
        A::Like { negated, any: false, expr, pattern, escape_char: None } => format!("{{\"like\":{},\"l\":{},\"r\":{}}}", like_k(*negated, false), ast_json(expr)?, ast_json(pattern)?),
        A::ILike { negated, any: false, expr, pattern, escape_char: None } => format!("{{\"like\":{},\"l\":{},\"r\":{}}}", like_k(*negated, true), ast_json(expr)?, ast_json(pattern)?),
        A::UnaryOp { op: sq::UnaryOperator::Not, expr } => format!("{{\"not\":{}}}", ast_json(expr)?),
        A::UnaryOp { op: sq::UnaryOperator::Minus, expr } => format!("{{\"neg\":{}}}", ast_json(expr)?),
        A::IsNull(a) => format!("{{\"is\":0,\"e\":{}}}", ast_json(a)?), A::IsNotNull(a) => format!("{{\"is\":1,\"e\":{}}}", ast_json(a)?),
        A::IsTrue(a) => format!("{{\"is\":2,\"e\":{}}}", ast_json(a)?), A::IsNotTrue(a) => format!("{{\"is\":3,\"e\":{}}}", ast_json(a)?),
        A::IsFalse(a) => format!("{{\"is\":4,\"e\":{}}}", ast_json(a)?), A::IsNotFalse(a) => format!("{{\"is\":5,\"e\":{}}}", ast_json(a)?),
        A::IsUnknown(a) => format!("{{\"is\":6,\"e\":{}}}", ast_json(a)?), A::IsNotUnknown(a) => format!("{{\"is\":7,\"e\":{}}}", ast_json(a)?),
        A::InList { expr, list, negated } => format!("{{\"in\":{negated},\"e\":{},\"items\":[{}]}}", ast_json(expr)?, list.iter().map(ast_json).collect::<Option<Vec<_>>>()?.join(",")),
        _ => return None,
    })
}
/// canonical text of a sqlparser expression with every node parenthesised and Nested transparent: equal texts = same tree
fn canon(e: &sq::Expr) -> String {
    use sq::Expr as A;
    let c = |e: &sq::Expr| canon(e);
    match e {
        A::Nested(a) => c(a),
        A::BinaryOp { left, op, right } => format!("({} {op} {})", c(left), c(right)),
        A::UnaryOp { op: sq::UnaryOperator::Minus, expr } if matches!(expr.as_ref(), A::Value(v) if matches!(v.value, sq::Value::Number(..))) => format!("-{}", c(expr)),
        A::UnaryOp { op, expr } => format!("({op} {})", c(expr)),
        A::IsDistinctFrom(l, r) => format!("({} IDF {})", c(l), c(r)),
        A::IsNotDistinctFrom(l, r) => format!("({} INDF {})", c(l), c(r)),
        A::Like { negated, expr, pattern, .. } => format!("({} LIKE{negated} {})", c(expr), c(pattern)),
        A::ILike { negated, expr, pattern, .. } => format!("({} ILIKE{negated} {})", c(expr), c(pattern)),
        A::IsNull(a) => format!("({} ISNULL)", c(a)), A::IsNotNull(a) => format!("({} ISNOTNULL)", c(a)),
        A::IsTrue(a) => format!("({} ISTRUE)", c(a)), A::IsNotTrue(a) => format!("({} ISNOTTRUE)", c(a)),
        A::IsFalse(a) => format!("({} ISFALSE)", c(a)), A::IsNotFalse(a) => format!("({} ISNOTFALSE)", c(a)),
        A::IsUnknown(a) => format!("({} ISUNKNOWN)", c(a)), A::IsNotUnknown(a) => format!("({} ISNOTUNKNOWN)", c(a)),
        A::InList { expr, list, negated } => format!("({} IN{negated} [{}])", c(expr), list.iter().map(canon).collect::<Vec<_>>().join(", ")),
        A::Between { expr, negated, low, high } => format!("({} BETWEEN{negated} {} AND {})", c(expr), c(low), c(high)),
        A::Case { operand, conditions, else_result, .. } => format!("(CASE {:?} {} ELSE {})", operand.as_ref().map(|o| c(o)),
            conditions.iter().map(|w| format!("WHEN {} THEN {}", c(&w.condition), c(&w.result))).collect::<Vec<_>>().join(" "), else_result.as_ref().map(|o| c(o)).unwrap_or_default()),
        A::Cast { expr, data_type, .. } => format!("CAST({} AS {data_type})", c(expr)),
        other => other.to_string(),
    }
}
/// purely syntactic verdict (no types involved): does sqlparser read the unparser's text back as the tree the unparser built?
fn syntactic_bad(x: &X, mode: Mode) -> bool {
    let u = Unparser::default().with_pretty(mode == Mode::Pretty);
    match u.expr_to_sql(&to_expr(x)) {
        Err(_) => false,
        Ok(a) => match reparse_ast(&a.to_string()) { Err(_) => true, Ok(b) => canon(&a) != canon(&b) },
    }
}
/// tokens of the text (sqlparser's tokenizer, generic dialect) without white space; None when the text contains a comment
fn tokens(sql: &str) -> Option<Vec<String>> {
    let toks = Tokenizer::new(&sqd::GenericDialect {}, sql).tokenize().ok()?;
    let mut out = vec![];
    for t in toks {
        match t {
            Token::Whitespace(Whitespace::SingleLineComment { .. }) | Token::Whitespace(Whitespace::MultiLineComment(_)) => return None,
            Token::Whitespace(_) => {}
            Token::EOF => {}
            t => out.push(t.to_string()),
        }
    }
    Some(out)
}
/// sqlparser's own parse of the text (generic dialect, whole input)
fn reparse_ast(sql: &str) -> Result<sq::Expr, String> {
    let d = sqd::GenericDialect {};
    let mut p = Parser::new(&d).try_with_sql(sql).map_err(|e| e.to_string())?;
    let e = p.parse_expr().map_err(|e| e.to_string())?;
    if p.peek_token().token != Token::EOF { return Err(format!("trailing input at {}", p.peek_token())); }
    Ok(e)
}

// ------------------------------------------------------------------------------------------------ generators
const ALL_OPS: [Operator; 29] = [
    Operator::Or, Operator::And, Operator::Eq, Operator::NotEq, Operator::Lt, Operator::LtEq, Operator::Gt, Operator::GtEq,
    Operator::Plus, Operator::Minus, Operator::Multiply, Operator::Divide, Operator::Modulo,
    Operator::BitwiseAnd, Operator::BitwiseOr, Operator::BitwiseXor, Operator::BitwiseShiftLeft, Operator::BitwiseShiftRight,
    Operator::StringConcat, Operator::RegexMatch, Operator::RegexIMatch, Operator::RegexNotMatch, Operator::RegexNotIMatch,
    Operator::LikeMatch, Operator::ILikeMatch, Operator::NotLikeMatch, Operator::NotILikeMatch,
    Operator::IsDistinctFrom, Operator::IsNotDistinctFrom,
];
const INT_OPS: [Operator; 10] = [Operator::Plus, Operator::Minus, Operator::Multiply, Operator::Divide, Operator::Modulo,
    Operator::BitwiseAnd, Operator::BitwiseOr, Operator::BitwiseXor, Operator::BitwiseShiftLeft, Operator::BitwiseShiftRight];
const CMP_OPS: [Operator; 8] = [Operator::Eq, Operator::NotEq, Operator::Lt, Operator::LtEq, Operator::Gt, Operator::GtEq, Operator::IsDistinctFrom, Operator::IsNotDistinctFrom];
const STR_PRED_OPS: [Operator; 8] = [Operator::RegexMatch, Operator::RegexIMatch, Operator::RegexNotMatch, Operator::RegexNotIMatch,
    Operator::LikeMatch, Operator::ILikeMatch, Operator::NotLikeMatch, Operator::NotILikeMatch];

struct G<'a> { rng: &'a mut Rng, wide: bool, portable: bool }
impl<'a> G<'a> {
    fn atom(&mut self, t: Ty) -> X {
        if self.wide && self.rng.chance(1, 12) { return X::Null; }
        match t {
            Ty::I => if self.rng.chance(3, 5) { X::Col(self.rng.below(3) as usize) } else if self.wide && self.rng.chance(1, 3) { X::LitI(-(self.rng.range(1, 3))) } else { X::LitI(self.rng.range(0, 9)) },
            Ty::B => if self.rng.chance(4, 5) { X::Col(3 + self.rng.below(3) as usize) } else { X::LitB(self.rng.chance(1, 2)) },
            Ty::S => if self.rng.chance(3, 5) { X::Col(6 + self.rng.below(2) as usize) } else { X::LitS(self.rng.pick(&STRS).to_string()) },
        }
    }
    fn any_ty(&mut self) -> Ty { *self.rng.pick(&[Ty::I, Ty::B, Ty::S, Ty::B]) }
    fn gen(&mut self, t: Ty, d: u32) -> X {
        if d == 0 || self.rng.chance(1, 5) { return self.atom(t); }
        if self.wide && self.rng.chance(1, 8) {
            // closed forms of any type
            if self.rng.chance(1, 2) {
                let n = 1 + self.rng.below(2);
                let wt = (0..n).map(|_| (self.gen(Ty::B, d - 1), self.gen(t, d - 1))).collect();
                let el = if self.rng.chance(2, 3) { Some(bx(self.gen(t, d - 1))) } else { None };
                return X::Case(wt, el);
            }
            let from = match t { Ty::I => *self.rng.pick(&[Ty::B, Ty::S, Ty::I]), Ty::S => *self.rng.pick(&[Ty::I, Ty::B]), Ty::B => Ty::I };
            return X::Cast(bx(self.gen(from, d - 1)), t);
        }
        match t {
            Ty::I => if self.rng.chance(1, 6) { X::Neg(bx(self.gen(Ty::I, d - 1))) } else { X::Bin(*self.rng.pick(if self.portable { &INT_OPS[..5] } else { &INT_OPS[..] }), bx(self.gen(Ty::I, d - 1)), bx(self.gen(Ty::I, d - 1))) },
            Ty::S => X::Bin(Operator::StringConcat, bx(self.gen(Ty::S, d - 1)), bx(self.gen(Ty::S, d - 1))),
            Ty::B => match self.rng.below(if self.wide { 10 } else { 9 }) {
                0 | 1 => { let u = self.any_ty(); X::Bin(*self.rng.pick(&CMP_OPS), bx(self.gen(u, d - 1)), bx(self.gen(u, d - 1))) }
                2 => X::Bin(*self.rng.pick(&[Operator::And, Operator::Or]), bx(self.gen(Ty::B, d - 1)), bx(self.gen(Ty::B, d - 1))),
                3 => X::Not(bx(self.gen(Ty::B, d - 1))),
                4 => { let k = self.rng.below(8) as u8; let u = if k < 2 { self.any_ty() } else { Ty::B }; X::Is(k, bx(self.gen(u, d - 1))) }
                5 => { let u = self.any_ty(); let n = 1 + self.rng.below(3); let e = self.gen(u, d - 1);
                       let items = (0..n).map(|_| if self.wide && self.rng.chance(1, 3) { self.gen(u, d - 1) } else { self.atom(u) }).collect(); X::In(self.rng.chance(1, 2), bx(e), items) }
                6 => X::Like(self.rng.chance(1, 3), !self.portable && self.rng.chance(1, 3), bx(self.gen(Ty::S, d - 1)), bx(self.gen(Ty::S, d - 1))),
                7 if !self.portable => X::Bin(*self.rng.pick(&STR_PRED_OPS), bx(self.gen(Ty::S, d - 1)), bx(self.gen(Ty::S, d - 1))),
                7 => X::Like(false, false, bx(self.gen(Ty::S, d - 1)), bx(self.gen(Ty::S, d - 1))),
                8 => { let u = self.any_ty(); X::Bin(*self.rng.pick(&CMP_OPS), bx(self.gen(u, d - 1)), bx(self.gen(u, d - 1))) }
                _ => { let u = *self.rng.pick(&[Ty::I, Ty::S, Ty::B]); X::Between(self.rng.chance(1, 3), bx(self.gen(u, d - 1)), bx(self.gen(u, d - 1)), bx(self.gen(u, d - 1))) }
            },
        }
    }
}

// ------------------------------------------------------------------------------------------------ expression cases
fn opt_json<T: AsRef<str>>(v: &Option<T>) -> String { match v { Some(s) => s.as_ref().to_string(), None => "null".into() } }

/// one expression case in one mode; `semantic`: also compare values row by row
fn expr_case(env: &Env, id: u64, stream: &str, x: &X, mode: Mode, semantic: bool) {
    let r = std::panic::catch_unwind(std::panic::AssertUnwindSafe(|| {
        let t = trip(env, x, mode);
        let e = to_expr(x);
        let frag = in_frag(x);
        let (mut sem, mut diffrow) = ("na".to_string(), String::new());
        if semantic {
            match eval_rows(env, &e) {
                Err(_) => sem = "na:original-does-not-type".into(),
                Ok(v0) => match &t.back {
                    None => sem = "unparse_err".into(),
                    Some(Err(_)) => sem = "reparse_err".into(),
                    Some(Ok(b)) => match eval_rows(env, b) {
                        Err(m) => { sem = "retype_err".into(); diffrow = m; }
                        Ok(v1) => match (0..v0.len()).find(|&i| v0[i] != v1[i]) {
                            None => sem = "same".into(),
                            Some(i) => { sem = "diff".into(); diffrow = format!("row {i} ({}): original {} re-planned {}",
                                (0..env.batch.num_columns()).map(|c| format!("{}={}", COLS[c].0, cell(env.batch.column(c), i))).collect::<Vec<_>>().join(" "), v0[i], v1[i]); }
                        },
                    },
                },
            }
        }
        let ok = !matches!(sem.as_str(), "diff" | "reparse_err" | "retype_err" | "unparse_err");
        let (mut key, mut min_sql, mut min_text) = (String::new(), String::new(), String::new());
        if !ok {
            let bad = |y: &X| syntactic_bad(y, mode);
            if bad(x) {
                let m = shrink(x, &bad);
                key = class_key(mode, &m);
                min_sql = x_sql(&m);
                min_text = unparse(&to_expr(&m), mode).unwrap_or_else(|e| format!("<{e}>"));
            } else {
                key = format!("{}:same-structure-different-{}", mode.name(), sem);
            }
        }
        let sql = t.sql.clone().unwrap_or_default();
        let (tok, rp) = if frag && t.sql.is_ok() {
            let tk = tokens(&sql).map(|v| format!("[{}]", v.iter().map(|s| json_str(s)).collect::<Vec<_>>().join(",")));
            let rp = match reparse_ast(&sql) { Ok(a) => ast_json(&a).map(|j| format!("{{\"ast\":{j}}}")).unwrap_or("{\"ast\":null}".into()), Err(m) => format!("{{\"err\":{}}}", json_str(&m)) };
            (tk, Some(rp))
        } else { (None, None) };
        println!("{{\"id\":{id},\"stream\":\"{stream}\",\"mode\":\"{}\",\"frag\":{frag},\"x\":{},\"meaning\":{},\"sql\":{},\"unparse_err\":{},\"reparse_err\":{},\"struct_ok\":{},\"sem\":\"{sem}\",\"detail\":{},\"tok\":{},\"reparsed\":{},\"ok\":{ok},\"key\":{},\"min\":{},\"min_text\":{}}}",
            mode.name(), x_json(x), json_str(&x_sql(x)), json_str(&sql),
            t.sql.as_ref().err().map(|m| json_str(m)).unwrap_or("null".into()),
            match &t.back { Some(Err(m)) => json_str(m), _ => "null".into() },
            t.struct_ok, json_str(&diffrow), opt_json(&tok), opt_json(&rp), json_str(&key), json_str(&min_sql), json_str(&min_text));
    }));
    if let Err(p) = r {
        let msg = p.downcast_ref::<String>().cloned().or_else(|| p.downcast_ref::<&str>().map(|s| s.to_string())).unwrap_or_default();
        println!("{{\"id\":{id},\"stream\":\"{stream}\",\"mode\":\"{}\",\"frag\":false,\"x\":{},\"meaning\":{},\"panic\":{},\"ok\":false,\"key\":\"panic\"}}", mode.name(), x_json(x), json_str(&x_sql(x)), json_str(&msg));
    }
}

fn dialect_case(id: u64, x: &X, which: usize) {
    let names = ["postgres", "mysql", "sqlite", "duckdb"];
    let e = to_expr(x);
    let run = |e: &Expr| -> (Result<String, String>, Option<Result<(), String>>) {
        let pg = ud::PostgreSqlDialect {}; let my = ud::MySqlDialect {}; let sl = ud::SqliteDialect {}; let dk = ud::DuckDBDialect::new();
        let d: &dyn ud::Dialect = match which { 0 => &pg, 1 => &my, 2 => &sl, _ => &dk };
        let sql = Unparser::new(d).expr_to_sql(e).map(|a| a.to_string()).map_err(|e| e.to_string());
        let parsed = sql.as_ref().ok().map(|s| {
            let (a, b, c, dd) = (sqd::PostgreSqlDialect {}, sqd::MySqlDialect {}, sqd::SQLiteDialect {}, sqd::DuckDbDialect {});
            let pd: &dyn sqd::Dialect = match which { 0 => &a, 1 => &b, 2 => &c, _ => &dd };
            let mut p = Parser::new(pd).try_with_sql(s).map_err(|e| e.to_string())?;
            p.parse_expr().map_err(|e| e.to_string())?;
            if p.peek_token().token != Token::EOF { return Err(format!("trailing input at {}", p.peek_token())); }
            Ok(())
        });
        (sql, parsed)
    };
    let (sql, parsed) = run(&e);
    let ok = !matches!(parsed, Some(Err(_)));
    let (mut key, mut min_sql, mut min_text) = (String::new(), String::new(), String::new());
    if !ok {
        let bad = |y: &X| matches!(run(&to_expr(y)).1, Some(Err(_)));
        let m = shrink(x, &bad);
        let ch = children(&m);
        let big: Vec<String> = ch.iter().filter(|(_, c)| kind(c) != "atom").map(|(_, c)| kind(c)).collect();
        // the dialect-independent defects keep their class; anything else is specific to the dialect
        key = if big.len() == 1 && matches!(big[0].as_str(), "Not" | "Is" | "InList" | "Like") { format!("unparenthesised:{}", big[0]) }
              else if kind(&m) == "Negative" && big.len() == 1 && (big[0] == "Negative" || big[0] == "NegativeLiteral") { format!("unparenthesised:{}", big[0]) }
              else { format!("dialect:{}:unparseable:{}({})", names[which], kind(&m), big.join(",")) };
        min_sql = x_sql(&m);
        min_text = run(&to_expr(&m)).0.unwrap_or_default();
    }
    println!("{{\"id\":{id},\"stream\":\"dialect\",\"dialect\":\"{}\",\"x\":{},\"meaning\":{},\"sql\":{},\"unparse_err\":{},\"parse_err\":{},\"ok\":{ok},\"key\":{},\"min\":{},\"min_text\":{}}}",
        names[which], x_json(x), json_str(&x_sql(x)), json_str(&sql.clone().unwrap_or_default()), sql.as_ref().err().map(|m| json_str(m)).unwrap_or("null".into()),
        match &parsed { Some(Err(m)) => json_str(m), _ => "null".into() }, json_str(&key), json_str(&min_sql), json_str(&min_text));
}

// ------------------------------------------------------------------------------------------------ plans
fn rcolumn(t: rg::Ty, vals: &[&rg::V]) -> ArrayRef {
    match t {
        rg::Ty::Int | rg::Ty::Rat => Arc::new(Int64Array::from(vals.iter().map(|v| match v { rg::V::I(z) => Some(*z), _ => None }).collect::<Vec<_>>())),
        rg::Ty::Bool => Arc::new(BooleanArray::from(vals.iter().map(|v| match v { rg::V::B(b) => Some(*b), _ => None }).collect::<Vec<_>>())),
        rg::Ty::Str => Arc::new(StringArray::from(vals.iter().map(|v| match v { rg::V::S(s) => Some(s.clone()), _ => None }).collect::<Vec<_>>())),
    }
}
fn r_arrow_ty(t: rg::Ty) -> DataType { match t { rg::Ty::Int | rg::Ty::Rat => DataType::Int64, rg::Ty::Bool => DataType::Boolean, rg::Ty::Str => DataType::Utf8 } }
fn register(ctx: &SessionContext, n: usize, t: &rg::Tab) {
    let schema = Arc::new(Schema::new(t.types.iter().enumerate().map(|(i, ty)| Field::new(format!("c{i}"), r_arrow_ty(*ty), true)).collect::<Vec<_>>()));
    let rows: Vec<&Vec<rg::V>> = t.rows.iter().collect();
    let cols: Vec<ArrayRef> = (0..t.types.len()).map(|c| rcolumn(t.types[c], &rows.iter().map(|r| &r[c]).collect::<Vec<_>>())).collect();
    let b = RecordBatch::try_new(schema.clone(), cols).unwrap();
    ctx.register_table(format!("t{n}").as_str(), Arc::new(MemTable::try_new(schema, vec![vec![b]]).unwrap())).unwrap();
}
struct Out { names: Vec<String>, rows: Vec<Vec<String>> }
async fn run_plan(ctx: &SessionContext, plan: datafusion::logical_expr::LogicalPlan) -> Result<Out, String> {
    let df = ctx.execute_logical_plan(plan).await.map_err(|e| format!("plan: {e}"))?;
    let names = df.schema().fields().iter().map(|f| f.name().clone()).collect();
    let out = tokio::time::timeout(std::time::Duration::from_secs(20), df.collect()).await.map_err(|_| "timeout".to_string())?.map_err(|e| format!("exec: {e}"))?;
    let mut rows = vec![];
    for bt in &out { for r in 0..bt.num_rows() { rows.push((0..bt.num_columns()).map(|c| cell(bt.column(c), r)).collect()); } }
    Ok(Out { names, rows })
}
fn has_inner_limit(q: &rg::Q, root: bool) -> bool {
    use rg::Q;
    match q {
        Q::Limit(_, _, c) => !root || has_inner_limit(c, false),
        Q::Sort(_, c) => has_inner_limit(c, root),
        Q::Table(_) | Q::Values(..) => false,
        Q::Filter(e, c) => e_has_limit(e) || has_inner_limit(c, false),
        Q::Project(es, c) => es.iter().any(e_has_limit) || has_inner_limit(c, false),
        Q::Distinct(c) => has_inner_limit(c, false),
        Q::Join(_, e, a, b) | Q::Semi(_, e, a, b) => e_has_limit(e) || has_inner_limit(a, false) || has_inner_limit(b, false),
        Q::Group(ks, ags, h, c) => ks.iter().any(e_has_limit) || ags.iter().any(|(_, e)| e_has_limit(e)) || h.as_ref().map(e_has_limit).unwrap_or(false) || has_inner_limit(c, false),
        Q::SetOp(_, _, a, b) => has_inner_limit(a, false) || has_inner_limit(b, false),
    }
}
fn e_has_limit(e: &rg::E) -> bool { format!("{e:?}").contains("Limit(") }
/// the same question asked of the (fully parenthesised) SQL text of the query: a parenthesised group that is `NOT ...`, `... IS [NOT] NULL` or
/// `... [NOT] IN (...)` standing next to a comparison operator (HAVING / ORDER BY repeat group keys as text, which the AST walk does not see)
fn sql_has_bare_operand(sql: &str) -> bool {
    let b = sql.as_bytes();
    let ops = [" = ", " <> ", " < ", " <= ", " > ", " >= ", " IS DISTINCT FROM ", " IS NOT DISTINCT FROM "];
    let mut stack: Vec<usize> = vec![];
    for i in 0..b.len() {
        if b[i] == b'(' { stack.push(i); }
        if b[i] == b')' {
            if let Some(st) = stack.pop() {
                let inner = &sql[st + 1..i];
                // top level of the group
                let mut depth = 0i32; let mut top = String::new();
                for ch in inner.chars() { if ch == '(' { depth += 1; } if depth == 0 { top.push(ch); } if ch == ')' { depth -= 1; } }
                let bare = top.starts_with("NOT ") || top.ends_with(" IS NULL") || top.ends_with(" IS NOT NULL") || top.ends_with(" IN ") || top.contains(" IN  ") ;
                let bare = bare || (inner.contains(" IN (") && top.trim_end().ends_with(" IN"));
                if bare {
                    let before = &sql[..st]; let after = &sql[i + 1..];
                    if ops.iter().any(|o| before.ends_with(o) || after.starts_with(o)) { return true; }
                }
            }
        }
    }
    false
}
fn q_any(q: &rg::Q, f: &dyn Fn(&rg::Q) -> bool) -> bool {
    use rg::Q;
    f(q) || match q {
        Q::Table(_) | Q::Values(..) => false,
        Q::Filter(_, c) | Q::Project(_, c) | Q::Distinct(c) | Q::Sort(_, c) | Q::Limit(_, _, c) | Q::Group(_, _, _, c) => q_any(c, f),
        Q::Join(_, _, a, b) | Q::Semi(_, _, a, b) | Q::SetOp(_, _, a, b) => q_any(a, f) || q_any(b, f),
    }
}
/// GROUP BY that lists the same key twice
fn q_has_dup_group_keys(q: &rg::Q) -> bool {
    q_any(q, &|q| if let rg::Q::Group(ks, ..) = q { let t: Vec<String> = ks.iter().map(|k| format!("{k:?}")).collect(); (0..t.len()).any(|i| t[..i].contains(&t[i])) } else { false })
}
/// UNION and UNION ALL nested in one another
fn q_has_mixed_unions(q: &rg::Q) -> bool {
    q_any(q, &|q| if let rg::Q::SetOp(rg::SetOp::Union, all, a, b) = q {
        [a, b].iter().any(|c| matches!(c.as_ref(), rg::Q::SetOp(rg::SetOp::Union, all2, ..) if all2 != all)) } else { false })
}
fn q_has_setop(q: &rg::Q) -> bool { let s = format!("{q:?}"); s.contains("SetOp(Intersect") || s.contains("SetOp(Except") }
/// does some expression of the query have NOT / IS NULL / IN (the forms the unparser writes without parentheses) as a direct operand of
/// an operator that binds tighter in the re-parser (comparison, arithmetic, BETWEEN, IN, IS NULL, IS DISTINCT FROM)?
fn q_has_bare_operand(q: &rg::Q) -> bool {
    // the Debug text of the query is a faithful prefix notation: look for `Parent(... , Bare(` at operand positions
    let s = format!("{q:?}");
    let bare = ["Not(", "IsNull(", "InList(", "InSub("];
    let parents = ["Cmp(", "Arith(", "Distinct(", "Between(", "InList(", "IsNull(", "InSub("];
    // walk the text keeping a stack of constructor names; an operand is a direct child of the constructor on top of the stack
    let mut stack: Vec<String> = vec![];
    let mut word = String::new();
    for ch in s.chars() {
        if ch.is_alphanumeric() || ch == '_' { word.push(ch); continue; }
        if ch == '(' {
            let w = format!("{word}(");
            if bare.contains(&w.as_str()) { if let Some(top) = stack.last() { if parents.contains(&top.as_str()) { return true; } } }
            stack.push(w);
        } else if ch == ')' { stack.pop(); }
        word.clear();
    }
    false
}
/// positions of the sort keys when the query's outermost operator is a sort (possibly under LIMIT) on plain output columns
fn root_sort_keys(q: &rg::Q) -> Option<Vec<usize>> {
    let s = match q { rg::Q::Limit(_, _, c) => c.as_ref(), q => q };
    if let rg::Q::Sort(ks, _) = s { ks.iter().map(|(e, _, _)| if let rg::E::Col(0, k) = e { Some(*k) } else { None }).collect() } else { None }
}
fn rows_json(rows: &[Vec<String>]) -> String { format!("[{}]", rows.iter().take(60).map(|r| format!("[{}]", r.join(","))).collect::<Vec<_>>().join(",")) }

/// what the comparison needs to know about a query
struct QInfo { keys: Option<Vec<usize>>, is_limit: bool, inner_limit: bool, setop: bool, bare: bool, dup_group: bool, mixed_unions: bool }
fn plan_case(id: u64, stream: &str, tabs: &[rg::Tab], q: &rg::Q, optimized: bool) {
    let widths: Vec<usize> = tabs.iter().map(|t| t.types.len()).collect();
    let sql0 = rg::to_sql(q, &widths);
    let info = QInfo { keys: root_sort_keys(q), is_limit: matches!(q, rg::Q::Limit(..)), inner_limit: has_inner_limit(q, true), setop: q_has_setop(q), bare: q_has_bare_operand(q) || sql_has_bare_operand(&sql0),
        dup_group: q_has_dup_group_keys(q), mixed_unions: q_has_mixed_unions(q) };
    plan_case_sql(id, stream, tabs, sql0, info, optimized)
}
fn plan_case_sql(id: u64, stream: &str, tabs: &[rg::Tab], sql0: String, info: QInfo, optimized: bool) {
    let rt = tokio::runtime::Builder::new_multi_thread().worker_threads(2).enable_all().build().unwrap();
    let (tabs2, sql02) = (tabs.to_vec(), sql0.clone());
    let QInfo { keys, is_limit, inner_limit, setop, bare, dup_group, mixed_unions } = info;
    let pfx = if optimized { "plan-optimized" } else { "plan" };
    // class key of a failing plan: the known expression-level defect inside a plan; the set-operation defects; optimized plans coarsely; else stage + message
    let key_of = move |stage: &str, msg: &str, why: &str, no_columns: bool| -> String {
        if optimized { return format!("plan-optimized:{}", if stage == "compared" { "different-result" } else { "text-does-not-plan-again" }); }
        if bare { return "plan:contains-expression-with-unparenthesised-operand".to_string(); }
        if dup_group { return "plan:duplicate-group-by-key-aggregate-misprinted".to_string(); }
        if setop && no_columns { return "plan:intersect-except-over-union-empty-select-list".to_string(); }
        if mixed_unions && stage == "compared" && why == "rows" { return "plan:nested-union-all-written-as-union".to_string(); }
        if setop && stage == "compared" && why == "rows" { return "plan:intersect-except-null-equality-lost".to_string(); }
        if setop && stage == "rerun" && msg.contains("compare arrays of different types") { return "plan:intersect-except-written-as-exists-without-coercion".to_string(); }
        if setop && stage == "replan" && (msg.contains("No field named left.") || msg.contains("No field named \"left\".")) { return "plan:intersect-except-under-alias-dangling-left-qualifier".to_string(); }
        if stage == "compared" { format!("{pfx}:different-{why}") } else { format!("{pfx}:{stage}:{}", msg_class(msg)) }
    };
    let h = rt.spawn(async move {
        let ctx = SessionContext::new_with_config(SessionConfig::new().with_target_partitions(1));
        for (i, t) in tabs2.iter().enumerate() { register(&ctx, i, t); }
        // (stage, message) on failure
        let plan0 = match ctx.state().create_logical_plan(&sql02).await { Ok(p) => p, Err(e) => return Err(("original-plan", e.to_string(), String::new())) };
        let plan0 = if optimized { match ctx.state().optimize(&plan0) { Ok(p) => p, Err(e) => return Err(("original-optimize", e.to_string(), String::new())) } } else { plan0 };
        let sql1 = match Unparser::default().plan_to_sql(&plan0) { Ok(s) => s.to_string(), Err(e) => return Err(("unparse", e.to_string(), String::new())) };
        let out0 = match run_plan(&ctx, plan0).await { Ok(o) => o, Err(e) => return Err(("original-run", e, sql1)) };
        let plan1 = match ctx.state().create_logical_plan(&sql1).await { Ok(p) => p, Err(e) => return Err(("replan", e.to_string(), sql1)) };
        let out1 = match run_plan(&ctx, plan1).await { Ok(o) => o, Err(e) => return Err(("rerun", e, sql1)) };
        Ok((sql1, out0, out1))
    });
    let res = rt.block_on(h);
    rt.shutdown_background();
    let head = format!("{{\"id\":{id},\"stream\":\"{stream}\",\"optimized\":{optimized},\"sql0\":{}", json_str(&sql0));
    match res {
        Err(e) => println!("{head},\"panic\":{},\"ok\":false,\"key\":\"plan:panic\"}}", json_str(&e.to_string())),
        Ok(Err((stage, msg, sql1))) => {
            // the unparser may reject a plan (the property speaks about plans it accepts); the original failing is not our business;
            // text that does not plan / run again is a failure
            let ok = !matches!(stage, "replan" | "rerun") || msg == "timeout";
            println!("{head},\"sql1\":{},\"stage\":\"{stage}\",\"msg\":{},\"ok\":{ok},\"key\":{}}}", json_str(&sql1), json_str(&msg),
                json_str(&key_of(stage, &msg, "", false)));
        }
        Ok(Ok((sql1, o0, o1))) => {
            let mut why = String::new();
            if o0.names != o1.names { why = "column-names".into(); }
            let (mut b0, mut b1) = (o0.rows.clone(), o1.rows.clone());
            b0.sort(); b1.sort();
            if let Some(ks) = &keys {
                let proj = |o: &Out| o.rows.iter().map(|r| ks.iter().map(|k| r[*k].clone()).collect::<Vec<_>>()).collect::<Vec<_>>();
                if proj(&o0) != proj(&o1) { why = "sort-key-sequence".into(); }
                if !is_limit && b0 != b1 { why = "rows".into(); }
                if is_limit && o0.rows.len() != o1.rows.len() { why = "row-count".into(); }
            } else if b0 != b1 {
                if inner_limit || is_limit { why = String::new(); /* LIMIT without a total order: any subset is right */ if o0.rows.len() != o1.rows.len() && !inner_limit { why = "row-count".into(); } }
                else { why = "rows".into(); }
            }
            let ok = why.is_empty();
            println!("{head},\"sql1\":{},\"stage\":\"compared\",\"names0\":[{}],\"names1\":[{}],\"rows0\":{},\"rows1\":{},\"nrows\":{},\"why\":\"{why}\",\"ok\":{ok},\"key\":{}}}",
                json_str(&sql1), o0.names.iter().map(|s| json_str(s)).collect::<Vec<_>>().join(","), o1.names.iter().map(|s| json_str(s)).collect::<Vec<_>>().join(","),
                if ok { "null".to_string() } else { rows_json(&o0.rows) }, if ok { "null".to_string() } else { rows_json(&o1.rows) }, o0.rows.len(),
                json_str(&key_of("compared", "", &why, o1.names.is_empty())));
        }
    }
}
/// error message without the parts that vary from query to query
fn msg_class(m: &str) -> String {
    let mut s = String::new();
    let mut in_q = false;
    for c in m.chars().take(160) {
        if c == '\'' || c == '"' || c == '`' { in_q = !in_q; s.push('_'); continue; }
        if in_q { continue; }
        if c.is_ascii_digit() { if !s.ends_with('#') { s.push('#'); } } else { s.push(c); }
    }
    s.chars().take(70).collect()
}

// ------------------------------------------------------------------------------------------------ witnesses
fn c(k: usize) -> X { X::Col(k) }
fn expr_witnesses() -> Vec<(&'static str, Mode, X)> {
    use Operator as O;
    vec![
        // (NOT b0) IS NULL   is written  NOT b0 IS NULL  = NOT (b0 IS NULL)
        ("unparenthesised:Not", Mode::Default, X::Is(0, bx(X::Not(bx(c(3)))))),
        // (NOT b0) IN (true, false)
        ("unparenthesised:Not/in", Mode::Default, X::In(false, bx(X::Not(bx(c(3)))), vec![X::LitB(true), X::LitB(false)])),
        // b0 = (b1 IS NULL)  is written  (b0 = b1 IS NULL) = ((b0 = b1) IS NULL)
        ("unparenthesised:Is", Mode::Default, X::Bin(O::Eq, bx(c(3)), bx(X::Is(0, bx(c(4)))))),
        // b0 = (b1 IN (true, false))
        ("unparenthesised:InList", Mode::Default, X::Bin(O::Eq, bx(c(3)), bx(X::In(false, bx(c(4)), vec![X::LitB(true), X::LitB(false)])))),
        // (s0 LIKE s1) = b0  is written (s0 LIKE s1 = b0) = s0 LIKE (s1 = b0)
        ("unparenthesised:Like", Mode::Default, X::Bin(O::Eq, bx(X::Like(false, false, bx(c(6)), bx(c(7)))), bx(c(3)))),
        // - (- i0)  is written  --i0  (a comment)
        ("unparenthesised:Negative", Mode::Default, X::Neg(bx(X::Neg(bx(c(0)))))),
        ("unparenthesised:NegativeLiteral", Mode::Default, X::Neg(bx(X::LitI(-1)))),
        // pretty: i0 * (i1 / i2) -> i0 * i1 / i2
        ("pretty:same-precedence-right-operand", Mode::Pretty, X::Bin(O::Multiply, bx(c(0)), bx(X::Bin(O::Divide, bx(c(1)), bx(c(2)))))),
        // pretty: (i0 | i1) & i2 -> i0 | i1 & i2
        ("pretty:precedence-table", Mode::Pretty, X::Bin(O::BitwiseAnd, bx(X::Bin(O::BitwiseOr, bx(c(0)), bx(c(1)))), bx(c(2)))),
        // pretty: b0 = (i0 < i1) -> b0 = i0 < i1
        ("pretty:precedence-table/cmp", Mode::Pretty, X::Bin(O::Eq, bx(c(3)), bx(X::Bin(O::Lt, bx(c(0)), bx(c(1)))))),
    ]
}

fn main() {
    let args: Vec<String> = std::env::args().collect();
    let seed: u64 = arg(&args, "--seed", "1").parse().unwrap();
    let n: u64 = arg(&args, "--n", "300").parse().unwrap();
    let only = arg(&args, "--only", "");
    let want = |s: &str| only.is_empty() || only == s;
    let env = env();
    let probe = arg(&args, "--probe", "");
    if !probe.is_empty() {
        let e = env.ctx.parse_sql_expr(&probe, &env.schema).unwrap();
        for mode in [Mode::Default, Mode::Pretty] {
            let s = unparse(&e, mode);
            let b = s.as_ref().ok().map(|s| env.ctx.parse_sql_expr(s, &env.schema));
            println!("{}: {:?}\n  same structure: {:?}", mode.name(), s, b.as_ref().map(|b| b.as_ref().map(|b| norm(b.clone()) == norm(e.clone())).map_err(|e| e.to_string())));
            if let Some(Ok(b)) = b { let (v0, v1) = (eval_rows(&env, &e), eval_rows(&env, &b)); println!("  same values: {:?}", v0 == v1); }
        }
        return;
    }
    // ---- fixed witnesses
    if want("witness") {
        for (k, (name, mode, x)) in expr_witnesses().into_iter().enumerate() {
            expr_case(&env, 1_000_000 + k as u64, &format!("witness:{name}"), &x, mode, true);
        }
    }
    // ---- fixed plan witnesses (t0: c0 BIGINT, c1 BIGINT, c2 BOOLEAN)
    let wt = vec![rg::Tab { types: vec![rg::Ty::Int, rg::Ty::Int, rg::Ty::Bool], parts: 1, rows: vec![
        vec![rg::V::I(1), rg::V::I(2), rg::V::B(true)], vec![rg::V::Null, rg::V::I(1), rg::V::B(false)], vec![rg::V::I(2), rg::V::Null, rg::V::Null],
        vec![rg::V::Null, rg::V::Null, rg::V::B(true)], vec![rg::V::I(1), rg::V::I(1), rg::V::B(false)]] }];
    let plan_w: Vec<(&str, &str, bool, u8)> = vec![
        // (name, sql, optimized, feature: 1 INTERSECT/EXCEPT, 2 unparenthesised operand, 3 duplicate GROUP BY key, 4 UNION inside UNION ALL, 5 = 1 + union input)
        ("plan:expression", "SELECT a1.c0 AS r0 FROM t0 AS a1 WHERE (a1.c2 = (a1.c2 IS NULL))", false, 2),
        ("plan:intersect-null", "(SELECT a1.c0 AS r0 FROM t0 AS a1) INTERSECT (SELECT a2.c0 AS r0 FROM t0 AS a2)", false, 1),
        ("plan:except-under-alias", "SELECT a1.x AS r0 FROM ((SELECT a2.c0 AS x FROM t0 AS a2) EXCEPT (SELECT a3.c1 AS x FROM t0 AS a3)) AS a1", false, 1),
        ("plan:except-over-union", "((SELECT a1.c0 AS r0 FROM t0 AS a1) UNION ALL (SELECT a2.c1 AS r0 FROM t0 AS a2)) EXCEPT ALL (SELECT a3.c0 AS r0 FROM t0 AS a3)", false, 1),
        ("plan:union-in-union-all", "((SELECT a1.c0 AS r0 FROM t0 AS a1) UNION (SELECT a2.c0 AS r0 FROM t0 AS a2)) UNION ALL (SELECT a3.c1 AS r0 FROM t0 AS a3)", false, 4),
        ("plan:intersect-without-coercion", "((SELECT (CASE WHEN (a1.c1 = a1.c0) THEN 'a' WHEN (a1.c1 < a1.c1) THEN CAST(NULL AS VARCHAR) ELSE 'a' END) AS r0 FROM t0 AS a1) UNION (SELECT 'b' AS r0 FROM t0 AS a2)) INTERSECT (SELECT COALESCE('', 'b', 'b') AS r0 FROM t0 AS a3)", false, 1),
        ("plan:duplicate-group-key", "SELECT a2.c2 AS x0, a2.c2 AS x1, count(*) AS x2 FROM t0 AS a2 GROUP BY a2.c2, a2.c2", false, 3),
        ("plan-optimized:replan", "SELECT a1.c0 AS r0 FROM t0 AS a1 WHERE (a1.c1 >= a1.c0)", true, 0),
        ("plan-optimized:result", "(SELECT a1.c0 AS r0 FROM t0 AS a1) EXCEPT ALL (SELECT a2.c1 AS r0 FROM t0 AS a2)", true, 1),
    ];
    let psql = arg(&args, "--plan-probe", "");
    if !psql.is_empty() {
        for opt in [false, true] { plan_case_sql(0, "probe", &wt, psql.clone(), QInfo { keys: None, is_limit: false, inner_limit: false, setop: psql.contains("INTERSECT") || psql.contains("EXCEPT"), bare: false, dup_group: false, mixed_unions: false }, opt); }
        return;
    }
    if want("witness") {
        for (k, (name, sql, opt, feat)) in plan_w.into_iter().enumerate() {
            plan_case_sql(1_000_100 + k as u64, &format!("witness:{name}"), &wt, sql.to_string(),
                QInfo { keys: None, is_limit: false, inner_limit: false, setop: feat == 1, bare: feat == 2, dup_group: feat == 3, mixed_unions: feat == 4 }, opt);
        }
    }
    let mut rng = Rng::new(seed);
    // ---- operator pairs (structural; exhaustive over ALL_OPS x ALL_OPS x side when n is large, else a seeded sample)
    if want("pairs") {
        let total = ALL_OPS.len() * ALL_OPS.len() * 2;
        let take = (n as usize).min(total);
        let start = rng.below(total as u64) as usize;
        let stride = { let mut s = 1 + rng.below(total as u64) as usize; while gcd(s, total) != 1 { s += 1; } s };
        for j in 0..take {
            let k = (start + j * stride) % total;
            let (p, ch, side) = (ALL_OPS[k / (2 * ALL_OPS.len())], ALL_OPS[(k / 2) % ALL_OPS.len()], k % 2);
            let child = X::Bin(ch, bx(c(0)), bx(c(1)));
            let x = if side == 0 { X::Bin(p, bx(child), bx(c(2))) } else { X::Bin(p, bx(c(2)), bx(child)) };
            for mode in [Mode::Default, Mode::Pretty] { expr_case(&env, 100_000 + k as u64, "pairs", &x, mode, false); }
        }
    }
    // ---- random trees
    for (stream, wide, base) in [("frag", false, 0u64), ("wide", true, 200_000)] {
        if !want(stream) { continue; }
        for id in 0..n {
            let t = *rng.pick(&[Ty::B, Ty::B, Ty::B, Ty::I, Ty::S]);
            let d = 2 + rng.below(3) as u32;
            let x = G { rng: &mut rng, wide, portable: false }.gen(t, d);
            for mode in [Mode::Default, Mode::Pretty] { expr_case(&env, base + id, stream, &x, mode, true); }
        }
    }
    if want("dialect") {
        for id in 0..n {
            let t = *rng.pick(&[Ty::B, Ty::B, Ty::I, Ty::S]);
            let x = G { rng: &mut rng, wide: true, portable: true }.gen(t, 3);
            dialect_case(300_000 + id, &x, (id % 4) as usize);
        }
    }
    // ---- plans
    if want("plan") {
        let np = (n / 3).max(19);
        for id in 0..np {
            let stream = rg::STREAMS[(id % rg::STREAMS.len() as u64) as usize];
            let tabs = rg::Gen::gen_tables(&mut rng);
            let q = { let mut g = rg::Gen { rng: &mut rng, tabs: tabs.clone() }; g.query(stream) };
            plan_case(400_000 + id, &format!("plan:{stream}"), &tabs, &q, false);
            if id % 2 == 0 { plan_case(500_000 + id, &format!("plan:{stream}"), &tabs, &q, true); }
        }
    }
}
fn gcd(a: usize, b: usize) -> usize { if b == 0 { a } else { gcd(b, a % b) } }
