//! C53: reported row-count metrics equal the rows actually produced.
//! Two kinds of JSON lines:
//!  k = "poll": the REAL `BaselineMetrics::record_poll` is driven directly with a synthetic history of poll results
//!       (P = Pending, B n = Ready(Some(Ok(batch of n rows))), E = Ready(Some(Err)), N = Ready(None)); after every poll the line records
//!       [output_rows, output_batches, end_time is set, the poll result handed back (same code as the event)].
//!       ok = output_rows after the history = sum of the n of its B events, every poll was handed back unchanged (same variant, same
//!       number of rows), end_time set iff an E or N was seen.
//!  k = "plan": a physical plan (SQL of the C01 generator, a fixed SQL corpus under varied session options, or an operator tree composed
//!       directly from physical operators) is rebuilt with a transparent counting node above EVERY operator (planzoo::instrument), run
//!       to completion with `collect`, and then for every operator: reported = `metrics().output_rows()` (sum over partitions of the
//!       OutputRows metric), counted = rows that flowed through the counter directly above it (per partition), `ended` = that
//!       partition's stream was read to its end.
//!       ok = for every operator that reports the metric and whose output was consumed in full (every executed partition read to the
//!       end): reported == sum(counted).  Mismatches on operators whose consumer stopped early are listed in "early" (not failures:
//!       the property text restricts itself to fully consumed outputs).
//!       A third of the operator trees run under a small memory pool (600..12000 bytes, field "opts" = the limit) so that sorts /
//!       aggregates / repartitions spill; "spill" = [spill_count, spilled_rows] of the node (reported for coverage only).
//!   c53 --seed S --n N [--case ID] [--explain]
#[path = "../refsql_gen.rs"]
mod refsql_gen;
#[path = "../refsql_run.rs"]
mod refsql_run;
#[path = "../planzoo.rs"]
mod planzoo;

use std::sync::Arc;
use std::task::Poll;

use arrow::array::{ArrayRef, Int64Array};
use arrow::datatypes::{DataType, Field, Schema};
use arrow::record_batch::RecordBatch;
use datafusion::common::DataFusionError;
use datafusion::execution::TaskContext;
use datafusion::physical_plan::metrics::{BaselineMetrics, ExecutionPlanMetricsSet, MetricValue};
use datafusion::physical_plan::{collect, displayable, ExecutionPlan};
use datafusion::prelude::*;
use h_util::{arg, json_str, Rng};
use planzoo::*;
use refsql_gen::*;
use refsql_run::{attempt, register, Attempt};

// ------------------------------------------------------------------------------------------------ poll histories
#[derive(Clone, Copy, Debug, PartialEq)]
enum Ev { P, B(usize), E, N }

fn ev_json(e: &Ev) -> String {
    match e { Ev::P => "\"P\"".into(), Ev::B(n) => format!("{{\"B\":{n}}}"), Ev::E => "\"E\"".into(), Ev::N => "\"N\"".into() }
}

fn read_metrics(ms: &ExecutionPlanMetricsSet) -> (usize, usize, bool) {
    let set = ms.clone_inner();
    let (mut rows, mut batches, mut done) = (0, 0, false);
    for m in set.iter() {
        match m.value() {
            MetricValue::OutputRows(c) => rows += c.value(),
            MetricValue::OutputBatches(c) => batches += c.value(),
            MetricValue::EndTimestamp(t) => done = done || t.value().is_some(),
            _ => {}
        }
    }
    (rows, batches, done)
}

fn poll_case(id: usize, hist: &[Ev]) -> String {
    let ms = ExecutionPlanMetricsSet::new();
    let bm = BaselineMetrics::new(&ms, 0);
    let schema = Arc::new(Schema::new(vec![Field::new("x", DataType::Int64, true)]));
    let mut obs = vec![];
    let mut pass = true;
    let mut sum = 0usize;
    let mut fin = false;
    for e in hist {
        let input: Poll<Option<datafusion::common::Result<RecordBatch>>> = match e {
            Ev::P => Poll::Pending,
            Ev::B(n) => Poll::Ready(Some(Ok(RecordBatch::try_new(Arc::clone(&schema), vec![Arc::new(Int64Array::from(vec![1i64; *n])) as ArrayRef]).unwrap()))),
            Ev::E => Poll::Ready(Some(Err(DataFusionError::Execution("synthetic".into())))),
            Ev::N => Poll::Ready(None),
        };
        let out = bm.record_poll(input);
        let back = match &out {
            Poll::Pending => Ev::P,
            Poll::Ready(Some(Ok(b))) => Ev::B(b.num_rows()),
            Poll::Ready(Some(Err(_))) => Ev::E,
            Poll::Ready(None) => Ev::N,
        };
        if back != *e { pass = false; }
        if let Ev::B(n) = e { sum += n; }
        if matches!(e, Ev::E | Ev::N) { fin = true; }
        let (r, b, d) = read_metrics(&ms);
        obs.push(format!("[{r},{b},{},{}]", d, ev_json(&back)));
    }
    let (r, _, d) = read_metrics(&ms);
    let ok = pass && r == sum && d == fin;
    drop(bm);
    let (r2, _, d2) = read_metrics(&ms);
    let ok = ok && r2 == sum && d2;
    format!("{{\"k\":\"poll\",\"id\":{id},\"hist\":[{}],\"obs\":[{}],\"after_drop\":[{r2},{d2}],\"ok\":{ok}}}",
        hist.iter().map(ev_json).collect::<Vec<_>>().join(","), obs.join(","))
}

fn gen_hist(rng: &mut Rng) -> Vec<Ev> {
    let n = rng.below(12) as usize;
    let mut v = vec![];
    for _ in 0..n {
        v.push(match rng.below(10) {
            0 | 1 | 2 => Ev::P,
            3 | 4 | 5 | 6 => Ev::B(*rng.pick(&[0usize, 1, 2, 3, 7, 100, 8192])),
            7 => Ev::E,
            _ => Ev::N,
        });
    }
    // most histories are protocol-conforming (nothing but N after the first N); a quarter keep arbitrary tails
    if !rng.chance(1, 4) {
        if let Some(i) = v.iter().position(|e| *e == Ev::N) { for e in v.iter_mut().skip(i) { *e = Ev::N; } }
    }
    v
}

// ------------------------------------------------------------------------------------------------ plans
struct NodeObs { spill: (usize, usize), name: String, rep: Option<usize>, rep_pp: Vec<(usize, usize)>, cnt: Vec<usize>, ended: Vec<bool>, exec: Vec<usize>, kids: Vec<usize> }

enum Status { Ok(Vec<NodeObs>, usize, usize), PlanErr(String), ExecErr(String) }

async fn observe(plan: Arc<dyn ExecutionPlan>, tctx: Arc<TaskContext>, explain: bool) -> Status {
    let mut reg = vec![];
    let (root, root_id) = match instrument(&plan, &mut reg) { Ok(x) => x, Err(e) => return Status::PlanErr(format!("instrument: {e}")) };
    if explain { eprintln!("{}", displayable(plan.as_ref()).indent(true)); }
    let out = match collect(root, tctx).await { Ok(b) => b, Err(e) => return Status::ExecErr(e.to_string()) };
    let total: usize = out.iter().map(|b| b.num_rows()).sum();
    let mut nodes = vec![];
    for p in &reg {
        let ms = p.node.metrics();
        let rep = ms.as_ref().and_then(|m| m.output_rows());
        let mut rep_pp = vec![];
        if let Some(m) = &ms {
            for x in m.iter() {
                if let MetricValue::OutputRows(c) = x.value() { rep_pp.push((x.partition().unwrap_or(usize::MAX), c.value())); }
            }
        }
        nodes.push(NodeObs { spill: (ms.as_ref().and_then(|m| m.spill_count()).unwrap_or(0), ms.as_ref().and_then(|m| m.spilled_rows()).unwrap_or(0)), name: p.node.name().to_string(), rep, rep_pp, cnt: p.counter.rows(), ended: p.counter.ended(), exec: p.counter.executed(), kids: p.kids.clone() });
    }
    Status::Ok(nodes, root_id, total)
}

fn plan_line(id: usize, stream: &str, tp: usize, bs: usize, opts: usize, desc: &str, st: Result<Status, String>) -> String {
    let head = format!("{{\"k\":\"plan\",\"id\":{id},\"stream\":{},\"tp\":{tp},\"bs\":{bs},\"opts\":{opts},\"desc\":{}", json_str(stream), json_str(desc));
    match st {
        Err(s) => format!("{head},\"status\":{},\"ok\":true}}", json_str(&s)),
        Ok(Status::PlanErr(e)) => format!("{head},\"status\":\"plan_err\",\"err\":{},\"ok\":true}}", json_str(&e.chars().take(300).collect::<String>())),
        Ok(Status::ExecErr(e)) => format!("{head},\"status\":\"exec_err\",\"err\":{},\"ok\":true}}", json_str(&e.chars().take(300).collect::<String>())),
        Ok(Status::Ok(nodes, root, total)) => {
            let mut bad = vec![];
            let mut early = vec![];
            for (i, n) in nodes.iter().enumerate() {
                if let Some(r) = n.rep {
                    let c: usize = n.cnt.iter().sum();
                    let full = (0..n.cnt.len()).all(|p| n.exec[p] == 0 || n.ended[p]);
                    if r != c { if full { bad.push(i) } else { early.push(i) } }
                }
            }
            let root_ok = nodes[root].cnt.iter().sum::<usize>() == total;
            let nj: Vec<String> = nodes.iter().enumerate().map(|(i, n)| format!(
                "{{\"id\":{i},\"spill\":[{},{}],\"name\":{},\"rep\":{},\"rep_pp\":[{}],\"cnt\":{:?},\"ended\":{:?},\"exec\":{:?},\"kids\":{:?}}}",
                n.spill.0, n.spill.1, json_str(&n.name), n.rep.map(|x| x.to_string()).unwrap_or("null".into()),
                n.rep_pp.iter().map(|(p, v)| format!("[{},{}]", if *p == usize::MAX { -1 } else { *p as i64 }, v)).collect::<Vec<_>>().join(","),
                n.cnt, n.ended, n.exec, n.kids)).collect();
            format!("{head},\"status\":\"ok\",\"root\":{root},\"total\":{total},\"nodes\":[{}],\"bad\":{:?},\"early\":{:?},\"ok\":{}}}",
                nj.join(","), bad, early, bad.is_empty() && root_ok)
        }
    }
}

fn session(tabs: &[Tab], tp: usize, bs: usize, opts: usize) -> SessionContext {
    let mut cfg = SessionConfig::new().with_target_partitions(tp).with_batch_size(bs);
    for (k, v) in SQL_OPTS[opts] { cfg = cfg.set_str(k, v); }
    let ctx = SessionContext::new_with_config(cfg);
    for (i, t) in tabs.iter().enumerate() { register(&ctx, i, t); }
    ctx
}

fn run_sql(id: usize, stream: &str, tabs: &[Tab], sql: &str, tp: usize, bs: usize, opts: usize, explain: bool) -> String {
    let (tabs2, sql2) = (tabs.to_vec(), sql.to_string());
    let r = attempt(20, move || async move {
        let ctx = session(&tabs2, tp, bs, opts);
        let df = match ctx.sql(&sql2).await { Ok(d) => d, Err(e) => return Status::PlanErr(e.to_string()) };
        let plan = match df.create_physical_plan().await { Ok(p) => p, Err(e) => return Status::PlanErr(e.to_string()) };
        observe(plan, ctx.task_ctx(), explain).await
    });
    let st = match r { Attempt::Done(s) => Ok(s), Attempt::Panic(m) => Err(format!("panic: {}", m.chars().take(200).collect::<String>())), Attempt::Hang => Err("hang".to_string()) };
    plan_line(id, stream, tp, bs, opts, sql, st)
}

fn run_tree(id: usize, stream: &str, plan: Result<Arc<dyn ExecutionPlan>, String>, desc: &str, bs: usize, mem: Option<usize>, explain: bool) -> String {
    let st = match plan {
        Err(e) => Ok(Status::PlanErr(e)),
        Ok(p) => {
            let r = attempt(20, move || async move {
                let cfg = SessionConfig::new().with_batch_size(bs).with_target_partitions(2).set_str("datafusion.execution.sort_spill_reservation_bytes", "0");
                let ctx = match mem {
                    // a small memory pool: sorts, aggregates and repartitions spill (or the plan fails with ResourcesExhausted = exec_err, skipped)
                    Some(m) => SessionContext::new_with_config_rt(cfg, datafusion::execution::runtime_env::RuntimeEnvBuilder::new().with_memory_limit(m, 1.0).build_arc().unwrap()),
                    None => SessionContext::new_with_config(cfg),
                };
                observe(p, ctx.task_ctx(), explain).await
            });
            match r { Attempt::Done(s) => Ok(s), Attempt::Panic(m) => Err(format!("panic: {}", m.chars().take(200).collect::<String>())), Attempt::Hang => Err("hang".to_string()) }
        }
    };
    plan_line(id, stream, 2, bs, mem.unwrap_or(0), desc, st)
}

fn witness_tabs() -> Vec<Tab> {
    let rows = |v: &[(i64, i64)]| v.iter().map(|(a, b)| vec![V::I(*a), V::I(*b)]).collect::<Vec<_>>();
    vec![
        Tab { types: vec![Ty::Int, Ty::Int], rows: rows(&[(1, 1), (2, 2), (3, 3), (2, 5), (4, 0), (1, 7)]), parts: 2 },
        Tab { types: vec![Ty::Int, Ty::Int], rows: rows(&[(2, 1), (3, 1), (3, 2), (5, 9)]), parts: 1 },
    ]
}

fn main() {
    let args: Vec<String> = std::env::args().collect();
    let seed: u64 = arg(&args, "--seed", "1").parse().unwrap();
    let n: usize = arg(&args, "--n", "200").parse().unwrap();
    let only: i64 = arg(&args, "--case", "-1").parse().unwrap();
    let explain = args.iter().any(|a| a == "--explain");
    std::panic::set_hook(Box::new(|_| {}));
    let want = |id: usize| only < 0 || only as usize == id;

    // fixed witnesses (ids 1_000_000..) run first: the SQL corpus on fixed tables, default options and SMJ preference
    let wt = witness_tabs();
    let mut wid = 1_000_000;
    for (name, sql) in sql_corpus(&wt) {
        for (tp, bs, o) in [(1usize, 8192usize, 0usize), (3, 2, 0), (2, 2, 1)] {
            if want(wid) { println!("{}", run_sql(wid, &format!("witness:{name}"), &wt, &sql, tp, bs, o, explain)); }
            wid += 1;
        }
    }

    for ws in 0..WITNESS_TREES {
        let mut r = Rng::new(777);
        let mut g = TreeGen { rng: &mut r, desc: vec![], bs: 2 };
        let plan = witness_tree(&mut g, ws).map_err(|e| e.to_string());
        let desc = g.desc.join(" ; ");
        if want(wid) { println!("{}", run_tree(wid, &format!("witness:tree{ws}"), plan, &desc, 2, None, explain)); }
        wid += 1;
    }

    let mut rng = Rng::new(seed);
    // poll histories
    let fixed: Vec<Vec<Ev>> = vec![vec![], vec![Ev::N], vec![Ev::B(3), Ev::P, Ev::B(0), Ev::N, Ev::N], vec![Ev::P, Ev::B(5), Ev::E], vec![Ev::B(1), Ev::B(2)], vec![Ev::N, Ev::B(4)]];
    let mut pid = 2_000_000;
    for h in &fixed { if want(pid) { println!("{}", poll_case(pid, h)); } pid += 1; }
    for _ in 0..n { let h = gen_hist(&mut rng); if want(pid) { println!("{}", poll_case(pid, &h)); } pid += 1; }

    // plans
    let mut tabs = Gen::gen_tables(&mut rng);
    let mut corpus = sql_corpus(&tabs);
    let mut ci = (seed as usize * 7) % corpus.len();
    for i in 0..n {
        if i % 8 == 0 { tabs = Gen::gen_tables(&mut rng); corpus = sql_corpus(&tabs); }
        let tp = *rng.pick(&[1usize, 2, 3, 4]);
        let bs = *rng.pick(&[1usize, 2, 3, 8192]);
        match i % 4 {
            0 => {
                let s = STREAMS[rng.below(STREAMS.len() as u64) as usize];
                let q = { let mut g = Gen { rng: &mut rng, tabs: tabs.clone() }; g.query(s) };
                let widths: Vec<usize> = tabs.iter().map(|t| t.types.len()).collect();
                let sql = to_sql(&q, &widths);
                let o = rng.below(SQL_OPTS.len() as u64) as usize;
                if want(i) { println!("{}", run_sql(i, &format!("gen:{s}"), &tabs, &sql, tp, bs, o, explain)); }
            }
            1 => {
                let (name, sql) = corpus[ci % corpus.len()].clone();
                ci += 1;
                let o = rng.below(SQL_OPTS.len() as u64) as usize;
                if want(i) { println!("{}", run_sql(i, &format!("corpus:{name}"), &tabs, &sql, tp, bs, o, explain)); }
            }
            _ => {
                let d = 1 + rng.below(4) as u32;
                let mut g = TreeGen { rng: &mut rng, desc: vec![], bs };
                let plan = g.tree(d).map_err(|e| e.to_string());
                let desc = g.desc.join(" ; ");
                let mem = if rng.chance(1, 3) { Some(*rng.pick(&[600usize, 1500, 4000, 12000])) } else { None };
                if want(i) { println!("{}", run_tree(i, if mem.is_some() { "tree_mem" } else { "tree" }, plan, &desc, bs, mem, explain)); }
            }
        }
    }
}
