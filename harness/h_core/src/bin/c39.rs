//! C39: INSERT / UPDATE / DELETE on MemTable follow SQL semantics.
//! One JSON line per history: initial table (partitions/batches/rows), the statements (AST + SQL text),
//! and after every statement the reported count, the table's exact partition/batch layout
//! (read from MemTable::batches) and the bag returned by `SELECT a, b, c FROM t`.
//! "ok" = the direct oracle: an independent reference (flat Vec of rows, 3-valued logic) gives the same
//! counts and the same bag of rows after every statement.
//! `--sql "stmt; stmt"` runs the given statements on a fixed table and prints what happens (probe).
use std::panic::{catch_unwind, AssertUnwindSafe};
use std::sync::Arc;

use arrow::array::{Array, ArrayRef, Int64Array, UInt64Array};
use arrow::datatypes::{DataType, Field, Schema};
use arrow::record_batch::RecordBatch;
use datafusion::datasource::MemTable;
use datafusion::prelude::*;
use h_util::{arg, json_str, Rng};

type Val = Option<i64>;
type Row = Vec<Val>;
const NCOLS: usize = 3;
const NAMES: [&str; 3] = ["a", "b", "c"];

#[derive(Clone, Debug)]
enum IE { Col(usize), Lit(i64), Null, Add(Box<IE>, Box<IE>), Sub(Box<IE>, Box<IE>), Mul(Box<IE>, Box<IE>) }
#[derive(Clone, Debug)]
enum BE {
    Lit(bool), Null, Cmp(&'static str, IE, IE), And(Box<BE>, Box<BE>), Or(Box<BE>, Box<BE>), Not(Box<BE>),
    IsNull(IE), IsNotNull(IE),
}
#[derive(Clone, Debug)]
enum Stmt {
    Insert { cols: Option<Vec<usize>>, vals: Vec<Vec<Val>> },
    Delete { w: Option<BE> },
    Update { asg: Vec<(usize, IE)>, w: Option<BE> },
}

// ---------------------------------------------------------------- rendering
fn ie_sql(e: &IE) -> String {
    match e {
        IE::Col(i) => NAMES[*i].to_string(),
        IE::Lit(z) => if *z < 0 { format!("({z})") } else { format!("{z}") },
        IE::Null => "NULL".into(),
        IE::Add(a, b) => format!("({} + {})", ie_sql(a), ie_sql(b)),
        IE::Sub(a, b) => format!("({} - {})", ie_sql(a), ie_sql(b)),
        IE::Mul(a, b) => format!("({} * {})", ie_sql(a), ie_sql(b)),
    }
}
fn be_sql(p: &BE) -> String {
    match p {
        BE::Lit(true) => "TRUE".into(),
        BE::Lit(false) => "FALSE".into(),
        BE::Null => "NULL".into(),
        BE::Cmp(op, a, b) => format!("({} {} {})", ie_sql(a), op, ie_sql(b)),
        BE::And(p, q) => format!("({} AND {})", be_sql(p), be_sql(q)),
        BE::Or(p, q) => format!("({} OR {})", be_sql(p), be_sql(q)),
        BE::Not(p) => format!("(NOT {})", be_sql(p)),
        BE::IsNull(a) => format!("({} IS NULL)", ie_sql(a)),
        BE::IsNotNull(a) => format!("({} IS NOT NULL)", ie_sql(a)),
    }
}
fn val_sql(v: &Val) -> String { match v { Some(z) => if *z < 0 { format!("({z})") } else { z.to_string() }, None => "NULL".into() } }
fn stmt_sql(s: &Stmt) -> String {
    match s {
        Stmt::Insert { cols, vals } => {
            let cl = match cols { Some(cs) => format!(" ({})", cs.iter().map(|c| NAMES[*c]).collect::<Vec<_>>().join(", ")), None => String::new() };
            let vs: Vec<String> = vals.iter().map(|r| format!("({})", r.iter().map(val_sql).collect::<Vec<_>>().join(", "))).collect();
            format!("INSERT INTO t{} VALUES {}", cl, vs.join(", "))
        }
        Stmt::Delete { w } => match w { Some(p) => format!("DELETE FROM t WHERE {}", be_sql(p)), None => "DELETE FROM t".into() },
        Stmt::Update { asg, w } => {
            let a: Vec<String> = asg.iter().map(|(c, e)| format!("{} = {}", NAMES[*c], ie_sql(e))).collect();
            match w { Some(p) => format!("UPDATE t SET {} WHERE {}", a.join(", "), be_sql(p)), None => format!("UPDATE t SET {}", a.join(", ")) }
        }
    }
}
fn ie_json(e: &IE) -> String {
    match e {
        IE::Col(i) => format!("{{\"c\":{i}}}"),
        IE::Lit(z) => format!("{{\"l\":{z}}}"),
        IE::Null => "\"null\"".into(),
        IE::Add(a, b) => format!("{{\"op\":\"+\",\"a\":{},\"b\":{}}}", ie_json(a), ie_json(b)),
        IE::Sub(a, b) => format!("{{\"op\":\"-\",\"a\":{},\"b\":{}}}", ie_json(a), ie_json(b)),
        IE::Mul(a, b) => format!("{{\"op\":\"*\",\"a\":{},\"b\":{}}}", ie_json(a), ie_json(b)),
    }
}
fn be_json(p: &BE) -> String {
    match p {
        BE::Lit(b) => format!("{{\"bl\":{b}}}"),
        BE::Null => "\"bnull\"".into(),
        BE::Cmp(op, a, b) => format!("{{\"cmp\":\"{}\",\"a\":{},\"b\":{}}}", op, ie_json(a), ie_json(b)),
        BE::And(p, q) => format!("{{\"and\":[{},{}]}}", be_json(p), be_json(q)),
        BE::Or(p, q) => format!("{{\"or\":[{},{}]}}", be_json(p), be_json(q)),
        BE::Not(p) => format!("{{\"not\":{}}}", be_json(p)),
        BE::IsNull(a) => format!("{{\"isnull\":{}}}", ie_json(a)),
        BE::IsNotNull(a) => format!("{{\"notnull\":{}}}", ie_json(a)),
    }
}
fn row_json(r: &Row) -> String {
    format!("[{}]", r.iter().map(|v| match v { Some(z) => z.to_string(), None => "null".into() }).collect::<Vec<_>>().join(","))
}
fn rows_json(rs: &[Row]) -> String { format!("[{}]", rs.iter().map(row_json).collect::<Vec<_>>().join(",")) }
fn table_json(t: &[Vec<Vec<Row>>]) -> String {
    format!("[{}]", t.iter().map(|p| format!("[{}]", p.iter().map(|b| rows_json(b)).collect::<Vec<_>>().join(","))).collect::<Vec<_>>().join(","))
}
fn opt_be_json(w: &Option<BE>) -> String { match w { Some(p) => be_json(p), None => "null".into() } }
fn stmt_json(s: &Stmt) -> String {
    match s {
        Stmt::Insert { cols, vals } => format!("{{\"ins\":{{\"cols\":{},\"vals\":{}}}}}",
            match cols { Some(cs) => format!("[{}]", cs.iter().map(|c| c.to_string()).collect::<Vec<_>>().join(",")), None => "null".into() },
            rows_json(vals)),
        Stmt::Delete { w } => format!("{{\"del\":{{\"w\":{}}}}}", opt_be_json(w)),
        Stmt::Update { asg, w } => format!("{{\"upd\":{{\"asg\":[{}],\"w\":{}}}}}",
            asg.iter().map(|(c, e)| format!("[{},{}]", c, ie_json(e))).collect::<Vec<_>>().join(","), opt_be_json(w)),
    }
}

// ---------------------------------------------------------------- independent reference (the oracle)
#[derive(Debug)]
struct Overflow;
fn ev_i(r: &Row, e: &IE) -> Result<Val, Overflow> {
    let bin = |a: &IE, b: &IE, f: fn(i64, i64) -> Option<i64>| -> Result<Val, Overflow> {
        match (ev_i(r, a)?, ev_i(r, b)?) { (Some(x), Some(y)) => f(x, y).map(Some).ok_or(Overflow), _ => Ok(None) }
    };
    match e {
        IE::Col(i) => Ok(r[*i]),
        IE::Lit(z) => Ok(Some(*z)),
        IE::Null => Ok(None),
        IE::Add(a, b) => bin(a, b, i64::checked_add),
        IE::Sub(a, b) => bin(a, b, i64::checked_sub),
        IE::Mul(a, b) => bin(a, b, i64::checked_mul),
    }
}
fn ev_b(r: &Row, p: &BE) -> Result<Option<bool>, Overflow> {
    Ok(match p {
        BE::Lit(b) => Some(*b),
        BE::Null => None,
        BE::Cmp(op, a, b) => match (ev_i(r, a)?, ev_i(r, b)?) {
            (Some(x), Some(y)) => Some(match *op { "=" => x == y, "<>" => x != y, "<" => x < y, "<=" => x <= y, ">" => x > y, _ => x >= y }),
            _ => None,
        },
        BE::And(p, q) => match (ev_b(r, p)?, ev_b(r, q)?) {
            (Some(false), _) | (_, Some(false)) => Some(false),
            (Some(true), Some(true)) => Some(true),
            _ => None,
        },
        BE::Or(p, q) => match (ev_b(r, p)?, ev_b(r, q)?) {
            (Some(true), _) | (_, Some(true)) => Some(true),
            (Some(false), Some(false)) => Some(false),
            _ => None,
        },
        BE::Not(p) => ev_b(r, p)?.map(|b| !b),
        BE::IsNull(a) => Some(ev_i(r, a)?.is_none()),
        BE::IsNotNull(a) => Some(ev_i(r, a)?.is_some()),
    })
}
fn where_true(r: &Row, w: &Option<BE>) -> Result<bool, Overflow> {
    match w { None => Ok(true), Some(p) => Ok(ev_b(r, p)? == Some(true)) }
}
/// reference semantics on the flat row list: returns the count
fn ref_apply(rows: &mut Vec<Row>, s: &Stmt) -> Result<u64, Overflow> {
    match s {
        Stmt::Insert { cols, vals } => {
            for v in vals {
                let mut r: Row = vec![None; NCOLS];
                match cols {
                    None => r.clone_from(v),
                    Some(cs) => for (j, c) in cs.iter().enumerate() { r[*c] = v[j]; },
                }
                rows.push(r);
            }
            Ok(vals.len() as u64)
        }
        Stmt::Delete { w } => {
            let mut kept = vec![];
            let mut n = 0;
            for r in rows.iter() { if where_true(r, w)? { n += 1 } else { kept.push(r.clone()) } }
            *rows = kept;
            Ok(n)
        }
        Stmt::Update { asg, w } => {
            let mut n = 0;
            for r in rows.iter_mut() {
                if where_true(r, w)? {
                    n += 1;
                    let old = r.clone();
                    for (c, e) in asg { r[*c] = ev_i(&old, e)?; }
                }
            }
            Ok(n)
        }
    }
}

// ---------------------------------------------------------------- input classes of the two known findings
/// constant folding (Some(v): the expression has value v on every row)
fn cf_i(e: &IE) -> Option<Val> {
    let bin = |a: &IE, b: &IE, f: fn(i64, i64) -> Option<i64>| -> Option<Val> {
        match (cf_i(a), cf_i(b)) {
            (Some(None), _) | (_, Some(None)) => Some(None),
            (Some(Some(x)), Some(Some(y))) => f(x, y).map(Some),
            _ => None,
        }
    };
    match e {
        IE::Col(_) => None,
        IE::Lit(z) => Some(Some(*z)),
        IE::Null => Some(None),
        IE::Add(a, b) => bin(a, b, i64::checked_add),
        IE::Sub(a, b) => bin(a, b, i64::checked_sub),
        IE::Mul(a, b) => bin(a, b, i64::checked_mul),
    }
}
fn cf_b(p: &BE) -> Option<Option<bool>> {
    match p {
        BE::Lit(b) => Some(Some(*b)),
        BE::Null => Some(None),
        BE::Cmp(op, a, b) => match (cf_i(a), cf_i(b)) {
            (Some(None), _) | (_, Some(None)) => Some(None),
            (Some(Some(x)), Some(Some(y))) => Some(Some(match *op { "=" => x == y, "<>" => x != y, "<" => x < y, "<=" => x <= y, ">" => x > y, _ => x >= y })),
            _ => None,
        },
        BE::And(p, q) => match (cf_b(p), cf_b(q)) {
            (Some(Some(false)), _) | (_, Some(Some(false))) => Some(Some(false)),
            (Some(Some(true)), Some(Some(true))) => Some(Some(true)),
            (Some(_), Some(_)) => Some(None),
            _ => None,
        },
        BE::Or(p, q) => match (cf_b(p), cf_b(q)) {
            (Some(Some(true)), _) | (_, Some(Some(true))) => Some(Some(true)),
            (Some(Some(false)), Some(Some(false))) => Some(Some(false)),
            (Some(_), Some(_)) => Some(None),
            _ => None,
        },
        BE::Not(p) => cf_b(p).map(|v| v.map(|b| !b)),
        BE::IsNull(a) => cf_i(a).map(|v| Some(v.is_none())),
        BE::IsNotNull(a) => cf_i(a).map(|v| Some(v.is_some())),
    }
}
/// the WHERE clause folds to FALSE or NULL
fn folds_away(w: &Option<BE>) -> bool {
    match w { Some(p) => matches!(cf_b(p), Some(Some(false)) | Some(None)), None => false }
}
/// which of TRUE (1) / FALSE (2) / NULL (4) the predicate can take at all (over-approximation):
/// the simplifier also folds predicates that are not constant but can never be TRUE (NULL AND p, ...)
fn may_b(p: &BE) -> u8 {
    let comb = |x: u8, y: u8, f: fn(Option<bool>, Option<bool>) -> Option<bool>| -> u8 {
        let vals = [(1u8, Some(true)), (2, Some(false)), (4, None)];
        let mut out = 0;
        for (mx, vx) in vals { for (my, vy) in vals { if x & mx != 0 && y & my != 0 {
            out |= match f(vx, vy) { Some(true) => 1, Some(false) => 2, None => 4 };
        } } }
        out
    };
    match p {
        BE::Lit(true) => 1,
        BE::Lit(false) => 2,
        BE::Null => 4,
        BE::Cmp(..) => match cf_b(p) { Some(Some(true)) => 1, Some(Some(false)) => 2, Some(None) => 4, None => 7 },
        BE::And(p, q) => comb(may_b(p), may_b(q), |x, y| match (x, y) { (Some(false), _) | (_, Some(false)) => Some(false), (Some(true), Some(true)) => Some(true), _ => None }),
        BE::Or(p, q) => comb(may_b(p), may_b(q), |x, y| match (x, y) { (Some(true), _) | (_, Some(true)) => Some(true), (Some(false), Some(false)) => Some(false), _ => None }),
        BE::Not(p) => { let m = may_b(p); (if m & 1 != 0 { 2 } else { 0 }) | (if m & 2 != 0 { 1 } else { 0 }) | (m & 4) }
        BE::IsNull(_) | BE::IsNotNull(_) => match cf_b(p) { Some(Some(true)) => 1, Some(Some(false)) => 2, _ => 3 },
    }
}
/// the WHERE clause can never be TRUE
fn never_true(w: &Option<BE>) -> bool { match w { Some(p) => may_b(p) & 1 == 0, None => false } }

fn arith_key(e: &IE) -> String {
    match e {
        IE::Add(a, b) | IE::Mul(a, b) => {
            let (mut x, mut y) = (arith_key(a), arith_key(b));
            if x > y { std::mem::swap(&mut x, &mut y); }
            format!("({} {} {})", x, if matches!(e, IE::Add(..)) { "+" } else { "*" }, y)
        }
        IE::Sub(a, b) => format!("({} - {})", arith_key(a), arith_key(b)),
        _ => ie_sql(e),
    }
}
fn arith_nodes_i(e: &IE, out: &mut Vec<String>) {
    match e {
        IE::Add(a, b) | IE::Sub(a, b) | IE::Mul(a, b) => { out.push(arith_key(e)); arith_nodes_i(a, out); arith_nodes_i(b, out); }
        _ => {}
    }
}
fn arith_nodes_b(p: &BE, out: &mut Vec<String>) {
    match p {
        BE::Cmp(_, a, b) => { arith_nodes_i(a, out); arith_nodes_i(b, out); }
        BE::And(p, q) | BE::Or(p, q) => { arith_nodes_b(p, out); arith_nodes_b(q, out); }
        BE::Not(p) => arith_nodes_b(p, out),
        BE::IsNull(a) | BE::IsNotNull(a) => arith_nodes_i(a, out),
        _ => {}
    }
}
fn has_dup(mut v: Vec<String>) -> bool { let n = v.len(); v.sort(); v.dedup(); v.len() != n }
/// a repeated arithmetic subexpression inside the WHERE clause or inside the SET list
fn repeats_subexpr(s: &Stmt) -> bool {
    let (asg, w) = match s { Stmt::Insert { .. } => return false, Stmt::Delete { w } => (None, w), Stmt::Update { asg, w } => (Some(asg), w) };
    let mut a = vec![];
    if let Some(p) = w { arith_nodes_b(p, &mut a); }
    let mut b = vec![];
    if let Some(asg) = asg { for (_, e) in asg { arith_nodes_i(e, &mut b); } }
    has_dup(a) || has_dup(b)
}
fn stmt_where(s: &Stmt) -> Option<&Option<BE>> { match s { Stmt::Insert { .. } => None, Stmt::Delete { w } => Some(w), Stmt::Update { w, .. } => Some(w) } }

// ---------------------------------------------------------------- generators
fn gen_val(rng: &mut Rng) -> Val { if rng.chance(3, 10) { None } else { Some(rng.range(-2, 4)) } }
fn gen_row(rng: &mut Rng) -> Row { (0..NCOLS).map(|_| gen_val(rng)).collect() }

fn gen_ie(rng: &mut Rng, depth: u32) -> IE {
    if depth == 0 || rng.chance(2, 5) {
        return match rng.below(10) { 0..=5 => IE::Col(rng.below(3) as usize), 6..=8 => IE::Lit(rng.range(-2, 4)), _ => IE::Null };
    }
    let a = gen_ie(rng, depth - 1);
    match rng.below(3) {
        0 => IE::Add(Box::new(a), Box::new(gen_ie(rng, depth - 1))),
        1 => IE::Sub(Box::new(a), Box::new(gen_ie(rng, depth - 1))),
        // products only with a small literal factor: values stay far away from the i64 range
        _ => { let l = IE::Lit(rng.range(-2, 2)); if rng.chance(1, 2) { IE::Mul(Box::new(a), Box::new(l)) } else { IE::Mul(Box::new(l), Box::new(a)) } }
    }
}
const OPS: [&str; 6] = ["=", "<>", "<", "<=", ">", ">="];
fn gen_be(rng: &mut Rng, depth: u32) -> BE {
    if depth == 0 || rng.chance(1, 3) {
        return match rng.below(20) {
            0 => BE::Lit(rng.chance(1, 2)),
            1 => BE::Null,
            2 => BE::Cmp(OPS[rng.below(6) as usize], IE::Lit(rng.range(0, 2)), IE::Lit(rng.range(0, 2))), // constant comparison
            3..=5 => BE::IsNull(gen_ie(rng, 1)),
            6 => BE::IsNotNull(gen_ie(rng, 1)),
            _ => BE::Cmp(OPS[rng.below(6) as usize], gen_ie(rng, 1), gen_ie(rng, 1)),
        };
    }
    match rng.below(7) {
        0..=2 => BE::And(Box::new(gen_be(rng, depth - 1)), Box::new(gen_be(rng, depth - 1))),
        3 | 4 => BE::Or(Box::new(gen_be(rng, depth - 1)), Box::new(gen_be(rng, depth - 1))),
        5 => BE::Not(Box::new(gen_be(rng, depth - 1))),
        _ => { let p = gen_be(rng, depth - 1); BE::And(Box::new(p.clone()), Box::new(p)) } // duplicate conjunct
    }
}
fn gen_where(rng: &mut Rng) -> Option<BE> { if rng.chance(1, 6) { None } else { Some(gen_be(rng, 3)) } }

fn gen_stmt(rng: &mut Rng) -> Stmt {
    match rng.below(10) {
        0..=2 => {
            let nrows = 1 + rng.below(3) as usize;
            if rng.chance(1, 2) {
                Stmt::Insert { cols: None, vals: (0..nrows).map(|_| gen_row(rng)).collect() }
            } else {
                // a column list: a non-empty subset of the columns in random order
                let mut cs: Vec<usize> = vec![0, 1, 2];
                for i in (1..3).rev() { let j = rng.below(i as u64 + 1) as usize; cs.swap(i, j); }
                cs.truncate(1 + rng.below(3) as usize);
                let k = cs.len();
                Stmt::Insert { cols: Some(cs), vals: (0..nrows).map(|_| (0..k).map(|_| gen_val(rng)).collect()).collect() }
            }
        }
        3..=5 => Stmt::Delete { w: gen_where(rng) },
        _ => {
            let w = gen_where(rng);
            if rng.chance(1, 4) {
                // swap two columns
                let x = rng.below(3) as usize;
                let y = (x + 1 + rng.below(2) as usize) % 3;
                return Stmt::Update { asg: vec![(x, IE::Col(y)), (y, IE::Col(x))], w };
            }
            let mut cs: Vec<usize> = vec![0, 1, 2];
            for i in (1..3).rev() { let j = rng.below(i as u64 + 1) as usize; cs.swap(i, j); }
            cs.truncate(1 + rng.below(3) as usize);
            let asg = cs.iter().map(|c| {
                let e = if rng.chance(1, 12) { IE::Col(*c) } else { gen_ie(rng, 2) };
                (*c, e)
            }).collect();
            Stmt::Update { asg, w }
        }
    }
}

/// main stream: statements outside the two known-finding classes
fn gen_clean_stmt(rng: &mut Rng) -> Stmt {
    loop {
        let s = gen_stmt(rng);
        let fold = stmt_where(&s).map(never_true).unwrap_or(false);
        if !fold && !repeats_subexpr(&s) { return s; }
    }
}
/// statements inside the known-finding classes (constant WHERE / repeated subexpression)
fn gen_known_stmt(rng: &mut Rng) -> Stmt {
    let gt = |c: usize, z: i64| BE::Cmp(">", IE::Col(c), IE::Lit(z));
    if rng.chance(2, 3) {
        let w = match rng.below(6) {
            0 => BE::Lit(false),
            1 => BE::Null,
            2 => BE::Cmp("=", IE::Lit(1), IE::Lit(2)),
            3 => BE::Cmp("=", IE::Col(rng.below(3) as usize), IE::Null),
            4 => BE::And(Box::new(gt(rng.below(3) as usize, 0)), Box::new(BE::Lit(false))),
            _ => BE::Not(Box::new(BE::Lit(true))),
        };
        if rng.chance(1, 2) { Stmt::Delete { w: Some(w) } } else { Stmt::Update { asg: vec![(rng.below(3) as usize, IE::Lit(9))], w: Some(w) } }
    } else {
        let bc = || IE::Add(Box::new(IE::Col(1)), Box::new(IE::Col(2)));
        if rng.chance(1, 2) {
            Stmt::Delete { w: Some(BE::Or(Box::new(BE::Cmp(">", bc(), IE::Lit(1))), Box::new(BE::Cmp("<", bc(), IE::Lit(0))))) }
        } else {
            Stmt::Update { asg: vec![(0, bc()), (1, bc())], w: None }
        }
    }
}

fn gen_table(rng: &mut Rng) -> Vec<Vec<Vec<Row>>> {
    let nparts = 1 + rng.below(3) as usize;
    (0..nparts).map(|_| {
        let nb = rng.below(4) as usize;
        (0..nb).map(|_| { let nr = if rng.chance(1, 6) { 0 } else { 1 + rng.below(4) as usize }; (0..nr).map(|_| gen_row(rng)).collect() }).collect()
    }).collect()
}

// ---------------------------------------------------------------- running the real thing
fn schema() -> Arc<Schema> {
    Arc::new(Schema::new((0..NCOLS).map(|i| Field::new(NAMES[i], DataType::Int64, true)).collect::<Vec<_>>()))
}
fn mk_batch(s: &Arc<Schema>, rows: &[Row]) -> RecordBatch {
    let cols: Vec<ArrayRef> = (0..NCOLS).map(|c| Arc::new(Int64Array::from(rows.iter().map(|r| r[c]).collect::<Vec<_>>())) as ArrayRef).collect();
    RecordBatch::try_new(s.clone(), cols).unwrap()
}
fn batch_rows(b: &RecordBatch) -> Result<Vec<Row>, String> {
    if b.num_columns() != NCOLS { return Err(format!("batch with {} columns", b.num_columns())); }
    let mut cols = vec![];
    for c in 0..NCOLS {
        cols.push(b.column(c).as_any().downcast_ref::<Int64Array>().ok_or_else(|| format!("column {c} is {:?}", b.column(c).data_type()))?);
    }
    Ok((0..b.num_rows()).map(|r| cols.iter().map(|a| if a.is_null(r) { None } else { Some(a.value(r)) }).collect()).collect())
}
async fn dump(t: &MemTable) -> Result<Vec<Vec<Vec<Row>>>, String> {
    let mut out = vec![];
    for p in &t.batches {
        let p = p.read().await;
        let mut bs = vec![];
        for b in p.iter() { bs.push(batch_rows(b)?); }
        out.push(bs);
    }
    Ok(out)
}

struct Obs { count: u64, table: Vec<Vec<Vec<Row>>>, select: Vec<Row> }

async fn exec(ctx: &SessionContext, t: &MemTable, sql: &str) -> Result<Obs, String> {
    let df = ctx.sql(sql).await.map_err(|e| format!("plan error: {e}"))?;
    let out = df.collect().await.map_err(|e| format!("execution error: {e}"))?;
    let mut counts = vec![];
    for b in &out {
        let a = b.column(0).as_any().downcast_ref::<UInt64Array>().ok_or_else(|| "count column is not UInt64".to_string())?;
        for i in 0..a.len() { counts.push(a.value(i)); }
    }
    if counts.len() != 1 { return Err(format!("DML returned {} count rows", counts.len())); }
    let table = dump(t).await?;
    let sel = ctx.sql("SELECT a, b, c FROM t").await.map_err(|e| format!("select plan error: {e}"))?
        .collect().await.map_err(|e| format!("select error: {e}"))?;
    let mut select = vec![];
    for b in &sel { select.extend(batch_rows(b)?); }
    Ok(Obs { count: counts[0], table, select })
}

/// which of the known mechanisms (if any) the statement runs into: inspect the optimized logical plan
async fn classify(ctx: &SessionContext, sql: &str) -> &'static str {
    let st = ctx.state();
    let plan = match st.create_logical_plan(sql).await { Ok(p) => p, Err(_) => return "none" };
    if !matches!(plan, datafusion_expr::LogicalPlan::Dml(_)) { return "none"; }
    let text = match st.optimize(&plan) { Ok(p) => format!("{}", p.display_indent()), Err(_) => return "none" };
    if text.contains("__common_expr") { "cse" } else if text.contains("EmptyRelation") { "fold" } else { "none" }
}

fn sorted(mut v: Vec<Row>) -> Vec<Row> { v.sort(); v }
fn flat(t: &[Vec<Vec<Row>>]) -> Vec<Row> { t.iter().flatten().flatten().cloned().collect() }

fn run_history(rt: &tokio::runtime::Runtime, id: u64, tp: usize, init: &[Vec<Vec<Row>>], stmts: &[Stmt]) -> String {
    let sch = schema();
    let ctx = SessionContext::new_with_config(SessionConfig::new().with_target_partitions(tp));
    let parts: Vec<Vec<RecordBatch>> = init.iter().map(|p| p.iter().map(|b| mk_batch(&sch, b)).collect()).collect();
    let t = Arc::new(MemTable::try_new(sch.clone(), parts).unwrap());
    ctx.register_table("t", t.clone()).unwrap();
    let mut refrows = flat(init);
    let mut obs_json = vec![];
    let mut ok = true;
    let mut why = String::new();
    let mut done = 0;
    let mut overflow = false;
    let mut class = "none";
    let mut cf = false;
    for (k, s) in stmts.iter().enumerate() {
        let sql = stmt_sql(s);
        let before = refrows.clone();
        let rc = match ref_apply(&mut refrows, s) { Ok(c) => c, Err(_) => { overflow = true; break; } };
        match rt.block_on(exec(&ctx, &t, &sql)) {
            Err(e) => {
                ok = false; why = format!("statement {k} `{sql}` failed: {e}");
                class = rt.block_on(classify(&ctx, &sql));
                break;
            }
            Ok(o) => {
                obs_json.push(format!("{{\"count\":{},\"table\":{},\"select\":{}}}", o.count, table_json(&o.table), rows_json(&o.select)));
                done = k + 1;
                let want = sorted(refrows.clone());
                if o.count != rc {
                    ok = false; why = format!("statement {k} `{sql}` reported count {} but {} rows qualify (table before: {})", o.count, rc, rows_json(&before));
                } else if sorted(o.select.clone()) != want {
                    ok = false; why = format!("after statement {k} `{sql}` SELECT returns {} but the reference table is {} (before: {})", rows_json(&sorted(o.select.clone())), rows_json(&want), rows_json(&before));
                } else if sorted(flat(&o.table)) != want {
                    ok = false; why = format!("after statement {k} `{sql}` the stored batches hold {} but the reference table is {}", rows_json(&sorted(flat(&o.table))), rows_json(&want));
                }
                if !ok {
                    class = rt.block_on(classify(&ctx, &sql));
                    cf = stmt_where(s).map(folds_away).unwrap_or(false);
                    break;
                }
            }
        }
    }
    format!("{{\"id\":{},\"tp\":{},\"class\":\"{}\",\"cf\":{},\"init\":{},\"stmts\":[{}],\"sql\":[{}],\"obs\":[{}],\"done\":{},\"overflow\":{},\"ok\":{},\"why\":{}}}",
        id, tp, class, cf, table_json(init),
        stmts.iter().map(stmt_json).collect::<Vec<_>>().join(","),
        stmts.iter().map(|s| json_str(&stmt_sql(s))).collect::<Vec<_>>().join(","),
        obs_json.join(","), done, overflow, ok, json_str(&why))
}

fn main() {
    let args: Vec<String> = std::env::args().collect();
    let seed: u64 = arg(&args, "--seed", "1").parse().unwrap();
    let n: u64 = arg(&args, "--n", "100").parse().unwrap();
    let probe = arg(&args, "--sql", "");
    let rt = tokio::runtime::Builder::new_current_thread().enable_all().build().unwrap();
    if !probe.is_empty() {
        let sch = schema();
        let ctx = SessionContext::new_with_config(SessionConfig::new().with_target_partitions(3));
        let init: Vec<Vec<Vec<Row>>> = vec![
            vec![vec![vec![Some(1), Some(2), None], vec![None, Some(0), Some(3)]], vec![vec![Some(2), None, Some(1)]]],
            vec![vec![], vec![vec![Some(0), Some(0), Some(0)], vec![None, None, None]]],
        ];
        let parts: Vec<Vec<RecordBatch>> = init.iter().map(|p| p.iter().map(|b| mk_batch(&sch, b)).collect()).collect();
        let t = Arc::new(MemTable::try_new(sch.clone(), parts).unwrap());
        ctx.register_table("t", t.clone()).unwrap();
        println!("init {}", table_json(&init));
        for s in probe.split(';') {
            let s = s.trim();
            if s.is_empty() { continue; }
            match rt.block_on(exec(&ctx, &t, s)) {
                Ok(o) => println!("{s}\n  -> count {} table {}", o.count, table_json(&o.table)),
                Err(e) => println!("{s}\n  -> ERROR {e}"),
            }
        }
        return;
    }
    let mut rng = Rng::new(seed);
    for id in 0..n {
        let init = gen_table(&mut rng);
        let ns = 3 + rng.below(8) as usize;
        let mut stmts: Vec<Stmt> = (0..ns).map(|_| gen_clean_stmt(&mut rng)).collect();
        // every 10th history ends with a statement from the known-finding classes
        if id % 10 == 9 { let k = stmts.len() - 1; stmts[k] = gen_known_stmt(&mut rng); }
        let tp = 1 + rng.below(4) as usize;
        let line = match catch_unwind(AssertUnwindSafe(|| run_history(&rt, id, tp, &init, &stmts))) {
            Ok(l) => l,
            Err(p) => {
                let msg = p.downcast_ref::<String>().cloned().or_else(|| p.downcast_ref::<&str>().map(|s| s.to_string())).unwrap_or_default();
                format!("{{\"id\":{},\"tp\":{},\"class\":\"none\",\"cf\":false,\"init\":{},\"stmts\":[{}],\"sql\":[{}],\"obs\":[],\"done\":0,\"overflow\":false,\"ok\":false,\"why\":{}}}",
                    id, tp, table_json(&init), stmts.iter().map(stmt_json).collect::<Vec<_>>().join(","),
                    stmts.iter().map(|s| json_str(&stmt_sql(s))).collect::<Vec<_>>().join(","), json_str(&format!("panic: {msg}")))
            }
        };
        println!("{line}");
    }
}
