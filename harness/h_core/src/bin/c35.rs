//! C35: logical plans, expressions and scalar values survive protobuf serialisation unchanged.
//! Streams (one JSON object per line, "k" = stream):
//!   enum  : every variant of every enum-like mapping table, pushed through the REAL to_proto conversion (observed wire
//!           tag) and the REAL from_proto conversion (variant that comes back); ok = the variant survives
//!   expr  : fixed witnesses first, then hand-built Exprs covering the Expr variants / operators / frames / casts and seeded
//!           random trees: Expr::to_bytes -> Expr::from_bytes_with_ctx; ok = decoded == original
//!   scalar: ScalarValue -> protobuf bytes -> ScalarValue; ok = equal
//!   plan  : SQL corpus + refsql_gen (C01 generator) queries over parquet listing tables: logical_plan_to_bytes /
//!           logical_plan_from_bytes (and the JSON form) in a FRESH SessionContext, unoptimised and optimised plan;
//!           ok = same display_indent_schema text, PartialEq-equal, same Debug text, and the same rows when executed
//!   c35 --seed S --n N [--dir D]
#[path = "../refsql_gen.rs"]
mod refsql_gen;

use std::collections::HashMap;
use std::panic::{catch_unwind, AssertUnwindSafe};
use std::sync::Arc;

use arrow::array::{ArrayRef, BooleanArray, Int64Array, StringArray};
use arrow::datatypes::{DataType, Field, IntervalUnit, Schema, TimeUnit, UnionFields, UnionMode};
use arrow::record_batch::RecordBatch;
use arrow::util::display::{ArrayFormatter, FormatOptions};
use datafusion::common::metadata::FieldMetadata;
use datafusion::common::{Column, JoinConstraint, JoinSide, JoinType, NullEquality, ScalarValue, TableReference, UnnestOptions};
use datafusion::common::parsers::CompressionTypeVariant;
use datafusion::logical_expr::expr::{Alias, Between, BinaryExpr, Case, Cast, InList, Like, NullTreatment, Placeholder, TryCast, Unnest as UnnestExpr, WindowFunction, WindowFunctionParams};
use datafusion::logical_expr::{Expr, LogicalPlan, Operator, WindowFrame, WindowFrameBound, WindowFrameUnits, WindowFunctionDefinition};
use datafusion::prelude::*;
use datafusion_proto::bytes::{logical_plan_from_bytes, logical_plan_from_json, logical_plan_to_bytes, logical_plan_to_json, Serializeable};
use datafusion_proto::logical_plan::{from_proto::parse_expr, to_proto::serialize_expr, DefaultLogicalExtensionCodec};
use datafusion_proto::protobuf as pb;
use datafusion_proto_common::protobuf_common as pc;
use h_util::{arg, json_str, Rng};
use prost::Message;
use refsql_gen::*;

/// prefix of at most n bytes that ends on a character boundary
fn cut(s: &str, mut n: usize) -> &str { if n >= s.len() { return s; } while !s.is_char_boundary(n) { n -= 1; } &s[..n] }
fn kind_name(s: &str) -> String { s.chars().take_while(|c| c.is_ascii_alphanumeric() || *c == '_').collect() }
fn dbg_kind<T: std::fmt::Debug>(v: &T) -> String { kind_name(&format!("{v:?}")) }

fn panic_msg(p: Box<dyn std::any::Any + Send>) -> String {
    p.downcast_ref::<String>().cloned().or_else(|| p.downcast_ref::<&str>().map(|s| s.to_string())).unwrap_or_else(|| "panic".into())
}

// ------------------------------------------------------------------------------------------------ enum stream
fn emit_enum(table: &str, variant: &str, tag: &str, back: Result<String, String>) {
    let (b, ok) = match &back { Ok(b) => (json_str(b), b == variant), Err(_) => ("null".to_string(), false) };
    let err = match &back { Err(e) => format!(",\"err\":{}", json_str(e)), _ => String::new() };
    println!("{{\"k\":\"enum\",\"table\":\"{table}\",\"variant\":\"{variant}\",\"tag\":{tag},\"back\":{b}{err},\"ok\":{ok}}}");
}

macro_rules! enum_i32 {
    ($table:expr, $vals:expr, $enc:expr, $dec:expr) => {
        for v in $vals {
            let name = dbg_kind(&v);
            let r = catch_unwind(AssertUnwindSafe(|| { let tag: i32 = $enc(v.clone()); let back: Result<String, String> = $dec(tag); (tag, back) }));
            match r { Ok((tag, back)) => emit_enum($table, &name, &tag.to_string(), back), Err(p) => emit_enum($table, &name, "null", Err(format!("panic: {}", panic_msg(p)))) }
        }
    };
}

pub const OPERATORS: [Operator; 31] = [
    Operator::Eq, Operator::NotEq, Operator::Lt, Operator::LtEq, Operator::Gt, Operator::GtEq, Operator::Plus, Operator::Minus,
    Operator::Multiply, Operator::Divide, Operator::Modulo, Operator::And, Operator::Or, Operator::IsDistinctFrom, Operator::IsNotDistinctFrom,
    Operator::RegexMatch, Operator::RegexIMatch, Operator::RegexNotMatch, Operator::RegexNotIMatch, Operator::LikeMatch, Operator::ILikeMatch,
    Operator::NotLikeMatch, Operator::NotILikeMatch, Operator::BitwiseAnd, Operator::BitwiseOr, Operator::BitwiseXor, Operator::BitwiseShiftRight,
    Operator::BitwiseShiftLeft, Operator::StringConcat, Operator::AtArrow, Operator::ArrowAt,
];

fn more_operators() -> Vec<Operator> {
    // the remaining variants (kept separate so that the fixed-size array above stays readable); the driver compares the union with
    // the translator's variant list, so a variant added to the enum and missing here is reported
    vec![Operator::Arrow, Operator::LongArrow, Operator::HashArrow, Operator::HashLongArrow, Operator::AtAt, Operator::IntegerDivide,
         Operator::HashMinus, Operator::AtQuestion, Operator::Question, Operator::QuestionAnd, Operator::QuestionPipe, Operator::Colon]
}
fn all_operators() -> Vec<Operator> { let mut v = OPERATORS.to_vec(); v.extend(more_operators()); v }

fn datatype_samples() -> Vec<DataType> {
    let f = |t: DataType| Arc::new(Field::new("item", t, true));
    vec![
        DataType::Null, DataType::Boolean, DataType::Int8, DataType::Int16, DataType::Int32, DataType::Int64, DataType::UInt8, DataType::UInt16,
        DataType::UInt32, DataType::UInt64, DataType::Float16, DataType::Float32, DataType::Float64,
        DataType::Timestamp(TimeUnit::Millisecond, Some("+02:00".into())), DataType::Date32, DataType::Date64, DataType::Time32(TimeUnit::Second),
        DataType::Time64(TimeUnit::Nanosecond), DataType::Duration(TimeUnit::Microsecond), DataType::Interval(IntervalUnit::DayTime), DataType::Binary,
        DataType::BinaryView, DataType::FixedSizeBinary(7), DataType::LargeBinary, DataType::Utf8, DataType::Utf8View, DataType::LargeUtf8,
        DataType::List(f(DataType::Int32)), DataType::FixedSizeList(f(DataType::Int8), 3), DataType::LargeList(f(DataType::Utf8)),
        DataType::ListView(f(DataType::Int32)), DataType::LargeListView(f(DataType::Int32)),
        DataType::Struct(vec![Field::new("a", DataType::Int32, true), Field::new("b", DataType::Utf8, false)].into()),
        DataType::Union(UnionFields::try_new(vec![0, 1], vec![Field::new("a", DataType::Int32, true), Field::new("b", DataType::Utf8, true)]).unwrap(), UnionMode::Dense),
        DataType::Dictionary(Box::new(DataType::Int16), Box::new(DataType::Utf8)),
        DataType::Decimal32(7, 2), DataType::Decimal64(12, 3), DataType::Decimal128(20, 4), DataType::Decimal256(50, 6),
        DataType::Map(Arc::new(Field::new("entries", DataType::Struct(vec![Field::new("key", DataType::Utf8, false), Field::new("value", DataType::Int32, true)].into()), false)), false),
        DataType::RunEndEncoded(Arc::new(Field::new("run_ends", DataType::Int32, false)), Arc::new(Field::new("values", DataType::Utf8, true))),
    ]
}

fn enum_stream() {
    let jt = [JoinType::Inner, JoinType::Left, JoinType::Right, JoinType::Full, JoinType::LeftSemi, JoinType::RightSemi, JoinType::LeftAnti,
              JoinType::RightAnti, JoinType::LeftMark, JoinType::RightMark];
    enum_i32!("JoinType", jt, |v: JoinType| pb::JoinType::from(v) as i32,
              |t: i32| pb::JoinType::try_from(t).map(|p| dbg_kind(&JoinType::from(p))).map_err(|e| e.to_string()));
    enum_i32!("JoinConstraint", [JoinConstraint::On, JoinConstraint::Using], |v: JoinConstraint| pb::JoinConstraint::from(v) as i32,
              |t: i32| pb::JoinConstraint::try_from(t).map(|p| dbg_kind(&JoinConstraint::from(p))).map_err(|e| e.to_string()));
    enum_i32!("NullEquality", [NullEquality::NullEqualsNothing, NullEquality::NullEqualsNull], |v: NullEquality| pb::NullEquality::from(v) as i32,
              |t: i32| pb::NullEquality::try_from(t).map(|p| dbg_kind(&NullEquality::from(p))).map_err(|e| e.to_string()));
    {
        use datafusion::common::NullHandling;
        enum_i32!("NullHandling", [NullHandling::Preserve, NullHandling::Drop, NullHandling::PreserveAndExpandEmpty],
                  |v: NullHandling| pb::UnnestOptions::from(&UnnestOptions::new().with_null_handling(v)).null_handling,
                  |t: i32| Ok::<String, String>(dbg_kind(&UnnestOptions::from(&pb::UnnestOptions { null_handling: t, recursions: vec![] }).null_handling)));
    }
    enum_i32!("WindowFrameUnits", [WindowFrameUnits::Rows, WindowFrameUnits::Range, WindowFrameUnits::Groups],
              |v: WindowFrameUnits| pb::WindowFrameUnits::from(v) as i32,
              |t: i32| pb::WindowFrameUnits::try_from(t).map(|p| dbg_kind(&WindowFrameUnits::from(p))).map_err(|e| e.to_string()));
    let bounds = [WindowFrameBound::CurrentRow, WindowFrameBound::Preceding(ScalarValue::UInt64(Some(3))), WindowFrameBound::Following(ScalarValue::UInt64(Some(2)))];
    for b in bounds {
        let name = dbg_kind(&b);
        match pb::WindowFrameBound::try_from(&b) {
            Ok(p) => { let tag = p.window_frame_bound_type; emit_enum("WindowFrameBound", &name, &tag.to_string(), WindowFrameBound::try_from(p).map(|x| dbg_kind(&x)).map_err(|e| e.to_string())); }
            Err(e) => emit_enum("WindowFrameBound", &name, "null", Err(e.to_string())),
        }
    }
    {
        use datafusion::logical_expr::MergeIntoClauseKind as K;
        enum_i32!("MergeIntoClauseKind", [K::Matched, K::NotMatched, K::NotMatchedByTarget, K::NotMatchedBySource],
                  |v: K| pb::merge_into_clause_node::Kind::from(v) as i32,
                  |t: i32| pb::merge_into_clause_node::Kind::try_from(t).map(|p| dbg_kind(&K::from(p))).map_err(|e| e.to_string()));
    }
    enum_i32!("NullTreatment", [NullTreatment::RespectNulls, NullTreatment::IgnoreNulls], |v: NullTreatment| pb::NullTreatment::from(v) as i32,
              |t: i32| pb::NullTreatment::try_from(t).map(|p| dbg_kind(&NullTreatment::from(p))).map_err(|e| e.to_string()));
    enum_i32!("TimeUnit", [TimeUnit::Second, TimeUnit::Millisecond, TimeUnit::Microsecond, TimeUnit::Nanosecond], |v: TimeUnit| pc::TimeUnit::from(&v) as i32,
              |t: i32| pc::TimeUnit::try_from(t).map(|p| dbg_kind(&TimeUnit::from(p))).map_err(|e| e.to_string()));
    enum_i32!("IntervalUnit", [IntervalUnit::YearMonth, IntervalUnit::DayTime, IntervalUnit::MonthDayNano], |v: IntervalUnit| pc::IntervalUnit::from(&v) as i32,
              |t: i32| pc::IntervalUnit::try_from(t).map(|p| dbg_kind(&IntervalUnit::from(p))).map_err(|e| e.to_string()));
    enum_i32!("JoinSide", [JoinSide::Left, JoinSide::Right, JoinSide::None], |v: JoinSide| pc::JoinSide::from(v) as i32,
              |t: i32| pc::JoinSide::try_from(t).map(|p| dbg_kind(&JoinSide::from(p))).map_err(|e| e.to_string()));
    {
        use CompressionTypeVariant as C;
        enum_i32!("CompressionTypeVariant", [C::GZIP, C::BZIP2, C::XZ, C::ZSTD, C::UNCOMPRESSED], |v: C| pc::CompressionTypeVariant::from(&v) as i32,
                  |t: i32| pc::CompressionTypeVariant::try_from(t).map(|p| dbg_kind(&C::from(p))).map_err(|e| e.to_string()));
    }
    {
        use datafusion::common::parsers::CsvQuoteStyle as Q;
        enum_i32!("CsvQuoteStyle", [Q::Necessary, Q::Always, Q::NonNumeric, Q::Never], |v: Q| pc::CsvQuoteStyle::from(v) as i32,
                  |t: i32| pc::CsvQuoteStyle::try_from(t).map(|p| dbg_kind(&Q::from(p))).map_err(|e| e.to_string()));
    }
    // UnionMode travels inside the Union arrow type
    for m in [UnionMode::Sparse, UnionMode::Dense] {
        let dt = DataType::Union(UnionFields::try_new(vec![0], vec![Field::new("a", DataType::Int32, true)]).unwrap(), m);
        match pc::ArrowType::try_from(&dt) {
            Ok(at) => {
                let tag = match &at.arrow_type_enum { Some(pc::arrow_type::ArrowTypeEnum::Union(u)) => u.union_mode, _ => -1 };
                let back = DataType::try_from(&at).map_err(|e| e.to_string()).map(|d| match d { DataType::Union(_, mm) => dbg_kind(&mm), o => format!("{o:?}") });
                emit_enum("UnionMode", &dbg_kind(&m), &tag.to_string(), back);
            }
            Err(e) => emit_enum("UnionMode", &dbg_kind(&m), "null", Err(e.to_string())),
        }
    }
    // DataType kinds <-> ArrowType oneof cases
    for dt in datatype_samples() {
        let name = dbg_kind(&dt);
        match pc::ArrowType::try_from(&dt) {
            Ok(at) => {
                let tag = at.arrow_type_enum.as_ref().map(|e| dbg_kind(e)).unwrap_or_default();
                let bytes = at.encode_to_vec();
                let back = pc::ArrowType::decode(bytes.as_slice()).map_err(|e| e.to_string())
                    .and_then(|a| DataType::try_from(&a).map_err(|e| e.to_string()));
                let full = match &back { Ok(b) => *b == dt, Err(_) => false };
                emit_enum("DataType", &name, &json_str(&tag), back.map(|b| if full { dbg_kind(&b) } else { format!("{b:?}") }));
            }
            Err(e) => emit_enum("DataType", &name, "null", Err(e.to_string())),
        }
    }
    // Operator names
    let ctx = SessionContext::new();
    let codec = DefaultLogicalExtensionCodec {};
    for op in all_operators() {
        let e = Expr::BinaryExpr(BinaryExpr::new(Box::new(col("a")), op, Box::new(col("b"))));
        let name = dbg_kind(&op);
        match serialize_expr(&e, &codec) {
            Ok(node) => {
                let tag = match &node.expr_type { Some(pb::logical_expr_node::ExprType::BinaryExpr(b)) => b.op.clone(), _ => String::new() };
                let back = parse_expr(&node, ctx.task_ctx().as_ref(), &codec).map_err(|e| e.to_string())
                    .map(|x| match x { Expr::BinaryExpr(b) => dbg_kind(&b.op), o => format!("{o:?}") });
                emit_enum("Operator", &name, &json_str(&tag), back);
            }
            Err(e) => emit_enum("Operator", &name, "null", Err(e.to_string())),
        }
    }
}

// ------------------------------------------------------------------------------------------------ expr stream
fn md(pairs: &[(&str, &str)]) -> FieldMetadata {
    FieldMetadata::from(pairs.iter().map(|(k, v)| (k.to_string(), v.to_string())).collect::<std::collections::BTreeMap<_, _>>())
}
fn bin(l: Expr, op: Operator, r: Expr) -> Expr { Expr::BinaryExpr(BinaryExpr::new(Box::new(l), op, Box::new(r))) }
fn like(neg: bool, e: Expr, p: Expr, esc: Option<char>, ci: bool) -> Expr { Expr::Like(Like::new(neg, Box::new(e), Box::new(p), esc, ci)) }

fn scalar_samples() -> Vec<ScalarValue> {
    use ScalarValue as S;
    vec![
        S::Null, S::Boolean(Some(true)), S::Boolean(None), S::Int8(Some(-8)), S::Int16(Some(i16::MIN)), S::Int32(Some(i32::MAX)), S::Int64(Some(i64::MIN)), S::Int64(None),
        S::UInt8(Some(255)), S::UInt16(Some(7)), S::UInt32(Some(u32::MAX)), S::UInt64(Some(u64::MAX)), S::Float32(Some(1.5)), S::Float64(Some(-0.0)), S::Float64(Some(f64::INFINITY)),
        S::Float64(None), S::Utf8(Some(String::new())), S::Utf8(Some("h\u{e9}llo \u{1F600}".into())), S::Utf8(None), S::LargeUtf8(Some("x".into())), S::Utf8View(Some("view".into())),
        S::Binary(Some(vec![0, 255, 1])), S::Binary(None), S::LargeBinary(Some(vec![])), S::BinaryView(Some(vec![9])), S::FixedSizeBinary(3, Some(vec![1, 2, 3])),
        S::Date32(Some(-1)), S::Date64(Some(86_400_000)), S::Time32Second(Some(1)), S::Time32Millisecond(Some(2)), S::Time64Microsecond(Some(3)), S::Time64Nanosecond(Some(4)),
        S::TimestampSecond(Some(1), None), S::TimestampMillisecond(Some(2), Some("UTC".into())), S::TimestampMicrosecond(Some(3), Some("+05:30".into())),
        S::TimestampNanosecond(None, Some("Europe/Paris".into())), S::IntervalYearMonth(Some(14)), S::IntervalDayTime(Some(arrow::datatypes::IntervalDayTime::new(1, -5))),
        S::IntervalMonthDayNano(Some(arrow::datatypes::IntervalMonthDayNano::new(-1, 2, 3))), S::DurationSecond(Some(5)), S::DurationMillisecond(Some(6)),
        S::DurationMicrosecond(Some(7)), S::DurationNanosecond(None), S::Decimal128(Some(-12345), 20, 4), S::Decimal128(None, 10, 0), S::Decimal256(Some(arrow::datatypes::i256::from_i128(77)), 50, 6),
        S::Decimal32(Some(123), 7, 2), S::Decimal64(Some(-9), 12, 3), S::Float16(Some(half_f16())),
        S::new_list_nullable(&[S::Int32(Some(1)), S::Int32(None)], &DataType::Int32).into_scalar(),
        S::try_new_null(&DataType::List(Arc::new(Field::new("item", DataType::Utf8, true)))).unwrap(),
        S::Dictionary(Box::new(DataType::Int16), Box::new(S::Utf8(Some("d".into())))),
    ]
}
fn half_f16() -> <arrow::datatypes::Float16Type as arrow::datatypes::ArrowPrimitiveType>::Native {
    <arrow::datatypes::Float16Type as arrow::datatypes::ArrowPrimitiveType>::Native::from_f32(0.5)
}
trait IntoScalar { fn into_scalar(self) -> ScalarValue; }
impl IntoScalar for Arc<arrow::array::ListArray> { fn into_scalar(self) -> ScalarValue { ScalarValue::List(self) } }

fn frames() -> Vec<WindowFrame> {
    use WindowFrameBound as B;
    let u = |n: u64| ScalarValue::UInt64(Some(n));
    let mut v = vec![];
    for units in [WindowFrameUnits::Rows, WindowFrameUnits::Groups] {
        for (s, e) in [(B::Preceding(u(2)), B::CurrentRow), (B::CurrentRow, B::Following(u(3))), (B::Preceding(ScalarValue::UInt64(None)), B::Following(ScalarValue::UInt64(None))),
                       (B::Preceding(u(5)), B::Preceding(u(1))), (B::Following(u(1)), B::Following(u(4))), (B::CurrentRow, B::CurrentRow)] {
            v.push(WindowFrame::new_bounds(units, s, e));
        }
    }
    v.push(WindowFrame::new_bounds(WindowFrameUnits::Range, B::Preceding(ScalarValue::Int64(Some(10))), B::Following(ScalarValue::Int64(Some(5)))));
    v.push(WindowFrame::new_bounds(WindowFrameUnits::Range, B::Preceding(ScalarValue::Null), B::CurrentRow));
    v.push(WindowFrame::new(None));
    v.push(WindowFrame::new(Some(true)));
    v.push(WindowFrame::new(Some(false)));
    v
}

/// (name, known-finding key or "", expr)
fn witness_exprs() -> Vec<(String, &'static str, Expr)> {
    vec![
        ("witness: literal with field metadata".into(), "C35-literal-metadata-dropped", Expr::Literal(ScalarValue::Int64(Some(1)), Some(md(&[("unit", "m")])))),
        ("witness: alias with metadata".into(), "C35-alias-metadata-dropped", Expr::Alias(Alias::new(col("a"), None::<TableReference>, "x").with_metadata(Some(md(&[("k", "v")]))))),
        ("witness: cast to a field with metadata".into(), "C35-cast-field-metadata-dropped",
         Expr::Cast(Cast::new_from_field(Box::new(col("a")), Arc::new(Field::new("", DataType::Int32, true).with_metadata(HashMap::from([("k".to_string(), "v".to_string())])))))),
        ("witness: LIKE with a two-byte escape character".into(), "C35-like-multibyte-escape-rejected", like(false, col("s"), lit("a%"), Some('\u{e9}'), false)),
    ]
}

fn fixed_exprs(ctx: &SessionContext) -> Vec<(String, Expr)> {
    let mut v: Vec<(String, Expr)> = vec![];
    let a = || col("a");
    let b = || col("b");
    v.push(("column".into(), a()));
    v.push(("qualified column".into(), Expr::Column(Column::new(Some(TableReference::full("cat", "sch", "t")), "a b"))));
    v.push(("partial column".into(), Expr::Column(Column::new(Some(TableReference::partial("sch", "t")), "A"))));
    for s in scalar_samples() { v.push((format!("literal {s:?}"), Expr::Literal(s, None))); }
    for op in all_operators() { v.push((format!("binary {op:?}"), bin(a(), op, b()))); }
    // chains: every association shape of up to 4 operands, same and mixed operators
    let (p, m) = (Operator::Plus, Operator::Minus);
    v.push(("(a+b)+c".into(), bin(bin(a(), p, b()), p, col("c"))));
    v.push(("a+(b+c)".into(), bin(a(), p, bin(b(), p, col("c")))));
    v.push(("(a-b)-c".into(), bin(bin(a(), m, b()), m, col("c"))));
    v.push(("a-(b-c)".into(), bin(a(), m, bin(b(), m, col("c")))));
    v.push(("(a+b)-c".into(), bin(bin(a(), p, b()), m, col("c"))));
    v.push(("((a+b)+(c+d))+e".into(), bin(bin(bin(a(), p, b()), p, bin(col("c"), p, col("d"))), p, col("e"))));
    v.push(("(a+(b+c))+(d+e)".into(), bin(bin(a(), p, bin(b(), p, col("c"))), p, bin(col("d"), p, col("e")))));
    let mut chain = a();
    for i in 0..60 { chain = bin(chain, Operator::And, col(format!("c{i}"))); }
    v.push(("AND chain of 61".into(), chain));
    for (neg, esc, ci) in [(false, None, false), (true, Some('\\'), false), (false, Some('#'), true), (true, None, true)] {
        v.push((format!("like neg={neg} esc={esc:?} ci={ci}"), like(neg, a(), lit("x%"), esc, ci)));
        v.push((format!("similar to neg={neg} esc={esc:?}"), Expr::SimilarTo(Like::new(neg, Box::new(a()), Box::new(lit("x+")), esc, false))));
    }
    v.push(("not".into(), Expr::Not(Box::new(a()))));
    v.push(("is null".into(), Expr::IsNull(Box::new(a()))));
    v.push(("is not null".into(), Expr::IsNotNull(Box::new(a()))));
    v.push(("is true".into(), Expr::IsTrue(Box::new(a()))));
    v.push(("is false".into(), Expr::IsFalse(Box::new(a()))));
    v.push(("is unknown".into(), Expr::IsUnknown(Box::new(a()))));
    v.push(("is not true".into(), Expr::IsNotTrue(Box::new(a()))));
    v.push(("is not false".into(), Expr::IsNotFalse(Box::new(a()))));
    v.push(("is not unknown".into(), Expr::IsNotUnknown(Box::new(a()))));
    v.push(("negative".into(), Expr::Negative(Box::new(a()))));
    v.push(("between".into(), Expr::Between(Between::new(Box::new(a()), false, Box::new(lit(1i64)), Box::new(lit(9i64))))));
    v.push(("not between".into(), Expr::Between(Between::new(Box::new(a()), true, Box::new(b()), Box::new(lit(9i64))))));
    v.push(("case operand else".into(), Expr::Case(Case::new(Some(Box::new(a())), vec![(Box::new(lit(1i64)), Box::new(lit("one"))), (Box::new(lit(2i64)), Box::new(lit("two")))], Some(Box::new(lit("many")))))));
    v.push(("case searched no else".into(), Expr::Case(Case::new(None, vec![(Box::new(a().gt(lit(1i64))), Box::new(b()))], None))));
    for dt in datatype_samples() {
        if matches!(dt, DataType::Null) { continue; }
        v.push((format!("cast to {dt:?}"), Expr::Cast(Cast::new(Box::new(a()), dt.clone()))));
        v.push((format!("try_cast to {dt:?}"), Expr::TryCast(TryCast::new(Box::new(a()), dt))));
    }
    v.push(("cast to non-nullable field".into(), Expr::Cast(Cast::new_from_field(Box::new(a()), Arc::new(Field::new("", DataType::Int32, false))))));
    v.push(("in list".into(), Expr::InList(InList::new(Box::new(a()), vec![lit(1i64), lit(2i64), b()], false))));
    v.push(("not in empty list".into(), Expr::InList(InList::new(Box::new(a()), vec![], true))));
    v.push(("alias".into(), a().alias("x y")));
    v.push(("alias qualified".into(), a().alias_qualified(Some(TableReference::bare("t")), "x")));
    v.push(("scalar fn abs".into(), datafusion::functions::math::expr_fn::abs(a())));
    v.push(("scalar fn concat".into(), datafusion::functions::string::expr_fn::concat(vec![a(), lit("-"), b()])));
    v.push(("placeholder typed".into(), Expr::Placeholder(Placeholder::new_with_field("$1".into(), Some(Arc::new(Field::new("", DataType::Int32, true)))))));
    v.push(("placeholder untyped".into(), Expr::Placeholder(Placeholder::new_with_field("$2".into(), None))));
    v.push(("unnest".into(), Expr::Unnest(UnnestExpr::new(a()))));
    v.push(("rollup".into(), datafusion::logical_expr::rollup(vec![a(), b()])));
    v.push(("cube".into(), datafusion::logical_expr::cube(vec![a(), b()])));
    v.push(("grouping sets".into(), datafusion::logical_expr::grouping_set(vec![vec![a()], vec![a(), b()], vec![]])));
    // aggregates
    use datafusion::functions_aggregate::expr_fn as agg;
    use datafusion::logical_expr::ExprFunctionExt;
    v.push(("count(a)".into(), agg::count(a())));
    v.push(("count distinct".into(), agg::count_distinct(a())));
    v.push(("sum filter".into(), agg::sum(a()).filter(b().gt(lit(0i64))).build().unwrap()));
    v.push(("first_value order by ignore nulls".into(), agg::first_value(a(), vec![b().sort(false, true)]).null_treatment(NullTreatment::IgnoreNulls).build().unwrap()));
    v.push(("array_agg distinct order".into(), agg::array_agg(a()).distinct().order_by(vec![a().sort(true, false)]).build().unwrap()));
    // window functions: every frame, null treatment, partition / order
    let st = ctx.state();
    let sum = st.aggregate_functions().get("sum").cloned().unwrap();
    let rn = st.window_functions().get("row_number").cloned().unwrap();
    let lag = st.window_functions().get("lag").cloned().unwrap();
    for (i, fr) in frames().into_iter().enumerate() {
        let needs_order = fr.units == WindowFrameUnits::Range || fr.units == WindowFrameUnits::Groups;
        let mut w = WindowFunction::new(WindowFunctionDefinition::AggregateUDF(sum.clone()), vec![a()]);
        w.params = WindowFunctionParams { args: vec![a()], partition_by: vec![b()], order_by: if needs_order || i % 2 == 0 { vec![col("c").sort(i % 3 == 0, i % 2 == 1)] } else { vec![] },
            window_frame: fr.clone(), filter: None, null_treatment: None, distinct: false };
        v.push((format!("window sum frame {fr:?}"), Expr::WindowFunction(Box::new(w))));
    }
    for nt in [None, Some(NullTreatment::RespectNulls), Some(NullTreatment::IgnoreNulls)] {
        let mut w = WindowFunction::new(WindowFunctionDefinition::WindowUDF(lag.clone()), vec![a(), lit(2i64)]);
        w.params.order_by = vec![b().sort(true, true)];
        w.params.null_treatment = nt;
        v.push((format!("window lag null_treatment {nt:?}"), Expr::WindowFunction(Box::new(w))));
    }
    let mut w = WindowFunction::new(WindowFunctionDefinition::WindowUDF(rn), vec![]);
    w.params.partition_by = vec![a(), b()];
    v.push(("window row_number".into(), Expr::WindowFunction(Box::new(w))));
    let mut w = WindowFunction::new(WindowFunctionDefinition::AggregateUDF(sum), vec![a()]);
    w.params.distinct = true;
    w.params.filter = Some(Box::new(b().is_not_null()));
    v.push(("window sum distinct filter".into(), Expr::WindowFunction(Box::new(w))));
    // sort options: all four flag combinations travel through aggregate order_by
    for (asc, nf) in [(true, true), (true, false), (false, true), (false, false)] {
        v.push((format!("sort asc={asc} nulls_first={nf}"), agg::first_value(a(), vec![b().sort(asc, nf)])));
    }
    v
}

fn random_expr(rng: &mut Rng, d: u32) -> Expr {
    let leaf = |rng: &mut Rng| -> Expr {
        match rng.below(6) {
            0 => col(*rng.pick(&["a", "b", "c", "d"])),
            1 => Expr::Column(Column::new(Some(TableReference::bare("t")), *rng.pick(&["a", "b"]))),
            2 => lit(rng.range(-5, 5)),
            3 => lit(*rng.pick(&["", "x", "h\u{e9}"])),
            4 => Expr::Literal(ScalarValue::Null, None),
            _ => lit(rng.chance(1, 2)),
        }
    };
    if d == 0 { return leaf(rng); }
    let ops = [Operator::Plus, Operator::Plus, Operator::Minus, Operator::And, Operator::Or, Operator::Eq, Operator::Multiply, Operator::StringConcat, Operator::Lt];
    match rng.below(14) {
        0..=4 => { let op = *rng.pick(&ops); let l = random_expr(rng, d - 1); let r = random_expr(rng, d - 1); bin(l, op, r) }
        5 => Expr::Not(Box::new(random_expr(rng, d - 1))),
        6 => if rng.chance(1, 2) { Expr::IsNull(Box::new(random_expr(rng, d - 1))) } else { Expr::IsNotNull(Box::new(random_expr(rng, d - 1))) },
        7 => Expr::Negative(Box::new(random_expr(rng, d - 1))),
        8 => Expr::Between(Between::new(Box::new(random_expr(rng, d - 1)), rng.chance(1, 2), Box::new(random_expr(rng, d - 1)), Box::new(random_expr(rng, d - 1)))),
        9 => {
            let n = 1 + rng.below(3);
            let operand = if rng.chance(1, 2) { Some(Box::new(random_expr(rng, d - 1))) } else { None };
            let whens = (0..n).map(|_| (Box::new(random_expr(rng, d - 1)), Box::new(random_expr(rng, d - 1)))).collect();
            let els = if rng.chance(1, 2) { Some(Box::new(random_expr(rng, d - 1))) } else { None };
            Expr::Case(Case::new(operand, whens, els))
        }
        10 => { let n = rng.below(4); let e = random_expr(rng, d - 1); Expr::InList(InList::new(Box::new(e), (0..n).map(|_| random_expr(rng, d - 1)).collect(), rng.chance(1, 2))) }
        11 => { let t = rng.pick(&[DataType::Int32, DataType::Int64, DataType::Utf8, DataType::Float64, DataType::Boolean, DataType::Date32]).clone();
                let e = Box::new(random_expr(rng, d - 1)); if rng.chance(1, 2) { Expr::Cast(Cast::new(e, t)) } else { Expr::TryCast(TryCast::new(e, t)) } }
        12 => { let e = random_expr(rng, d - 1); if rng.chance(1, 2) { e.alias(*rng.pick(&["x", "y z", ""])) } else { e.alias_qualified(Some(TableReference::bare("q")), "w") } }
        _ => { let esc = *rng.pick(&[None, Some('\\'), Some('!')]); let e = random_expr(rng, d - 1); let p = random_expr(rng, d - 1); like(rng.chance(1, 2), e, p, esc, rng.chance(1, 2)) }
    }
}


// ------------------------------------------------------------------------------------------------ Coq renderings (tie of the Expr model)
fn cstr(s: &str) -> Option<String> { if s.is_ascii() && !s.chars().any(|c| c.is_control()) { Some(format!("\"{}\"", s.replace('"', "\"\""))) } else { None } }
fn cbool(b: bool) -> &'static str { if b { "true" } else { "false" } }
fn copt(o: Option<String>) -> String { match o { Some(x) => format!("(Some {x})"), None => "None".into() } }
fn bare(r: &TableReference) -> Option<String> { match r { TableReference::Bare { table } => cstr(table), _ => None } }
fn clit(v: &ScalarValue) -> Option<String> {
    Some(match v {
        ScalarValue::Null => "LNull".into(),
        ScalarValue::Boolean(Some(b)) => format!("(LBool {})", cbool(*b)),
        ScalarValue::Int64(Some(z)) => format!("(LInt ({z}))"),
        ScalarValue::Utf8(Some(s)) => format!("(LUtf8 {})", cstr(s)?),
        _ => return None,
    })
}
fn cty(t: &DataType) -> Option<String> {
    Some(format!("DataType_{}", match t { DataType::Int32 => "Int32", DataType::Int64 => "Int64", DataType::Utf8 => "Utf8", DataType::Float64 => "Float64",
        DataType::Boolean => "Boolean", DataType::Date32 => "Date32", _ => return None }))
}
fn coq_expr(e: &Expr) -> Option<String> {
    let go = |x: &Expr| coq_expr(x);
    Some(match e {
        Expr::Column(c) => format!("(EColumn {} {})", match &c.relation { Some(r) => format!("(Some {})", bare(r)?), None => "None".into() }, cstr(&c.name)?),
        Expr::Literal(v, None) => format!("(ELit {} None)", clit(v)?),
        Expr::BinaryExpr(b) => format!("(EBinary {} Operator_{:?} {})", go(&b.left)?, b.op, go(&b.right)?),
        Expr::Not(x) => format!("(ENot {})", go(x)?),
        Expr::IsNull(x) => format!("(EIsNull {})", go(x)?),
        Expr::IsNotNull(x) => format!("(EIsNotNull {})", go(x)?),
        Expr::Negative(x) => format!("(ENegative {})", go(x)?),
        Expr::Between(b) => format!("(EBetween {} {} {} {})", go(&b.expr)?, cbool(b.negated), go(&b.low)?, go(&b.high)?),
        Expr::Like(l) => format!("(ELike {} {} {} {} {})", cbool(l.negated), go(&l.expr)?, go(&l.pattern)?,
            match l.escape_char { Some(c) => format!("(Some {})", cstr(&c.to_string())?), None => "None".into() }, cbool(l.case_insensitive)),
        Expr::Case(c) => {
            let ws: Option<Vec<String>> = c.when_then_expr.iter().map(|(w, t)| Some(format!("({}, {})", go(w)?, go(t)?))).collect();
            format!("(ECase {} [{}] {})", match &c.expr { Some(x) => format!("(Some {})", go(x)?), None => "None".into() }, ws?.join("; "),
                match &c.else_expr { Some(x) => format!("(Some {})", go(x)?), None => "None".into() })
        }
        Expr::InList(l) => { let is: Option<Vec<String>> = l.list.iter().map(go).collect(); format!("(EInList {} [{}] {})", go(&l.expr)?, is?.join("; "), cbool(l.negated)) }
        Expr::Cast(c) => { if !c.field.metadata().is_empty() { return None; } format!("(ECast {} {} {} [])", go(&c.expr)?, cty(c.field.data_type())?, cbool(c.field.is_nullable())) }
        Expr::TryCast(c) => { if !c.field.metadata().is_empty() { return None; } format!("(ETryCast {} {} {} [])", go(&c.expr)?, cty(c.field.data_type())?, cbool(c.field.is_nullable())) }
        Expr::Alias(a) => { if a.metadata.is_some() { return None; }
            format!("(EAlias {} {} {} None)", go(&a.expr)?, match &a.relation { Some(r) => format!("(Some {})", bare(r)?), None => "None".into() }, cstr(&a.name)?) }
        _ => return None,
    })
}
fn coq_pexpr(n: &pb::LogicalExprNode) -> Option<String> {
    use pb::logical_expr_node::ExprType as T;
    let ob = |x: &Option<Box<pb::LogicalExprNode>>| -> Option<String> { Some(match x { Some(b) => format!("(Some {})", coq_pexpr(b)?), None => "None".into() }) };
    let on = |x: &Option<pb::LogicalExprNode>| -> Option<String> { Some(match x { Some(b) => format!("(Some {})", coq_pexpr(b)?), None => "None".into() }) };
    let meta = |m: &HashMap<String, String>| -> Option<String> { if m.is_empty() { Some("[]".into()) } else { None } };
    let tref = |r: &pb::TableReference| -> Option<String> { match &r.table_reference_enum { Some(pb::table_reference::TableReferenceEnum::Bare(b)) => cstr(&b.table), _ => None } };
    let aty = |t: &Option<pc::ArrowType>| -> Option<String> { Some(match t { Some(a) => match &a.arrow_type_enum { Some(e) => format!("(Some \"{}\")", dbg_kind(e)), None => return None }, None => "None".into() }) };
    Some(match n.expr_type.as_ref()? {
        T::Column(c) => format!("(PColumn {} {})", match &c.relation { Some(r) => format!("(Some {})", cstr(&r.relation)?), None => "None".into() }, cstr(&c.name)?),
        T::Literal(l) => {
            use pc::scalar_value::Value as V;
            format!("(PLiteral {})", match l.value.as_ref()? { V::Int64Value(z) => format!("(LInt ({z}))"), V::Utf8Value(s) => format!("(LUtf8 {})", cstr(s)?), V::BoolValue(b) => format!("(LBool {})", cbool(*b)),
                V::NullValue(t) => match &t.arrow_type_enum { Some(pc::arrow_type::ArrowTypeEnum::None(_)) => "LNull".to_string(), _ => return None }, _ => return None })
        }
        T::BinaryExpr(b) => { let os: Option<Vec<String>> = b.operands.iter().map(coq_pexpr).collect(); format!("(PBinary [{}] {})", os?.join("; "), cstr(&b.op)?) }
        T::NotExpr(x) => format!("(PNot {})", ob(&x.expr)?),
        T::IsNullExpr(x) => format!("(PIsNull {})", ob(&x.expr)?),
        T::IsNotNullExpr(x) => format!("(PIsNotNull {})", ob(&x.expr)?),
        T::Negative(x) => format!("(PNegative {})", ob(&x.expr)?),
        T::Between(b) => format!("(PBetween {} {} {} {})", ob(&b.expr)?, cbool(b.negated), ob(&b.low)?, ob(&b.high)?),
        T::Like(l) => format!("(PLike {} {} {} {})", cbool(l.negated), ob(&l.expr)?, ob(&l.pattern)?, cstr(&l.escape_char)?),
        T::Ilike(l) => format!("(PILike {} {} {} {})", cbool(l.negated), ob(&l.expr)?, ob(&l.pattern)?, cstr(&l.escape_char)?),
        T::Case(c) => { let ws: Option<Vec<String>> = c.when_then_expr.iter().map(|w| Some(format!("({}, {})", on(&w.when_expr)?, on(&w.then_expr)?))).collect();
            format!("(PCase {} [{}] {})", ob(&c.expr)?, ws?.join("; "), ob(&c.else_expr)?) }
        T::InList(l) => { let is: Option<Vec<String>> = l.list.iter().map(coq_pexpr).collect(); format!("(PInList {} [{}] {})", ob(&l.expr)?, is?.join("; "), cbool(l.negated)) }
        T::Cast(c) => format!("(PCast {} {} {} {})", ob(&c.expr)?, aty(&c.arrow_type)?, meta(&c.metadata)?, copt(c.nullable.map(|b| cbool(b).to_string()))),
        T::TryCast(c) => format!("(PTryCast {} {} {} {})", ob(&c.expr)?, aty(&c.arrow_type)?, meta(&c.metadata)?, copt(c.nullable.map(|b| cbool(b).to_string()))),
        T::Alias(a) => { let rs: Option<Vec<String>> = a.relation.iter().map(tref).collect(); format!("(PAlias {} [{}] {} {})", ob(&a.expr)?, rs?.join("; "), cstr(&a.alias)?, meta(&a.metadata)?) }
        _ => return None,
    })
}
/// Coq renderings of (expr, wire node produced by the real serialize_expr, expr the real parse_expr gives back)
fn tie_of(ctx: &SessionContext, e: &Expr) -> Option<String> {
    let ce = coq_expr(e)?;
    let codec = DefaultLogicalExtensionCodec {};
    let node = serialize_expr(e, &codec).ok()?;
    let cp = coq_pexpr(&node)?;
    let back = match parse_expr(&node, ctx.task_ctx().as_ref(), &codec) { Ok(b) => format!("(Some {})", coq_expr(&b)?), Err(_) => "None".into() };
    Some(format!("{{\"e\":{},\"p\":{},\"b\":{}}}", json_str(&ce), json_str(&cp), json_str(&back)))
}

fn shape(e: &Expr) -> String { dbg_kind(e) }

fn expr_case(ctx: &SessionContext, id: usize, name: &str, key: &str, e: &Expr) {
    let r = catch_unwind(AssertUnwindSafe(|| -> (String, Option<String>, bool) {
        let bytes = match e.to_bytes() { Ok(b) => b, Err(er) => return (format!("\"enc_err\":{}", json_str(&er.to_string())), None, true) };
        match Expr::from_bytes_with_ctx(&bytes, ctx.task_ctx().as_ref()) {
            Ok(back) => {
                let same = back == *e;
                (format!("\"bytes\":{}", bytes.len()), if same { None } else { Some(format!("decoded expression differs: {back:?}")) }, same)
            }
            Err(er) => (format!("\"bytes\":{}", bytes.len()), Some(format!("decoding failed: {er}")), false),
        }
    }));
    let (extra, why, ok) = match r { Ok(x) => x, Err(p) => ("\"panic\":true".to_string(), Some(format!("panic: {}", panic_msg(p))), false) };
    let mut text = format!("{e:?}");
    if text.len() > 600 { let k = cut(&text, 600).len(); text.truncate(k); text.push_str("..."); }
    let tie = catch_unwind(AssertUnwindSafe(|| tie_of(ctx, e))).ok().flatten().unwrap_or("null".into());
    println!("{{\"k\":\"expr\",\"id\":{id},\"name\":{},\"shape\":\"{}\",\"expr\":{},{extra},\"key\":{},\"tie\":{tie},\"why\":{},\"ok\":{ok}}}",
        json_str(name), shape(e), json_str(&text), json_str(key), why.map(|w| json_str(cut(&w, 700))).unwrap_or("null".into()));
}

fn scalar_stream() {
    for (i, s) in scalar_samples().into_iter().enumerate() {
        let r = catch_unwind(AssertUnwindSafe(|| -> Result<bool, String> {
            let p: pc::ScalarValue = (&s).try_into().map_err(|e: datafusion_proto_common::ToProtoError| format!("enc: {e}"))?;
            let bytes = p.encode_to_vec();
            let q = pc::ScalarValue::decode(bytes.as_slice()).map_err(|e| e.to_string())?;
            let back = ScalarValue::try_from(&q).map_err(|e| format!("dec: {e}"))?;
            Ok(back == s && back.data_type() == s.data_type())
        }));
        let (ok, why) = match r { Ok(Ok(b)) => (b, if b { "null".to_string() } else { json_str("decoded value differs") }), Ok(Err(e)) => (e.starts_with("enc:"), json_str(&e)), Err(p) => (false, json_str(&panic_msg(p))) };
        println!("{{\"k\":\"scalar\",\"id\":{i},\"value\":{},\"why\":{why},\"ok\":{ok}}}", json_str(&format!("{s:?}")));
    }
}

// ------------------------------------------------------------------------------------------------ plan stream
fn column(t: Ty, vals: &[&V]) -> ArrayRef {
    match t {
        Ty::Int | Ty::Rat => Arc::new(Int64Array::from(vals.iter().map(|v| match v { V::I(z) => Some(*z), _ => None }).collect::<Vec<_>>())),
        Ty::Bool => Arc::new(BooleanArray::from(vals.iter().map(|v| match v { V::B(b) => Some(*b), _ => None }).collect::<Vec<_>>())),
        Ty::Str => Arc::new(StringArray::from(vals.iter().map(|v| match v { V::S(s) => Some(s.clone()), _ => None }).collect::<Vec<_>>())),
    }
}
fn arrow_ty(t: Ty) -> DataType { match t { Ty::Int | Ty::Rat => DataType::Int64, Ty::Bool => DataType::Boolean, Ty::Str => DataType::Utf8 } }

/// write table `name` as a directory of parquet files (one per partition) under `dir`
fn write_table(dir: &str, name: &str, t: &Tab, cols: Option<&[&str]>) -> String {
    let schema = Arc::new(Schema::new(t.types.iter().enumerate().map(|(i, ty)| Field::new(cols.map(|c| c[i].to_string()).unwrap_or(format!("c{i}")), arrow_ty(*ty), true)).collect::<Vec<_>>()));
    let tdir = format!("{dir}/{name}");
    std::fs::create_dir_all(&tdir).unwrap();
    for p in 0..t.parts {
        let rows: Vec<&Vec<V>> = t.rows.iter().enumerate().filter(|(i, _)| i % t.parts == p).map(|(_, r)| r).collect();
        let cols: Vec<ArrayRef> = (0..t.types.len()).map(|c| column(t.types[c], &rows.iter().map(|r| &r[c]).collect::<Vec<_>>())).collect();
        let batch = RecordBatch::try_new(schema.clone(), cols).unwrap();
        let f = std::fs::File::create(format!("{tdir}/part-{p}.parquet")).unwrap();
        let mut w = datafusion::parquet::arrow::ArrowWriter::try_new(f, schema.clone(), None).unwrap();
        w.write(&batch).unwrap();
        w.close().unwrap();
    }
    tdir
}

async fn new_ctx(dirs: &[(String, String)], tp: usize) -> SessionContext {
    let ctx = SessionContext::new_with_config(SessionConfig::new().with_target_partitions(tp).with_information_schema(true));
    for (name, d) in dirs { ctx.register_parquet(name.as_str(), d.as_str(), ParquetReadOptions::default()).await.unwrap(); }
    ctx
}

fn rows_of(batches: &[RecordBatch]) -> Vec<String> {
    let fo = FormatOptions::default().with_null("NULL");
    let mut rows = vec![];
    for b in batches {
        let fs: Vec<ArrayFormatter> = b.columns().iter().map(|c| ArrayFormatter::try_new(c.as_ref(), &fo).unwrap()).collect();
        for r in 0..b.num_rows() { rows.push(fs.iter().map(|f| f.value(r).to_string()).collect::<Vec<_>>().join("|")); }
    }
    rows
}


/// first place where two plans with the same text differ structurally (for the report)
fn diff_plans(a: &LogicalPlan, b: &LogicalPlan) -> String {
    if std::mem::discriminant(a) != std::mem::discriminant(b) { return format!("node kinds differ: {} vs {}", dbg_kind(a), dbg_kind(b)); }
    let (ea, eb) = (a.expressions(), b.expressions());
    for (x, y) in ea.iter().zip(eb.iter()) {
        if x != y { let (dx, dy) = (format!("{x:?}"), format!("{y:?}")); return format!("expression of {} differs: {} vs {}", kind_name(&format!("{}", a.display())), cut(&dx, 500), cut(&dy, 500)); }
    }
    if ea.len() != eb.len() { return format!("{}: number of expressions differs", dbg_kind(a)); }
    let (ia, ib) = (a.inputs(), b.inputs());
    for (x, y) in ia.iter().zip(ib.iter()) { if x != y { return diff_plans(x, y); } }
    if a.schema() != b.schema() { return format!("schema of {} differs: {:?} vs {:?}", kind_name(&format!("{}", a.display())), a.schema(), b.schema()); }
    match (a, b) {
        (LogicalPlan::Explain(x), LogicalPlan::Explain(y)) => {
            if x.stringified_plans != y.stringified_plans {
                let k = x.stringified_plans.iter().zip(y.stringified_plans.iter()).position(|(u, v)| u != v);
                return match k {
                    Some(k) => format!("Explain.stringified_plans[{k}] differs: {:?} vs {:?} ({} vs {} entries)", x.stringified_plans[k], y.stringified_plans[k], x.stringified_plans.len(), y.stringified_plans.len()),
                    None => format!("Explain.stringified_plans: {} entries vs {} entries", x.stringified_plans.len(), y.stringified_plans.len()),
                };
            }
            if x.logical_optimization_succeeded != y.logical_optimization_succeeded { return format!("Explain.logical_optimization_succeeded differs: {} vs {}", x.logical_optimization_succeeded, y.logical_optimization_succeeded); }
            if x.verbose != y.verbose { return "Explain.verbose differs".into(); }
            format!("Explain differs in another field (explain_format {:?} vs {:?})", x.explain_format, y.explain_format)
        }
        _ => format!("node {} differs in a field that is neither an expression, an input nor the schema", kind_name(&format!("{}", a.display()))),
    }
}

struct PlanOut { stage: &'static str, ok: bool, skipped: Option<String>, why: Option<String>, text: String, bytes: usize, rows: i64, diff: Option<Vec<(String, String)>> }

async fn check_plan(ctx: &SessionContext, fresh: &SessionContext, stage: &'static str, p: &LogicalPlan, exec: bool) -> PlanOut {
    let text = format!("{}", p.display_indent_schema());
    let mut out = PlanOut { stage, ok: true, skipped: None, why: None, text: text.clone(), bytes: 0, rows: -1, diff: None };
    let bytes = match logical_plan_to_bytes(p) { Ok(b) => b, Err(e) => { out.skipped = Some(format!("encoding failed: {e}")); return out; } };
    out.bytes = bytes.len();
    let fail = |o: &mut PlanOut, w: String| { if o.ok { o.ok = false; o.why = Some(w); } };
    let back = match logical_plan_from_bytes(&bytes, fresh.task_ctx().as_ref()) { Ok(b) => b, Err(e) => { fail(&mut out, format!("decoding failed: {e}")); return out; } };
    let t2 = format!("{}", back.display_indent_schema());
    if t2 != text {
        let (la, lb): (Vec<&str>, Vec<&str>) = (text.lines().collect(), t2.lines().collect());
        if la.len() == lb.len() { out.diff = Some(la.iter().zip(lb.iter()).filter(|(x, y)| x != y).take(12).map(|(x, y)| (x.trim_start().to_string(), y.trim_start().to_string())).collect()); }
        fail(&mut out, format!("display_indent_schema differs after the round trip:\n{t2}"));
    }
    else if back != *p { let d = diff_plans(p, &back); fail(&mut out, format!("decoded plan has the same text but is not PartialEq-equal to the original: {d}")); }
    else if format!("{back:?}") != format!("{p:?}") { fail(&mut out, "decoded plan has a different Debug text".to_string()); }
    // JSON form
    match logical_plan_to_json(p) {
        Ok(js) => match logical_plan_from_json(&js, fresh.task_ctx().as_ref()) {
            Ok(b2) => { let t3 = format!("{}", b2.display_indent_schema()); if t3 != text { fail(&mut out, format!("JSON round trip changes the plan:\n{t3}")); } }
            Err(e) => fail(&mut out, format!("decoding the JSON form failed: {e}")),
        },
        Err(e) => fail(&mut out, format!("binary encoding succeeded but JSON encoding failed: {e}")),
    }
    let limited = text.contains("Limit:");
    if exec && out.ok {
        // a panic of the engine while EXECUTING a plan is not a serialisation matter: it counts as an execution error of that side
        use futures::FutureExt;
        let flat = |r: Result<datafusion::common::Result<Vec<RecordBatch>>, Box<dyn std::any::Any + Send>>| match r { Ok(x) => x, Err(p) => Err(datafusion::common::DataFusionError::Execution(format!("panic: {}", panic_msg(p)))) };
        let r1 = flat(AssertUnwindSafe(async { ctx.execute_logical_plan(p.clone()).await?.collect().await }).catch_unwind().await);
        let r2 = flat(AssertUnwindSafe(async { fresh.execute_logical_plan(back.clone()).await?.collect().await }).catch_unwind().await);
        match (r1, r2) {
            (Ok(a), Ok(b)) => {
                let (mut x, mut y) = (rows_of(&a), rows_of(&b));
                out.rows = x.len() as i64;
                x.sort(); y.sort();
                // a LIMIT / OFFSET over a sort with ties may legitimately keep different rows on every execution: compare the row count only
                if limited { if x.len() != y.len() { fail(&mut out, format!("row counts differ: original {} / decoded {}", x.len(), y.len())); } }
                else if x != y { fail(&mut out, format!("results differ: original {} rows {:?} / decoded {} rows {:?}", x.len(), &x[..x.len().min(6)], y.len(), &y[..y.len().min(6)])); }
            }
            (Err(_), Err(_)) => {}
            (Ok(_), Err(e)) => fail(&mut out, format!("the decoded plan fails to execute: {e}")),
            (Err(e), Ok(_)) => fail(&mut out, format!("the original plan fails to execute but the decoded one runs: {e}")),
        }
    }
    out
}

fn corpus() -> Vec<(&'static str, bool)> {
    // over a(x BIGINT, y BIGINT, s VARCHAR, b BOOLEAN) and b(x BIGINT, z BIGINT, s VARCHAR); (sql, execute?)
    vec![
        ("SELECT x, sum(y) OVER (PARTITION BY b ORDER BY x, y ROWS BETWEEN 1 PRECEDING AND 1 FOLLOWING) FROM a", true),
        ("SELECT x, count(*) OVER (ORDER BY x RANGE BETWEEN 2 PRECEDING AND CURRENT ROW), row_number() OVER (ORDER BY x DESC NULLS LAST, y) FROM a", true),
        ("SELECT x, min(y) OVER (ORDER BY x GROUPS BETWEEN UNBOUNDED PRECEDING AND 1 FOLLOWING), lag(y, 1) IGNORE NULLS OVER (ORDER BY x, y) FROM a", true),
        ("SELECT first_value(y) RESPECT NULLS OVER (PARTITION BY s ORDER BY x), last_value(y) OVER (PARTITION BY s ORDER BY x ROWS BETWEEN UNBOUNDED PRECEDING AND UNBOUNDED FOLLOWING) FROM a", true),
        ("SELECT unnest(make_array(x, y, 7)) AS u, s FROM a", true),
        ("SELECT unnest(make_array(make_array(x), make_array(y, 1))) FROM a", true),
        ("WITH RECURSIVE r AS (SELECT 1 AS n UNION ALL SELECT n + 1 FROM r WHERE n < 5) SELECT * FROM r", true),
        // distinct recursion (RecursiveQuery.is_distinct = true); both terminate even if the flag were lost
        ("WITH RECURSIVE r AS (SELECT 1 AS n UNION SELECT n + 1 FROM r WHERE n < 5) SELECT * FROM r", true),
        ("WITH RECURSIVE r AS (SELECT 1 AS n UNION SELECT n + 1 FROM r, (VALUES (10), (20)) AS v(k) WHERE n < 4) SELECT n FROM r ORDER BY n", true),
        ("SELECT a.x, b.z FROM a JOIN b USING (x)", true),
        ("SELECT a.x, b.z FROM a LEFT JOIN b ON a.x = b.x AND a.y > b.z", true),
        ("SELECT a.x, b.z FROM a RIGHT JOIN b ON a.x = b.x", true),
        ("SELECT a.x, b.z FROM a FULL JOIN b ON a.x = b.x WHERE a.s IS DISTINCT FROM b.s", true),
        ("SELECT x FROM a WHERE x IN (SELECT x FROM b)", true),
        ("SELECT x FROM a WHERE x NOT IN (SELECT z FROM b)", true),
        ("SELECT x FROM a WHERE EXISTS (SELECT 1 FROM b WHERE b.x = a.x AND b.z > a.y)", true),
        ("SELECT x FROM a WHERE NOT EXISTS (SELECT 1 FROM b WHERE b.x = a.x)", true),
        ("SELECT x, (SELECT max(z) FROM b WHERE b.x = a.x) FROM a", true),
        ("SELECT x FROM a NATURAL JOIN b", true),
        ("SELECT * FROM a CROSS JOIN b", true),
        ("SELECT s, count(*), sum(y), avg(y), min(x), max(x), count(DISTINCT y) FROM a GROUP BY s HAVING count(*) > 0 ORDER BY s NULLS FIRST", true),
        ("SELECT s, b, sum(x) FROM a GROUP BY ROLLUP (s, b)", true),
        ("SELECT s, b, sum(x) FROM a GROUP BY CUBE (s, b)", true),
        ("SELECT s, b, sum(x), grouping(s) FROM a GROUP BY GROUPING SETS ((s), (b), ())", true),
        ("SELECT x FROM a UNION SELECT x FROM b", true),
        ("SELECT x FROM a UNION ALL SELECT z FROM b", true),
        ("(SELECT x FROM a UNION ALL SELECT z FROM b) UNION ALL SELECT y FROM a", true),
        ("SELECT x FROM a INTERSECT SELECT x FROM b", true),
        ("SELECT x FROM a EXCEPT SELECT x FROM b", true),
        ("SELECT DISTINCT s FROM a", true),
        ("SELECT DISTINCT ON (s) s, x FROM a ORDER BY s, x DESC", true),
        ("SELECT x FROM a ORDER BY x DESC NULLS FIRST LIMIT 3 OFFSET 1", true),
        ("SELECT x FROM a LIMIT 0", true),
        ("SELECT x FROM a ORDER BY x LIMIT 3 OFFSET 0", true),
        ("SELECT x FROM a ORDER BY x OFFSET 2", true),
        ("((SELECT x AS r0, y AS r1 FROM a) INTERSECT ALL (SELECT x AS r0, z AS r1 FROM b)) UNION (SELECT x AS r0, y AS r1 FROM a WHERE FALSE)", true),
        ("SELECT CASE WHEN x > 1 THEN 'big' WHEN x IS NULL THEN NULL ELSE 'small' END, CAST(x AS INT), TRY_CAST(s AS DOUBLE), x BETWEEN 1 AND 2, s LIKE 'a%' ESCAPE '!', s ILIKE '_b', s SIMILAR TO 'a+', -x, NOT b FROM a", true),
        ("SELECT x IN (1, 2, NULL), x NOT IN (3), b IS TRUE, b IS NOT FALSE, b IS UNKNOWN, s || 'z', x & 3, x | 1, x ^ 2, x << 1, x >> 1, x % 2, x / 2 FROM a", true),
        ("SELECT abs(x), coalesce(s, 'none'), nullif(x, 1), date_trunc('day', TIMESTAMP '2024-01-02 03:04:05'), INTERVAL '1' DAY, DATE '2020-02-29', 1.5e0, DECIMAL '1.25' FROM a", true),
        ("SELECT * FROM (VALUES (1, 'a'), (2, NULL)) AS v(k, t)", true),
        ("SELECT t.* FROM a AS t WHERE t.x = 1", true),
        ("SELECT x AS \"Weird Name\", y \"select\" FROM a", true),
        ("SELECT array_agg(x ORDER BY y DESC), string_agg(s, ',' ORDER BY x, y) FROM a", true),
        ("SELECT sum(x) FILTER (WHERE b), count(*) FILTER (WHERE y > 0) FROM a", true),
        ("SELECT $1 + x FROM a", false),
        ("PREPARE p(BIGINT) AS SELECT x FROM a WHERE x = $1", false),
        ("EXPLAIN SELECT x FROM a", false),
        ("EXPLAIN VERBOSE SELECT x FROM a", false),
        ("EXPLAIN ANALYZE SELECT x FROM a", false),
        ("EXPLAIN FORMAT TREE SELECT x FROM a", false),
        ("EXPLAIN FORMAT PGJSON SELECT x FROM a", false),
        ("EXPLAIN FORMAT GRAPHVIZ SELECT x FROM a", false),
        ("EXPLAIN FORMAT INDENT SELECT x FROM a", false),
        ("EXPLAIN ANALYZE VERBOSE SELECT x FROM a", false),
        ("REPLACE INTO b VALUES (1, 2, 'q')", false),
        ("MERGE INTO b USING a ON a.x = b.x WHEN MATCHED THEN UPDATE SET z = a.y WHEN NOT MATCHED THEN INSERT (x, z, s) VALUES (a.x, a.y, a.s)", false),
        ("MERGE INTO b USING a ON a.x = b.x WHEN MATCHED AND a.y > 1 THEN DELETE WHEN NOT MATCHED BY SOURCE THEN DELETE", false),
        ("INSERT INTO b SELECT x, y, s FROM a", false),
        ("INSERT INTO b VALUES (1, 2, 'q')", false),
        ("INSERT OVERWRITE b SELECT x, y, s FROM a", false),
        ("COPY (SELECT x, s FROM a) TO '/tmp/c35_copy_out.csv' STORED AS CSV OPTIONS ('format.delimiter' ';', 'format.has_header' 'true')", false),
        ("COPY a TO '/tmp/c35_copy_out_dir/' STORED AS PARQUET PARTITIONED BY (s)", false),
        ("COPY (SELECT x FROM a) TO '/tmp/c35_copy_out.json' STORED AS JSON", false),
        ("CREATE VIEW v AS SELECT x FROM a WHERE y > 0", false),
        ("CREATE EXTERNAL TABLE ext (k INT, v VARCHAR) STORED AS CSV LOCATION '/tmp/c35_ext.csv' OPTIONS ('format.has_header' 'true')", false),
        ("CREATE EXTERNAL TABLE ext2 (k INT NOT NULL, v VARCHAR, PRIMARY KEY (k)) STORED AS PARQUET PARTITIONED BY (v) WITH ORDER (k DESC NULLS LAST) LOCATION '/tmp/c35_ext2/'", false),
        ("DROP TABLE IF EXISTS nothing", false),
        ("DROP VIEW IF EXISTS nothing", false),
        ("CREATE SCHEMA IF NOT EXISTS sch", false),
        ("SELECT x FROM a TABLESAMPLE (10 PERCENT)", false),
        ("SELECT * FROM generate_series(1, 5)", true),
        ("SELECT x, s FROM a WHERE s = ANY(SELECT s FROM b)", true),
        ("SELECT x FROM a WHERE x > ALL(SELECT z FROM b)", true),
        ("SELECT a.x FROM a LEFT SEMI JOIN b ON a.x = b.x", true),
        ("SELECT a.x FROM a LEFT ANTI JOIN b ON a.x = b.x", true),
        ("SELECT b.z FROM a RIGHT SEMI JOIN b ON a.x = b.x", true),
        ("SELECT b.z FROM a RIGHT ANTI JOIN b ON a.x = b.x", true),
        ("DELETE FROM b WHERE x = 1", false),
        ("UPDATE b SET z = z + 1 WHERE x = 1", false),
        ("TRUNCATE TABLE b", false),
        ("CREATE TABLE c2 AS SELECT x FROM a", false),
        ("DESCRIBE a", false),
        ("SHOW TABLES", false),
        ("SELECT x FROM a ORDER BY random() LIMIT 1", false),
    ]
}

fn fixed_tables() -> Vec<Tab> {
    let n = V::Null;
    let i = |z: i64| V::I(z);
    let s = |x: &str| V::S(x.to_string());
    vec![
        Tab { types: vec![Ty::Int, Ty::Int, Ty::Str, Ty::Bool], parts: 2, rows: vec![
            vec![i(1), i(10), s("a"), V::B(true)], vec![i(2), n.clone(), s("ab"), V::B(false)], vec![i(2), i(-3), n.clone(), n.clone()], vec![n.clone(), i(4), s(""), V::B(true)],
            vec![i(3), i(0), s("a"), V::B(false)], vec![i(5), i(7), s("b"), n.clone()], vec![i(1), i(1), s("ab"), V::B(true)]] },
        Tab { types: vec![Ty::Int, Ty::Int, Ty::Str], parts: 1, rows: vec![
            vec![i(1), i(5), s("a")], vec![i(2), n.clone(), s("b")], vec![n.clone(), i(2), n.clone()], vec![i(4), i(4), s("")], vec![i(2), i(9), s("ab")]] },
    ]
}

fn print_plan_case(id: &str, stream: &str, sql: &str, tp: usize, outs: &[PlanOut], plan_err: Option<String>) {
    let ok = outs.iter().all(|o| o.ok);
    let stages: Vec<String> = outs.iter().map(|o| {
        let mut t = o.text.clone(); if t.len() > 12000 { let k = cut(&t, 12000).len(); t.truncate(k); t.push_str("..."); }
        let diff = match &o.diff { Some(d) => format!("[{}]", d.iter().map(|(x, y)| format!("[{},{}]", json_str(cut(&x, 1200)), json_str(cut(&y, 1200)))).collect::<Vec<_>>().join(",")), None => "null".into() };
        format!("{{\"stage\":\"{}\",\"ok\":{},\"bytes\":{},\"rows\":{},\"diff\":{diff},\"skipped\":{},\"why\":{},\"plan\":{}}}", o.stage, o.ok, o.bytes, o.rows,
            o.skipped.as_ref().map(|s| json_str(cut(&s, 300))).unwrap_or("null".into()),
            o.why.as_ref().map(|s| json_str(cut(&s, 12000))).unwrap_or("null".into()), if o.ok && o.skipped.is_none() { "null".to_string() } else { json_str(&t) })
    }).collect();
    let nodes: Vec<String> = outs.first().map(|o| o.text.lines().map(|l| kind_name(l.trim_start())).collect()).unwrap_or_default();
    let mut kinds: Vec<String> = nodes; kinds.sort(); kinds.dedup();
    println!("{{\"k\":\"plan\",\"id\":\"{id}\",\"stream\":\"{stream}\",\"tp\":{tp},\"sql\":{},\"plan_err\":{},\"nodes\":[{}],\"stages\":[{}],\"ok\":{ok}}}",
        json_str(sql), plan_err.map(|e| json_str(cut(&e, 300))).unwrap_or("null".into()),
        kinds.iter().map(|k| format!("\"{k}\"")).collect::<Vec<_>>().join(","), stages.join(","));
}

async fn plan_case(dirs: &[(String, String)], tp: usize, id: &str, stream: &str, sql: &str, exec: bool) {
    let ctx = new_ctx(dirs, tp).await;
    let fresh = new_ctx(dirs, tp).await;
    let plan = match ctx.state().create_logical_plan(sql).await { Ok(p) => p, Err(e) => { print_plan_case(id, stream, sql, tp, &[], Some(e.to_string())); return; } };
    let mut outs = vec![];
    outs.push(check_plan(&ctx, &fresh, "unoptimized", &plan, exec).await);
    if let Ok(opt) = ctx.state().optimize(&plan) { outs.push(check_plan(&ctx, &fresh, "optimized", &opt, exec).await); }
    print_plan_case(id, stream, sql, tp, &outs, None);
}

fn run_plan_case(dirs: Vec<(String, String)>, tp: usize, id: String, stream: String, sql: String, exec: bool) {
    let rt = tokio::runtime::Builder::new_multi_thread().worker_threads(2).enable_all().build().unwrap();
    let (id2, stream2, sql2) = (id.clone(), stream.clone(), sql.clone());
    let h = rt.spawn(async move { tokio::time::timeout(std::time::Duration::from_secs(30), plan_case(&dirs, tp, &id2, &stream2, &sql2, exec)).await });
    match rt.block_on(h) {
        Ok(Ok(())) => {}
        Ok(Err(_)) => println!("{{\"k\":\"plan\",\"id\":\"{id}\",\"stream\":\"{stream}\",\"tp\":{tp},\"sql\":{},\"plan_err\":\"timeout: case did not finish in 30 s\",\"nodes\":[],\"stages\":[],\"ok\":true}}", json_str(&sql)),
        Err(e) => {
            let msg = if e.is_panic() { panic_msg(e.into_panic()) } else { "task cancelled".into() };
            println!("{{\"k\":\"plan\",\"id\":\"{id}\",\"stream\":\"{stream}\",\"tp\":{tp},\"sql\":{},\"plan_err\":null,\"nodes\":[],\"stages\":[{{\"stage\":\"panic\",\"ok\":false,\"bytes\":0,\"rows\":-1,\"skipped\":null,\"why\":{},\"plan\":null}}],\"ok\":false}}",
                json_str(&sql), json_str(&format!("panic: {msg}")));
        }
    }
    rt.shutdown_background();
}

fn main() {
    let args: Vec<String> = std::env::args().collect();
    let seed: u64 = arg(&args, "--seed", "1").parse().unwrap();
    let n: u64 = arg(&args, "--n", "40").parse().unwrap();
    let dir = arg(&args, "--dir", &format!("/tmp/c35_{}", std::process::id()));
    if std::env::var("HARNESS_BACKTRACE").is_err() { std::panic::set_hook(Box::new(|_| {})); }
    let _ = std::fs::remove_dir_all(&dir);
    std::fs::create_dir_all(&dir).unwrap();

    enum_stream();
    scalar_stream();
    let ctx = SessionContext::new();
    let mut id = 0usize;
    for (name, key, e) in witness_exprs() { expr_case(&ctx, id, &name, key, &e); id += 1; }
    for (name, e) in fixed_exprs(&ctx) { expr_case(&ctx, id, &name, "", &e); id += 1; }
    let mut rng = Rng::new(seed);
    for k in 0..(n * 10) { let d = 1 + (k % 4) as u32; let e = random_expr(&mut rng, d); expr_case(&ctx, id, "random", "", &e); id += 1; }

    // fixed tables + corpus
    let ft = fixed_tables();
    let fdirs: Vec<(String, String)> = vec![("a".to_string(), write_table(&dir, "fixed_a", &ft[0], Some(&["x", "y", "s", "b"]))), ("b".to_string(), write_table(&dir, "fixed_b", &ft[1], Some(&["x", "z", "s"])))];
    for (k, (sql, exec)) in corpus().into_iter().enumerate() {
        run_plan_case(fdirs.clone(), 1 + k % 3, format!("corpus-{k}"), "corpus".into(), sql.to_string(), exec);
    }
    // C01 generator
    for cid in 0..n {
        let stream = STREAMS[(cid % STREAMS.len() as u64) as usize];
        let tabs = Gen::gen_tables(&mut rng);
        let tp = 1 + rng.below(3) as usize;
        let (q, widths) = { let mut g = Gen { rng: &mut rng, tabs: tabs.clone() }; let q = g.query(stream); (q, g.tab_widths()) };
        let sql = to_sql(&q, &widths);
        let dirs: Vec<(String, String)> = tabs.iter().enumerate().map(|(i, t)| (format!("t{i}"), write_table(&dir, &format!("g{cid}_t{i}"), t, None))).collect();
        run_plan_case(dirs, tp, format!("gen-{cid}"), stream.to_string(), sql, true);
    }
    let _ = std::fs::remove_dir_all(&dir);
}
