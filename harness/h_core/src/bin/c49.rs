//! C49 -- catalog changes are applied exactly and reflected in the information schema.
//! Random DDL histories through `SessionContext::sql` with information_schema enabled.  After every statement:
//! outcome class, information_schema.{tables,schemata,views,columns}, and `SELECT * FROM <name>` probes.
//! Direct oracle: an independent flat map of what should exist (catalog set, schema set, object map).
use arrow::array::Array;
use arrow::util::display::array_value_to_string;
use datafusion::prelude::{SessionConfig, SessionContext};
use h_util::{arg, json_str, Rng};
use std::collections::{BTreeMap, BTreeSet};

#[derive(Clone, Debug)]
struct Ident {
    q: bool,
    text: String,
}
impl Ident {
    fn new(s: &str) -> Ident {
        if s.starts_with('"') { Ident { q: true, text: s.trim_matches('"').to_string() } } else { Ident { q: false, text: s.to_string() } }
    }
    fn sql(&self) -> String {
        if self.q { format!("\"{}\"", self.text) } else { self.text.clone() }
    }
    fn norm(&self) -> String {
        if self.q { self.text.clone() } else { self.text.to_ascii_lowercase() }
    }
    fn json(&self) -> String {
        format!("{{\"q\":{},\"t\":{}}}", self.q, json_str(&self.text))
    }
}

#[derive(Clone, Debug)]
struct Ref(Vec<Ident>); // 1..3 parts (tables) or 1..2 parts (schemas)
impl Ref {
    fn sql(&self) -> String {
        self.0.iter().map(|i| i.sql()).collect::<Vec<_>>().join(".")
    }
    fn json(&self) -> String {
        format!("[{}]", self.0.iter().map(|i| i.json()).collect::<Vec<_>>().join(","))
    }
    fn resolve3(&self) -> (String, String, String) {
        let n: Vec<String> = self.0.iter().map(|i| i.norm()).collect();
        match n.len() {
            1 => ("datafusion".into(), "public".into(), n[0].clone()),
            2 => ("datafusion".into(), n[0].clone(), n[1].clone()),
            _ => (n[0].clone(), n[1].clone(), n[2].clone()),
        }
    }
    fn resolve2(&self) -> (String, String) {
        let n: Vec<String> = self.0.iter().map(|i| i.norm()).collect();
        if n.len() == 1 { ("datafusion".into(), n[0].clone()) } else { (n[0].clone(), n[1].clone()) }
    }
}

#[derive(Clone, Debug)]
enum Ddl {
    CreateTable { name: Ref, cols: Vec<(Ident, &'static str)>, ine: bool, orr: bool },
    CreateTableAs { name: Ref, c: Ident, k: i64, ine: bool, orr: bool },
    CreateView { name: Ref, c: Ident, k: i64, orr: bool },
    DropTable { name: Ref, ife: bool },
    DropView { name: Ref, ife: bool },
    CreateSchema { name: Ref, ine: bool },
    DropSchema { name: Ref, ife: bool, cascade: bool },
    CreateCatalog { name: Ident, ine: bool },
}

fn head(what: &str, ine: bool, orr: bool) -> String {
    format!("CREATE {}{} {}", if orr { "OR REPLACE " } else { "" }, what, if ine { "IF NOT EXISTS " } else { "" })
}

impl Ddl {
    fn sql(&self) -> String {
        match self {
            Ddl::CreateTable { name, cols, ine, orr } => format!(
                "{}{}({})",
                head("TABLE", *ine, *orr),
                name.sql(),
                cols.iter().map(|(c, t)| format!("{} {}", c.sql(), t)).collect::<Vec<_>>().join(", ")
            ),
            Ddl::CreateTableAs { name, c, k, ine, orr } => format!("{}{} AS SELECT {} AS {}", head("TABLE", *ine, *orr), name.sql(), k, c.sql()),
            Ddl::CreateView { name, c, k, orr } => format!("{}{} AS SELECT {} AS {}", head("VIEW", false, *orr), name.sql(), k, c.sql()),
            Ddl::DropTable { name, ife } => format!("DROP TABLE {}{}", if *ife { "IF EXISTS " } else { "" }, name.sql()),
            Ddl::DropView { name, ife } => format!("DROP VIEW {}{}", if *ife { "IF EXISTS " } else { "" }, name.sql()),
            Ddl::CreateSchema { name, ine } => format!("CREATE SCHEMA {}{}", if *ine { "IF NOT EXISTS " } else { "" }, name.sql()),
            Ddl::DropSchema { name, ife, cascade } => {
                format!("DROP SCHEMA {}{}{}", if *ife { "IF EXISTS " } else { "" }, name.sql(), if *cascade { " CASCADE" } else { "" })
            }
            Ddl::CreateCatalog { name, ine } => format!("CREATE DATABASE {}{}", if *ine { "IF NOT EXISTS " } else { "" }, name.sql()),
        }
    }
    fn json(&self) -> String {
        match self {
            Ddl::CreateTable { name, cols, ine, orr } => format!(
                "{{\"op\":\"create_table\",\"name\":{},\"cols\":[{}],\"ine\":{},\"orr\":{}}}",
                name.json(),
                cols.iter().map(|(c, t)| format!("[{},{}]", c.json(), json_str(t))).collect::<Vec<_>>().join(","),
                ine,
                orr
            ),
            Ddl::CreateTableAs { name, c, k, ine, orr } => {
                format!("{{\"op\":\"ctas\",\"name\":{},\"c\":{},\"k\":{},\"ine\":{},\"orr\":{}}}", name.json(), c.json(), k, ine, orr)
            }
            Ddl::CreateView { name, c, k, orr } => {
                format!("{{\"op\":\"create_view\",\"name\":{},\"c\":{},\"k\":{},\"orr\":{},\"text\":{}}}", name.json(), c.json(), k, orr, json_str(&self.sql()))
            }
            Ddl::DropTable { name, ife } => format!("{{\"op\":\"drop_table\",\"name\":{},\"ife\":{}}}", name.json(), ife),
            Ddl::DropView { name, ife } => format!("{{\"op\":\"drop_view\",\"name\":{},\"ife\":{}}}", name.json(), ife),
            Ddl::CreateSchema { name, ine } => format!("{{\"op\":\"create_schema\",\"name\":{},\"ine\":{}}}", name.json(), ine),
            Ddl::DropSchema { name, ife, cascade } => format!("{{\"op\":\"drop_schema\",\"name\":{},\"ife\":{},\"cascade\":{}}}", name.json(), ife, cascade),
            Ddl::CreateCatalog { name, ine } => format!("{{\"op\":\"create_catalog\",\"name\":{},\"ine\":{}}}", name.json(), ine),
        }
    }
}

// ------------------------------------------------------------------ generator
const CATS: &[&str] = &["datafusion", "c2", "c2", "C2", "\"C2\"", "DataFusion"];
const NEWCATS: &[&str] = &["c2", "C2", "\"C2\"", "\"c2\""];
const SCHEMAS: &[&str] = &["public", "public", "s1", "s1", "S1", "\"S1\"", "PUBLIC", "\"s1\""];
const NAMES: &[&str] = &["t", "T", "\"T\"", "u", "\"u\"", "v", "\"V\""];
const COLS: &[&str] = &["a", "\"A\"", "B", "c1", "\"c1\""];
const TYPES: &[&str] = &["INT", "BIGINT", "VARCHAR", "DOUBLE", "BOOLEAN"];

fn pick_id(rng: &mut Rng, xs: &[&str]) -> Ident {
    Ident::new(xs[rng.below(xs.len() as u64) as usize])
}
fn gen_tref(rng: &mut Rng) -> Ref {
    let t = pick_id(rng, NAMES);
    match rng.below(10) {
        0..=4 => Ref(vec![t]),
        5..=7 => Ref(vec![pick_id(rng, SCHEMAS), t]),
        _ => Ref(vec![pick_id(rng, CATS), pick_id(rng, SCHEMAS), t]),
    }
}
fn gen_sref(rng: &mut Rng) -> Ref {
    let s = pick_id(rng, SCHEMAS);
    if rng.chance(6, 10) { Ref(vec![s]) } else { Ref(vec![pick_id(rng, CATS), s]) }
}
fn gen_flags(rng: &mut Rng) -> (bool, bool) {
    match rng.below(20) {
        0..=7 => (false, false),
        8..=12 => (true, false),
        13..=18 => (false, true),
        _ => (true, true),
    }
}
fn gen_ddl(rng: &mut Rng) -> Ddl {
    match rng.below(100) {
        0..=13 => {
            let n = 1 + rng.below(3) as usize;
            let mut cols: Vec<(Ident, &'static str)> = Vec::new();
            for _ in 0..n {
                let c = pick_id(rng, COLS);
                if cols.iter().all(|(d, _)| d.norm() != c.norm()) {
                    cols.push((c, TYPES[rng.below(TYPES.len() as u64) as usize]));
                }
            }
            let (ine, orr) = gen_flags(rng);
            Ddl::CreateTable { name: gen_tref(rng), cols, ine, orr }
        }
        14..=29 => {
            let (ine, orr) = gen_flags(rng);
            Ddl::CreateTableAs { name: gen_tref(rng), c: pick_id(rng, COLS), k: rng.range(-3, 99), ine, orr }
        }
        30..=47 => Ddl::CreateView { name: gen_tref(rng), c: pick_id(rng, COLS), k: rng.range(-3, 99), orr: rng.chance(1, 2) },
        48..=59 => Ddl::DropTable { name: gen_tref(rng), ife: rng.chance(1, 2) },
        60..=69 => Ddl::DropView { name: gen_tref(rng), ife: rng.chance(1, 2) },
        70..=81 => Ddl::CreateSchema { name: gen_sref(rng), ine: rng.chance(1, 2) },
        82..=91 => Ddl::DropSchema { name: gen_sref(rng), ife: rng.chance(1, 2), cascade: rng.chance(1, 2) },
        _ => Ddl::CreateCatalog { name: pick_id(rng, NEWCATS), ine: rng.chance(1, 2) },
    }
}

// ------------------------------------------------------------------ independent oracle (flat maps)
#[derive(Clone, Debug, PartialEq)]
struct OObj {
    view: bool,
    cols: Vec<(String, String, bool)>, // name, arrow type, nullable
    rows: Vec<Vec<i64>>,
    def: Option<String>,
}
#[derive(Default)]
struct Oracle {
    cats: BTreeSet<String>,
    schemas: BTreeSet<(String, String)>,
    objs: BTreeMap<(String, String, String), OObj>,
}
fn arrow_ty(t: &str) -> &'static str {
    match t {
        "INT" => "Int32",
        "BIGINT" => "Int64",
        "VARCHAR" => "Utf8View",
        "DOUBLE" => "Float64",
        _ => "Boolean",
    }
}
impl Oracle {
    fn new() -> Oracle {
        let mut o = Oracle::default();
        o.cats.insert("datafusion".into());
        o.schemas.insert(("datafusion".into(), "public".into()));
        o
    }
    /// documented rule: CREATE succeeds iff (target schema exists) and (name free, or exactly one of IF NOT EXISTS / OR REPLACE)
    fn create(&mut self, name: &Ref, obj: OObj, ine: bool, orr: bool) -> &'static str {
        let (c, s, n) = name.resolve3();
        if !self.cats.contains(&c) {
            return "no_catalog";
        }
        if !self.schemas.contains(&(c.clone(), s.clone())) {
            return "no_schema";
        }
        let key = (c, s, n);
        if self.objs.contains_key(&key) {
            match (ine, orr) {
                (true, false) => "ok",
                (false, true) => {
                    self.objs.insert(key, obj);
                    "ok"
                }
                (true, true) => "conflict",
                (false, false) => "already_exists",
            }
        } else {
            self.objs.insert(key, obj);
            "ok"
        }
    }
    fn drop(&mut self, name: &Ref, view: bool, ife: bool) -> &'static str {
        let key = name.resolve3();
        let there = self.objs.get(&key).map(|o| o.view == view).unwrap_or(false);
        if there {
            self.objs.remove(&key);
            "ok"
        } else if ife {
            "ok"
        } else {
            "not_found"
        }
    }
    fn apply(&mut self, d: &Ddl) -> &'static str {
        match d {
            Ddl::CreateTable { name, cols, ine, orr } => {
                let o = OObj { view: false, cols: cols.iter().map(|(c, t)| (c.norm(), arrow_ty(t).to_string(), true)).collect(), rows: vec![], def: None };
                self.create(name, o, *ine, *orr)
            }
            Ddl::CreateTableAs { name, c, k, ine, orr } => {
                let o = OObj { view: false, cols: vec![(c.norm(), "Int64".into(), false)], rows: vec![vec![*k]], def: None };
                self.create(name, o, *ine, *orr)
            }
            Ddl::CreateView { name, c, k, orr } => {
                let o = OObj { view: true, cols: vec![(c.norm(), "Int64".into(), false)], rows: vec![vec![*k]], def: Some(d.sql()) };
                self.create(name, o, false, *orr)
            }
            Ddl::DropTable { name, ife } => self.drop(name, false, *ife),
            Ddl::DropView { name, ife } => self.drop(name, true, *ife),
            Ddl::CreateSchema { name, ine } => {
                let (c, s) = name.resolve2();
                if !self.cats.contains(&c) {
                    "no_catalog"
                } else if self.schemas.contains(&(c.clone(), s.clone())) {
                    if *ine { "ok" } else { "already_exists" }
                } else {
                    self.schemas.insert((c, s));
                    "ok"
                }
            }
            Ddl::DropSchema { name, ife, cascade } => {
                let (c, s) = name.resolve2();
                if !self.schemas.contains(&(c.clone(), s.clone())) {
                    if *ife { "ok" } else { "not_found" }
                } else {
                    let inside: Vec<_> = self.objs.keys().filter(|k| k.0 == c && k.1 == s).cloned().collect();
                    if !inside.is_empty() && !*cascade {
                        "not_empty"
                    } else {
                        for k in inside {
                            self.objs.remove(&k);
                        }
                        self.schemas.remove(&(c, s));
                        "ok"
                    }
                }
            }
            Ddl::CreateCatalog { name, ine } => {
                let c = name.norm();
                if self.cats.contains(&c) {
                    if *ine { "ok" } else { "already_exists" }
                } else {
                    self.cats.insert(c);
                    "ok"
                }
            }
        }
    }
    fn tables(&self) -> Vec<Vec<String>> {
        let mut v: Vec<Vec<String>> = self
            .objs
            .iter()
            .map(|(k, o)| vec![k.0.clone(), k.1.clone(), k.2.clone(), if o.view { "VIEW".to_string() } else { "BASE TABLE".to_string() }])
            .collect();
        for c in &self.cats {
            for t in ["tables", "views", "columns", "df_settings", "schemata", "routines", "parameters"] {
                v.push(vec![c.clone(), "information_schema".into(), t.into(), "VIEW".into()]);
            }
        }
        v.sort();
        v
    }
    fn schemata(&self) -> Vec<Vec<String>> {
        self.schemas.iter().map(|(c, s)| vec![c.clone(), s.clone()]).collect()
    }
    fn views(&self) -> Vec<(Vec<String>, Option<String>)> {
        self.objs.iter().filter(|(_, o)| o.view).map(|(k, o)| (vec![k.0.clone(), k.1.clone(), k.2.clone()], o.def.clone())).collect()
    }
    fn columns(&self) -> Vec<Vec<String>> {
        let mut v = Vec::new();
        for (k, o) in &self.objs {
            for (i, (cn, ty, nullable)) in o.cols.iter().enumerate() {
                v.push(vec![k.0.clone(), k.1.clone(), k.2.clone(), cn.clone(), i.to_string(), if *nullable { "YES".into() } else { "NO".into() }, ty.clone()]);
            }
        }
        v.sort();
        v
    }
}

// ------------------------------------------------------------------ running against the implementation
fn classify(msg: &str) -> String {
    let m = msg;
    if m.contains("cannot coexist") {
        "conflict".into()
    } else if m.contains("already exists") {
        "already_exists".into()
    } else if m.contains("Cannot drop schema") {
        "not_empty".into()
    } else if m.contains("failed to resolve catalog") || m.contains("Missing catalog") {
        "no_catalog".into()
    } else if m.contains("failed to resolve schema") {
        "no_schema".into()
    } else if m.contains("doesn't exist") {
        "not_found".into()
    } else {
        format!("other: {}", m.chars().take(200).collect::<String>())
    }
}

type Rows = Vec<Vec<Option<String>>>;
async fn query(ctx: &SessionContext, sql: &str) -> Result<(Vec<String>, Rows), String> {
    let df = ctx.sql(sql).await.map_err(|e| e.to_string())?;
    let names: Vec<String> = df.schema().fields().iter().map(|f| f.name().clone()).collect();
    let batches = df.collect().await.map_err(|e| e.to_string())?;
    let mut rows: Rows = Vec::new();
    for b in &batches {
        for r in 0..b.num_rows() {
            let mut row = Vec::new();
            for c in 0..b.num_columns() {
                let a = b.column(c);
                if a.is_null(r) { row.push(None) } else { row.push(Some(array_value_to_string(a, r).map_err(|e| e.to_string())?)) }
            }
            rows.push(row);
        }
    }
    rows.sort();
    Ok((names, rows))
}

fn js_opt(s: &Option<String>) -> String {
    match s {
        Some(x) => json_str(x),
        None => "null".into(),
    }
}
fn js_rows(rows: &Rows) -> String {
    format!("[{}]", rows.iter().map(|r| format!("[{}]", r.iter().map(js_opt).collect::<Vec<_>>().join(","))).collect::<Vec<_>>().join(","))
}
fn strs(rows: &Rows) -> Vec<Vec<String>> {
    rows.iter().map(|r| r.iter().map(|x| x.clone().unwrap_or_else(|| "<null>".into())).collect()).collect()
}

struct Fail {
    key: Option<&'static str>,
    why: String,
}

async fn run_history(ctx: &SessionContext, hist: &[Ddl], probes_extra: &[Vec<Ref>]) -> (String, Vec<Fail>, usize) {
    let mut oracle = Oracle::new();
    let mut fails: Vec<Fail> = Vec::new();
    let mut steps: Vec<String> = Vec::new();
    let mut nontrivial = 0usize;
    for (i, d) in hist.iter().enumerate() {
        let sql = d.sql();
        let out = match ctx.sql(&sql).await {
            Ok(df) => match df.collect().await {
                Ok(_) => "ok".to_string(),
                Err(e) => classify(&e.to_string()),
            },
            Err(e) => classify(&e.to_string()),
        };
        let expect = oracle.apply(d);
        if out != expect {
            fails.push(Fail { key: None, why: format!("step {i} `{sql}`: outcome {out}, the catalog state dictates {expect}") });
        }
        if expect != "ok" || matches!(d, Ddl::CreateTable { orr: true, .. } | Ddl::CreateTableAs { orr: true, .. } | Ddl::CreateView { orr: true, .. } | Ddl::DropSchema { cascade: true, .. }) {
            nontrivial += 1;
        }
        // information_schema
        let tables = query(ctx, "SELECT table_catalog, table_schema, table_name, table_type FROM information_schema.tables").await;
        let schemata = query(ctx, "SELECT catalog_name, schema_name FROM information_schema.schemata").await;
        let views = query(ctx, "SELECT table_catalog, table_schema, table_name, definition FROM information_schema.views").await;
        let columns = query(ctx, "SELECT table_catalog, table_schema, table_name, column_name, ordinal_position, is_nullable, data_type FROM information_schema.columns").await;
        let (tables, schemata, views, columns) = match (tables, schemata, views, columns) {
            (Ok(a), Ok(b), Ok(c), Ok(e)) => (a.1, b.1, c.1, e.1),
            (a, b, c, e) => {
                fails.push(Fail { key: None, why: format!("step {i} `{sql}`: information_schema query failed: {:?} {:?} {:?} {:?}", a.err(), b.err(), c.err(), e.err()) });
                steps.push(format!("{{\"ddl\":{},\"sql\":{},\"out\":{},\"broken\":true}}", d_json(d), json_str(&sql), json_str(&out)));
                break;
            }
        };
        if strs(&tables) != oracle.tables() {
            fails.push(Fail { key: None, why: format!("step {i} `{sql}`: information_schema.tables lists {:?}, expected {:?}", strs(&tables), oracle.tables()) });
        }
        if strs(&schemata) != oracle.schemata() {
            fails.push(Fail { key: None, why: format!("step {i} `{sql}`: information_schema.schemata lists {:?}, expected {:?}", strs(&schemata), oracle.schemata()) });
        }
        if strs(&columns) != oracle.columns() {
            fails.push(Fail { key: None, why: format!("step {i} `{sql}`: information_schema.columns lists {:?}, expected {:?}", strs(&columns), oracle.columns()) });
        }
        // views: exactly the views with their definitions
        let got_views: Vec<(Vec<String>, Option<String>)> = views.iter().map(|r| (r[..3].iter().map(|x| x.clone().unwrap_or_default()).collect(), r[3].clone())).collect();
        let want_views = oracle.views();
        if got_views != want_views {
            // is the only difference that base tables are listed too (with a NULL definition)?
            let without_tables: Vec<_> = got_views
                .iter()
                .filter(|(k, def)| !(def.is_none() && oracle.objs.get(&(k[0].clone(), k[1].clone(), k[2].clone())).map(|o| !o.view).unwrap_or(false)))
                .cloned()
                .collect();
            if without_tables == want_views {
                if !fails.iter().any(|f| f.key == Some("info-views-lists-base-tables")) {
                    fails.push(Fail { key: Some("info-views-lists-base-tables"), why: format!("step {i} `{sql}`: information_schema.views lists base tables: {:?}, expected only the views {:?}", got_views, want_views) });
                }
            } else {
                fails.push(Fail { key: None, why: format!("step {i} `{sql}`: information_schema.views lists {:?}, expected {:?}", got_views, want_views) });
            }
        }
        // probes: the statement's own target plus extra names
        let mut probes: Vec<Ref> = Vec::new();
        match d {
            Ddl::CreateTable { name, .. } | Ddl::CreateTableAs { name, .. } | Ddl::CreateView { name, .. } | Ddl::DropTable { name, .. } | Ddl::DropView { name, .. } => probes.push(name.clone()),
            _ => {}
        }
        probes.extend(probes_extra[i].iter().cloned());
        let mut pj: Vec<String> = Vec::new();
        for p in &probes {
            let res = query(ctx, &format!("SELECT * FROM {}", p.sql())).await;
            let want = oracle.objs.get(&p.resolve3());
            match (&res, want) {
                (Ok((names, rows)), Some(o)) => {
                    let wn: Vec<String> = o.cols.iter().map(|c| c.0.clone()).collect();
                    let wr: Vec<Vec<String>> = o.rows.iter().map(|r| r.iter().map(|x| x.to_string()).collect()).collect();
                    if *names != wn || strs(rows) != wr {
                        fails.push(Fail { key: None, why: format!("step {i} `{sql}`: SELECT * FROM {} returned {:?} {:?}, expected {:?} {:?}", p.sql(), names, rows, wn, wr) });
                    }
                }
                (Err(e), None) => {
                    if !(e.contains("not found") || e.contains("failed to resolve") || e.contains("No table named")) {
                        fails.push(Fail { key: None, why: format!("step {i} `{sql}`: SELECT * FROM {} failed with an unexpected error: {}", p.sql(), e) });
                    }
                }
                (Ok(_), None) => fails.push(Fail { key: None, why: format!("step {i} `{sql}`: SELECT * FROM {} resolves although no such object should exist", p.sql()) }),
                (Err(e), Some(_)) => fails.push(Fail { key: None, why: format!("step {i} `{sql}`: SELECT * FROM {} fails ({}) although the object exists", p.sql(), e) }),
            }
            let rj = match &res {
                Ok((names, rows)) => format!("{{\"cols\":[{}],\"rows\":{}}}", names.iter().map(|n| json_str(n)).collect::<Vec<_>>().join(","), js_rows(rows)),
                Err(_) => "null".to_string(),
            };
            pj.push(format!("{{\"ref\":{},\"res\":{}}}", p.json(), rj));
        }
        steps.push(format!(
            "{{\"ddl\":{},\"sql\":{},\"out\":{},\"tables\":{},\"schemata\":{},\"views\":{},\"columns\":{},\"probes\":[{}]}}",
            d_json(d),
            json_str(&sql),
            json_str(&out),
            js_rows(&tables),
            js_rows(&schemata),
            js_rows(&views),
            js_rows(&columns),
            pj.join(",")
        ));
    }
    (format!("[{}]", steps.join(",")), fails, nontrivial)
}
fn d_json(d: &Ddl) -> String {
    d.json()
}

fn r(parts: &[&str]) -> Ref {
    Ref(parts.iter().map(|p| Ident::new(p)).collect())
}

/// fixed witnesses (run first on every run)
fn corpus() -> Vec<Vec<Ddl>> {
    let a = Ident::new("a");
    vec![
        // witness of the proposed finding: information_schema.views lists a base table
        vec![Ddl::CreateTable { name: r(&["t"]), cols: vec![(a.clone(), "INT")], ine: false, orr: false }, Ddl::CreateView { name: r(&["v"]), c: a.clone(), k: 1, orr: false }],
        // table <-> view interplay under one name, IF [NOT] EXISTS / OR REPLACE
        vec![
            Ddl::CreateView { name: r(&["t"]), c: a.clone(), k: 1, orr: false },
            Ddl::CreateTable { name: r(&["T"]), cols: vec![(a.clone(), "INT")], ine: false, orr: false },
            Ddl::CreateTable { name: r(&["t"]), cols: vec![(a.clone(), "INT")], ine: true, orr: false },
            Ddl::DropTable { name: r(&["t"]), ife: false },
            Ddl::DropTable { name: r(&["t"]), ife: true },
            Ddl::CreateTableAs { name: r(&["t"]), c: Ident::new("\"A\""), k: 7, ine: false, orr: true },
            Ddl::DropView { name: r(&["t"]), ife: false },
            Ddl::CreateView { name: r(&["public", "t"]), c: a.clone(), k: 2, orr: true },
            Ddl::CreateView { name: r(&["\"T\""]), c: a.clone(), k: 3, orr: false },
            Ddl::CreateTableAs { name: r(&["t"]), c: a.clone(), k: 9, ine: true, orr: true },
            Ddl::DropView { name: r(&["datafusion", "public", "t"]), ife: false },
            Ddl::CreateTableAs { name: r(&["t"]), c: a.clone(), k: 9, ine: true, orr: true },
        ],
        // schemas and catalogs
        vec![
            Ddl::CreateTable { name: r(&["s1", "t"]), cols: vec![(a.clone(), "INT")], ine: false, orr: false },
            Ddl::CreateSchema { name: r(&["S1"]), ine: false },
            Ddl::CreateSchema { name: r(&["s1"]), ine: false },
            Ddl::CreateSchema { name: r(&["s1"]), ine: true },
            Ddl::CreateSchema { name: r(&["\"S1\""]), ine: false },
            Ddl::CreateTable { name: r(&["s1", "t"]), cols: vec![(a.clone(), "INT"), (Ident::new("B"), "VARCHAR")], ine: false, orr: false },
            Ddl::DropSchema { name: r(&["s1"]), ife: true, cascade: false },
            Ddl::DropSchema { name: r(&["\"S1\""]), ife: false, cascade: false },
            Ddl::DropSchema { name: r(&["s1"]), ife: false, cascade: true },
            Ddl::DropSchema { name: r(&["s1"]), ife: false, cascade: true },
            Ddl::CreateSchema { name: r(&["c2", "s1"]), ine: true },
            Ddl::CreateCatalog { name: Ident::new("C2"), ine: false },
            Ddl::CreateCatalog { name: Ident::new("c2"), ine: false },
            Ddl::CreateCatalog { name: Ident::new("c2"), ine: true },
            Ddl::CreateTableAs { name: r(&["c2", "public", "t"]), c: a.clone(), k: 4, ine: false, orr: false },
            Ddl::CreateSchema { name: r(&["c2", "public"]), ine: false },
            Ddl::CreateTableAs { name: r(&["c2", "public", "t"]), c: a.clone(), k: 4, ine: false, orr: false },
            Ddl::DropSchema { name: r(&["public"]), ife: false, cascade: false },
            Ddl::CreateView { name: r(&["v"]), c: a.clone(), k: 5, orr: true },
            Ddl::DropSchema { name: r(&["\"C2\"", "public"]), ife: true, cascade: false },
            Ddl::DropSchema { name: r(&["\"C2\"", "public"]), ife: false, cascade: false },
        ],
    ]
}

fn main() {
    std::panic::set_hook(Box::new(|_| {}));
    let args: Vec<String> = std::env::args().collect();
    let seed: u64 = arg(&args, "--seed", "1").parse().unwrap();
    let n: usize = arg(&args, "--n", "100").parse().unwrap();
    let mut rng = Rng::new(seed);
    let rt = tokio::runtime::Builder::new_multi_thread().worker_threads(2).enable_all().build().unwrap();
    let fixed = corpus();
    for h in 0..(n + fixed.len()) {
        let hist: Vec<Ddl> = if h < fixed.len() {
            fixed[h].clone()
        } else {
            // a few set-up statements first (so that qualified names often resolve), then 5..15 random statements
            let setup = [
                Ddl::CreateSchema { name: r(&["s1"]), ine: false },
                Ddl::CreateCatalog { name: Ident::new("c2"), ine: false },
                Ddl::CreateSchema { name: r(&["c2", "public"]), ine: true },
                Ddl::CreateSchema { name: r(&["\"S1\""]), ine: false },
                Ddl::CreateCatalog { name: Ident::new("\"C2\""), ine: true },
                Ddl::CreateSchema { name: r(&["c2", "S1"]), ine: false },
                Ddl::CreateSchema { name: r(&["\"C2\"", "s1"]), ine: false },
            ];
            let mut v: Vec<Ddl> = Vec::new();
            for d in setup.iter() {
                if rng.chance(2, 5) {
                    v.push(d.clone());
                }
            }
            let len = 5 + rng.below(11) as usize;
            v.extend((0..len).map(|_| gen_ddl(&mut rng)));
            v
        };
        let extra: Vec<Vec<Ref>> = hist.iter().map(|_| (0..(1 + rng.below(2))).map(|_| gen_tref(&mut rng)).collect()).collect();
        let res = std::panic::catch_unwind(std::panic::AssertUnwindSafe(|| {
            rt.block_on(async {
                let ctx = SessionContext::new_with_config(SessionConfig::new().with_information_schema(true));
                run_history(&ctx, &hist, &extra).await
            })
        }));
        match res {
            Ok((steps, fails, nontrivial)) => {
                let fj: Vec<String> = fails.iter().map(|f| format!("{{\"key\":{},\"why\":{}}}", f.key.map(json_str).unwrap_or("null".into()), json_str(&f.why))).collect();
                println!("{{\"k\":\"hist\",\"fixed\":{},\"steps\":{},\"fails\":[{}],\"nontrivial\":{},\"ok\":{}}}", h < fixed.len(), steps, fj.join(","), nontrivial, fails.is_empty());
            }
            Err(_) => {
                let sqls: Vec<String> = hist.iter().map(|d| json_str(&d.sql())).collect();
                println!("{{\"k\":\"panic\",\"sqls\":[{}],\"ok\":false}}", sqls.join(","));
            }
        }
    }
}
