//! Shared execution helpers for the bins that run RefSQL-generated cases on the real engine (C41, C48):
//! MemTable registration of `refsql_gen::Tab`s, result rendering (rows as JSON, schema as (name, type class)),
//! and `attempt`: one asynchronous job in a fresh runtime with a time limit (the engine can dead-lock, C01-KF6).
//! Include after refsql_gen:  `#[path = "../refsql_run.rs"] mod refsql_run;`
#![allow(dead_code)]
use std::future::Future;
use std::sync::Arc;

use arrow::array::{Array, ArrayRef, BooleanArray, Float64Array, Int64Array, StringArray};
use arrow::compute::cast;
use arrow::datatypes::{DataType, Field, Schema};
use arrow::record_batch::RecordBatch;
use datafusion::datasource::MemTable;
use datafusion::prelude::*;
use h_util::json_str;

use crate::refsql_gen::{ty_name, v_json, Tab, Ty, V};

pub fn column(t: Ty, vals: &[&V]) -> ArrayRef {
    match t {
        Ty::Int | Ty::Rat => Arc::new(Int64Array::from(vals.iter().map(|v| match v { V::I(z) => Some(*z), _ => None }).collect::<Vec<_>>())),
        Ty::Bool => Arc::new(BooleanArray::from(vals.iter().map(|v| match v { V::B(b) => Some(*b), _ => None }).collect::<Vec<_>>())),
        Ty::Str => Arc::new(StringArray::from(vals.iter().map(|v| match v { V::S(s) => Some(s.clone()), _ => None }).collect::<Vec<_>>())),
    }
}
pub fn arrow_ty(t: Ty) -> DataType { match t { Ty::Int | Ty::Rat => DataType::Int64, Ty::Bool => DataType::Boolean, Ty::Str => DataType::Utf8 } }

pub fn register(ctx: &SessionContext, n: usize, t: &Tab) {
    let schema = Arc::new(Schema::new(t.types.iter().enumerate().map(|(i, ty)| Field::new(format!("c{i}"), arrow_ty(*ty), true)).collect::<Vec<_>>()));
    let mut parts: Vec<Vec<RecordBatch>> = vec![];
    for p in 0..t.parts {
        let rows: Vec<&Vec<V>> = t.rows.iter().enumerate().filter(|(i, _)| i % t.parts == p).map(|(_, r)| r).collect();
        let cols: Vec<ArrayRef> = (0..t.types.len()).map(|c| column(t.types[c], &rows.iter().map(|r| &r[c]).collect::<Vec<_>>())).collect();
        parts.push(vec![RecordBatch::try_new(schema.clone(), cols).unwrap()]);
    }
    ctx.register_table(format!("t{n}").as_str(), Arc::new(MemTable::try_new(schema, parts).unwrap())).unwrap();
}
pub fn new_ctx(tabs: &[Tab], tp: usize, bs: usize) -> SessionContext {
    let ctx = SessionContext::new_with_config(SessionConfig::new().with_target_partitions(tp).with_batch_size(bs));
    for (i, t) in tabs.iter().enumerate() { register(&ctx, i, t); }
    ctx
}

pub fn cell(a: &ArrayRef, r: usize) -> Result<String, String> {
    if a.is_null(r) { return Ok("null".into()); }
    match a.data_type() {
        DataType::Null => Ok("null".into()),
        DataType::Boolean => Ok(a.as_any().downcast_ref::<BooleanArray>().unwrap().value(r).to_string()),
        DataType::Float64 | DataType::Float32 | DataType::Float16 => {
            let c = cast(a, &DataType::Float64).map_err(|e| e.to_string())?;
            let x = c.as_any().downcast_ref::<Float64Array>().unwrap().value(r);
            if x.is_finite() { Ok(format!("{{\"f\":{:?}}}", x)) } else { Ok(format!("{{\"f\":null,\"text\":\"{:?}\"}}", x)) }
        }
        DataType::Int8 | DataType::Int16 | DataType::Int32 | DataType::Int64 | DataType::UInt8 | DataType::UInt16 | DataType::UInt32 | DataType::UInt64 => {
            let c = cast(a, &DataType::Int64).map_err(|e| e.to_string())?;
            Ok(c.as_any().downcast_ref::<Int64Array>().unwrap().value(r).to_string())
        }
        DataType::Utf8 | DataType::LargeUtf8 | DataType::Utf8View => {
            let c = cast(a, &DataType::Utf8).map_err(|e| e.to_string())?;
            Ok(json_str(c.as_any().downcast_ref::<StringArray>().unwrap().value(r)))
        }
        other => Err(format!("unexpected result column type {other:?}")),
    }
}

/// type class of a result column: int / float / str / bool / null / other
pub fn ty_class(t: &DataType) -> String {
    match t {
        DataType::Null => "null".into(),
        DataType::Boolean => "bool".into(),
        DataType::Float64 | DataType::Float32 | DataType::Float16 => "float".into(),
        DataType::Int8 | DataType::Int16 | DataType::Int32 | DataType::Int64 | DataType::UInt8 | DataType::UInt16 | DataType::UInt32 | DataType::UInt64 => "int".into(),
        DataType::Utf8 | DataType::LargeUtf8 | DataType::Utf8View => "str".into(),
        other => format!("{other:?}"),
    }
}

/// rows of the batches as a JSON list of lists (row strings are also returned for bag comparison)
pub fn rows_of(out: &[RecordBatch]) -> Result<Vec<String>, String> {
    let mut rows = vec![];
    for bt in out {
        for r in 0..bt.num_rows() {
            let mut cs = vec![];
            for c in 0..bt.num_columns() { cs.push(cell(bt.column(c), r)?); }
            rows.push(format!("[{}]", cs.join(",")));
        }
    }
    Ok(rows)
}
pub fn rows_json(rows: &[String]) -> String { format!("[{}]", rows.join(",")) }
pub fn bag(rows: &[String]) -> Vec<String> { let mut v = rows.to_vec(); v.sort(); v }

pub fn tables_json(tabs: &[Tab]) -> String {
    format!("[{}]", tabs.iter().map(|t| format!("{{\"types\":[{}],\"parts\":{},\"rows\":[{}]}}",
        t.types.iter().map(|x| format!("\"{}\"", ty_name(*x))).collect::<Vec<_>>().join(","), t.parts,
        t.rows.iter().map(|r| format!("[{}]", r.iter().map(v_json).collect::<Vec<_>>().join(","))).collect::<Vec<_>>().join(","))).collect::<Vec<_>>().join(","))
}

pub enum Attempt<T> { Done(T), Panic(String), Hang }

/// run one asynchronous job in a fresh 2-thread runtime; give up after `secs` seconds
pub fn attempt<T, F, Fut>(secs: u64, f: F) -> Attempt<T>
where T: Send + 'static, F: FnOnce() -> Fut + Send + 'static, Fut: Future<Output = T> + Send + 'static {
    let rt = tokio::runtime::Builder::new_multi_thread().worker_threads(2).enable_all().build().unwrap();
    let (tx, rx) = std::sync::mpsc::channel();
    let h = rt.spawn(async move { let r = f().await; let _ = tx.send(r); });
    match rx.recv_timeout(std::time::Duration::from_secs(secs)) {
        Ok(r) => Attempt::Done(r),
        Err(std::sync::mpsc::RecvTimeoutError::Timeout) => { rt.shutdown_background(); Attempt::Hang }
        Err(std::sync::mpsc::RecvTimeoutError::Disconnected) => {
            let msg = match rt.block_on(h) {
                Err(e) if e.is_panic() => { let p = e.into_panic(); p.downcast_ref::<String>().cloned().or_else(|| p.downcast_ref::<&str>().map(|s| s.to_string())).unwrap_or_default() }
                _ => "task ended without a result".to_string(),
            };
            Attempt::Panic(msg)
        }
    }
}

/// outcome of one execution variant
#[derive(Clone, Debug)]
pub enum Out { Rows(Vec<String>, Vec<(String, String)>), Err(String, String), Panic(String), Hang }

impl Out {
    pub fn json(&self) -> String {
        match self {
            Out::Rows(rows, schema) => format!("{{\"rows\":{},\"schema\":[{}]}}", rows_json(rows),
                schema.iter().map(|(n, t)| format!("[{},{}]", json_str(n), json_str(t))).collect::<Vec<_>>().join(",")),
            Out::Err(stage, e) => format!("{{\"err\":{},\"stage\":{}}}", json_str(e), json_str(stage)),
            Out::Panic(m) => format!("{{\"err\":{},\"stage\":\"panic\"}}", json_str(&format!("panic: {m}"))),
            Out::Hang => "{\"err\":\"timeout: the query did not finish in any attempt\",\"stage\":\"hang\"}".to_string(),
        }
    }
}

/// retry a hanging job up to 3 times
pub fn run_job<F, Fut>(secs: u64, mk: impl Fn() -> F) -> (Out, usize)
where F: FnOnce() -> Fut + Send + 'static, Fut: Future<Output = Result<(Vec<String>, Vec<(String, String)>), (String, String)>> + Send + 'static {
    let mut hung = 0;
    for _ in 0..3 {
        match attempt(secs, mk()) {
            Attempt::Done(Ok((rows, schema))) => return (Out::Rows(rows, schema), hung),
            Attempt::Done(Err((stage, e))) => return (Out::Err(stage, e), hung),
            Attempt::Panic(m) => return (Out::Panic(m), hung),
            Attempt::Hang => hung += 1,
        }
    }
    (Out::Hang, hung)
}

pub async fn collect_df(df: DataFrame) -> Result<(Vec<String>, Vec<(String, String)>), (String, String)> {
    let schema: Vec<(String, String)> = df.schema().fields().iter().map(|f| (f.name().clone(), ty_class(f.data_type()))).collect();
    let out = df.collect().await.map_err(|e| ("exec".to_string(), e.to_string()))?;
    let rows = rows_of(&out).map_err(|e| ("render".to_string(), e))?;
    Ok((rows, schema))
}
