//! RefSQL generator (engine E1): a typed query AST over small nullable tables, a grammar-driven generator
//! with one stream per construct family, and TWO renderers of the same AST:
//!   * `Ren::select`  -> SQL text (fully parenthesised, every column qualified by a table alias,
//!                       explicit NULLS FIRST/LAST) for the real engine,
//!   * `q_json`       -> the JSON form that lib/props/C01.py turns into a Coq `query` term (Model/RefSQL.v).
//! Include from a bin with `#[path = "../refsql_gen.rs"] mod refsql_gen;`.
#![allow(dead_code)]
use h_util::{json_str, Rng};

#[derive(Clone, Copy, PartialEq, Eq, Debug)]
pub enum Ty { Int, Bool, Str, Rat }

#[derive(Clone, Debug, PartialEq)]
pub enum V { Null, I(i64), B(bool), S(String) }

#[derive(Clone, Debug)]
pub enum E {
    Col(usize, usize),
    Lit(V, Ty),
    Arith(&'static str, Box<E>, Box<E>),
    Cmp(&'static str, Box<E>, Box<E>),
    And(Box<E>, Box<E>),
    Or(Box<E>, Box<E>),
    Not(Box<E>),
    IsNull(bool, Box<E>),
    Distinct(bool, Box<E>, Box<E>),
    Between(bool, Box<E>, Box<E>, Box<E>),
    InList(bool, Box<E>, Vec<E>),
    Case(Vec<(E, E)>, Option<Box<E>>),
    Coalesce(Vec<E>),
    Nullif(Box<E>, Box<E>),
    Scalar(Box<Q>),
    Exists(bool, Box<Q>),
    InSub(bool, Box<E>, Box<Q>),
}

#[derive(Clone, Copy, PartialEq, Eq, Debug)]
pub enum JK { Inner, Left, Right, Full, Cross }
#[derive(Clone, Copy, PartialEq, Eq, Debug)]
pub enum SetOp { Union, Intersect, Except }
#[derive(Clone, Copy, PartialEq, Eq, Debug)]
pub enum Agg { CountStar, Count, CountDistinct, Sum, Min, Max, Avg }

#[derive(Clone, Debug)]
pub enum Q {
    Table(usize),
    Values(Vec<Ty>, Vec<Vec<V>>),
    Filter(E, Box<Q>),
    Project(Vec<E>, Box<Q>),
    Join(JK, E, Box<Q>, Box<Q>),
    Semi(bool, E, Box<Q>, Box<Q>),
    Group(Vec<E>, Vec<(Agg, E)>, Option<E>, Box<Q>),
    Distinct(Box<Q>),
    SetOp(SetOp, bool, Box<Q>, Box<Q>),
    Sort(Vec<(E, bool, bool)>, Box<Q>), // (key, desc, nulls_first)
    Limit(u64, Option<u64>, Box<Q>),
}

#[derive(Clone, Debug)]
pub struct Tab { pub types: Vec<Ty>, pub rows: Vec<Vec<V>>, pub parts: usize }

pub fn ty_name(t: Ty) -> &'static str { match t { Ty::Int => "int", Ty::Bool => "bool", Ty::Str => "str", Ty::Rat => "rat" } }
pub fn ty_sql(t: Ty) -> &'static str { match t { Ty::Int => "BIGINT", Ty::Bool => "BOOLEAN", Ty::Str => "VARCHAR", Ty::Rat => "DOUBLE" } }

// ---------------------------------------------------------------- widths
pub fn width(q: &Q, tabs: &[usize]) -> usize {
    match q {
        Q::Table(n) => tabs[*n],
        Q::Values(ts, _) => ts.len(),
        Q::Filter(_, q) | Q::Distinct(q) | Q::Sort(_, q) | Q::Limit(_, _, q) => width(q, tabs),
        Q::Project(es, _) => es.len(),
        Q::Join(_, _, l, r) => width(l, tabs) + width(r, tabs),
        Q::Semi(_, _, l, _) => width(l, tabs),
        Q::Group(k, a, _, _) => k.len() + a.len(),
        Q::SetOp(_, _, l, _) => width(l, tabs),
    }
}

// ---------------------------------------------------------------- JSON renderer (-> Coq term, via C01.py)
pub fn v_json(v: &V) -> String {
    match v { V::Null => "null".into(), V::I(z) => z.to_string(), V::B(b) => b.to_string(), V::S(s) => json_str(s) }
}
fn es_json(es: &[E]) -> String { format!("[{}]", es.iter().map(e_json).collect::<Vec<_>>().join(",")) }
pub fn e_json(e: &E) -> String {
    match e {
        E::Col(d, i) => format!("[\"col\",{d},{i}]"),
        E::Lit(v, _) => format!("[\"lit\",{}]", v_json(v)),
        E::Arith(op, a, b) => format!("[\"arith\",\"{op}\",{},{}]", e_json(a), e_json(b)),
        E::Cmp(op, a, b) => format!("[\"cmp\",\"{op}\",{},{}]", e_json(a), e_json(b)),
        E::And(a, b) => format!("[\"and\",{},{}]", e_json(a), e_json(b)),
        E::Or(a, b) => format!("[\"or\",{},{}]", e_json(a), e_json(b)),
        E::Not(a) => format!("[\"not\",{}]", e_json(a)),
        E::IsNull(n, a) => format!("[\"isnull\",{n},{}]", e_json(a)),
        E::Distinct(n, a, b) => format!("[\"distinct\",{n},{},{}]", e_json(a), e_json(b)),
        E::Between(n, a, lo, hi) => format!("[\"between\",{n},{},{},{}]", e_json(a), e_json(lo), e_json(hi)),
        E::InList(n, a, l) => format!("[\"inlist\",{n},{},{}]", e_json(a), es_json(l)),
        E::Case(ws, els) => format!("[\"case\",[{}],{}]",
            ws.iter().map(|(w, t)| format!("[{},{}]", e_json(w), e_json(t))).collect::<Vec<_>>().join(","),
            match els { Some(e) => e_json(e), None => "null".into() }),
        E::Coalesce(l) => format!("[\"coalesce\",{}]", es_json(l)),
        E::Nullif(a, b) => format!("[\"nullif\",{},{}]", e_json(a), e_json(b)),
        E::Scalar(q) => format!("[\"scalar\",{}]", q_json_raw(q)),
        E::Exists(n, q) => format!("[\"exists\",{n},{}]", q_json_raw(q)),
        E::InSub(n, a, q) => format!("[\"insub\",{n},{},{}]", e_json(a), q_json_raw(q)),
    }
}
fn agg_name(a: Agg) -> &'static str {
    match a { Agg::CountStar => "count_star", Agg::Count => "count", Agg::CountDistinct => "count_distinct", Agg::Sum => "sum", Agg::Min => "min", Agg::Max => "max", Agg::Avg => "avg" }
}
thread_local! { static WIDTHS: std::cell::RefCell<Vec<usize>> = std::cell::RefCell::new(vec![]); }
/// JSON of a query; `tabs` = arity of each base table (joins carry the arities of their inputs)
pub fn q_json(q: &Q, tabs: &[usize]) -> String {
    WIDTHS.with(|w| *w.borrow_mut() = tabs.to_vec());
    q_json_raw(q)
}
fn q_json_raw(q: &Q) -> String {
    let tabs: Vec<usize> = WIDTHS.with(|w| w.borrow().clone());
    match q {
        Q::Table(n) => format!("[\"table\",{n}]"),
        Q::Values(_, rows) => format!("[\"values\",[{}]]", rows.iter().map(|r| format!("[{}]", r.iter().map(v_json).collect::<Vec<_>>().join(","))).collect::<Vec<_>>().join(",")),
        Q::Filter(p, q) => format!("[\"filter\",{},{}]", e_json(p), q_json_raw(q)),
        Q::Project(es, q) => format!("[\"project\",{},{}]", es_json(es), q_json_raw(q)),
        Q::Join(k, on, l, r) => format!("[\"join\",\"{}\",{},{},{},{},{}]",
            match k { JK::Inner => "inner", JK::Left => "left", JK::Right => "right", JK::Full => "full", JK::Cross => "cross" },
            width(l, &tabs), width(r, &tabs), e_json(on), q_json_raw(l), q_json_raw(r)),
        Q::Semi(anti, on, l, r) => format!("[\"semi\",{anti},{},{},{}]", e_json(on), q_json_raw(l), q_json_raw(r)),
        Q::Group(ks, aggs, h, q) => format!("[\"group\",{},[{}],{},{}]", es_json(ks),
            aggs.iter().map(|(a, e)| format!("[\"{}\",{}]", agg_name(*a), e_json(e))).collect::<Vec<_>>().join(","),
            match h { Some(h) => e_json(h), None => "null".into() }, q_json_raw(q)),
        Q::Distinct(q) => format!("[\"distinctq\",{}]", q_json_raw(q)),
        Q::SetOp(op, all, l, r) => format!("[\"setop\",\"{}\",{all},{},{}]",
            match op { SetOp::Union => "union", SetOp::Intersect => "intersect", SetOp::Except => "except" }, q_json_raw(l), q_json_raw(r)),
        Q::Sort(ks, q) => format!("[\"sort\",[{}],{}]",
            ks.iter().map(|(e, d, nf)| format!("[{},{d},{nf}]", e_json(e))).collect::<Vec<_>>().join(","), q_json_raw(q)),
        Q::Limit(off, lim, q) => format!("[\"limit\",{off},{},{}]", match lim { Some(n) => n.to_string(), None => "null".into() }, q_json_raw(q)),
    }
}

// ---------------------------------------------------------------- SQL renderer
pub fn v_sql(v: &V, t: Ty) -> String {
    match v {
        V::Null => format!("CAST(NULL AS {})", ty_sql(t)),
        V::I(z) => if *z < 0 { format!("({z})") } else { z.to_string() },
        V::B(b) => if *b { "TRUE".into() } else { "FALSE".into() },
        V::S(s) => format!("'{}'", s.replace('\'', "''")),
    }
}
pub struct Block { pub from: String, pub cols: Vec<String>, pub wher: Option<String> }
pub struct Ren { pub next: usize, pub tabs: Vec<usize> }
type Scopes = Vec<Vec<String>>;
fn push(row: &[String], outer: &Scopes) -> Scopes { let mut s = vec![row.to_vec()]; s.extend(outer.iter().cloned()); s }

impl Ren {
    pub fn new(tabs: &[usize]) -> Ren { Ren { next: 0, tabs: tabs.to_vec() } }
    fn alias(&mut self) -> String { self.next += 1; format!("a{}", self.next) }
    fn derived(&mut self, q: &Q, outer: &Scopes) -> Block {
        let a = self.alias();
        let w = width(q, &self.tabs);
        // output columns of a derived table get names unique to it (x<alias>_<i>): a select-list alias that
        // equals a column name of a table in scope makes the engine's decorrelation fail ("ambiguous")
        let pfx = format!("x{a}_");
        let s = self.select_p(q, outer, &pfx);
        Block { from: format!("({s}) AS {a}"), cols: (0..w).map(|i| format!("{a}.{pfx}{i}")).collect(), wher: None }
    }
    fn source(&mut self, q: &Q, outer: &Scopes) -> Block {
        match q { Q::Table(_) | Q::Values(..) => self.block(q, outer), _ => self.derived(q, outer) }
    }
    pub fn block(&mut self, q: &Q, outer: &Scopes) -> Block {
        match q {
            Q::Table(n) => {
                let a = self.alias();
                Block { from: format!("t{n} AS {a}"), cols: (0..self.tabs[*n]).map(|i| format!("{a}.c{i}")).collect(), wher: None }
            }
            Q::Values(ts, rows) => {
                let a = self.alias();
                let rs: Vec<String> = rows.iter().map(|r| format!("({})", r.iter().zip(ts).map(|(v, t)| v_sql(v, *t)).collect::<Vec<_>>().join(", "))).collect();
                let names: Vec<String> = (0..ts.len()).map(|i| format!("c{i}")).collect();
                Block { from: format!("(VALUES {}) AS {a}({})", rs.join(", "), names.join(", ")), cols: (0..ts.len()).map(|i| format!("{a}.c{i}")).collect(), wher: None }
            }
            Q::Join(k, on, l, r) => {
                let bl = match &**l { Q::Join(..) => self.block(l, outer), _ => self.source(l, outer) };
                let br = self.source(r, outer);
                let mut cols = bl.cols.clone();
                cols.extend(br.cols.iter().cloned());
                let kw = match k { JK::Inner => "INNER JOIN", JK::Left => "LEFT JOIN", JK::Right => "RIGHT JOIN", JK::Full => "FULL JOIN", JK::Cross => "CROSS JOIN" };
                let from = if *k == JK::Cross { format!("{} {kw} {}", bl.from, br.from) }
                           else { let o = self.expr(on, &push(&cols, outer)); format!("{} {kw} {} ON {o}", bl.from, br.from) };
                Block { from, cols, wher: None }
            }
            Q::Semi(anti, on, l, r) => {
                let bl = self.source(l, outer);
                let br = self.source(r, outer);
                let mut cols = bl.cols.clone();
                cols.extend(br.cols.iter().cloned());
                let o = self.expr(on, &push(&cols, outer));
                Block { from: format!("{} LEFT {} JOIN {} ON {o}", bl.from, if *anti { "ANTI" } else { "SEMI" }, br.from), cols: bl.cols, wher: None }
            }
            Q::Filter(p, q1) => {
                let mut b = match &**q1 { Q::Table(_) | Q::Values(..) | Q::Join(..) | Q::Semi(..) => self.block(q1, outer), _ => self.derived(q1, outer) };
                b.wher = Some(self.expr(p, &push(&b.cols, outer)));
                b
            }
            _ => self.derived(q, outer),
        }
    }
    fn tail(b: &Block) -> String {
        match &b.wher { Some(w) => format!("FROM {} WHERE {w}", b.from), None => format!("FROM {}", b.from) }
    }
    fn sel_list(items: &[String], pfx: &str) -> String {
        items.iter().enumerate().map(|(i, s)| format!("{s} AS {pfx}{i}")).collect::<Vec<_>>().join(", ")
    }
    pub fn select(&mut self, q: &Q, outer: &Scopes) -> String { self.select_p(q, outer, "r") }
    fn sub_select(&mut self, q: &Q, outer: &Scopes) -> String { let a = self.alias(); self.select_p(q, outer, &format!("s{a}_")) }
    fn agg_sql(&mut self, a: Agg, e: &E, sc: &Scopes) -> String {
        match a {
            Agg::CountStar => "count(*)".into(),
            Agg::Count => format!("count({})", self.expr(e, sc)),
            Agg::CountDistinct => format!("count(DISTINCT {})", self.expr(e, sc)),
            Agg::Sum => format!("sum({})", self.expr(e, sc)),
            Agg::Min => format!("min({})", self.expr(e, sc)),
            Agg::Max => format!("max({})", self.expr(e, sc)),
            Agg::Avg => format!("avg({})", self.expr(e, sc)),
        }
    }
    pub fn select_p(&mut self, q: &Q, outer: &Scopes, pfx: &str) -> String {
        match q {
            Q::Project(es, q1) => {
                let b = self.block(q1, outer);
                let sc = push(&b.cols, outer);
                let items: Vec<String> = es.iter().map(|e| self.expr(e, &sc)).collect();
                format!("SELECT {} {}", Self::sel_list(&items, pfx), Self::tail(&b))
            }
            Q::Group(ks, aggs, h, q1) => {
                let b = self.block(q1, outer);
                let sc = push(&b.cols, outer);
                let kt: Vec<String> = ks.iter().map(|e| self.expr(e, &sc)).collect();
                let at: Vec<String> = aggs.iter().map(|(a, e)| self.agg_sql(*a, e, &sc)).collect();
                let mut out = kt.clone();
                out.extend(at.iter().cloned());
                let mut s = format!("SELECT {} {}", Self::sel_list(&out, pfx), Self::tail(&b));
                if !kt.is_empty() { s.push_str(&format!(" GROUP BY {}", kt.join(", "))); }
                if let Some(h) = h { let hs = self.expr(h, &push(&out, outer)); s.push_str(&format!(" HAVING {hs}")); }
                s
            }
            Q::Distinct(q1) => match &**q1 {
                Q::Project(es, q2) => {
                    let b = self.block(q2, outer);
                    let sc = push(&b.cols, outer);
                    let items: Vec<String> = es.iter().map(|e| self.expr(e, &sc)).collect();
                    format!("SELECT DISTINCT {} {}", Self::sel_list(&items, pfx), Self::tail(&b))
                }
                _ => { let b = self.block(q1, outer); format!("SELECT DISTINCT {} {}", Self::sel_list(&b.cols, pfx), Self::tail(&b)) }
            },
            Q::SetOp(op, all, l, r) => {
                let ls = self.select_p(l, outer, pfx);
                let rs = self.select_p(r, outer, pfx);
                let kw = match op { SetOp::Union => "UNION", SetOp::Intersect => "INTERSECT", SetOp::Except => "EXCEPT" };
                format!("({ls}) {kw}{} ({rs})", if *all { " ALL" } else { "" })
            }
            Q::Sort(ks, q1) => {
                let b = self.block(q1, outer);
                let sc = push(&b.cols, outer);
                let kt: Vec<String> = ks.iter().map(|(e, d, nf)| format!("{} {} NULLS {}", self.expr(e, &sc), if *d { "DESC" } else { "ASC" }, if *nf { "FIRST" } else { "LAST" })).collect();
                format!("SELECT {} {} ORDER BY {}", Self::sel_list(&b.cols, pfx), Self::tail(&b), kt.join(", "))
            }
            Q::Limit(off, lim, q1) => {
                let s = match &**q1 {
                    Q::Sort(..) => self.select_p(q1, outer, pfx),
                    _ => { let b = self.block(q1, outer); format!("SELECT {} {}", Self::sel_list(&b.cols, pfx), Self::tail(&b)) }
                };
                match lim { Some(n) => format!("{s} LIMIT {n} OFFSET {off}"), None => format!("{s} OFFSET {off}") }
            }
            _ => { let b = self.block(q, outer); format!("SELECT {} {}", Self::sel_list(&b.cols, pfx), Self::tail(&b)) }
        }
    }
    pub fn expr(&mut self, e: &E, sc: &Scopes) -> String {
        match e {
            E::Col(d, i) => sc[*d][*i].clone(),
            E::Lit(v, t) => v_sql(v, *t),
            E::Arith(op, a, b) => format!("({} {op} {})", self.expr(a, sc), self.expr(b, sc)),
            E::Cmp(op, a, b) => format!("({} {op} {})", self.expr(a, sc), self.expr(b, sc)),
            E::And(a, b) => format!("({} AND {})", self.expr(a, sc), self.expr(b, sc)),
            E::Or(a, b) => format!("({} OR {})", self.expr(a, sc), self.expr(b, sc)),
            E::Not(a) => format!("(NOT {})", self.expr(a, sc)),
            E::IsNull(n, a) => format!("({} IS {}NULL)", self.expr(a, sc), if *n { "NOT " } else { "" }),
            E::Distinct(n, a, b) => format!("({} IS {}DISTINCT FROM {})", self.expr(a, sc), if *n { "NOT " } else { "" }, self.expr(b, sc)),
            E::Between(n, a, lo, hi) => format!("({} {}BETWEEN {} AND {})", self.expr(a, sc), if *n { "NOT " } else { "" }, self.expr(lo, sc), self.expr(hi, sc)),
            E::InList(n, a, l) => format!("({} {}IN ({}))", self.expr(a, sc), if *n { "NOT " } else { "" }, l.iter().map(|x| self.expr(x, sc)).collect::<Vec<_>>().join(", ")),
            E::Case(ws, els) => {
                let mut s = String::from("(CASE");
                for (w, t) in ws { s.push_str(&format!(" WHEN {} THEN {}", self.expr(w, sc), self.expr(t, sc))); }
                if let Some(e) = els { s.push_str(&format!(" ELSE {}", self.expr(e, sc))); }
                s.push_str(" END)");
                s
            }
            E::Coalesce(l) => format!("COALESCE({})", l.iter().map(|x| self.expr(x, sc)).collect::<Vec<_>>().join(", ")),
            E::Nullif(a, b) => format!("NULLIF({}, {})", self.expr(a, sc), self.expr(b, sc)),
            E::Scalar(q) => format!("({})", self.sub_select(q, sc)),
            E::Exists(n, q) => format!("({}EXISTS ({}))", if *n { "NOT " } else { "" }, self.sub_select(q, sc)),
            E::InSub(n, a, q) => format!("({} {}IN ({}))", self.expr(a, sc), if *n { "NOT " } else { "" }, self.sub_select(q, sc)),
        }
    }
}
pub fn to_sql(q: &Q, tabs: &[usize]) -> String { Ren::new(tabs).select(q, &vec![]) }

// ---------------------------------------------------------------- generator
pub const STREAMS: [&str; 19] = [
    "filter3vl", "join_inner", "join_left", "join_right", "join_full", "join_cross", "semi", "anti",
    "exists", "in_sub", "not_in_sub", "scalar_sub", "agg_having", "distinct", "union", "intersect", "except",
    "order_limit", "nested",
];

type Tys = Vec<Ty>;
fn b(e: E) -> Box<E> { Box::new(e) }
fn col(i: usize) -> E { E::Col(0, i) }

pub struct Gen<'a> { pub rng: &'a mut Rng, pub tabs: Vec<Tab> }

impl<'a> Gen<'a> {
    pub fn gen_tables(rng: &mut Rng) -> Vec<Tab> {
        let nt = 1 + rng.below(3) as usize;
        (0..nt).map(|_| {
            let nc = 2 + rng.below(2) as usize;
            let mut types = vec![Ty::Int];
            for _ in 1..nc { types.push(*rng.pick(&[Ty::Int, Ty::Int, Ty::Str, Ty::Bool])); }
            let nr = if rng.chance(1, 10) { 0 } else { 1 + rng.below(8) as usize };
            let rows = (0..nr).map(|_| types.iter().map(|t| Self::gen_val(rng, *t, 4)).collect()).collect();
            Tab { types, rows, parts: 1 + rng.below(3) as usize }
        }).collect()
    }
    /// a value of type t; NULL with probability 1/nullden
    pub fn gen_val(rng: &mut Rng, t: Ty, nullden: u64) -> V {
        if rng.chance(1, nullden) { return V::Null; }
        match t {
            Ty::Int | Ty::Rat => V::I(*rng.pick(&[0, 1, 1, 2, 2, 3, -1])),
            Ty::Bool => V::B(rng.chance(1, 2)),
            Ty::Str => V::S(rng.pick(&["a", "a", "b", "c", ""]).to_string()),
        }
    }
    fn widths(&self) -> Vec<usize> { self.tabs.iter().map(|t| t.types.len()).collect() }
    fn cols_of(ts: &[Ty], t: Ty) -> Vec<usize> { (0..ts.len()).filter(|i| ts[*i] == t).collect() }

    // ---------- expressions (sc = types of the scope stack, innermost first; only depth 0 is used here)
    fn lit(&mut self, t: Ty) -> E {
        let t2 = if t == Ty::Rat { Ty::Int } else { t };
        E::Lit(Self::gen_val(self.rng, t2, 8), t2)
    }
    fn leaf(&mut self, t: Ty, ts: &[Ty]) -> E {
        let cs = Self::cols_of(ts, t);
        if !cs.is_empty() && self.rng.chance(3, 4) { col(*self.rng.pick(&cs)) } else if t == Ty::Rat { E::Lit(V::I(self.rng.range(0, 2)), Ty::Int) } else { self.lit(t) }
    }
    pub fn expr(&mut self, t: Ty, ts: &[Ty], d: u32) -> E {
        if d == 0 { return self.leaf(t, ts); }
        match t {
            Ty::Rat => self.leaf(t, ts),
            Ty::Bool => self.pred(ts, d),
            Ty::Int => match self.rng.below(100) {
                0..=34 => self.leaf(t, ts),
                35..=59 => E::Arith(*self.rng.pick(&["+", "-", "*"]), b(self.expr(t, ts, d - 1)), b(self.expr(t, ts, d - 1))),
                60..=67 => {
                    let op = *self.rng.pick(&["/", "%"]);
                    let den = if self.rng.chance(1, 2) { E::Lit(V::I(*self.rng.pick(&[1, 2, 3, -1, -2])), Ty::Int) }
                              else { E::Nullif(b(self.expr(t, ts, d - 1)), b(E::Lit(V::I(0), Ty::Int))) };
                    E::Arith(op, b(self.expr(t, ts, d - 1)), b(den))
                }
                68..=77 => self.case(t, ts, d),
                78..=87 => E::Coalesce((0..2 + self.rng.below(2)).map(|_| self.expr(t, ts, d - 1)).collect()),
                88..=93 => E::Nullif(b(self.expr(t, ts, d - 1)), b(self.expr(t, ts, d - 1))),
                _ => self.leaf(t, ts),
            },
            Ty::Str => match self.rng.below(100) {
                0..=59 => self.leaf(t, ts),
                60..=74 => self.case(t, ts, d),
                75..=89 => E::Coalesce((0..2 + self.rng.below(2)).map(|_| self.expr(t, ts, d - 1)).collect()),
                _ => E::Nullif(b(self.expr(t, ts, d - 1)), b(self.expr(t, ts, d - 1))),
            },
        }
    }
    fn case(&mut self, t: Ty, ts: &[Ty], d: u32) -> E {
        let n = 1 + self.rng.below(2);
        let ws = (0..n).map(|_| (self.pred(ts, d - 1), self.expr(t, ts, d - 1))).collect();
        let els = if self.rng.chance(2, 3) { Some(b(self.expr(t, ts, d - 1))) } else { None };
        E::Case(ws, els)
    }
    fn cmp_ty(&mut self, ts: &[Ty]) -> Ty {
        let mut c = vec![Ty::Int];
        for t in [Ty::Int, Ty::Str, Ty::Bool, Ty::Rat] { if !Self::cols_of(ts, t).is_empty() { c.push(t); c.push(t); } }
        *self.rng.pick(&c)
    }
    fn atom(&mut self, ts: &[Ty], d: u32) -> E {
        let t = self.cmp_ty(ts);
        let dd = if d > 0 { d - 1 } else { 0 };
        match self.rng.below(100) {
            0..=44 => {
                let op = *self.rng.pick(&["=", "=", "<>", "<", "<=", ">", ">="]);
                let a = self.expr(t, ts, dd);
                let c = if t == Ty::Rat { self.expr(Ty::Int, ts, 0) } else { self.expr(t, ts, dd) };
                E::Cmp(op, b(a), b(c))
            }
            45..=56 => E::IsNull(self.rng.chance(1, 2), b(self.expr(t, ts, dd))),
            57..=64 if t != Ty::Rat => E::Distinct(self.rng.chance(1, 2), b(self.expr(t, ts, dd)), b(self.expr(t, ts, dd))),
            65..=72 if t == Ty::Int || t == Ty::Str => E::Between(self.rng.chance(1, 3), b(self.expr(t, ts, dd)), b(self.expr(t, ts, 0)), b(self.expr(t, ts, 0))),
            73..=82 if t != Ty::Rat && t != Ty::Bool => {
                let n = 1 + self.rng.below(3);
                E::InList(self.rng.chance(1, 2), b(self.expr(t, ts, dd)), (0..n).map(|_| self.expr(t, ts, 0)).collect())
            }
            83..=90 => { let cs = Self::cols_of(ts, Ty::Bool); if cs.is_empty() { self.lit(Ty::Bool) } else { col(*self.rng.pick(&cs)) } }
            91..=93 => self.lit(Ty::Bool),
            _ => { let a = self.expr(t, ts, 0); let c = if t == Ty::Rat { self.expr(Ty::Int, ts, 0) } else { self.expr(t, ts, 0) }; E::Cmp("=", b(a), b(c)) }
        }
    }
    pub fn pred(&mut self, ts: &[Ty], d: u32) -> E {
        if d == 0 { return self.atom(ts, 0); }
        match self.rng.below(100) {
            0..=21 => E::And(b(self.pred(ts, d - 1)), b(self.pred(ts, d - 1))),
            22..=43 => E::Or(b(self.pred(ts, d - 1)), b(self.pred(ts, d - 1))),
            44..=55 => E::Not(b(self.pred(ts, d - 1))),
            56..=60 => self.case(Ty::Bool, ts, d),
            61..=63 => E::Coalesce(vec![self.pred(ts, d - 1), self.pred(ts, d - 1)]),
            _ => self.atom(ts, d),
        }
    }

    // ---------- relations
    fn table(&mut self) -> (Q, Tys) {
        let n = self.rng.below(self.tabs.len() as u64) as usize;
        (Q::Table(n), self.tabs[n].types.clone())
    }
    fn values(&mut self) -> (Q, Tys) {
        let nc = 1 + self.rng.below(2) as usize;
        let ts: Tys = (0..nc).map(|_| *self.rng.pick(&[Ty::Int, Ty::Int, Ty::Str, Ty::Bool])).collect();
        let nr = 1 + self.rng.below(3) as usize;
        let mut rows: Vec<Vec<V>> = (0..nr).map(|_| ts.iter().map(|t| Self::gen_val(self.rng, *t, 4)).collect()).collect();
        // the first row fixes the column types for the SQL side: keep it non-NULL-typed via CAST in v_sql
        if rows.is_empty() { rows.push(ts.iter().map(|_| V::Null).collect()); }
        (Q::Values(ts.clone(), rows), ts)
    }
    /// a FROM source
    pub fn src(&mut self, d: u32) -> (Q, Tys) {
        match self.rng.below(100) {
            0..=64 => self.table(),
            65..=76 => { let (q, ts) = self.table(); let p = self.pred(&ts, 1); (Q::Filter(p, Box::new(q)), ts) }
            77..=82 => self.values(),
            83..=87 if d > 0 => { // ORDER BY (total) + LIMIT in a derived table
                let (q, ts) = self.any(d - 1);
                let ks = (0..ts.len()).map(|i| (col(i), self.rng.chance(1, 2), self.rng.chance(1, 2))).collect();
                let off = self.rng.below(3);
                let lim = if self.rng.chance(4, 5) { Some(self.rng.below(5)) } else { None };
                (Q::Limit(off, lim, Box::new(Q::Sort(ks, Box::new(q)))), ts)
            }
            83..=99 if d > 0 => self.any(d - 1),
            _ => self.table(),
        }
    }
    fn project(&mut self, q: Q, ts: &[Ty], d: u32) -> (Q, Tys) {
        if self.rng.chance(1, 3) { return (q, ts.to_vec()); }
        let n = 1 + self.rng.below(3) as usize;
        let mut es = vec![];
        let mut ots = vec![];
        for _ in 0..n {
            if self.rng.chance(1, 2) && !ts.is_empty() { let i = self.rng.below(ts.len() as u64) as usize; es.push(col(i)); ots.push(ts[i]); }
            else { let t = *self.rng.pick(&[Ty::Int, Ty::Int, Ty::Str, Ty::Bool]); es.push(self.expr(t, ts, d.min(2))); ots.push(t); }
        }
        (Q::Project(es, Box::new(q)), ots)
    }
    fn on_cond(&mut self, tl: &[Ty], tr: &[Ty]) -> E {
        let mut ts = tl.to_vec();
        ts.extend_from_slice(tr);
        let mut pairs = vec![];
        for i in 0..tl.len() { for j in 0..tr.len() { if tl[i] == tr[j] && tl[i] != Ty::Rat { pairs.push((i, tl.len() + j)); } } }
        let r = self.rng.below(100);
        if pairs.is_empty() || r >= 85 { return self.pred(&ts, 1); }
        let (i, j) = *self.rng.pick(&pairs);
        if r < 45 { E::Cmp("=", b(col(i)), b(col(j))) }
        else if r < 60 { E::And(b(E::Cmp("=", b(col(i)), b(col(j)))), b(self.pred(&ts, 1))) }
        else if r < 66 { let (k, l) = *self.rng.pick(&pairs); E::And(b(E::Cmp("=", b(col(i)), b(col(j)))), b(E::Cmp("=", b(col(k)), b(col(l))))) }
        else if r < 72 { E::Distinct(true, b(col(i)), b(col(j))) }
        else if r < 80 { E::Cmp(*self.rng.pick(&["<", "<=", "<>", ">"]), b(col(i)), b(col(j))) }
        else { E::Or(b(E::Cmp("=", b(col(i)), b(col(j)))), b(self.pred(&ts, 0))) }
    }
    fn join(&mut self, k: JK, d: u32) -> (Q, Tys) {
        let (l, tl) = self.src(d);
        let (r, tr) = self.src(d);
        let on = if k == JK::Cross { E::Lit(V::B(true), Ty::Bool) } else { self.on_cond(&tl, &tr) };
        let mut ts = tl.clone();
        ts.extend_from_slice(&tr);
        let mut q = Q::Join(k, on, Box::new(l), Box::new(r));
        if self.rng.chance(1, 4) { // a third input, left-deep
            let k2 = *self.rng.pick(&[JK::Inner, JK::Left, JK::Right, JK::Full, k]);
            let (r2, tr2) = self.src(0);
            let on2 = if k2 == JK::Cross { E::Lit(V::B(true), Ty::Bool) } else { self.on_cond(&ts, &tr2) };
            ts.extend_from_slice(&tr2);
            q = Q::Join(k2, on2, Box::new(q), Box::new(r2));
        }
        if self.rng.chance(2, 5) { let p = self.pred(&ts, 2); q = Q::Filter(p, Box::new(q)); }
        (q, ts)
    }
    fn semi(&mut self, anti: bool, d: u32) -> (Q, Tys) {
        let (l, tl) = self.src(d);
        let (r, tr) = self.src(d);
        let on = self.on_cond(&tl, &tr);
        let mut q = Q::Semi(anti, on, Box::new(l), Box::new(r));
        if self.rng.chance(1, 3) { let p = self.pred(&tl, 1); q = Q::Filter(p, Box::new(q)); }
        (q, tl)
    }
    /// shift every column reference of depth 0 to `depth` (used to build correlated predicates)
    fn outer_col(i: usize) -> E { E::Col(1, i) }
    /// a subquery relation with one output column of type `want` (or any type), possibly correlated with
    /// the enclosing row (types `outer`): SELECT e FROM t [WHERE corr AND p]
    fn sub_rel(&mut self, outer: &[Ty], want: Option<Ty>, corr: bool) -> (Q, Ty) {
        let (mut q, ts) = if self.rng.chance(1, 8) { self.values() } else { self.table() };
        let mut conj: Vec<E> = vec![];
        if corr {
            let mut pairs = vec![];
            for i in 0..ts.len() { for j in 0..outer.len() { if ts[i] == outer[j] && ts[i] != Ty::Rat { pairs.push((i, j)); } } }
            if !pairs.is_empty() {
                let (i, j) = *self.rng.pick(&pairs);
                let op = if self.rng.chance(4, 5) { "=" } else { *self.rng.pick(&["<", "<>", ">="]) };
                conj.push(E::Cmp(op, b(col(i)), b(Self::outer_col(j))));
            }
        }
        if self.rng.chance(1, 2) { conj.push(self.pred(&ts, 1)); }
        if let Some(p) = conj.into_iter().reduce(|a, c| E::And(b(a), b(c))) { q = Q::Filter(p, Box::new(q)); }
        let t = match want { Some(t) => t, None => *self.rng.pick(&ts) };
        let e = { let cs = Self::cols_of(&ts, t); if !cs.is_empty() && self.rng.chance(4, 5) { col(*self.rng.pick(&cs)) } else { self.expr(t, &ts, 1) } };
        (Q::Project(vec![e], Box::new(q)), t)
    }
    /// scalar subquery: an ungrouped aggregate (exactly one row), possibly correlated
    fn sub_scalar(&mut self, outer: &[Ty], corr: bool) -> (Q, Ty) {
        let (mut q, ts) = self.table();
        let mut conj: Vec<E> = vec![];
        if corr {
            let mut pairs = vec![];
            for i in 0..ts.len() { for j in 0..outer.len() { if ts[i] == outer[j] && ts[i] != Ty::Rat { pairs.push((i, j)); } } }
            if !pairs.is_empty() { let (i, j) = *self.rng.pick(&pairs); conj.push(E::Cmp("=", b(col(i)), b(Self::outer_col(j)))); }
        }
        if self.rng.chance(1, 3) { conj.push(self.pred(&ts, 1)); }
        if let Some(p) = conj.into_iter().reduce(|a, c| E::And(b(a), b(c))) { q = Q::Filter(p, Box::new(q)); }
        let (a, e, t) = self.agg(&ts, false);
        (Q::Group(vec![], vec![(a, e)], None, Box::new(q)), t)
    }
    fn agg(&mut self, ts: &[Ty], allow_avg: bool) -> (Agg, E, Ty) {
        let ints = Self::cols_of(ts, Ty::Int);
        match self.rng.below(if allow_avg { 100 } else { 88 }) {
            0..=17 => (Agg::CountStar, E::Lit(V::I(1), Ty::Int), Ty::Int),
            18..=32 => { let i = self.rng.below(ts.len() as u64) as usize; (Agg::Count, col(i), Ty::Int) }
            33..=42 => { let i = self.rng.below(ts.len() as u64) as usize; (Agg::CountDistinct, col(i), Ty::Int) }
            43..=60 => (Agg::Sum, if !ints.is_empty() && self.rng.chance(2, 3) { col(*self.rng.pick(&ints)) } else { self.expr(Ty::Int, ts, 1) }, Ty::Int),
            61..=87 => {
                let t = if !Self::cols_of(ts, Ty::Str).is_empty() && self.rng.chance(1, 3) { Ty::Str } else { Ty::Int };
                let e = self.expr(t, ts, 1);
                (if self.rng.chance(1, 2) { Agg::Min } else { Agg::Max }, e, t)
            }
            _ => (Agg::Avg, if !ints.is_empty() && self.rng.chance(2, 3) { col(*self.rng.pick(&ints)) } else { self.expr(Ty::Int, ts, 1) }, Ty::Rat),
        }
    }
    /// WHERE-clause wrapper around a subquery atom
    fn with_sub(&mut self, atom: E, ts: &[Ty]) -> E {
        match self.rng.below(100) {
            0..=44 => atom,
            45..=59 => E::And(b(atom), b(self.pred(ts, 1))),
            60..=74 => E::Or(b(atom), b(self.pred(ts, 1))),
            75..=84 => E::Not(b(atom)),
            85..=92 => E::And(b(self.pred(ts, 1)), b(atom)),
            _ => E::Or(b(self.pred(ts, 0)), b(E::Not(b(atom)))),
        }
    }
    fn outer_for_sub(&mut self, d: u32) -> (Q, Tys) {
        if self.rng.chance(1, 5) { let k = *self.rng.pick(&[JK::Inner, JK::Left]); self.join(k, 0) } else { self.src(d) }
    }
    fn place_sub(&mut self, atom: E, q: Q, ts: Tys) -> (Q, Tys) {
        if self.rng.chance(1, 5) { // in the SELECT list
            let mut es: Vec<E> = (0..ts.len()).map(col).collect();
            es.push(atom);
            let mut ots = ts.clone();
            ots.push(Ty::Bool);
            (Q::Project(es, Box::new(q)), ots)
        } else {
            let p = self.with_sub(atom, &ts);
            (Q::Filter(p, Box::new(q)), ts)
        }
    }
    fn exists(&mut self, d: u32) -> (Q, Tys) {
        let (q, ts) = self.outer_for_sub(d);
        let corr = self.rng.chance(4, 5);
        let (s, _) = self.sub_rel(&ts, None, corr);
        let atom = E::Exists(self.rng.chance(2, 5), Box::new(s));
        self.place_sub(atom, q, ts)
    }
    fn in_sub(&mut self, neg: bool, d: u32) -> (Q, Tys) {
        let (q, ts) = self.outer_for_sub(d);
        let t = { let c: Vec<Ty> = ts.iter().cloned().filter(|t| *t != Ty::Rat && *t != Ty::Bool).collect(); if c.is_empty() { Ty::Int } else { *self.rng.pick(&c) } };
        // correlated NOT IN is not supported by the engine (null-aware anti join takes one key): keep it rare
        let corr = if neg { self.rng.chance(1, 10) } else { self.rng.chance(1, 3) };
        let (s, _) = self.sub_rel(&ts, Some(t), corr);
        let ld = if self.rng.chance(3, 4) { 0 } else { 1 };
        let lcols = Self::cols_of(&ts, t);
        let lhs = if neg && corr && !lcols.is_empty() { col(*self.rng.pick(&lcols)) } else { self.expr(t, &ts, ld) };
        let atom = E::InSub(neg, b(lhs), Box::new(s));
        self.place_sub(atom, q, ts)
    }
    fn scalar_sub(&mut self, d: u32) -> (Q, Tys) {
        let (q, ts) = self.outer_for_sub(d);
        let corr = self.rng.chance(2, 3);
        let (s, t) = self.sub_scalar(&ts, corr);
        if self.rng.chance(1, 3) { // SELECT list
            let mut es: Vec<E> = (0..ts.len()).map(col).collect();
            es.push(E::Scalar(Box::new(s)));
            let mut ots = ts.clone();
            ots.push(t);
            return (Q::Project(es, Box::new(q)), ots);
        }
        let op = *self.rng.pick(&["=", "<", ">=", "<>", ">"]);
        let other = self.expr(t, &ts, 0);
        let atom = if self.rng.chance(1, 2) { E::Cmp(op, b(other), b(E::Scalar(Box::new(s)))) } else { E::Cmp(op, b(E::Scalar(Box::new(s))), b(other)) };
        let p = self.with_sub(atom, &ts);
        (Q::Filter(p, Box::new(q)), ts)
    }
    fn agg_having(&mut self, d: u32) -> (Q, Tys) {
        let (q, ts) = if self.rng.chance(1, 4) { let k = *self.rng.pick(&[JK::Inner, JK::Left, JK::Full]); self.join(k, 0) } else { self.src(d) };
        let nk = *self.rng.pick(&[0usize, 1, 1, 1, 2]);
        let mut ks = vec![];
        let mut ots = vec![];
        for _ in 0..nk {
            let i = self.rng.below(ts.len() as u64) as usize;
            if ts[i] == Ty::Int && self.rng.chance(1, 4) {
                let e = match self.rng.below(3) {
                    0 => E::Arith("%", b(col(i)), b(E::Lit(V::I(2), Ty::Int))),
                    1 => E::Arith("+", b(col(i)), b(E::Lit(V::I(1), Ty::Int))),
                    _ => E::Coalesce(vec![col(i), E::Lit(V::I(0), Ty::Int)]),
                };
                ks.push(e); ots.push(Ty::Int);
            } else if self.rng.chance(1, 8) {
                ks.push(E::IsNull(false, b(col(i)))); ots.push(Ty::Bool);
            } else { ks.push(col(i)); ots.push(ts[i]); }
        }
        let na = 1 + self.rng.below(3) as usize;
        let mut aggs = vec![];
        for _ in 0..na { let (a, e, t) = self.agg(&ts, true); aggs.push((a, e)); ots.push(t); }
        let having = if self.rng.chance(1, 2) { Some(self.pred(&ots, 1)) } else { None };
        (Q::Group(ks, aggs, having, Box::new(q)), ots)
    }
    fn distinct(&mut self, d: u32) -> (Q, Tys) {
        let (q, ts) = if self.rng.chance(1, 4) { let k = *self.rng.pick(&[JK::Inner, JK::Left, JK::Cross]); self.join(k, 0) } else { self.src(d) };
        let (q, ts) = self.project(q, &ts, 1);
        (Q::Distinct(Box::new(q)), ts)
    }
    fn typed_branch(&mut self, sig: &[Ty], d: u32) -> Q {
        let (mut q, ts) = self.src(d);
        if self.rng.chance(1, 3) { let p = self.pred(&ts, 1); q = Q::Filter(p, Box::new(q)); }
        let es = sig.iter().map(|t| { let cs = Self::cols_of(&ts, *t); if !cs.is_empty() && self.rng.chance(4, 5) { col(*self.rng.pick(&cs)) } else { self.expr(*t, &ts, 1) } }).collect();
        Q::Project(es, Box::new(q))
    }
    fn setop(&mut self, op: SetOp, d: u32) -> (Q, Tys) {
        let n = 1 + self.rng.below(2) as usize;
        let sig: Tys = (0..n).map(|_| *self.rng.pick(&[Ty::Int, Ty::Int, Ty::Str, Ty::Bool])).collect();
        let l = self.typed_branch(&sig, d);
        let r = self.typed_branch(&sig, d);
        let mut q = Q::SetOp(op, self.rng.chance(1, 2), Box::new(l), Box::new(r));
        if self.rng.chance(1, 4) {
            let r2 = self.typed_branch(&sig, 0);
            let op2 = *self.rng.pick(&[SetOp::Union, SetOp::Intersect, SetOp::Except]);
            q = Q::SetOp(op2, self.rng.chance(1, 2), Box::new(q), Box::new(r2));
        }
        (q, sig)
    }
    fn filter3vl(&mut self, d: u32) -> (Q, Tys) {
        let (q, ts) = self.src(d);
        let p = self.pred(&ts, 3);
        self.project(Q::Filter(p, Box::new(q)), &ts, 2)
    }
    pub fn family(&mut self, s: &str, d: u32) -> (Q, Tys) {
        match s {
            "filter3vl" => self.filter3vl(d),
            "join_inner" => { let (q, ts) = self.join(JK::Inner, d); self.project(q, &ts, 1) }
            "join_left" => { let (q, ts) = self.join(JK::Left, d); self.project(q, &ts, 1) }
            "join_right" => { let (q, ts) = self.join(JK::Right, d); self.project(q, &ts, 1) }
            "join_full" => { let (q, ts) = self.join(JK::Full, d); self.project(q, &ts, 1) }
            "join_cross" => { let (q, ts) = self.join(JK::Cross, d); self.project(q, &ts, 1) }
            "semi" => self.semi(false, d),
            "anti" => self.semi(true, d),
            "exists" => self.exists(d),
            "in_sub" => self.in_sub(false, d),
            "not_in_sub" => self.in_sub(true, d),
            "scalar_sub" => self.scalar_sub(d),
            "agg_having" => self.agg_having(d),
            "distinct" => self.distinct(d),
            "union" => self.setop(SetOp::Union, d),
            "intersect" => self.setop(SetOp::Intersect, d),
            "except" => self.setop(SetOp::Except, d),
            _ => self.any(d),
        }
    }
    pub fn any(&mut self, d: u32) -> (Q, Tys) {
        let s = STREAMS[self.rng.below(17) as usize];
        self.family(s, d)
    }
    /// top-level ORDER BY [+ LIMIT/OFFSET] over q (keys are expressions over q's output row)
    pub fn order(&mut self, q: Q, ts: &[Ty]) -> Q {
        let nk = 1 + self.rng.below(2) as usize;
        let mut ks = vec![];
        for _ in 0..nk {
            let i = self.rng.below(ts.len() as u64) as usize;
            let e = if ts[i] == Ty::Int && self.rng.chance(1, 5) { E::Arith(*self.rng.pick(&["%", "-", "*"]), b(col(i)), b(E::Lit(V::I(2), Ty::Int))) } else { col(i) };
            ks.push((e, self.rng.chance(1, 2), self.rng.chance(1, 2)));
        }
        let s = Q::Sort(ks, Box::new(q));
        if self.rng.chance(3, 5) {
            let off = *self.rng.pick(&[0u64, 0, 0, 1, 2, 3]);
            let lim = if self.rng.chance(5, 6) { Some(self.rng.below(6)) } else { None };
            Q::Limit(off, lim, Box::new(s))
        } else { s }
    }
    /// one query of stream `s`
    pub fn query(&mut self, s: &str) -> Q {
        match s {
            "order_limit" => { let (q, ts) = self.any(1); self.order(q, &ts) }
            "nested" => { let (q, ts) = self.any(2); if self.rng.chance(1, 3) { self.order(q, &ts) } else { q } }
            _ => { let d = if self.rng.chance(1, 4) { 1 } else { 0 }; let (q, ts) = self.family(s, d); if self.rng.chance(1, 6) { self.order(q, &ts) } else { q } }
        }
    }
    pub fn tab_widths(&self) -> Vec<usize> { self.widths() }
}
