//! Tiny deterministic PRNG + JSON helpers shared by the harness bins (no dependencies).
pub struct Rng(pub u64);
impl Rng {
    pub fn new(seed: u64) -> Self {
        // scramble the seed so that consecutive seeds give unrelated streams
        let mut z = seed ^ 0xD1B54A32D192ED03;
        z = (z ^ (z >> 30)).wrapping_mul(0xBF58476D1CE4E5B9);
        z = (z ^ (z >> 27)).wrapping_mul(0x94D049BB133111EB);
        z = (z ^ (z >> 31)).wrapping_mul(0x9E3779B97F4A7C15);
        Rng(z ^ (z >> 29))
    }
    /// splitmix64
    pub fn next(&mut self) -> u64 {
        self.0 = self.0.wrapping_add(0x9E3779B97F4A7C15);
        let mut z = self.0;
        z = (z ^ (z >> 30)).wrapping_mul(0xBF58476D1CE4E5B9);
        z = (z ^ (z >> 27)).wrapping_mul(0x94D049BB133111EB);
        z ^ (z >> 31)
    }
    pub fn below(&mut self, n: u64) -> u64 {
        if n == 0 { 0 } else { self.next() % n }
    }
    pub fn range(&mut self, lo: i64, hi: i64) -> i64 {
        lo + self.below((hi - lo + 1) as u64) as i64
    }
    pub fn chance(&mut self, num: u64, den: u64) -> bool {
        self.below(den) < num
    }
    pub fn pick<'a, T>(&mut self, xs: &'a [T]) -> &'a T {
        &xs[self.below(xs.len() as u64) as usize]
    }
}

pub fn arg(args: &[String], name: &str, default: &str) -> String {
    let mut i = 0;
    while i + 1 < args.len() {
        if args[i] == name {
            return args[i + 1].clone();
        }
        i += 1;
    }
    default.to_string()
}

pub fn json_list<T: std::fmt::Display>(xs: &[T]) -> String {
    let mut s = String::from("[");
    for (i, x) in xs.iter().enumerate() {
        if i > 0 { s.push(','); }
        s.push_str(&x.to_string());
    }
    s.push(']');
    s
}

pub fn json_opt_list(xs: &[Option<i64>]) -> String {
    let mut s = String::from("[");
    for (i, x) in xs.iter().enumerate() {
        if i > 0 { s.push(','); }
        match x { Some(v) => s.push_str(&v.to_string()), None => s.push_str("null") }
    }
    s.push(']');
    s
}

pub fn json_str(s: &str) -> String {
    let mut o = String::from("\"");
    for c in s.chars() {
        match c {
            '"' => o.push_str("\\\""),
            '\\' => o.push_str("\\\\"),
            '\n' => o.push_str("\\n"),
            '\r' => o.push_str("\\r"),
            '\t' => o.push_str("\\t"),
            c if (c as u32) < 0x20 => o.push_str(&format!("\\u{:04x}", c as u32)),
            c => o.push(c),
        }
    }
    o.push('"');
    o
}
