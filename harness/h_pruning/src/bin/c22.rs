//! C22: statistics-based pruning never skips a container with a matching row.
//!
//! One line per case: a random predicate over nullable columns i0,i1 (Int64) and b0,b1 (Boolean),
//! 1..5 random containers (0..6 rows, NULL-heavy, empty / all-NULL included), statistics computed
//! from the rows and then randomly weakened (widened bounds, unknowns, arbitrary bounds for columns
//! without non-null values) -- always valid.  The real `PruningPredicate::try_new(..).prune(..)` is
//! run twice: without `contained` answers ("keep", compared with the Coq model) and with correct,
//! randomly weakened `contained` answers ("keep_c", literal-guarantee pass; oracle only).
//! Oracle (independent of the model): the real physical expression is evaluated on the container's
//! rows; a skipped container must have no row that evaluates to TRUE; every LiteralGuarantee from
//! `LiteralGuarantee::analyze` must hold on every row where the predicate is TRUE.
use std::collections::HashSet;
use std::panic::{catch_unwind, AssertUnwindSafe};
use std::sync::Arc;

use arrow::array::{Array, ArrayRef, BooleanArray, Int64Array, UInt64Array};
use arrow::datatypes::{DataType, Field, Schema, SchemaRef};
use arrow::record_batch::{RecordBatch, RecordBatchOptions};
use datafusion_common::pruning::PruningStatistics;
use datafusion_common::{Column, ScalarValue};
use datafusion_expr::expr::InList;
use datafusion_expr::{col, lit, BinaryExpr, Expr, Operator};
use datafusion_physical_expr::planner::logical2physical;
use datafusion_physical_expr::utils::{Guarantee, LiteralGuarantee};
use datafusion_pruning::PruningPredicate;
use h_util::{arg, json_str, Rng};

const NI: usize = 2;
const NB: usize = 2;

#[derive(Clone, Copy, Debug, PartialEq)]
enum Op { Eq, Ne, Lt, Le, Gt, Ge, Df, Ndf }
const OPS: &[Op] = &[Op::Eq, Op::Ne, Op::Lt, Op::Le, Op::Gt, Op::Ge, Op::Df, Op::Ndf];

fn op_name(o: Op) -> &'static str {
    match o { Op::Eq => "eq", Op::Ne => "ne", Op::Lt => "lt", Op::Le => "le", Op::Gt => "gt", Op::Ge => "ge", Op::Df => "df", Op::Ndf => "ndf" }
}
fn op_df(o: Op) -> Operator {
    match o {
        Op::Eq => Operator::Eq, Op::Ne => Operator::NotEq, Op::Lt => Operator::Lt, Op::Le => Operator::LtEq,
        Op::Gt => Operator::Gt, Op::Ge => Operator::GtEq, Op::Df => Operator::IsDistinctFrom, Op::Ndf => Operator::IsNotDistinctFrom,
    }
}

#[derive(Clone, Debug)]
enum P {
    Lit(Option<bool>),
    BCol(usize),
    Not(Box<P>),
    IsNull(bool, usize),    // (is an Int64 column, index)
    IsNotNull(bool, usize),
    Cmp(Op, usize, Option<i64>),  // i<n> op literal
    CmpR(Op, Option<i64>, usize), // literal op i<n>
    And(Box<P>, Box<P>),
    Or(Box<P>, Box<P>),
    In(usize, Vec<Option<i64>>, bool), // i<n> [NOT] IN (..)
    // ---- outside the Coq model (oracle only)
    NegCmp(Op, usize, i64),          // -i<n> op literal
    BCmp(Op, usize, Option<bool>),   // b<n> op literal
    TryCastCmp(Op, usize, i32),      // try_cast(i<n> as Int32) op literal
    CastF(Op, usize, i64),           // cast(i<n> as Float64) op literal (as f64)
    ColCol(Op, usize, usize),        // i<a> op i<b>
    Arith(Op, usize, i64, i64),      // i<n> + k op literal
    Wrap(Op, usize, Vec<u8>, i64),   // nested wrappers around i<n> (0 = negate, 1 = cast f64, 2 = try_cast f64, 3 = cast i64) op literal
}

fn icol(n: usize) -> Expr { col(format!("i{n}")) }
fn bcol(n: usize) -> Expr { col(format!("b{n}")) }
fn ilit(v: Option<i64>) -> Expr { lit(ScalarValue::Int64(v)) }
fn bin(l: Expr, o: Op, r: Expr) -> Expr { Expr::BinaryExpr(BinaryExpr::new(Box::new(l), op_df(o), Box::new(r))) }

fn to_expr(p: &P) -> Expr {
    match p {
        P::Lit(b) => lit(ScalarValue::Boolean(*b)),
        P::BCol(n) => bcol(*n),
        P::Not(q) => Expr::Not(Box::new(to_expr(q))),
        P::IsNull(i, n) => Expr::IsNull(Box::new(if *i { icol(*n) } else { bcol(*n) })),
        P::IsNotNull(i, n) => Expr::IsNotNull(Box::new(if *i { icol(*n) } else { bcol(*n) })),
        P::Cmp(o, n, l) => bin(icol(*n), *o, ilit(*l)),
        P::CmpR(o, l, n) => bin(ilit(*l), *o, icol(*n)),
        P::And(a, b) => Expr::BinaryExpr(BinaryExpr::new(Box::new(to_expr(a)), Operator::And, Box::new(to_expr(b)))),
        P::Or(a, b) => Expr::BinaryExpr(BinaryExpr::new(Box::new(to_expr(a)), Operator::Or, Box::new(to_expr(b)))),
        P::In(n, ls, neg) => Expr::InList(InList::new(Box::new(icol(*n)), ls.iter().map(|l| ilit(*l)).collect(), *neg)),
        P::NegCmp(o, n, l) => bin(Expr::Negative(Box::new(icol(*n))), *o, ilit(Some(*l))),
        P::BCmp(o, n, l) => bin(bcol(*n), *o, lit(ScalarValue::Boolean(*l))),
        P::TryCastCmp(o, n, l) => bin(datafusion_expr::try_cast(icol(*n), DataType::Int32), *o, lit(ScalarValue::Int32(Some(*l)))),
        P::CastF(o, n, l) => bin(datafusion_expr::cast(icol(*n), DataType::Float64), *o, lit(ScalarValue::Float64(Some(*l as f64)))),
        P::ColCol(o, a, b) => bin(icol(*a), *o, icol(*b)),
        P::Wrap(o, n, ws, l) => {
            let mut e = icol(*n);
            let mut is_f = false;
            for w in ws {
                e = match w {
                    0 => Expr::Negative(Box::new(e)),
                    1 => { is_f = true; datafusion_expr::cast(e, DataType::Float64) }
                    2 => { is_f = true; datafusion_expr::try_cast(e, DataType::Float64) }
                    _ => datafusion_expr::cast(e, DataType::Int64),
                };
            }
            bin(e, *o, if is_f { lit(ScalarValue::Float64(Some(*l as f64))) } else { ilit(Some(*l)) })
        }
        P::Arith(o, n, k, l) => bin(Expr::BinaryExpr(BinaryExpr::new(Box::new(icol(*n)), Operator::Plus, Box::new(ilit(Some(*k))))), *o, ilit(Some(*l))),
    }
}

fn modelled(p: &P) -> bool {
    match p {
        P::Not(q) => modelled(q),
        P::And(a, b) | P::Or(a, b) => modelled(a) && modelled(b),
        P::NegCmp(..) | P::BCmp(..) | P::TryCastCmp(..) | P::CastF(..) | P::ColCol(..) | P::Arith(..) | P::Wrap(..) => false,
        _ => true,
    }
}

fn oz(v: &Option<i64>) -> String { match v { Some(x) => x.to_string(), None => "null".into() } }
fn ob(v: &Option<bool>) -> String { match v { Some(x) => x.to_string(), None => "null".into() } }
fn ou(v: &Option<u64>) -> String { match v { Some(x) => x.to_string(), None => "null".into() } }

fn p_json(p: &P) -> String {
    match p {
        P::Lit(b) => format!("[\"lit\",{}]", ob(b)),
        P::BCol(n) => format!("[\"bcol\",{n}]"),
        P::Not(q) => format!("[\"not\",{}]", p_json(q)),
        P::IsNull(i, n) => format!("[\"isnull\",\"{}\",{n}]", if *i { "i" } else { "b" }),
        P::IsNotNull(i, n) => format!("[\"isnotnull\",\"{}\",{n}]", if *i { "i" } else { "b" }),
        P::Cmp(o, n, l) => format!("[\"cmp\",\"{}\",{n},{}]", op_name(*o), oz(l)),
        P::CmpR(o, l, n) => format!("[\"cmpr\",\"{}\",{},{n}]", op_name(*o), oz(l)),
        P::And(a, b) => format!("[\"and\",{},{}]", p_json(a), p_json(b)),
        P::Or(a, b) => format!("[\"or\",{},{}]", p_json(a), p_json(b)),
        P::In(n, ls, neg) => format!("[\"in\",{n},[{}],{neg}]", ls.iter().map(oz).collect::<Vec<_>>().join(",")),
        other => format!("[\"x\",{}]", json_str(&format!("{}", to_expr(other)))),
    }
}

// ------------------------------------------------------------------ generators
const SMALL: &[i64] = &[0, 1, 2, 3];
const WIDE: &[i64] = &[-2, -1, 0, 1, 2, 3, 4, 5, i64::MIN, i64::MIN + 1, i64::MAX - 1, i64::MAX];

fn gen_val(rng: &mut Rng) -> i64 {
    if rng.chance(2, 3) { *rng.pick(SMALL) } else { *rng.pick(WIDE) }
}
fn gen_lit(rng: &mut Rng) -> Option<i64> {
    if rng.chance(1, 12) { None } else { Some(gen_val(rng)) }
}

fn gen_leaf(rng: &mut Rng, extras: bool) -> P {
    let r = rng.below(if extras { 145 } else { 100 });
    let ic = rng.below(NI as u64) as usize;
    let bc = rng.below(NB as u64) as usize;
    match r {
        0..=37 => P::Cmp(*rng.pick(OPS), ic, gen_lit(rng)),
        38..=49 => P::CmpR(*rng.pick(OPS), gen_lit(rng), ic),
        50..=60 => {
            let n = if rng.chance(1, 15) { 19 + rng.below(5) as usize } else { 1 + rng.below(4) as usize };
            P::In(ic, (0..n).map(|_| gen_lit(rng)).collect(), rng.chance(1, 2))
        }
        61..=68 => if rng.chance(2, 3) { P::IsNull(true, ic) } else { P::IsNull(false, bc) },
        69..=76 => if rng.chance(2, 3) { P::IsNotNull(true, ic) } else { P::IsNotNull(false, bc) },
        77..=86 => P::BCol(bc),
        87..=93 => P::Not(Box::new(P::BCol(bc))),
        94..=99 => P::Lit(*rng.pick(&[Some(true), Some(false), Some(false), None])),
        100..=106 => { let v = gen_val(rng); P::NegCmp(*rng.pick(OPS), ic, if v == i64::MIN { 7 } else { v }) }
        107..=113 => P::BCmp(*rng.pick(OPS), bc, *rng.pick(&[Some(true), Some(false), None])),
        114..=118 => P::TryCastCmp(*rng.pick(OPS), ic, *rng.pick(&[0i32, 1, 2, 3, -1, i32::MAX, i32::MIN])),
        119..=122 => P::CastF(*rng.pick(OPS), ic, gen_val(rng)),
        123..=126 => P::ColCol(*rng.pick(OPS), 0, 1),
        127..=130 => P::Arith(*rng.pick(OPS), ic, *rng.pick(&[0i64, 1, 2]), *rng.pick(SMALL)),
        _ => {
            // nested wrappers: each rewrite step may flip the comparison (negation) or must keep it (casts)
            let ws: &[u8] = *rng.pick(&[&[0u8, 1][..], &[0, 2], &[1, 0], &[2, 0], &[0, 1, 0], &[0, 3], &[3, 0], &[0, 0], &[0, 3, 1]]);
            P::Wrap(*rng.pick(OPS), ic, ws.to_vec(), *rng.pick(SMALL))
        }
    }
}

fn gen_pred(rng: &mut Rng, depth: u32, extras: bool) -> P {
    if depth == 0 || rng.chance(1, 4) {
        return gen_leaf(rng, extras);
    }
    if extras && rng.chance(1, 3) {
        // a bare (or once-conjoined) special leaf, so that its own rewrite decides the pruning
        let mut leaf = gen_leaf(rng, true);
        for _ in 0..6 { if modelled(&leaf) { leaf = gen_leaf(rng, true); } }
        return if rng.chance(1, 3) { P::And(Box::new(leaf), Box::new(gen_leaf(rng, false))) } else { leaf };
    }
    match rng.below(100) {
        0..=44 => P::And(Box::new(gen_pred(rng, depth - 1, extras)), Box::new(gen_pred(rng, depth - 1, extras))),
        45..=89 => P::Or(Box::new(gen_pred(rng, depth - 1, extras)), Box::new(gen_pred(rng, depth - 1, extras))),
        _ => P::Not(Box::new(gen_pred(rng, depth - 1, extras))),
    }
}

#[derive(Clone, Debug)]
struct Row { i: Vec<Option<i64>>, b: Vec<Option<bool>> }

fn gen_container(rng: &mut Rng) -> Vec<Row> {
    let n = match rng.below(10) { 0 => 0, 1 => 1, _ => rng.below(7) as usize };
    // per column style: 0 = mixed, 1 = all NULL, 2 = constant non-null, 3 = no NULLs
    let istyle: Vec<u64> = (0..NI).map(|_| rng.below(6)).collect();
    let bstyle: Vec<u64> = (0..NB).map(|_| rng.below(6)).collect();
    let iconst: Vec<i64> = (0..NI).map(|_| gen_val(rng)).collect();
    let bconst: Vec<bool> = (0..NB).map(|_| rng.chance(1, 2)).collect();
    (0..n).map(|_| Row {
        i: (0..NI).map(|c| match istyle[c] {
            1 => None,
            2 => Some(iconst[c]),
            3 => Some(gen_val(rng)),
            _ => if rng.chance(1, 3) { None } else { Some(gen_val(rng)) },
        }).collect(),
        b: (0..NB).map(|c| match bstyle[c] {
            1 => None,
            2 => Some(bconst[c]),
            3 => Some(rng.chance(1, 2)),
            _ => if rng.chance(1, 3) { None } else { Some(rng.chance(1, 2)) },
        }).collect(),
    }).collect()
}

#[derive(Clone, Debug)]
struct CStats {
    imin: Vec<Option<i64>>, imax: Vec<Option<i64>>, inc: Vec<Option<u64>>,
    bmin: Vec<Option<bool>>, bmax: Vec<Option<bool>>, bnc: Vec<Option<u64>>,
    rc: Option<u64>,
}

/// statistics that are valid for the rows: true values, randomly weakened
fn gen_stats(rng: &mut Rng, rows: &[Row]) -> CStats {
    let mut s = CStats { imin: vec![], imax: vec![], inc: vec![], bmin: vec![], bmax: vec![], bnc: vec![], rc: None };
    for c in 0..NI {
        let vals: Vec<i64> = rows.iter().filter_map(|r| r.i[c]).collect();
        let nulls = rows.iter().filter(|r| r.i[c].is_none()).count() as u64;
        let (mut mn, mut mx) = (vals.iter().min().copied(), vals.iter().max().copied());
        if vals.is_empty() {
            // no non-null value: any bound is (vacuously) valid -- writers are known to put arbitrary values here
            if rng.chance(1, 3) { mn = Some(gen_val(rng)); }
            if rng.chance(1, 3) { mx = Some(gen_val(rng)); }
        }
        let weaken = |rng: &mut Rng, v: Option<i64>, dir: i64| -> Option<i64> {
            match rng.below(20) {
                0..=10 => v,
                11..=15 => v.map(|x| { let d = *rng.pick(&[1i64, 2, 1 << 40, i64::MAX]); if dir < 0 { x.saturating_sub(d) } else { x.saturating_add(d) } }),
                _ => None,
            }
        };
        s.imin.push(weaken(rng, mn, -1));
        s.imax.push(weaken(rng, mx, 1));
        s.inc.push(if rng.chance(1, 4) { None } else { Some(nulls) });
    }
    for c in 0..NB {
        let vals: Vec<bool> = rows.iter().filter_map(|r| r.b[c]).collect();
        let nulls = rows.iter().filter(|r| r.b[c].is_none()).count() as u64;
        let (mut mn, mut mx) = (vals.iter().min().copied(), vals.iter().max().copied());
        if vals.is_empty() {
            if rng.chance(1, 3) { mn = Some(rng.chance(1, 2)); }
            if rng.chance(1, 3) { mx = Some(rng.chance(1, 2)); }
        }
        s.bmin.push(match rng.below(20) { 0..=11 => mn, 12..=15 => mn.map(|_| false), _ => None });
        s.bmax.push(match rng.below(20) { 0..=11 => mx, 12..=15 => mx.map(|_| true), _ => None });
        s.bnc.push(if rng.chance(1, 4) { None } else { Some(nulls) });
    }
    s.rc = if rng.chance(1, 4) { None } else { Some(rows.len() as u64) };
    s
}

struct Stats {
    cs: Vec<CStats>,
    rows: Vec<Vec<Row>>,
    /// answer `contained`?  (second run only)
    use_contained: bool,
    /// per container: 0 = answer truthfully, 1 = unknown; and which answer to give when both hold
    contained_mode: Vec<(u8, bool)>,
    /// return None (no statistics at all) instead of an all-NULL array
    none_when_all_unknown: bool,
}

fn col_kind(name: &str) -> Option<(bool, usize)> {
    let (k, n) = name.split_at(1);
    let n: usize = n.parse().ok()?;
    match k { "i" if n < NI => Some((true, n)), "b" if n < NB => Some((false, n)), _ => None }
}

impl Stats {
    fn arr_i(&self, f: impl Fn(&CStats) -> Option<i64>) -> Option<ArrayRef> {
        let v: Vec<Option<i64>> = self.cs.iter().map(|c| f(c)).collect();
        if self.none_when_all_unknown && v.iter().all(|x| x.is_none()) { return None; }
        Some(Arc::new(Int64Array::from(v)))
    }
    fn arr_b(&self, f: impl Fn(&CStats) -> Option<bool>) -> Option<ArrayRef> {
        let v: Vec<Option<bool>> = self.cs.iter().map(|c| f(c)).collect();
        if self.none_when_all_unknown && v.iter().all(|x| x.is_none()) { return None; }
        Some(Arc::new(BooleanArray::from(v)))
    }
    fn arr_u(&self, f: impl Fn(&CStats) -> Option<u64>) -> Option<ArrayRef> {
        let v: Vec<Option<u64>> = self.cs.iter().map(|c| f(c)).collect();
        if self.none_when_all_unknown && v.iter().all(|x| x.is_none()) { return None; }
        Some(Arc::new(UInt64Array::from(v)))
    }
}

impl PruningStatistics for Stats {
    fn min_values(&self, column: &Column) -> Option<ArrayRef> {
        match col_kind(&column.name)? { (true, n) => self.arr_i(|c| c.imin[n]), (false, n) => self.arr_b(|c| c.bmin[n]) }
    }
    fn max_values(&self, column: &Column) -> Option<ArrayRef> {
        match col_kind(&column.name)? { (true, n) => self.arr_i(|c| c.imax[n]), (false, n) => self.arr_b(|c| c.bmax[n]) }
    }
    fn num_containers(&self) -> usize { self.cs.len() }
    fn null_counts(&self, column: &Column) -> Option<ArrayRef> {
        match col_kind(&column.name)? { (true, n) => self.arr_u(|c| c.inc[n]), (false, n) => self.arr_u(|c| c.bnc[n]) }
    }
    fn row_counts(&self) -> Option<ArrayRef> { self.arr_u(|c| c.rc) }
    fn contained(&self, column: &Column, values: &HashSet<ScalarValue>) -> Option<BooleanArray> {
        if !self.use_contained { return None; }
        let (is_int, n) = col_kind(&column.name)?;
        let out: Vec<Option<bool>> = self.rows.iter().zip(self.contained_mode.iter()).map(|(rows, (mode, tie))| {
            if *mode == 1 { return None; }
            let vals: Vec<ScalarValue> = rows.iter().filter_map(|r| if is_int { r.i[n].map(|v| ScalarValue::Int64(Some(v))) } else { r.b[n].map(|v| ScalarValue::Boolean(Some(v))) }).collect();
            let all_in = vals.iter().all(|v| values.contains(v));
            let none_in = vals.iter().all(|v| !values.contains(v));
            match (all_in, none_in) { (true, true) => Some(*tie), (true, false) => Some(true), (false, true) => Some(false), _ => None }
        }).collect();
        Some(BooleanArray::from(out))
    }
}

fn schema() -> SchemaRef {
    let mut f = vec![];
    for c in 0..NI { f.push(Field::new(format!("i{c}"), DataType::Int64, true)); }
    for c in 0..NB { f.push(Field::new(format!("b{c}"), DataType::Boolean, true)); }
    Arc::new(Schema::new(f))
}

fn batch_of(schema: &SchemaRef, rows: &[Row]) -> RecordBatch {
    let mut cols: Vec<ArrayRef> = vec![];
    for c in 0..NI { cols.push(Arc::new(Int64Array::from(rows.iter().map(|r| r.i[c]).collect::<Vec<_>>()))); }
    for c in 0..NB { cols.push(Arc::new(BooleanArray::from(rows.iter().map(|r| r.b[c]).collect::<Vec<_>>()))); }
    let mut o = RecordBatchOptions::default();
    o.row_count = Some(rows.len());
    RecordBatch::try_new_with_options(Arc::clone(schema), cols, &o).unwrap()
}

fn rows_json(rows: &[Row]) -> String {
    let v: Vec<String> = rows.iter().map(|r| format!("[[{}],[{}]]", r.i.iter().map(oz).collect::<Vec<_>>().join(","), r.b.iter().map(ob).collect::<Vec<_>>().join(","))).collect();
    format!("[{}]", v.join(","))
}
fn stats_json(s: &CStats) -> String {
    let ic: Vec<String> = (0..NI).map(|c| format!("[{},{},{}]", oz(&s.imin[c]), oz(&s.imax[c]), ou(&s.inc[c]))).collect();
    let bc: Vec<String> = (0..NB).map(|c| format!("[{},{},{}]", ob(&s.bmin[c]), ob(&s.bmax[c]), ou(&s.bnc[c]))).collect();
    format!("{{\"i\":[{}],\"b\":[{}],\"rc\":{}}}", ic.join(","), bc.join(","), ou(&s.rc))
}

struct Outcome { keep: Vec<bool>, keep_c: Vec<bool>, evals: Vec<Vec<Option<bool>>>, guarantees: Vec<String>, ok: bool, why: String }

#[allow(deprecated)]
fn run_case(p: &P, st: &mut Stats, schema: &SchemaRef) -> Result<Outcome, String> {
    let expr = to_expr(p);
    let phys = logical2physical(&expr, schema);
    // row-by-row truth with the real evaluator
    let mut evals = vec![];
    for rows in &st.rows {
        let b = batch_of(schema, rows);
        let v = phys.evaluate(&b).map_err(|e| format!("row evaluation: {e}"))?;
        let a = v.into_array(rows.len()).map_err(|e| format!("row evaluation: {e}"))?;
        let a = a.as_any().downcast_ref::<BooleanArray>().ok_or("predicate is not boolean")?.clone();
        evals.push((0..a.len()).map(|k| if a.is_null(k) { None } else { Some(a.value(k)) }).collect::<Vec<_>>());
    }
    let pp = PruningPredicate::try_new(Arc::clone(&phys), Arc::clone(schema)).map_err(|e| format!("try_new: {e}"))?;
    st.use_contained = false;
    let keep = pp.prune(st).map_err(|e| format!("prune: {e}"))?;
    st.use_contained = true;
    let keep_c = pp.prune(st).map_err(|e| format!("prune(contained): {e}"))?;
    let mut ok = true;
    let mut why = String::new();
    if keep.len() != st.rows.len() || keep_c.len() != st.rows.len() {
        return Err(format!("prune returned {} flags for {} containers", keep.len(), st.rows.len()));
    }
    for (j, ev) in evals.iter().enumerate() {
        let has_true = ev.iter().any(|x| *x == Some(true));
        if !keep[j] && has_true { ok = false; why = format!("container {j} skipped (min/max pass) but a row is TRUE"); }
        if !keep_c[j] && has_true && ok { ok = false; why = format!("container {j} skipped (with contained answers) but a row is TRUE"); }
    }
    // literal guarantees hold on every row for which the predicate is TRUE
    let gs = LiteralGuarantee::analyze(&phys);
    for g in &gs {
        let Some((is_int, n)) = col_kind(&g.column.name) else { continue };
        for (j, rows) in st.rows.iter().enumerate() {
            for (k, r) in rows.iter().enumerate() {
                if evals[j][k] != Some(true) { continue; }
                let v = if is_int { ScalarValue::Int64(r.i[n]) } else { ScalarValue::Boolean(r.b[n]) };
                let holds = match g.guarantee {
                    Guarantee::In => !v.is_null() && g.literals.contains(&v),
                    Guarantee::NotIn => !g.literals.contains(&v),
                };
                if !holds && ok { ok = false; why = format!("literal guarantee `{g}` violated by container {j} row {k} where the predicate is TRUE"); }
            }
        }
    }
    Ok(Outcome { keep, keep_c, evals, guarantees: gs.iter().map(|g| format!("{g}")).collect(), ok, why })
}

fn main() {
    std::panic::set_hook(Box::new(|_| {}));
    let args: Vec<String> = std::env::args().collect();
    let seed: u64 = arg(&args, "--seed", "1").parse().unwrap();
    let n: usize = arg(&args, "--n", "300").parse().unwrap();
    let mut rng = Rng::new(seed);
    let schema = schema();
    // systematic sweep (runs first): one bare comparison per (wrapper nesting, operator, literal).
    // Every rewrite step must keep or flip the comparison consistently; containers are drawn as usual.
    let mut fixed: Vec<P> = vec![];
    for ws in [&[0u8][..], &[1], &[2], &[0, 1], &[0, 2], &[1, 0], &[2, 0], &[0, 1, 0], &[0, 0], &[0, 0, 1], &[1, 0, 2]] {
        for o in OPS {
            for l in [-1i64, 0, 2] {
                fixed.push(P::Wrap(*o, ((l + 1) as usize) % NI, ws.to_vec(), l));
            }
        }
    }
    let sweep = fixed.len().min(n / 2);
    for case in 0..n {
        let extras = case % 5 == 4;
        let depth = rng.below(5) as u32;
        let p = if case < sweep { fixed[(case * fixed.len()) / sweep.max(1)].clone() } else { gen_pred(&mut rng, depth, extras) };
        let mut nc = 1 + rng.below(5) as usize;
        let mut rows: Vec<Vec<Row>> = (0..nc).map(|_| gen_container(&mut rng)).collect();
        let mut cs: Vec<CStats> = rows.iter().map(|r| gen_stats(&mut rng, r)).collect();
        let mut p = p;
        if case == 0 {
            // corpus: witness of the listed known finding (negation of i64::MIN wraps in evaluation but not in pruning)
            p = P::Wrap(Op::Lt, 0, vec![0], 0);
            nc = 1;
            rows = vec![vec![Row { i: vec![Some(i64::MIN), Some(1)], b: vec![None, None] }]];
            cs = vec![CStats { imin: vec![Some(i64::MIN), Some(1)], imax: vec![Some(i64::MIN), Some(1)], inc: vec![Some(0), Some(0)],
                               bmin: vec![None, None], bmax: vec![None, None], bnc: vec![Some(1), Some(1)], rc: Some(1) }];
        }
        let contained_mode: Vec<(u8, bool)> = (0..nc).map(|_| (if rng.chance(1, 4) { 1 } else { 0 }, rng.chance(1, 2))).collect();
        let mut st = Stats { cs, rows, use_contained: false, contained_mode, none_when_all_unknown: rng.chance(1, 2) };
        let res = catch_unwind(AssertUnwindSafe(|| run_case(&p, &mut st, &schema)));
        let conts = |o: Option<&Outcome>| -> String {
            let v: Vec<String> = (0..nc).map(|j| {
                let mut s = format!("{{\"rows\":{},\"stats\":{}", rows_json(&st.rows[j]), stats_json(&st.cs[j]));
                if let Some(o) = o {
                    let ev: Vec<&str> = o.evals[j].iter().map(|e| match e { Some(true) => "\"T\"", Some(false) => "\"F\"", None => "\"N\"" }).collect();
                    s.push_str(&format!(",\"keep\":{},\"keep_c\":{},\"evals\":[{}]", o.keep[j], o.keep_c[j], ev.join(",")));
                }
                s.push('}');
                s
            }).collect();
            format!("[{}]", v.join(","))
        };
        let head = format!("{{\"k\":\"prune\",\"case\":{case},\"modelled\":{},\"pred\":{},\"sql\":{}", modelled(&p), p_json(&p), json_str(&format!("{}", to_expr(&p))));
        match res {
            Ok(Ok(o)) => println!("{head},\"containers\":{},\"guarantees\":[{}],\"ok\":{},\"why\":{}}}", conts(Some(&o)),
                                  o.guarantees.iter().map(|g| json_str(g)).collect::<Vec<_>>().join(","), o.ok, json_str(&o.why)),
            Ok(Err(e)) => println!("{head},\"containers\":{},\"error\":{},\"ok\":true,\"why\":\"\"}}", conts(None), json_str(&e)),
            Err(e) => {
                let msg = e.downcast_ref::<String>().cloned().or_else(|| e.downcast_ref::<&str>().map(|s| s.to_string())).unwrap_or_default();
                println!("{head},\"containers\":{},\"panic\":{},\"ok\":false,\"why\":\"panic\"}}", conts(None), json_str(&msg));
            }
        }
    }
}
