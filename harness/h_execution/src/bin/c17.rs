//! C17: memory pool accounting is exact and limits are enforced.
//!
//! Drives the REAL pools of datafusion-execution (UnboundedMemoryPool, GreedyMemoryPool, FairSpillPool and
//! the wrappers TrackConsumersPool / PeakRecordingPool, nested) through the public MemoryConsumer /
//! MemoryReservation API with random operation histories over small limits (so refusals are frequent).
//!
//!   k="seq"  : one sequential history; after EVERY call the outcome, size() of every live reservation,
//!              pool.reserved(), metrics() of every tracking layer and (peak_reserved, max_reserved) of
//!              every recording layer are printed (the Coq model must reproduce them exactly), and
//!              `ok` = the property predicates P1..P8 evaluated directly on those outputs.
//!   k="conc" : 2..3 OS threads hammer shared and private reservations; the predicates are checked at
//!              every quiescent point (barrier) and at the end; Greedy's bound is checked after every call.
//!   k="race" : informational, deterministic: two threads share ONE spillable reservation of a FairSpillPool
//!              and are held (by a forwarding wrapper pool) between `pool.try_grow` and `size.fetch_add`.
use std::collections::BTreeMap;
use std::fmt::{Display, Formatter};
use std::num::NonZeroUsize;
use std::panic::{catch_unwind, AssertUnwindSafe};
use std::sync::atomic::{AtomicBool, AtomicUsize, Ordering};
use std::sync::{Arc, Barrier, Mutex};

use datafusion_common::Result;
use datafusion_execution::memory_pool::{
    FairSpillPool, GreedyMemoryPool, MemoryConsumer, MemoryConsumerMetrics, MemoryLimit, MemoryPool,
    MemoryReservation, PeakRecordingPool, TrackConsumersPool, UnboundedMemoryPool,
};
use h_util::{arg, Rng};

// ------------------------------------------------------------------ pool configurations
#[derive(Clone, Debug)]
enum Cfg {
    Unbounded,
    Greedy(usize),
    Fair(usize),
    Track(Box<Cfg>),
    Peak(Box<Cfg>),
}
impl Cfg {
    fn json(&self) -> String {
        match self {
            Cfg::Unbounded => "[\"unbounded\"]".into(),
            Cfg::Greedy(l) => format!("[\"greedy\",{l}]"),
            Cfg::Fair(l) => format!("[\"fair\",{l}]"),
            Cfg::Track(i) => format!("[\"track\",{}]", i.json()),
            Cfg::Peak(i) => format!("[\"peak\",{}]", i.json()),
        }
    }
    fn base(&self) -> &Cfg {
        match self {
            Cfg::Track(i) | Cfg::Peak(i) => i.base(),
            _ => self,
        }
    }
}

/// Pure forwarder so that TrackConsumersPool<I> can wrap an arbitrary already-built pool.
#[derive(Debug)]
struct DynPool(Arc<dyn MemoryPool>);
impl Display for DynPool {
    fn fmt(&self, f: &mut Formatter<'_>) -> std::fmt::Result {
        Display::fmt(&self.0, f)
    }
}
impl MemoryPool for DynPool {
    fn name(&self) -> &str {
        self.0.name()
    }
    fn register(&self, c: &MemoryConsumer) {
        self.0.register(c)
    }
    fn unregister(&self, c: &MemoryConsumer) {
        self.0.unregister(c)
    }
    fn grow(&self, r: &MemoryReservation, n: usize) {
        self.0.grow(r, n)
    }
    fn shrink(&self, r: &MemoryReservation, n: usize) {
        self.0.shrink(r, n)
    }
    fn try_grow(&self, r: &MemoryReservation, n: usize) -> Result<()> {
        self.0.try_grow(r, n)
    }
    fn reserved(&self) -> usize {
        self.0.reserved()
    }
    fn memory_limit(&self) -> MemoryLimit {
        self.0.memory_limit()
    }
}

type MetricsFn = Box<dyn Fn() -> Vec<MemoryConsumerMetrics> + Send + Sync>;
type PeaksFn = Box<dyn Fn() -> (usize, usize) + Send + Sync>;
type ResetFn = Box<dyn Fn() + Send + Sync>;

struct Built {
    pool: Arc<dyn MemoryPool>,
    metrics: Vec<MetricsFn>, // outermost layer first
    peaks: Vec<PeaksFn>,
    resets: Vec<ResetFn>,
}

fn track_of<I: MemoryPool>(inner: I, mut b: Built) -> Built {
    let t = Arc::new(TrackConsumersPool::new(inner, NonZeroUsize::new(3).unwrap()));
    let t2 = Arc::clone(&t);
    b.metrics.insert(0, Box::new(move || t2.metrics()));
    b.pool = t;
    b
}

fn build(cfg: &Cfg) -> Built {
    let empty = |pool: Arc<dyn MemoryPool>| Built { pool, metrics: vec![], peaks: vec![], resets: vec![] };
    match cfg {
        Cfg::Unbounded => empty(Arc::new(UnboundedMemoryPool::default())),
        Cfg::Greedy(l) => empty(Arc::new(GreedyMemoryPool::new(*l))),
        Cfg::Fair(l) => empty(Arc::new(FairSpillPool::new(*l))),
        Cfg::Peak(inner) => {
            let mut b = build(inner);
            let p = Arc::new(PeakRecordingPool::new(Arc::clone(&b.pool)));
            let p2 = Arc::clone(&p);
            b.peaks.insert(0, Box::new(move || (p2.peak_reserved(), p2.max_reserved())));
            let p3 = Arc::clone(&p);
            b.resets.insert(0, Box::new(move || p3.reset_peak()));
            b.pool = p;
            b
        }
        Cfg::Track(inner) => {
            let dummy: Arc<dyn MemoryPool> = Arc::new(UnboundedMemoryPool::default());
            match &**inner {
                // the concrete generic instantiations used in practice
                Cfg::Unbounded => track_of(UnboundedMemoryPool::default(), empty(dummy)),
                Cfg::Greedy(l) => track_of(GreedyMemoryPool::new(*l), empty(dummy)),
                Cfg::Fair(l) => track_of(FairSpillPool::new(*l), empty(dummy)),
                _ => {
                    let b = build(inner);
                    let fwd = DynPool(Arc::clone(&b.pool));
                    track_of(fwd, b)
                }
            }
        }
    }
}

fn random_cfg(rng: &mut Rng) -> Cfg {
    let lim = |rng: &mut Rng| -> usize {
        match rng.below(10) {
            0 => 0,
            1 => 1,
            2 => rng.below(8) as usize,
            _ => 8 + rng.below(57) as usize,
        }
    };
    let base = match rng.below(7) {
        0 => Cfg::Unbounded,
        1 | 2 | 3 => Cfg::Greedy(lim(rng)),
        _ => Cfg::Fair(lim(rng)),
    };
    let t = |c: Cfg| Cfg::Track(Box::new(c));
    let p = |c: Cfg| Cfg::Peak(Box::new(c));
    match rng.below(16) {
        0 | 1 | 2 | 3 => base,
        4 | 5 | 6 => t(base),
        7 | 8 | 9 => p(base),
        10 | 11 => p(t(base)),
        12 | 13 => t(p(base)),
        14 => t(t(base)),
        _ => p(p(t(base))),
    }
}

// ------------------------------------------------------------------ operations
#[derive(Clone, Debug)]
enum Op {
    Reg(bool),
    TryGrow(usize, usize),
    Grow(usize, usize),
    Shrink(usize, usize),
    TryShrink(usize, usize),
    Resize(usize, usize),
    TryResize(usize, usize),
    Free(usize),
    Split(usize, usize),
    Take(usize),
    NewEmpty(usize),
    Drop(usize),
    Reset,
}
impl Op {
    fn json(&self) -> String {
        match self {
            Op::Reg(s) => format!("[\"reg\",{}]", *s as u8),
            Op::TryGrow(r, n) => format!("[\"tg\",{r},{n}]"),
            Op::Grow(r, n) => format!("[\"g\",{r},{n}]"),
            Op::Shrink(r, n) => format!("[\"sh\",{r},{n}]"),
            Op::TryShrink(r, n) => format!("[\"tsh\",{r},{n}]"),
            Op::Resize(r, n) => format!("[\"rs\",{r},{n}]"),
            Op::TryResize(r, n) => format!("[\"trs\",{r},{n}]"),
            Op::Free(r) => format!("[\"free\",{r}]"),
            Op::Split(r, n) => format!("[\"split\",{r},{n}]"),
            Op::Take(r) => format!("[\"take\",{r}]"),
            Op::NewEmpty(r) => format!("[\"ne\",{r}]"),
            Op::Drop(r) => format!("[\"drop\",{r}]"),
            Op::Reset => "[\"reset\"]".into(),
        }
    }
    fn target(&self) -> Option<usize> {
        match self {
            Op::TryGrow(r, _) | Op::Grow(r, _) | Op::Shrink(r, _) | Op::TryShrink(r, _) | Op::Resize(r, _)
            | Op::TryResize(r, _) | Op::Free(r) | Op::Split(r, _) | Op::Take(r) | Op::NewEmpty(r) | Op::Drop(r) => Some(*r),
            _ => None,
        }
    }
}

#[derive(Clone, Debug, PartialEq)]
enum Out {
    Done,
    DoneN(usize),
    New(usize),
    Err,
    Panic,
    NoSuch,
}
impl Out {
    fn json(&self) -> String {
        match self {
            Out::Done => "\"o\":\"done\"".into(),
            Out::DoneN(v) => format!("\"o\":\"donen\",\"v\":{v}"),
            Out::New(v) => format!("\"o\":\"new\",\"v\":{v}"),
            Out::Err => "\"o\":\"err\"".into(),
            Out::Panic => "\"o\":\"panic\"".into(),
            Out::NoSuch => "\"o\":\"nosuch\"".into(),
        }
    }
    fn failed(&self) -> bool {
        matches!(self, Out::Err | Out::Panic | Out::NoSuch)
    }
}

#[derive(Clone, Debug, PartialEq)]
struct Snap {
    sizes: Vec<(usize, usize)>,             // (rid, size()) of every live reservation
    reserved: usize,                        // pool.reserved()
    metrics: Vec<Vec<(usize, usize, usize)>>, // per tracking layer: (cid, reserved, peak) sorted by cid
    peaks: Vec<(usize, usize)>,             // per recording layer: (peak_reserved, max_reserved)
}
impl Snap {
    fn json(&self) -> String {
        let sz: Vec<String> = self.sizes.iter().map(|(a, b)| format!("[{a},{b}]")).collect();
        let met: Vec<String> = self
            .metrics
            .iter()
            .map(|l| {
                let e: Vec<String> = l.iter().map(|(a, b, c)| format!("[{a},{b},{c}]")).collect();
                format!("[{}]", e.join(","))
            })
            .collect();
        let pk: Vec<String> = self.peaks.iter().map(|(a, b)| format!("[{a},{b}]")).collect();
        format!("\"sz\":[{}],\"res\":{},\"met\":[{}],\"pk\":[{}]", sz.join(","), self.reserved, met.join(","), pk.join(","))
    }
}

fn cid_of_name(name: &str) -> usize {
    name.trim_start_matches('c').parse().unwrap_or(usize::MAX)
}

fn read_metrics(b: &Built) -> Vec<Vec<(usize, usize, usize)>> {
    b.metrics
        .iter()
        .map(|f| {
            let mut v: Vec<(usize, usize, usize)> = f().iter().map(|m| (cid_of_name(&m.name), m.reserved, m.peak)).collect();
            v.sort();
            v
        })
        .collect()
}

struct Seq {
    b: Built,
    resv: Vec<Option<MemoryReservation>>, // index = rid
    cid_of: Vec<usize>,                   // rid -> cid
    spill_of: Vec<bool>,                  // cid -> can_spill
}

impl Seq {
    fn live(&self) -> Vec<usize> {
        (0..self.resv.len()).filter(|i| self.resv[*i].is_some()).collect()
    }
    fn snap(&self) -> Snap {
        Snap {
            sizes: self.live().iter().map(|i| (*i, self.resv[*i].as_ref().unwrap().size())).collect(),
            reserved: self.b.pool.reserved(),
            metrics: read_metrics(&self.b),
            peaks: self.b.peaks.iter().map(|f| f()).collect(),
        }
    }
    fn push_new(&mut self, r: MemoryReservation, cid: usize) -> usize {
        self.resv.push(Some(r));
        self.cid_of.push(cid);
        self.resv.len() - 1
    }
    fn apply(&mut self, op: &Op) -> Out {
        if let Some(rid) = op.target() {
            if rid >= self.resv.len() || self.resv[rid].is_none() {
                return Out::NoSuch;
            }
        }
        match op {
            Op::Reg(spill) => {
                let cid = self.spill_of.len();
                self.spill_of.push(*spill);
                let pool = Arc::clone(&self.b.pool);
                let r = MemoryConsumer::new(format!("c{cid}")).with_can_spill(*spill).register(&pool);
                Out::New(self.push_new(r, cid))
            }
            Op::Reset => {
                for f in &self.b.resets {
                    f();
                }
                Out::Done
            }
            Op::Drop(rid) => {
                let r = self.resv[*rid].take();
                match catch_unwind(AssertUnwindSafe(move || drop(r))) {
                    Ok(()) => Out::Done,
                    Err(_) => Out::Panic,
                }
            }
            Op::Take(rid) => {
                let cid = self.cid_of[*rid];
                let slot = self.resv[*rid].as_mut().unwrap();
                match catch_unwind(AssertUnwindSafe(|| slot.take())) {
                    Ok(n) => Out::New(self.push_new(n, cid)),
                    Err(_) => Out::Panic,
                }
            }
            Op::Split(rid, n) => {
                let cid = self.cid_of[*rid];
                let r = self.resv[*rid].as_ref().unwrap();
                match catch_unwind(AssertUnwindSafe(|| r.split(*n))) {
                    Ok(x) => Out::New(self.push_new(x, cid)),
                    Err(_) => Out::Panic,
                }
            }
            Op::NewEmpty(rid) => {
                let cid = self.cid_of[*rid];
                let r = self.resv[*rid].as_ref().unwrap();
                match catch_unwind(AssertUnwindSafe(|| r.new_empty())) {
                    Ok(x) => Out::New(self.push_new(x, cid)),
                    Err(_) => Out::Panic,
                }
            }
            _ => {
                let rid = op.target().unwrap();
                let r = self.resv[rid].as_ref().unwrap();
                let res = catch_unwind(AssertUnwindSafe(|| match op {
                    Op::TryGrow(_, n) => match r.try_grow(*n) {
                        Ok(()) => Out::Done,
                        Err(_) => Out::Err,
                    },
                    Op::Grow(_, n) => {
                        r.grow(*n);
                        Out::Done
                    }
                    Op::Shrink(_, n) => {
                        r.shrink(*n);
                        Out::Done
                    }
                    Op::TryShrink(_, n) => match r.try_shrink(*n) {
                        Ok(v) => Out::DoneN(v),
                        Err(_) => Out::Err,
                    },
                    Op::Resize(_, n) => {
                        r.resize(*n);
                        Out::Done
                    }
                    Op::TryResize(_, n) => match r.try_resize(*n) {
                        Ok(()) => Out::Done,
                        Err(_) => Out::Err,
                    },
                    Op::Free(_) => Out::DoneN(r.free()),
                    _ => unreachable!(),
                }));
                res.unwrap_or(Out::Panic)
            }
        }
    }
}

/// Direct property oracle for one step (independent of the Coq model). Returns a description of the
/// first predicate that fails.
#[allow(clippy::too_many_arguments)]
fn oracle_step(
    cfg: &Cfg,
    op: &Op,
    out: &Out,
    before: &Snap,
    after: &Snap,
    cid_of: &[usize],
    spill_of: &[bool],
    infallible_used: bool,
    hw_peak: usize,
    hw_max: usize,
) -> Option<String> {
    let sum: usize = after.sizes.iter().map(|x| x.1).sum();
    // P1 exact accounting
    if after.reserved != sum {
        return Some(format!("P1 reserved()={} but live reservations sum to {}", after.reserved, sum));
    }
    // P2 a failed call changes nothing
    if out.failed() && before != after {
        return Some("P2 a failed call changed the observable state".into());
    }
    let size_in = |s: &Snap, rid: usize| s.sizes.iter().find(|x| x.0 == rid).map(|x| x.1);
    let granted_fallible = match op {
        Op::TryGrow(..) => *out == Out::Done,
        Op::TryResize(r, n) => *out == Out::Done && size_in(before, *r).map(|z| *n > z).unwrap_or(false),
        _ => false,
    };
    match cfg.base() {
        Cfg::Greedy(l) => {
            // P3 a granted fallible growth never takes the pool beyond its limit; with fallible growth only, never beyond
            if granted_fallible && after.reserved > *l {
                return Some(format!("P3 granted fallible growth left reserved()={} > limit {}", after.reserved, l));
            }
            if !infallible_used && after.reserved > *l {
                return Some(format!("P3 reserved()={} > limit {} although only fallible growth was used", after.reserved, l));
            }
        }
        Cfg::Fair(l) => {
            if granted_fallible {
                let rid = op.target().unwrap();
                let spill = spill_of[cid_of[rid]];
                if spill {
                    // P4 fair share: (pool_size - unspillable) / number of registered spillable consumers
                    let unsp: usize = after.sizes.iter().filter(|x| !spill_of[cid_of[x.0]]).map(|x| x.1).sum();
                    let mut cs: Vec<usize> = after.sizes.iter().map(|x| cid_of[x.0]).filter(|c| spill_of[*c]).collect();
                    cs.sort();
                    cs.dedup();
                    let share = l.saturating_sub(unsp) / cs.len().max(1);
                    let z = size_in(after, rid).unwrap();
                    if z > share {
                        return Some(format!("P4 granted fallible growth left spillable reservation at {z} > fair share {share}"));
                    }
                } else if size_in(after, rid) > size_in(before, rid) && after.reserved > *l {
                    // (a granted growth of 0 bytes grants nothing: FairSpillPool answers Ok when already over the limit)
                    return Some(format!("P4 granted unspillable growth left reserved()={} > limit {}", after.reserved, l));
                }
            }
        }
        _ => {}
    }
    // P5 consumer tracking
    let mut per: BTreeMap<usize, usize> = BTreeMap::new();
    for (rid, z) in &after.sizes {
        *per.entry(cid_of[*rid]).or_insert(0) += *z;
    }
    for layer in &after.metrics {
        let want: Vec<usize> = per.keys().copied().collect();
        let got: Vec<usize> = layer.iter().map(|x| x.0).collect();
        if want != got {
            return Some(format!("P5 tracked consumers {got:?} but live consumers are {want:?}"));
        }
        for (cid, res, peak) in layer {
            if *res != per[cid] {
                return Some(format!("P5 consumer {cid} reports {res} but its reservations hold {}", per[cid]));
            }
            if peak < res {
                return Some(format!("P5 consumer {cid} peak {peak} < reserved {res}"));
            }
        }
    }
    // P6 peak recording: maximum total since the last reset / since creation
    for (pk, mx) in &after.peaks {
        if *pk != hw_peak || *mx != hw_max {
            return Some(format!("P6 recorder reports (peak {pk}, max {mx}) but the maxima of reserved() are ({hw_peak}, {hw_max})"));
        }
    }
    // P7 free / drop give back exactly the reservation's bytes
    match op {
        Op::Free(r) if !out.failed() => {
            let z = size_in(before, *r).unwrap();
            if *out != Out::DoneN(z) || size_in(after, *r) != Some(0) || after.reserved + z != before.reserved {
                return Some(format!("P7 free of a {z}-byte reservation: out={out:?} reserved {} -> {}", before.reserved, after.reserved));
            }
        }
        Op::Drop(r) if !out.failed() => {
            let z = size_in(before, *r).unwrap();
            if size_in(after, *r).is_some() || after.reserved + z != before.reserved {
                return Some(format!("P7 drop of a {z}-byte reservation: reserved {} -> {}", before.reserved, after.reserved));
            }
        }
        _ => {}
    }
    None
}

fn pick_n(rng: &mut Rng, lim: usize, reserved: usize, size: usize) -> usize {
    match rng.below(12) {
        0 => 0,
        1 => 1,
        2 => lim.saturating_sub(reserved),
        3 => lim.saturating_sub(reserved) + 1,
        4 => size,
        5 => size + 1,
        6 => size / 2,
        7 => lim / 2,
        8 => lim,
        _ => rng.below(lim as u64 / 2 + 3) as usize,
    }
}

fn gen_op(rng: &mut Rng, s: &Seq, lim: usize, allow_infallible: bool) -> Op {
    let live = s.live();
    if live.is_empty() || (s.spill_of.len() < 3 && live.len() < 6 && rng.chance(1, 8)) {
        return Op::Reg(rng.chance(1, 2));
    }
    let rid = if rng.chance(1, 14) { rng.below(s.resv.len() as u64 + 1) as usize } else { *rng.pick(&live) };
    let size = s.resv.get(rid).and_then(|r| r.as_ref()).map(|r| r.size()).unwrap_or(0);
    let reserved = s.b.pool.reserved();
    let n = pick_n(rng, lim, reserved, size);
    let many = live.len() >= 6;
    loop {
        let op = match rng.below(40) {
            0..=11 => Op::TryGrow(rid, n),
            12..=13 => Op::Grow(rid, n),
            14..=16 => Op::Shrink(rid, n.min(size + 1)),
            17..=19 => Op::TryShrink(rid, n.min(size + 2)),
            20..=21 => Op::Resize(rid, n),
            22..=24 => Op::TryResize(rid, n),
            25..=26 => Op::Free(rid),
            27..=29 => Op::Split(rid, n.min(size + 1)),
            30..=31 => Op::Take(rid),
            32 => Op::NewEmpty(rid),
            33..=36 => Op::Drop(rid),
            37 => Op::Reset,
            _ => Op::TryGrow(rid, rng.below(4) as usize),
        };
        let infallible = matches!(op, Op::Grow(..) | Op::Resize(..));
        let creates = matches!(op, Op::Split(..) | Op::Take(..) | Op::NewEmpty(..));
        if (infallible && !allow_infallible) || (creates && many) {
            continue;
        }
        return op;
    }
}

fn run_seq(rng: &mut Rng, idx: usize) {
    let cfg = random_cfg(rng);
    let lim = match cfg.base() {
        Cfg::Greedy(l) | Cfg::Fair(l) => *l,
        _ => 40,
    };
    // half of the histories never use grow()/resize(), so that the "fallible growth only" bound is exercised
    let allow_infallible = rng.chance(1, 2);
    let nops = 8 + rng.below(30) as usize;
    let mut s = Seq { b: build(&cfg), resv: vec![], cid_of: vec![], spill_of: vec![] };
    let mut ops: Vec<String> = vec![];
    let mut obs: Vec<String> = vec![];
    let mut bad: Option<String> = None;
    let mut infallible_used = false;
    let (mut hw_peak, mut hw_max) = (0usize, 0usize);
    let mut before = s.snap();
    let mut i = 0;
    loop {
        let op = if i < nops {
            gen_op(rng, &s, lim, allow_infallible)
        } else {
            // finally drop everything that is still alive
            match s.live().first() {
                Some(r) => Op::Drop(*r),
                None => break,
            }
        };
        i += 1;
        let out = s.apply(&op);
        let after = s.snap();
        if matches!(op, Op::Grow(..) | Op::Resize(..)) {
            infallible_used = true;
        }
        hw_max = hw_max.max(after.reserved);
        hw_peak = if matches!(op, Op::Reset) { after.reserved } else { hw_peak.max(after.reserved) };
        if bad.is_none() {
            if let Some(w) = oracle_step(&cfg, &op, &out, &before, &after, &s.cid_of, &s.spill_of, infallible_used, hw_peak, hw_max) {
                bad = Some(format!("after op #{} {}: {}", ops.len(), op.json(), w));
            }
        }
        ops.push(op.json());
        obs.push(format!("{{{},{}}}", out.json(), after.json()));
        before = after;
    }
    // P8 zero once everything is dropped
    if bad.is_none() && (before.reserved != 0 || before.metrics.iter().any(|l| !l.is_empty())) {
        bad = Some(format!("P8 all reservations dropped but reserved()={} metrics={:?}", before.reserved, before.metrics));
    }
    println!(
        "{{\"k\":\"seq\",\"i\":{idx},\"cfg\":{},\"ops\":[{}],\"obs\":[{}],\"ok\":{},\"bad\":{}}}",
        cfg.json(),
        ops.join(","),
        obs.join(","),
        bad.is_none(),
        h_util::json_str(bad.as_deref().unwrap_or(""))
    );
}

// ------------------------------------------------------------------ threads
fn run_conc(rng: &mut Rng, idx: usize) {
    let lim = 16 + rng.below(200) as usize;
    let base = match rng.below(5) {
        0 => Cfg::Unbounded,
        1 | 2 => Cfg::Greedy(lim),
        _ => Cfg::Fair(lim),
    };
    let cfg = match rng.below(5) {
        0 => base,
        1 => Cfg::Track(Box::new(base)),
        2 => Cfg::Peak(Box::new(base)),
        3 => Cfg::Peak(Box::new(Cfg::Track(Box::new(base)))),
        _ => Cfg::Track(Box::new(Cfg::Peak(Box::new(base)))),
    };
    let nthreads = 2 + rng.below(2) as usize;
    let rounds = 4 + rng.below(5) as usize;
    let per_round = 40 + rng.below(200) as usize;
    let fallible_only = rng.chance(2, 3);
    let b = Arc::new(build(&cfg));
    // shared reservations (used concurrently through &MemoryReservation) and their consumers
    let nshared = 1 + rng.below(3) as usize;
    let mut spill_of: Vec<bool> = vec![];
    let mut shared: Vec<(usize, MemoryReservation)> = vec![];
    for _ in 0..nshared {
        let cid = spill_of.len();
        spill_of.push(rng.chance(1, 2));
        shared.push((cid, MemoryConsumer::new(format!("c{cid}")).with_can_spill(spill_of[cid]).register(&b.pool)));
    }
    let shared = Arc::new(shared);
    // private reservations: one consumer per thread, the thread splits / drops them freely
    let mut privs: Vec<Arc<Mutex<Vec<MemoryReservation>>>> = vec![];
    let mut priv_cid: Vec<usize> = vec![];
    for _ in 0..nthreads {
        let cid = spill_of.len();
        spill_of.push(rng.chance(1, 2));
        priv_cid.push(cid);
        let r = MemoryConsumer::new(format!("c{cid}")).with_can_spill(spill_of[cid]).register(&b.pool);
        privs.push(Arc::new(Mutex::new(vec![r])));
    }
    let barrier = Arc::new(Barrier::new(nthreads));
    let bad: Arc<Mutex<Option<String>>> = Arc::new(Mutex::new(None));
    let calls = Arc::new(AtomicUsize::new(0));
    let refused = Arc::new(AtomicUsize::new(0));
    let quiescent = Arc::new(AtomicUsize::new(0));
    let greedy_lim = match cfg.base() {
        Cfg::Greedy(l) if fallible_only => Some(*l),
        _ => None,
    };
    let seeds: Vec<u64> = (0..nthreads).map(|_| rng.next()).collect();
    let qmax = Arc::new(AtomicUsize::new(0));
    let mut handles = vec![];
    for t in 0..nthreads {
        let (b, shared, privs, barrier, bad, calls, refused, quiescent, qmax) = (
            Arc::clone(&b),
            Arc::clone(&shared),
            privs.clone(),
            Arc::clone(&barrier),
            Arc::clone(&bad),
            Arc::clone(&calls),
            Arc::clone(&refused),
            Arc::clone(&quiescent),
            Arc::clone(&qmax),
        );
        let spill_of = spill_of.clone();
        let priv_cid = priv_cid.clone();
        let seed = seeds[t];
        handles.push(std::thread::spawn(move || {
            let mut rng = Rng::new(seed);
            let fail = |w: String| {
                let mut g = bad.lock().unwrap();
                if g.is_none() {
                    *g = Some(w);
                }
            };
            for round in 0..rounds {
                let r = catch_unwind(AssertUnwindSafe(|| {
                    let mut mine = privs[t].lock().unwrap();
                    for _ in 0..per_round {
                        calls.fetch_add(1, Ordering::Relaxed);
                        let n = rng.below(lim as u64 / 3 + 2) as usize;
                        let use_shared = rng.chance(1, 2);
                        let k = rng.below(if use_shared { 6 } else { 10 });
                        let r: &MemoryReservation = if use_shared {
                            &shared[rng.below(shared.len() as u64) as usize].1
                        } else {
                            let i = rng.below(mine.len() as u64) as usize;
                            &mine[i]
                        };
                        match k {
                            0 | 1 | 2 => {
                                if r.try_grow(n).is_err() {
                                    refused.fetch_add(1, Ordering::Relaxed);
                                }
                            }
                            3 => {
                                let _ = r.try_shrink(n);
                            }
                            4 => {
                                if fallible_only {
                                    let _ = r.try_shrink(n / 2);
                                } else {
                                    r.grow(n / 2);
                                }
                            }
                            5 => {
                                r.free();
                            }
                            6 => {
                                // split what is certainly there (private reservations are only touched by this thread)
                                let z = r.size();
                                let x = r.split(z / 2);
                                if mine.len() < 5 {
                                    mine.push(x);
                                }
                            }
                            7 => {
                                let x = r.new_empty();
                                if mine.len() < 5 {
                                    mine.push(x);
                                }
                            }
                            8 => {
                                if mine.len() > 1 {
                                    let i = rng.below(mine.len() as u64) as usize;
                                    drop(mine.swap_remove(i));
                                }
                            }
                            _ => {
                                let i = rng.below(mine.len() as u64) as usize;
                                let x = mine[i].take();
                                if mine.len() < 5 {
                                    mine.push(x);
                                }
                            }
                        }
                        if let Some(l) = greedy_lim {
                            let now = b.pool.reserved();
                            if now > l {
                                fail(format!("P3 (threads) reserved()={now} > limit {l} with fallible growth only"));
                            }
                        }
                    }
                }));
                if r.is_err() {
                    fail(format!("panic in thread {t} round {round}"));
                }
                barrier.wait();
                if t == 0 {
                    // quiescent point: nobody is inside a call
                    quiescent.fetch_add(1, Ordering::Relaxed);
                    let mut per: BTreeMap<usize, usize> = BTreeMap::new();
                    for (cid, r) in shared.iter() {
                        *per.entry(*cid).or_insert(0) += r.size();
                    }
                    for (u, p) in privs.iter().enumerate() {
                        for r in p.lock().unwrap().iter() {
                            *per.entry(priv_cid[u]).or_insert(0) += r.size();
                        }
                    }
                    let sum: usize = per.values().sum();
                    let reserved = b.pool.reserved();
                    qmax.fetch_max(reserved, Ordering::Relaxed);
                    if reserved != sum {
                        fail(format!("P1 (threads, quiescent after round {round}) reserved()={reserved} but live reservations sum to {sum}"));
                    }
                    for layer in read_metrics(&b) {
                        let got: Vec<usize> = layer.iter().map(|x| x.0).collect();
                        let want: Vec<usize> = per.keys().copied().collect();
                        if got != want {
                            fail(format!("P5 (threads) tracked consumers {got:?}, live {want:?}"));
                        }
                        for (cid, res, peak) in layer {
                            if per.get(&cid) != Some(&res) || peak < res {
                                fail(format!("P5 (threads) consumer {cid} reports reserved {res} peak {peak}, holds {:?}", per.get(&cid)));
                            }
                        }
                    }
                    for f in &b.peaks {
                        let (pk, mx) = f();
                        if pk < reserved || mx < pk || mx < qmax.load(Ordering::Relaxed) {
                            fail(format!("P6 (threads) recorder (peak {pk}, max {mx}) with reserved()={reserved}, largest quiescent total {}", qmax.load(Ordering::Relaxed)));
                        }
                    }
                    let _ = &spill_of;
                }
                barrier.wait();
            }
        }));
    }
    for h in handles {
        let _ = h.join();
    }
    // drop everything: zero once all are dropped
    for p in &privs {
        p.lock().unwrap().clear();
    }
    drop(shared);
    let fin = b.pool.reserved();
    let leftover: usize = read_metrics(&b).iter().map(|l| l.len()).sum();
    let mut bad = bad.lock().unwrap().clone();
    if bad.is_none() && (fin != 0 || leftover != 0) {
        bad = Some(format!("P8 (threads) everything dropped but reserved()={fin}, {leftover} tracked consumers left"));
    }
    println!(
        "{{\"k\":\"conc\",\"i\":{idx},\"cfg\":{},\"threads\":{nthreads},\"rounds\":{rounds},\"calls\":{},\"refused\":{},\"quiescent_checks\":{},\"fallible_only\":{fallible_only},\"final_reserved\":{fin},\"ok\":{},\"bad\":{}}}",
        cfg.json(),
        calls.load(Ordering::Relaxed),
        refused.load(Ordering::Relaxed),
        quiescent.load(Ordering::Relaxed),
        bad.is_none(),
        h_util::json_str(bad.as_deref().unwrap_or(""))
    );
}

// ------------------------------------------------------------------ deterministic share race (informational)
/// Forwards to a FairSpillPool; when armed, holds the caller after `inner.try_grow` has returned, i.e.
/// exactly between the two atomic steps of MemoryReservation::try_grow (pool call ; size.fetch_add).
#[derive(Debug)]
struct GatePool {
    inner: Arc<dyn MemoryPool>,
    armed: AtomicBool,
    gate: Barrier,
}
impl Display for GatePool {
    fn fmt(&self, f: &mut Formatter<'_>) -> std::fmt::Result {
        Display::fmt(&self.inner, f)
    }
}
impl MemoryPool for GatePool {
    fn name(&self) -> &str {
        self.inner.name()
    }
    fn register(&self, c: &MemoryConsumer) {
        self.inner.register(c)
    }
    fn unregister(&self, c: &MemoryConsumer) {
        self.inner.unregister(c)
    }
    fn grow(&self, r: &MemoryReservation, n: usize) {
        self.inner.grow(r, n)
    }
    fn shrink(&self, r: &MemoryReservation, n: usize) {
        self.inner.shrink(r, n)
    }
    fn try_grow(&self, r: &MemoryReservation, n: usize) -> Result<()> {
        let res = self.inner.try_grow(r, n);
        if self.armed.load(Ordering::SeqCst) {
            self.gate.wait();
        }
        res
    }
    fn reserved(&self) -> usize {
        self.inner.reserved()
    }
    fn memory_limit(&self) -> MemoryLimit {
        self.inner.memory_limit()
    }
}

fn run_race() {
    let lim = 100usize;
    let gate = Arc::new(GatePool { inner: Arc::new(FairSpillPool::new(lim)), armed: AtomicBool::new(true), gate: Barrier::new(2) });
    let pool: Arc<dyn MemoryPool> = Arc::clone(&gate) as _;
    let r = Arc::new(MemoryConsumer::new("c0").with_can_spill(true).register(&pool));
    let hs: Vec<_> = (0..2)
        .map(|_| {
            let r = Arc::clone(&r);
            std::thread::spawn(move || r.try_grow(100).is_ok())
        })
        .collect();
    let granted: Vec<bool> = hs.into_iter().map(|h| h.join().unwrap_or(false)).collect();
    gate.armed.store(false, Ordering::SeqCst);
    let size = r.size();
    let reserved = pool.reserved();
    println!(
        "{{\"k\":\"race\",\"cfg\":[\"fair\",{lim}],\"calls\":\"two threads: try_grow(100) on the same spillable reservation, both inside the call\",\"granted\":[{},{}],\"size\":{size},\"share\":{lim},\"reserved\":{reserved},\"exceeds\":{}}}",
        granted[0],
        granted[1],
        size > lim
    );
}

fn main() {
    std::panic::set_hook(Box::new(|_| {})); // panics are caught per call and reported as data
    let args: Vec<String> = std::env::args().collect();
    let args = &args[1..];
    let seed: u64 = arg(args, "--seed", "1").parse().unwrap();
    let n: usize = arg(args, "--n", "300").parse().unwrap();
    let nconc: usize = arg(args, "--conc", "20").parse().unwrap();
    let mut rng = Rng::new(seed);
    for i in 0..n {
        run_seq(&mut rng, i);
    }
    for i in 0..nconc {
        run_conc(&mut rng, i);
    }
    run_race();
}
