//! C40: file caches honour their validity rules and stay within budget.
//!
//! Drives the REAL `DefaultCache` (datafusion-execution) through its public `Cache` API with random
//! operation histories over a small key alphabet and small byte limits, in four instantiations:
//!   gen   : harness-defined key/value types with freely chosen sizes and table refs
//!   meta  : FileMetadataCache   = Cache<Path, CachedFileMetadataEntry>            (via CacheManager)
//!   stats : FileStatisticsCache = Cache<TableScopedPath, CachedFileMetadata>      (via CacheManager)
//!   list  : ListFilesCache      = Cache<TableScopedPath, CachedFileList> with TTL (via CacheManager)
//! Time is a manual `TimeProvider`.  One JSON line per history: the operations, every observable
//! output, and `ok` = the property predicates evaluated directly on those outputs (P1..P8 below).
use std::collections::{BTreeMap, HashMap};
use std::panic::{catch_unwind, AssertUnwindSafe};
use std::sync::{Arc, Mutex};
use std::time::Duration;

use arrow::datatypes::{DataType, Field, Schema};
use chrono::{DateTime, Utc};
use datafusion_common::instant::Instant;
use datafusion_common::stats::Precision;
use datafusion_common::{ColumnStatistics, Statistics, TableReference};
use datafusion_execution::cache::cache_manager::{
    CacheManager, CacheManagerConfig, CachedFileList, CachedFileMetadata, CachedFileMetadataEntry,
    FileMetadata,
};
use datafusion_execution::cache::default_cache::{DefaultCache, TimeProvider};
use datafusion_execution::cache::{Cache, CacheKey, CacheValue, SchemaFingerprint, TableScopedPath};
use h_util::{arg, Rng};
use object_store::path::Path;
use object_store::ObjectMeta;

// ------------------------------------------------------------------ manual clock
struct ManualTime {
    base: Instant,
    off_ms: Mutex<u64>,
}
impl TimeProvider for ManualTime {
    fn now(&self) -> Instant {
        self.base + Duration::from_millis(*self.off_ms.lock().unwrap())
    }
}

#[derive(Clone, Copy, PartialEq, Eq, Debug)]
struct Meta {
    fs: u64,
    mt: i64,
    sc: u64,
}
const ZERO_META: Meta = Meta { fs: 0, mt: 0, sc: 0 };

fn object_meta(path: &Path, m: Meta) -> ObjectMeta {
    ObjectMeta {
        location: path.clone(),
        last_modified: DateTime::<Utc>::from_timestamp(1_700_000_000 + m.mt, 0).unwrap(),
        size: m.fs,
        e_tag: None,
        version: None,
    }
}

// ------------------------------------------------------------------ the four instantiations
trait Kind {
    type K: CacheKey + 'static;
    type V: CacheValue + 'static;
    const NAME: &'static str;
    /// does the caller protocol apply `is_valid_for`
    const VALIDITY: bool;
    fn nkeys(&self) -> usize;
    fn key(&self, i: usize) -> Self::K;
    fn key_tab(&self, i: usize) -> Option<usize>;
    fn ntables(&self) -> usize;
    fn table(&self, t: usize) -> TableReference;
    fn val(&self, rng: &mut Rng, id: u64, key_i: usize, m: Meta) -> Self::V;
    fn vid(&self, v: &Self::V) -> u64;
    fn vmeta(&self, v: &Self::V) -> Meta;
    /// the REAL validity rule of this cache's value type, against the file's current metadata
    fn valid(&self, rng: &mut Rng, v: &Self::V, key_i: usize, cur: Meta) -> bool;
    fn via_manager(
        &self,
        c: Arc<DefaultCache<Self::K, Self::V>>,
        limit: usize,
        ttl: Option<Duration>,
    ) -> Arc<dyn Cache<Self::K, Self::V>>;
    fn typical(&self) -> usize;
}

// ---- gen
#[derive(Clone, PartialEq, Eq, Hash, Debug)]
struct HKey {
    id: usize,
    size: usize,
    table: Option<TableReference>,
}
impl CacheKey for HKey {
    fn size(&self) -> usize {
        self.size
    }
    fn table_ref(&self) -> Option<&TableReference> {
        self.table.as_ref()
    }
}
#[derive(Clone, Debug)]
struct HVal {
    id: u64,
    size: usize,
    m: Meta,
}
impl CacheValue for HVal {
    fn size(&self) -> usize {
        self.size
    }
}
struct GenKind {
    keys: Vec<HKey>,
    tabs: Vec<Option<usize>>,
}
impl GenKind {
    fn new(rng: &mut Rng) -> Self {
        let n = 3 + rng.below(4) as usize;
        let mut keys = vec![];
        let mut tabs = vec![];
        for i in 0..n {
            let t = if rng.chance(1, 3) { None } else { Some(rng.below(2) as usize) };
            tabs.push(t);
            keys.push(HKey {
                id: i,
                size: rng.below(4) as usize, // zero-sized keys included
                table: t.map(|t| TableReference::bare(format!("t{t}"))),
            });
        }
        GenKind { keys, tabs }
    }
}
impl Kind for GenKind {
    type K = HKey;
    type V = HVal;
    const NAME: &'static str = "gen";
    const VALIDITY: bool = true;
    fn nkeys(&self) -> usize {
        self.keys.len()
    }
    fn key(&self, i: usize) -> HKey {
        self.keys[i].clone()
    }
    fn key_tab(&self, i: usize) -> Option<usize> {
        self.tabs[i]
    }
    fn ntables(&self) -> usize {
        2
    }
    fn table(&self, t: usize) -> TableReference {
        TableReference::bare(format!("t{t}"))
    }
    fn val(&self, rng: &mut Rng, id: u64, _k: usize, m: Meta) -> HVal {
        let size = match rng.below(10) {
            0 => 0,
            1 => 30 + rng.below(20) as usize,
            _ => 1 + rng.below(9) as usize,
        };
        HVal { id, size, m }
    }
    fn vid(&self, v: &HVal) -> u64 {
        v.id
    }
    fn vmeta(&self, v: &HVal) -> Meta {
        v.m
    }
    fn valid(&self, _r: &mut Rng, v: &HVal, _k: usize, cur: Meta) -> bool {
        v.m == cur
    }
    fn via_manager(&self, c: Arc<DefaultCache<HKey, HVal>>, _l: usize, _t: Option<Duration>) -> Arc<dyn Cache<HKey, HVal>> {
        c
    }
    fn typical(&self) -> usize {
        7
    }
}

// ---- meta
struct TestFm {
    id: u64,
    size: usize,
}
impl FileMetadata for TestFm {
    fn as_any(&self) -> &dyn std::any::Any {
        self
    }
    fn memory_size(&self) -> usize {
        self.size
    }
    fn extra_info(&self) -> datafusion_common::HashMap<String, String> {
        Default::default()
    }
}
struct MetaKind {
    paths: Vec<Path>,
}
impl MetaKind {
    fn new(rng: &mut Rng) -> Self {
        let n = 3 + rng.below(4) as usize;
        let paths = (0..n).map(|i| Path::from(format!("d/f{}{}.parquet", i, "x".repeat(rng.below(4) as usize)))).collect();
        MetaKind { paths }
    }
}
impl Kind for MetaKind {
    type K = Path;
    type V = CachedFileMetadataEntry;
    const NAME: &'static str = "meta";
    const VALIDITY: bool = true;
    fn nkeys(&self) -> usize {
        self.paths.len()
    }
    fn key(&self, i: usize) -> Path {
        self.paths[i].clone()
    }
    fn key_tab(&self, _i: usize) -> Option<usize> {
        None
    }
    fn ntables(&self) -> usize {
        1
    }
    fn table(&self, t: usize) -> TableReference {
        TableReference::bare(format!("t{t}"))
    }
    fn val(&self, rng: &mut Rng, id: u64, k: usize, m: Meta) -> CachedFileMetadataEntry {
        let size = match rng.below(10) {
            0 => 0,
            1 => 100 + rng.below(60) as usize,
            _ => 3 + rng.below(25) as usize,
        };
        CachedFileMetadataEntry::new(object_meta(&self.paths[k], m), Arc::new(TestFm { id, size }))
    }
    fn vid(&self, v: &CachedFileMetadataEntry) -> u64 {
        v.file_metadata.as_any().downcast_ref::<TestFm>().unwrap().id
    }
    fn vmeta(&self, v: &CachedFileMetadataEntry) -> Meta {
        Meta { fs: v.meta.size, mt: v.meta.last_modified.timestamp() - 1_700_000_000, sc: 0 }
    }
    fn valid(&self, _r: &mut Rng, v: &CachedFileMetadataEntry, k: usize, cur: Meta) -> bool {
        v.is_valid_for(&object_meta(&self.paths[k], cur))
    }
    fn via_manager(&self, c: Arc<DefaultCache<Path, CachedFileMetadataEntry>>, limit: usize, _t: Option<Duration>) -> Arc<dyn Cache<Path, CachedFileMetadataEntry>> {
        let cfg = CacheManagerConfig::default()
            .with_file_metadata_cache(Some(c))
            .with_metadata_cache_limit(limit);
        CacheManager::try_new(&cfg).unwrap().get_file_metadata_cache()
    }
    fn typical(&self) -> usize {
        30
    }
}

// ---- shared by stats / list: table-scoped keys
fn scoped_keys(rng: &mut Rng) -> (Vec<TableScopedPath>, Vec<Option<usize>>) {
    let n = 3 + rng.below(4) as usize;
    let mut keys = vec![];
    let mut tabs = vec![];
    for i in 0..n {
        let t = if rng.chance(1, 4) { None } else { Some(rng.below(2) as usize) };
        // the same path under two tables is a different key
        let p = if i > 0 && rng.chance(1, 4) { format!("tbl/p{}", i - 1) } else { format!("tbl/p{i}") };
        let k = TableScopedPath { table: t.map(|t| TableReference::bare(format!("t{t}"))), path: Path::from(p) };
        if keys.contains(&k) {
            keys.push(TableScopedPath { table: k.table.clone(), path: Path::from(format!("tbl/q{i}")) });
        } else {
            keys.push(k);
        }
        tabs.push(t);
    }
    (keys, tabs)
}

struct StatsKind {
    keys: Vec<TableScopedPath>,
    tabs: Vec<Option<usize>>,
    fps: Vec<Arc<SchemaFingerprint>>,
    schemas: Vec<Schema>,
}
impl StatsKind {
    fn new(rng: &mut Rng) -> Self {
        let (keys, tabs) = scoped_keys(rng);
        let schemas = vec![
            Schema::new(vec![Field::new("a", DataType::Int64, false)]),
            Schema::new(vec![Field::new("a", DataType::Int64, true)]),
            Schema::new(vec![Field::new("a", DataType::Int64, false), Field::new("b", DataType::Utf8, true)]),
        ];
        let fps = schemas.iter().map(|s| Arc::new(SchemaFingerprint::from_schema(s))).collect();
        StatsKind { keys, tabs, fps, schemas }
    }
}
impl Kind for StatsKind {
    type K = TableScopedPath;
    type V = CachedFileMetadata;
    const NAME: &'static str = "stats";
    const VALIDITY: bool = true;
    fn nkeys(&self) -> usize {
        self.keys.len()
    }
    fn key(&self, i: usize) -> TableScopedPath {
        self.keys[i].clone()
    }
    fn key_tab(&self, i: usize) -> Option<usize> {
        self.tabs[i]
    }
    fn ntables(&self) -> usize {
        2
    }
    fn table(&self, t: usize) -> TableReference {
        TableReference::bare(format!("t{t}"))
    }
    fn val(&self, rng: &mut Rng, id: u64, k: usize, m: Meta) -> CachedFileMetadata {
        let ncols = if rng.chance(1, 10) { 12 } else { rng.below(3) as usize };
        let stats = Statistics {
            num_rows: Precision::Exact(id as usize),
            total_byte_size: Precision::Absent,
            column_statistics: vec![ColumnStatistics::new_unknown(); ncols],
        };
        CachedFileMetadata::new(
            object_meta(&self.keys[k].path, m),
            Arc::clone(&self.fps[m.sc as usize]),
            Arc::new(stats),
            None,
        )
    }
    fn vid(&self, v: &CachedFileMetadata) -> u64 {
        *v.statistics.num_rows.get_value().unwrap() as u64
    }
    fn vmeta(&self, v: &CachedFileMetadata) -> Meta {
        let sc = self.fps.iter().position(|f| f.as_ref() == v.schema_fingerprint.as_ref()).unwrap() as u64;
        Meta { fs: v.meta.size, mt: v.meta.last_modified.timestamp() - 1_700_000_000, sc }
    }
    fn valid(&self, rng: &mut Rng, v: &CachedFileMetadata, k: usize, cur: Meta) -> bool {
        // the current fingerprint is either the shared Arc or a freshly computed equal one
        let fp = if rng.chance(1, 2) {
            Arc::clone(&self.fps[cur.sc as usize])
        } else {
            Arc::new(SchemaFingerprint::from_schema(&self.schemas[cur.sc as usize]))
        };
        v.is_valid_for(&object_meta(&self.keys[k].path, cur), &fp)
    }
    fn via_manager(&self, c: Arc<DefaultCache<TableScopedPath, CachedFileMetadata>>, limit: usize, _t: Option<Duration>) -> Arc<dyn Cache<TableScopedPath, CachedFileMetadata>> {
        if limit == 0 {
            return c; // the manager disables the cache for limit 0
        }
        let cfg = CacheManagerConfig::default()
            .with_file_statistics_cache(Some(c))
            .with_file_statistics_cache_limit(limit);
        CacheManager::try_new(&cfg).unwrap().get_file_statistic_cache().unwrap()
    }
    fn typical(&self) -> usize {
        let mut r = Rng::new(7);
        let v = self.val(&mut r, 1, 0, ZERO_META);
        v.size() + self.keys[0].size() + 60
    }
}

struct ListKind {
    keys: Vec<TableScopedPath>,
    tabs: Vec<Option<usize>>,
}
impl ListKind {
    fn new(rng: &mut Rng) -> Self {
        let (keys, tabs) = scoped_keys(rng);
        ListKind { keys, tabs }
    }
}
impl Kind for ListKind {
    type K = TableScopedPath;
    type V = CachedFileList;
    const NAME: &'static str = "list";
    const VALIDITY: bool = false;
    fn nkeys(&self) -> usize {
        self.keys.len()
    }
    fn key(&self, i: usize) -> TableScopedPath {
        self.keys[i].clone()
    }
    fn key_tab(&self, i: usize) -> Option<usize> {
        self.tabs[i]
    }
    fn ntables(&self) -> usize {
        2
    }
    fn table(&self, t: usize) -> TableReference {
        TableReference::bare(format!("t{t}"))
    }
    fn val(&self, rng: &mut Rng, id: u64, k: usize, _m: Meta) -> CachedFileList {
        // an empty directory listing has size 0 and is therefore never cached
        let n = match rng.below(10) {
            0 => 0,
            1 => 9,
            _ => 1 + rng.below(3) as usize,
        };
        let mut files = Vec::with_capacity(n);
        for j in 0..n {
            let mut m = object_meta(&Path::from(format!("{}/part-{j}.csv", self.keys[k].path)), ZERO_META);
            m.size = id;
            files.push(m);
        }
        CachedFileList::new(files)
    }
    fn vid(&self, v: &CachedFileList) -> u64 {
        v.files.first().map(|m| m.size).unwrap_or(0)
    }
    fn vmeta(&self, _v: &CachedFileList) -> Meta {
        ZERO_META
    }
    fn valid(&self, _r: &mut Rng, _v: &CachedFileList, _k: usize, _cur: Meta) -> bool {
        true // a cached listing is used as long as the cache returns it (TTL / drop-table only)
    }
    fn via_manager(&self, c: Arc<DefaultCache<TableScopedPath, CachedFileList>>, limit: usize, ttl: Option<Duration>) -> Arc<dyn Cache<TableScopedPath, CachedFileList>> {
        if limit == 0 {
            return c;
        }
        let cfg = CacheManagerConfig::default()
            .with_list_files_cache(Some(c))
            .with_list_files_cache_limit(limit)
            .with_list_files_cache_ttl(ttl);
        CacheManager::try_new(&cfg).unwrap().get_list_files_cache().unwrap()
    }
    fn typical(&self) -> usize {
        let mut r = Rng::new(3);
        loop {
            let v = self.val(&mut r, 1, 0, ZERO_META);
            if v.files.len() == 2 {
                return v.size() + self.keys[0].size();
            }
        }
    }
}

// ------------------------------------------------------------------ observations
#[derive(Clone, Debug, PartialEq)]
struct Live {
    vid: u64,
    vsize: usize,
    hits: usize,
    exp: Option<u64>,
}

fn jv(id: u64, size: usize, m: Meta) -> String {
    format!("{{\"id\":{id},\"size\":{size},\"m\":[{},{},{}]}}", m.fs, m.mt, m.sc)
}
fn jopt_u(x: Option<u64>) -> String {
    match x {
        Some(v) => v.to_string(),
        None => "null".into(),
    }
}

struct Driver<'a, KD: Kind> {
    kd: &'a KD,
    conc: Arc<DefaultCache<KD::K, KD::V>>,
    cache: Arc<dyn Cache<KD::K, KD::V>>,
    tp: Arc<ManualTime>,
    index: HashMap<KD::K, usize>,
    ksize: Vec<usize>,
    // ---- reference data for the property predicates (independent of the Coq model)
    now: u64,
    ttl: Option<u64>,
    clock: u64,
    stamp: HashMap<usize, u64>,              // last use (accepted put / successful get)
    ideal: HashMap<usize, (u64, Option<u64>)>, // what an unbounded cache would hold: vid, expiry
    live: BTreeMap<usize, Live>,
    why: Vec<String>,
    next_id: u64,
    evictions: usize,
    expirations: usize,
    replacements: usize,
    rejected: usize,
    stale_seen: usize,
    hits_seen: usize,
    /// value the key of the current op must hold afterwards (accepted put / valid hit in this op)
    accepted: Option<u64>,
}

impl<'a, KD: Kind> Driver<'a, KD> {
    fn snapshot(&self) -> BTreeMap<usize, Live> {
        let mut m = BTreeMap::new();
        for (k, info) in self.cache.list_entries() {
            let i = self.index[&k];
            let exp = info.expires.map(|e| e.duration_since(self.tp.base).as_millis() as u64);
            if info.size_bytes != info.value.size() {
                // reported size must be the value's size
                m.insert(usize::MAX, Live { vid: 0, vsize: 0, hits: 0, exp: None });
            }
            m.insert(i, Live { vid: self.kd.vid(&info.value), vsize: info.size_bytes, hits: info.hits, exp });
        }
        m
    }
    fn bad(&mut self, opn: usize, s: String) {
        if self.why.len() < 5 {
            self.why.push(format!("op#{opn}: {s}"));
        }
    }
    fn expired(&self, e: Option<u64>) -> bool {
        matches!(e, Some(x) if self.now > x)
    }
    /// P4: the keys that vanished are exactly the least recently used ones, and no more than needed
    fn check_evicted(&mut self, opn: usize, before: &BTreeMap<usize, Live>, after: &BTreeMap<usize, Live>, exempt: Option<usize>, used_after: usize, limit: usize) {
        let vanished: Vec<usize> = before.keys().copied().filter(|k| !after.contains_key(k) && Some(*k) != exempt).collect();
        if vanished.is_empty() {
            return;
        }
        self.evictions += vanished.len();
        let youngest_gone = vanished.iter().map(|k| self.stamp.get(k).copied().unwrap_or(0)).max().unwrap();
        for (k, _) in after.iter() {
            if Some(*k) == exempt {
                continue;
            }
            let s = self.stamp.get(k).copied().unwrap_or(0);
            if s < youngest_gone {
                self.bad(opn, format!("evicted keys {vanished:?} but key {k} was used less recently and survived (not least-recently-used order)"));
            }
        }
        let z = *vanished.iter().max_by_key(|k| self.stamp.get(k).copied().unwrap_or(0)).unwrap();
        let zsize = self.ksize[z] + before[&z].vsize;
        if used_after + zsize <= limit {
            self.bad(opn, format!("key {z} was evicted although it still fitted (used {used_after} + {zsize} <= limit {limit})"));
        }
    }
}

fn run_history<KD: Kind>(kd: &KD, rng: &mut Rng, hno: usize) -> String {
    let unit = kd.typical();
    let limit0 = match rng.below(24) {
        0 => 0,
        1 => 1,
        2 => unit / 2,
        3 | 4 => 1_000_000,
        _ => unit + unit / 2 + rng.below(3 * unit as u64) as usize,
    };
    let ttl0: Option<u64> = if rng.chance(if KD::NAME == "list" || KD::NAME == "gen" { 3 } else { 1 }, 5) {
        Some(*rng.pick(&[0u64, 5, 10, 20]))
    } else {
        None
    };
    let tp = Arc::new(ManualTime { base: Instant::now(), off_ms: Mutex::new(0) });
    let conc = Arc::new(
        DefaultCache::<KD::K, KD::V>::new_with_ttl(limit0, ttl0.map(Duration::from_millis))
            .with_time_provider(Arc::clone(&tp) as Arc<dyn TimeProvider>),
    );
    let cache = kd.via_manager(Arc::clone(&conc), limit0, ttl0.map(Duration::from_millis));
    let mut index = HashMap::new();
    let mut ksize = vec![];
    for i in 0..kd.nkeys() {
        index.insert(kd.key(i), i);
        ksize.push(kd.key(i).size());
    }
    let mut d = Driver {
        kd, conc, cache, tp, index, ksize,
        now: 0, ttl: ttl0, clock: 0, stamp: HashMap::new(), ideal: HashMap::new(), live: BTreeMap::new(),
        why: vec![], next_id: 1 + (hno as u64 % 3) * 100,
        evictions: 0, expirations: 0, replacements: 0, rejected: 0, stale_seen: 0, hits_seen: 0, accepted: None,
    };
    // the "file system": current metadata of every file
    let mut cur: Vec<Meta> = (0..kd.nkeys()).map(|_| if KD::VALIDITY { Meta { fs: 100, mt: 0, sc: 0 } } else { ZERO_META }).collect();

    let nops = 15 + rng.below(60) as usize;
    let mut ops_json: Vec<String> = vec![];
    let mut panicked = false;
    let mut draining = false;
    let mut opn = 0usize;
    loop {
        if opn >= nops && !draining {
            draining = true;
        }
        if opn > nops + 12 {
            break;
        }
        let before = d.live.clone();
        d.accepted = None;
        let limit_before = d.cache.cache_limit();
        let ki = rng.below(kd.nkeys() as u64) as usize;
        let key = kd.key(ki);
        let mut sel = if draining { 1000 } else { rng.below(100) };
        if sel != 1000 && limit_before < unit && rng.chance(1, 4) {
            sel = 80; // do not stay in a starved configuration for long
        }
        let mut js: String;
        // every arm: perform the real call(s), render the op + its result
        let res = catch_unwind(AssertUnwindSafe(|| -> String {
            if sel == 1000 {
                // drain: shrink the limit just below the current use, which must evict the LRU entry only
                let used = d.conc.memory_used();
                let l = used.saturating_sub(1);
                d.cache.update_cache_limit(l);
                return format!("{{\"op\":\"set_limit\",\"limit\":{l}");
            }
            match sel {
                0..=31 => {
                    // put; sometimes after the file was rewritten
                    if KD::VALIDITY && rng.chance(1, 4) {
                        cur[ki] = Meta { fs: 100 + rng.below(3), mt: rng.below(3) as i64, sc: if KD::NAME == "stats" || KD::NAME == "gen" { rng.below(3) } else { 0 } };
                    }
                    let id = d.next_id;
                    d.next_id += 1;
                    let v = kd.val(rng, id, ki, cur[ki]);
                    let vs = v.size();
                    let old = d.cache.put(&key, v);
                    let total = d.ksize[ki] + vs;
                    if let Some(o) = &old {
                        let lid = before.get(&ki).map(|l| l.vid);
                        if lid != Some(kd.vid(o)) {
                            d.bad(opn, format!("put returned previous value {} but the live entry was {:?}", kd.vid(o), lid));
                        }
                    }
                    if vs == 0 {
                        d.rejected += 1;
                    } else if total > limit_before {
                        d.rejected += 1;
                        d.ideal.remove(&ki);
                    } else {
                        if before.contains_key(&ki) {
                            d.replacements += 1;
                        }
                        d.ideal.insert(ki, (id, d.ttl.map(|t| d.now + t)));
                        d.clock += 1;
                        d.stamp.insert(ki, d.clock);
                        d.accepted = Some(id);
                    }
                    format!("{{\"op\":\"put\",\"key\":{ki},\"v\":{},\"out\":{}", jv(id, vs, cur[ki]),
                        match &old { Some(o) => jv(kd.vid(o), o.size(), kd.vmeta(o)), None => "null".into() })
                }
                32..=51 => {
                    let got = d.cache.get(&key);
                    match &got {
                        Some(v) => {
                            d.hits_seen += 1;
                            // P3/P6: only a value that was put for this key, not removed since, not expired
                            match d.ideal.get(&ki) {
                                Some((id, exp)) if *id == kd.vid(v) && !d.expired(*exp) => {}
                                other => {
                                    let o = other.copied();
                                    let now = d.now;
                                    d.bad(opn, format!("get({ki}) returned value {} at t={now} but the last accepted put/validity gives {:?}", kd.vid(v), o));
                                }
                            }
                            d.clock += 1;
                            d.stamp.insert(ki, d.clock);
                        }
                        None => {
                            // P8: a live unexpired entry must be returned
                            if let Some(l) = before.get(&ki) {
                                if !d.expired(l.exp) {
                                    d.bad(opn, format!("get({ki}) missed although a live unexpired entry {} exists", l.vid));
                                } else {
                                    d.expirations += 1;
                                }
                            }
                        }
                    }
                    if let Some((_, exp)) = d.ideal.get(&ki).copied() {
                        if d.expired(exp) {
                            d.ideal.remove(&ki);
                        }
                    }
                    format!("{{\"op\":\"get\",\"key\":{ki},\"out\":{}", match &got { Some(o) => jv(kd.vid(o), o.size(), kd.vmeta(o)), None => "null".into() })
                }
                52..=63 => {
                    // the caller protocol of ParquetMetaData fetch / ListingTable statistics / list_with_cache
                    if KD::VALIDITY && rng.chance(1, 3) {
                        cur[ki] = Meta { fs: 100 + rng.below(3), mt: rng.below(3) as i64, sc: if KD::NAME == "stats" || KD::NAME == "gen" { rng.below(3) } else { 0 } };
                    }
                    let c = cur[ki];
                    let id = d.next_id;
                    d.next_id += 1;
                    let fresh = kd.val(rng, id, ki, c);
                    let fs = fresh.size();
                    let got = d.cache.get(&key);
                    let mut hit = false;
                    let result: KD::V;
                    match got {
                        Some(v) if kd.valid(rng, &v, ki, c) => {
                            hit = true;
                            d.hits_seen += 1;
                            match d.ideal.get(&ki) {
                                Some((id0, exp)) if *id0 == kd.vid(&v) && !d.expired(*exp) => {}
                                other => {
                                    let o = other.copied();
                                    d.bad(opn, format!("lookup({ki}) used cached value {} but last accepted put/validity gives {:?}", kd.vid(&v), o));
                                }
                            }
                            d.clock += 1;
                            d.stamp.insert(ki, d.clock);
                            d.accepted = Some(kd.vid(&v));
                            result = v;
                        }
                        g => {
                            if g.is_some() {
                                d.stale_seen += 1;
                                d.clock += 1;
                                d.stamp.insert(ki, d.clock);
                            } else if let Some(l) = before.get(&ki) {
                                if !d.expired(l.exp) {
                                    d.bad(opn, format!("lookup({ki}) missed although a live unexpired entry {} exists", l.vid));
                                } else {
                                    d.expirations += 1;
                                }
                            }
                            if let Some((_, exp)) = d.ideal.get(&ki).copied() {
                                if d.expired(exp) {
                                    d.ideal.remove(&ki);
                                }
                            }
                            let _ = d.cache.put(&key, fresh.clone());
                            if fs == 0 {
                                d.rejected += 1;
                            } else if d.ksize[ki] + fs > limit_before {
                                d.rejected += 1;
                                d.ideal.remove(&ki);
                            } else {
                                d.ideal.insert(ki, (id, d.ttl.map(|t| d.now + t)));
                                d.clock += 1;
                                d.stamp.insert(ki, d.clock);
                                d.accepted = Some(id);
                            }
                            result = fresh;
                        }
                    }
                    // P5: whatever the planner ends up using describes the file as it is now
                    if KD::VALIDITY && kd.vmeta(&result) != c {
                        d.bad(opn, format!("lookup({ki}) with current file metadata {c:?} used a value computed for {:?}", kd.vmeta(&result)));
                    }
                    format!("{{\"op\":\"lookup\",\"key\":{ki},\"cur\":[{},{},{}],\"fresh\":{},\"hit\":{hit},\"res\":{}", c.fs, c.mt, c.sc, jv(id, fs, c), if hit { jv(kd.vid(&result), result.size(), kd.vmeta(&result)) } else { jv(id, fs, c) })
                }
                64..=69 => {
                    let b = d.cache.contains_key(&key);
                    let should = before.get(&ki).map(|l| !d.expired(l.exp)).unwrap_or(false);
                    if b != should {
                        d.bad(opn, format!("contains_key({ki}) = {b} but live-and-unexpired = {should}"));
                    }
                    if let Some((_, exp)) = d.ideal.get(&ki).copied() {
                        if d.expired(exp) {
                            d.ideal.remove(&ki);
                        }
                    }
                    format!("{{\"op\":\"contains\",\"key\":{ki},\"out\":{b}")
                }
                70..=75 => {
                    let old = d.cache.remove(&key);
                    let lid = before.get(&ki).map(|l| l.vid);
                    if lid != old.as_ref().map(|o| kd.vid(o)) {
                        d.bad(opn, format!("remove({ki}) returned {:?} but the live entry was {:?}", old.as_ref().map(|o| kd.vid(o)), lid));
                    }
                    d.ideal.remove(&ki);
                    format!("{{\"op\":\"remove\",\"key\":{ki},\"out\":{}", match &old { Some(o) => jv(kd.vid(o), o.size(), kd.vmeta(o)), None => "null".into() })
                }
                76..=82 => {
                    let l = match rng.below(if limit_before < unit { 1 } else { 10 }) {
                        1 => 0,
                        2 => d.conc.memory_used(),
                        3 | 4 => d.conc.memory_used().saturating_sub(1),
                        _ => unit + rng.below(4 * unit as u64) as usize,
                    };
                    d.cache.update_cache_limit(l);
                    format!("{{\"op\":\"set_limit\",\"limit\":{l}")
                }
                83..=90 => {
                    let dt = *rng.pick(&[0u64, 1, 4, 5, 6, 10, 11, 20, 21]);
                    *d.tp.off_ms.lock().unwrap() += dt;
                    d.now += dt;
                    format!("{{\"op\":\"advance\",\"dt\":{dt}")
                }
                91..=93 => {
                    let t = if rng.chance(1, 4) { None } else { Some(*rng.pick(&[0u64, 5, 10, 20])) };
                    d.cache.update_cache_ttl(t.map(Duration::from_millis));
                    d.ttl = t;
                    if d.cache.cache_ttl() != t.map(Duration::from_millis) {
                        d.bad(opn, "cache_ttl() differs from the value just set".into());
                    }
                    format!("{{\"op\":\"set_ttl\",\"ttl\":{}", jopt_u(t))
                }
                94..=97 => {
                    let t = rng.below(kd.ntables() as u64) as usize;
                    d.cache.drop_table_entries(&kd.table(t)).unwrap();
                    for i in 0..kd.nkeys() {
                        if kd.key_tab(i) == Some(t) {
                            d.ideal.remove(&i);
                        }
                    }
                    format!("{{\"op\":\"drop_table\",\"table\":{t}")
                }
                _ => {
                    d.cache.clear();
                    d.ideal.clear();
                    format!("{{\"op\":\"clear\"")
                }
            }
        }));
        match res {
            Ok(s) => js = s,
            Err(_) => {
                panicked = true;
                ops_json.push("{\"op\":\"panic\"}".into());
                d.bad(opn, "the cache panicked".into());
                break;
            }
        }
        // ---- state observations after the op (none of these calls changes the cache)
        let obs = catch_unwind(AssertUnwindSafe(|| (d.snapshot(), d.conc.memory_used(), d.cache.len(), d.cache.cache_limit())));
        let (after, used, len, limit) = match obs {
            Ok(x) => x,
            Err(_) => {
                panicked = true;
                ops_json.push("{\"op\":\"panic\"}".into());
                d.bad(opn, "the cache panicked".into());
                break;
            }
        };
        // P1: accounted size = sum of the entries
        let sum: usize = after.iter().map(|(k, l)| if *k == usize::MAX { 1 << 40 } else { d.ksize[*k] + l.vsize }).sum();
        if used != sum {
            d.bad(opn, format!("memory_used() = {used} but the entries sum to {sum}"));
        }
        if len != after.len() {
            d.bad(opn, format!("len() = {len} but list_entries has {}", after.len()));
        }
        // P2: within budget
        if used > limit {
            d.bad(opn, format!("memory_used() = {used} exceeds the limit {limit}"));
        }
        // per-op frame conditions on the live set
        let opname = js[7..].split('"').next().unwrap_or("").to_string();
        match opname.as_str() {
            "put" | "lookup" => {
                d.check_evicted(opn, &before, &after, Some(ki), used, limit);
                if let Some(id) = &d.accepted.clone() {
                    // an accepted put (or a valid hit) leaves the key live with that value
                    if after.get(&ki).map(|l| l.vid) != Some(*id) {
                        d.bad(opn, format!("after {opname}({ki}) the live entry is {:?}, expected value {id}", after.get(&ki).map(|l| l.vid)));
                    }
                }
            }
            "set_limit" => d.check_evicted(opn, &before, &after, None, used, limit),
            "get" | "contains" | "remove" => {
                for k in before.keys() {
                    if *k != ki && !after.contains_key(k) {
                        d.bad(opn, format!("{opname}({ki}) made unrelated key {k} disappear"));
                    }
                }
                if opname == "remove" && after.contains_key(&ki) {
                    d.bad(opn, format!("remove({ki}) left the key live"));
                }
                if opname != "remove" {
                    if let (Some(b), Some(a)) = (before.get(&ki), after.get(&ki)) {
                        if a.vid != b.vid {
                            d.bad(opn, format!("{opname}({ki}) changed the stored value"));
                        }
                    }
                    if let Some(a) = after.get(&ki) {
                        if d.expired(a.exp) {
                            d.bad(opn, format!("{opname}({ki}) left an expired entry in place"));
                        }
                    }
                }
            }
            "drop_table" => {
                // P7
                for k in after.keys() {
                    let t: usize = js.rsplit(':').next().unwrap().parse().unwrap();
                    if kd.key_tab(*k) == Some(t) {
                        d.bad(opn, format!("drop_table({t}) left key {k} of that table cached"));
                    }
                }
                for k in before.keys() {
                    let t: usize = js.rsplit(':').next().unwrap().parse().unwrap();
                    if kd.key_tab(*k) != Some(t) && !after.contains_key(k) {
                        d.bad(opn, format!("drop_table({t}) removed key {k} of another table"));
                    }
                }
            }
            "clear" => {
                if !after.is_empty() || used != 0 {
                    d.bad(opn, "clear() left entries or a non-zero memory_used".into());
                }
            }
            _ => {
                if after.keys().ne(before.keys()) {
                    d.bad(opn, format!("{opname} changed the set of live keys"));
                }
            }
        }
        // new entries carry expiry = time of put + ttl (so TTL is effective)
        for (k, l) in after.iter() {
            if *k == usize::MAX {
                d.bad(opn, "list_entries size_bytes differs from value.size()".into());
                continue;
            }
            if let Some((id, exp)) = d.ideal.get(k) {
                if *id == l.vid && *exp != l.exp {
                    d.bad(opn, format!("entry {k} expires at {:?}, expected put-time + ttl = {:?}", l.exp, exp));
                }
            } else {
                d.bad(opn, format!("key {k} is live with value {} although it was removed / never accepted", l.vid));
            }
        }
        let ents: Vec<String> = after
            .iter()
            .filter(|(k, _)| **k != usize::MAX)
            .map(|(k, l)| format!("[{k},{},{},{},{}]", l.vid, l.vsize, l.hits, jopt_u(l.exp)))
            .collect();
        js.push_str(&format!(",\"used\":{used},\"len\":{len},\"lim\":{limit},\"ents\":[{}]}}", ents.join(",")));
        ops_json.push(js);
        d.live = after;
        opn += 1;
        if draining && d.live.is_empty() {
            break;
        }
    }
    let keys: Vec<String> = (0..kd.nkeys())
        .map(|i| format!("{{\"id\":{i},\"size\":{},\"tab\":{}}}", d.ksize[i], jopt_u(kd.key_tab(i).map(|t| t as u64))))
        .collect();
    let why: Vec<String> = d.why.iter().map(|s| h_util::json_str(s)).collect();
    format!(
        "{{\"k\":\"hist\",\"kind\":\"{}\",\"limit\":{limit0},\"ttl\":{},\"keys\":[{}],\"ops\":[{}],\"panic\":{panicked},\"stat\":{{\"evictions\":{},\"expirations\":{},\"replacements\":{},\"rejected\":{},\"stale\":{},\"hits\":{}}},\"ok\":{},\"why\":[{}]}}",
        KD::NAME, jopt_u(ttl0), keys.join(","), ops_json.join(","), d.evictions, d.expirations, d.replacements, d.rejected, d.stale_seen, d.hits_seen,
        d.why.is_empty(), why.join(",")
    )
}

fn main() {
    std::panic::set_hook(Box::new(|_| {})); // panics are caught per operation and reported as data
    let args: Vec<String> = std::env::args().collect();
    let args = &args[1..];
    let seed: u64 = arg(args, "--seed", "1").parse().unwrap();
    let n: usize = arg(args, "--n", "300").parse().unwrap();
    let mut rng = Rng::new(seed);
    // h_util::Rng::new(s+1) is the stream of s shifted by one draw: decorrelate the seeds
    let mixed = rng.next() ^ seed.rotate_left(17);
    let mut rng = Rng(mixed);
    for h in 0..n {
        let line = match h % 4 {
            0 => {
                let kd = GenKind::new(&mut rng);
                run_history(&kd, &mut rng, h)
            }
            1 => {
                let kd = MetaKind::new(&mut rng);
                run_history(&kd, &mut rng, h)
            }
            2 => {
                let kd = StatsKind::new(&mut rng);
                run_history(&kd, &mut rng, h)
            }
            _ => {
                let kd = ListKind::new(&mut rng);
                run_history(&kd, &mut rng, h)
            }
        };
        println!("{line}");
    }
}
