#!/bin/bash
# Build the framework offline from files on disk: Coq development (full .vo), harness bins.
set -u
cd "$(dirname "$0")"
export CARGO_NET_OFFLINE=true
mkdir -p build evidence replays
# T-tied models are regenerated from /repo before the Coq build
python3 translators/rs_kernel2coq.py /repo/datafusion/physical-plan/src/repartition/mod.rs coq/Gen/StrengthReduced.v || true
python3 -c "import sys; sys.path.insert(0,'lib'); import vlib; vlib.coq_makefile()"
(cd coq && timeout 3000 make -j16 -k 2>&1 | tail -5)
for d in harness/h_*/; do
  [ -f "$d/Cargo.toml" ] || continue
  grep -q '^\[workspace\]' "$d/Cargo.toml" || continue
  rm -f "$d/Cargo.lock"; cp /repo/Cargo.lock "$d/Cargo.lock"
  (cd "$d" && timeout 7000 cargo build --offline 2>&1 | tail -2)
done
echo "setup done"
