#!/bin/bash
# sequential job queue: each line of build/queue.txt is "seed <ID> <patch> <label>" or "verify <ID>"
Q=/verif/build/queue.txt; LOG=/verif/build/queue.log
touch $Q
while true; do
  if [ -f /verif/build/queue.stop ]; then exit 0; fi
  line=$(head -1 $Q)
  if [ -z "$line" ]; then sleep 20; continue; fi
  sed -i '1d' $Q
  set -- $line
  if [ "$1" = seed ]; then flock -x /verif/build/repo.lock /verif/tools/run_seed.sh $2 $3 $4 >> $LOG 2>&1
  elif [ "$1" = verify ]; then cd /verif; VERIF_SEED=${3:-1} flock -s /verif/build/repo.lock ./check $2 > /verif/build/verify_$2.log 2>&1; echo "VERIFY $2 seed=${3:-1} rc=$? $(grep -E 'VIOLATION|KNOWN' build/verify_$2.log | cut -c1-120 | tr '\n' '|') $(grep -o 'wall=[0-9.]*' build/verify_$2.log | tail -1)" >> $LOG
  fi
done
