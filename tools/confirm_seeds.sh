#!/bin/bash
# Re-run each seeded change's demonstration in its scratch worktree with the patch applied (must fail)
# and with the patch reverted (must pass).  Primary patches only.
run() { # id crate testargs
  id=$1; shift
  cd /tmp/wt_$id || return
  export CARGO_TARGET_DIR=/tmp/wt_$id/target RUST_BACKTRACE=0
  echo "== $id WITH patch"; timeout 3000 cargo test --offline "$@" 2>&1 | grep -E "^test result|FAILED|failed" | head -5
  git apply -R /tmp/seed_$id/patch.diff
  echo "== $id WITHOUT patch"; timeout 3000 cargo test --offline "$@" 2>&1 | grep -E "^test result|FAILED|failed" | head -5
  git apply /tmp/seed_$id/patch.diff
}
run c11 -p datafusion-physical-plan --features verif_hooks --test hash_partition_index_demo
run c13 -p datafusion-physical-plan --test group_values_null_after_emit_first
run c14 -p datafusion-physical-plan --test join_hash_map_paging
run c17 -p datafusion-execution --test memory_pool_fair_share
run c21 -p datafusion-physical-plan --test spill_sliced_nested_view_roundtrip
(cd /tmp/wt_c27 && git apply --check /tmp/seed_c27/demo.diff 2>/dev/null && git apply /tmp/seed_c27/demo.diff)
run c27 -p datafusion-datasource -p datafusion-catalog-listing --lib -- demo_c27
