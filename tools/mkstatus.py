#!/usr/bin/env python3
"""Regenerates the generated blocks of DESIGN.md (per-property status, findings list) from
lib/props/*.json, lib/props/ENABLED, known_findings.json."""
import json, os, re, glob
V = os.path.dirname(os.path.dirname(os.path.abspath(__file__)))
props = [json.loads(l) for l in open(os.path.join(V, "properties.jsonl"))]
enabled = set(open(os.path.join(V, "lib/props/ENABLED")).read().split())
kf = json.load(open(os.path.join(V, "known_findings.json")))
rows = []
for p in props:
    pid = p["id"]
    jf = os.path.join(V, "lib/props", pid + ".json")
    if os.path.exists(jf):
        j = json.load(open(jf))
        bins = sorted(os.path.relpath(b, V) for b in glob.glob(os.path.join(V, "harness/*/src/bin/%s*.rs" % pid.lower())))
        thms = 0
        pf = os.path.join(V, "coq/Props", pid + ".v")
        if os.path.exists(pf):
            thms = len(re.findall(r"^\s*(Theorem|Corollary)\b", open(pf).read(), re.M))
        nkf = sum(1 for f in kf["findings"] if f.get("property") == pid)
        rows.append("| %s | %s | %s | %d | %d | %s | %s |" % (
            pid, "claimed" if pid in enabled else "built, not enabled", j.get("category", ""), thms, nkf,
            ", ".join(bins) or "-", j.get("technique", "").replace("|", "/")[:160]))
    else:
        rows.append("| %s | not built | - | 0 | 0 | - | design only (§5) |" % pid)
status = ("| id | status | level | property theorems | known findings | harness | technique |\n|---|---|---|---|---|---|---|\n" + "\n".join(rows))
fl = ["| id | property | failing input (abridged) |", "|---|---|---|"]
for f in kf["findings"]:
    fl.append("| %s | %s | %s |" % (f.get("id", ""), f.get("property", ""), f.get("what", "").replace("|", "/").replace("\n", " ")[:330]))
fixed = "\n".join("* " + x for x in kf["fixed"])
d = open(os.path.join(V, "DESIGN.md")).read()
def put(d, tag, text):
    a, b = "<!-- BEGIN %s -->" % tag, "<!-- END %s -->" % tag
    if a in d:
        return d[:d.index(a) + len(a)] + "\n" + text + "\n" + d[d.index(b):]
    return d
d = put(d, "STATUS", status)
d = put(d, "FINDINGS", "\n".join(fl))
d = put(d, "FIXED", fixed)
open(os.path.join(V, "DESIGN.md"), "w").write(d)
print("DESIGN.md blocks regenerated: %d properties, %d findings" % (len(rows), len(kf["findings"])))
