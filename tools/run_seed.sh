#!/bin/bash
# usage: run_seed.sh <PROPERTY-ID> <patch.diff> <label>   -- applies a seeded change to /repo, runs the check, restores
ID=$1; PATCH=$2; LABEL=$3
cd /verif
FILES=$(grep '^+++ b/' "$PATCH" | sed 's|^+++ b/||')
if ! git -C /repo apply --check "$PATCH" 2>/dev/null; then echo "SEED $LABEL: patch does not apply"; exit 2; fi
git -C /repo apply "$PATCH"
echo "=== SEED $LABEL ($ID) applied: $FILES; other modified files: $(git -C /repo status --short | tr '\n' ' ')"
./check $ID > /verif/build/seed_$LABEL.log 2>&1
RC=$?
for f in $FILES; do git -C /repo checkout -- "$f"; done
echo "SEED $LABEL rc=$RC: $(grep -E 'VIOLATION|KNOWN-FINDING' /verif/build/seed_$LABEL.log | cut -c1-200 | tr '\n' '|') wall=$(grep -o 'wall=[0-9.]*' /verif/build/seed_$LABEL.log | tail -1)"
[ -f /verif/replays/$ID-1.json ] && cp /verif/replays/$ID-1.json /verif/build/seed_$LABEL.replay.json
exit 0
