#!/bin/bash
# usage: run_seed.sh <PROPERTY-ID> <patch.diff> <label>   -- applies a seeded change to /repo, runs the check, restores
ID=$1; PATCH=$2; LABEL=$3
cd /verif
FILES=$(grep '^+++ b/' "$PATCH" | sed 's|^+++ b/||')
if ! git -C /repo apply --check "$PATCH" 2>/dev/null; then echo "SEED $LABEL: patch does not apply"; exit 2; fi
git -C /repo apply "$PATCH"
echo "=== SEED $LABEL ($ID) applied: $FILES; other modified files: $(git -C /repo status --short | tr '\n' ' ')"
./check $ID > /verif/build/seed_$LABEL.log 2>&1
RC=$?
for f in $FILES; do
  for try in 1 2 3 4 5 6 7 8 9 10; do
    git -C /repo checkout -- "$f" 2>/dev/null
    if git -C /repo diff --quiet -- "$f"; then break; fi
    sleep 3   # index.lock held by a concurrent git command: retry
  done
  git -C /repo diff --quiet -- "$f" || echo "WARNING: could not restore $f"
done
echo "SEED $LABEL rc=$RC: $(grep -E 'VIOLATION|KNOWN-FINDING' /verif/build/seed_$LABEL.log | cut -c1-200 | tr '\n' '|') wall=$(grep -o 'wall=[0-9.]*' /verif/build/seed_$LABEL.log | tail -1)"
[ -f /verif/replays/$ID-1.json ] && cp /verif/replays/$ID-1.json /verif/build/seed_$LABEL.replay.json
exit 0
