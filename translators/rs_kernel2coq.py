#!/usr/bin/env python3
"""Translator (T tie) for C11: StrengthReducedU64 in
datafusion/physical-plan/src/repartition/mod.rs  ->  coq/Gen/StrengthReduced.v

Handles a deliberately tiny Rust subset (straight-line unsigned integer code:
let bindings, + - * / % >> << & | ^, `as uN`, `uN::from`, `uN::MAX`,
`.is_power_of_two()`, one if/else building enum variants, one match with one
`for (index, hash) in hash_buffer.iter().enumerate()` loop per arm ending in
`indices[<expr> as usize].push(index as u32)`).  Anything else raises
TranslateError: the check then fails closed.

Every arithmetic operation becomes a *checked* operation of Base/Bits.v in the
option monad, so a theorem concluding `Some x` rules out overflow as well.
"""
import re
import sys


class TranslateError(Exception):
    pass


# ---------------------------------------------------------------- lexer
TOK = re.compile(r"""
    (?P<ws>\s+|//[^\n]*) |
    (?P<num>\d[\d_]*(?:u64|u128|u32|usize)?) |
    (?P<id>[A-Za-z_][A-Za-z_0-9]*(?:::[A-Za-z_][A-Za-z_0-9]*)*) |
    (?P<op>>>|<<|=>|==|!=|<=|>=|&&|\|\||[-+*/%&|^(){}\[\],.;=<>!:])
""", re.X)


def lex(src):
    pos, out = 0, []
    while pos < len(src):
        m = TOK.match(src, pos)
        if not m:
            raise TranslateError("cannot lex at: %r" % src[pos:pos + 30])
        pos = m.end()
        if m.lastgroup == "ws":
            continue
        out.append((m.lastgroup, m.group(m.lastgroup)))
    return out


# ---------------------------------------------------------------- parser (expressions)
BIN_PREC = {"*": 70, "/": 70, "%": 70, "+": 60, "-": 60, "<<": 50, ">>": 50,
            "&": 40, "^": 30, "|": 20}


class P:
    def __init__(self, toks):
        self.t, self.i = toks, 0

    def peek(self, k=0):
        return self.t[self.i + k] if self.i + k < len(self.t) else ("eof", "")

    def next(self):
        tok = self.peek()
        self.i += 1
        return tok

    def expect(self, val):
        tok = self.next()
        if tok[1] != val:
            raise TranslateError("expected %r got %r" % (val, tok[1]))

    def accept(self, val):
        if self.peek()[1] == val:
            self.i += 1
            return True
        return False

    # expr := binary over unary-with-as
    def expr(self, minp=0):
        lhs = self.unary_as()
        while True:
            k, v = self.peek()
            if k == "op" and v in BIN_PREC and BIN_PREC[v] >= minp:
                self.next()
                rhs = self.expr(BIN_PREC[v] + 1)
                lhs = ("bin", v, lhs, rhs)
            else:
                return lhs

    def unary_as(self):
        e = self.unary()
        while self.peek() == ("id", "as"):
            self.next()
            k, ty = self.next()
            if ty not in ("u64", "u128", "usize", "u32"):
                raise TranslateError("unsupported cast target %s" % ty)
            e = ("cast", ty, e)
        return e

    def unary(self):
        if self.peek() == ("op", "*"):      # deref of &u64: value
            self.next()
            return self.unary()
        return self.postfix(self.atom())

    def postfix(self, e):
        while self.peek() == ("op", "."):
            self.next()
            k, name = self.next()
            self.expect("(")
            self.expect(")")
            e = ("method", name, e)
        return e

    def atom(self):
        k, v = self.next()
        if k == "num":
            m = re.match(r"([\d_]+)(u64|u128|u32|usize)?$", v)
            return ("num", int(m.group(1).replace("_", "")), m.group(2))
        if k == "op" and v == "(":
            e = self.expr()
            self.expect(")")
            return ("paren", e)
        if k == "id":
            if self.peek() == ("op", "("):
                self.next()
                args = []
                if not self.accept(")"):
                    while True:
                        args.append(self.expr())
                        if self.accept(")"):
                            break
                        self.expect(",")
                return ("call", v, args)
            return ("var", v)
        raise TranslateError("unexpected token %r" % (v,))


# ---------------------------------------------------------------- typed ANF emission
WIDTH = {"u64": 64, "u128": 128, "usize": 64, "u32": 32}


class Emit:
    def __init__(self, env):
        self.env = dict(env)       # rust var -> (coqname, type)
        self.binds = []            # (coqname, coq expr : option Z)
        self.n = 0

    def fresh(self):
        self.n += 1
        return "t%d" % self.n

    def bind(self, coq):
        x = self.fresh()
        self.binds.append((x, coq))
        return x

    def ex(self, e, want=None):
        """returns (atom string, type)"""
        k = e[0]
        if k == "paren":
            return self.ex(e[1], want)
        if k == "num":
            ty = e[2] or want
            if ty is None:
                raise TranslateError("untyped literal %d" % e[1])
            return (str(e[1]), ty)
        if k == "var":
            v = e[1]
            if v == "u64::MAX":
                return ("u64_max", "u64")
            if v == "u128::MAX":
                return ("u128_max", "u128")
            if v not in self.env:
                raise TranslateError("unknown variable %s" % v)
            return self.env[v]
        if k == "cast":
            a, ta = self.ex(e[2])
            ty = e[1]
            return (self.bind("cast %d %s" % (WIDTH[ty], a)), ty)
        if k == "call":
            f, args = e[1], e[2]
            if f in ("u128::from", "u64::from") and len(args) == 1:
                a, ta = self.ex(args[0])
                ty = f.split("::")[0]
                if WIDTH[ta] > WIDTH[ty]:
                    raise TranslateError("narrowing from()")
                return (self.bind("widen %d %s" % (WIDTH[ty], a)), ty)
            if f == "Self::quotient" and len(args) == 2:
                a, ta = self.ex(args[0], "u64")
                b, tb = self.ex(args[1], "u128")
                if (ta, tb) != ("u64", "u128"):
                    raise TranslateError("quotient argument types %s %s" % (ta, tb))
                return (self.bind("sr_quotient %s %s" % (a, b)), "u64")
            raise TranslateError("unsupported call %s" % f)
        if k == "method":
            raise TranslateError("method %s only supported as a condition" % e[1])
        if k == "bin":
            op, l, r = e[1], e[2], e[3]
            if op in (">>", "<<"):
                a, ta = self.ex(l, want)
                b, tb = self.ex(r, "u32")
                fn = {">>": "cshr", "<<": "cshl"}[op]
                return (self.bind("%s %d %s %s" % (fn, WIDTH[ta], a, b)), ta)
            # literals adopt the other side's type
            if l[0] == "num" and l[2] is None:
                b, tb = self.ex(r, want)
                a, ta = self.ex(l, tb)
            else:
                a, ta = self.ex(l, want)
                b, tb = self.ex(r, ta)
            if ta != tb:
                raise TranslateError("operand types differ: %s %s %s" % (ta, op, tb))
            fn = {"+": "cadd", "-": "csub", "*": "cmul", "/": "cdiv", "%": "crem",
                  "&": "cand", "|": "cor", "^": "cxor"}[op]
            return (self.bind("%s %d %s %s" % (fn, WIDTH[ta], a, b)), ta)
        raise TranslateError("unsupported expression %r" % (e,))

    def render(self, final):
        s = ""
        for x, c in self.binds:
            s += "do %s <- %s;\n    " % (x, c)
        return s + final


# ---------------------------------------------------------------- source slicing
def balanced(src, start, open_ch="{", close_ch="}"):
    assert src[start] == open_ch
    depth = 0
    for i in range(start, len(src)):
        if src[i] == open_ch:
            depth += 1
        elif src[i] == close_ch:
            depth -= 1
            if depth == 0:
                return i
    raise TranslateError("unbalanced braces")


def strip_comments(s):
    return re.sub(r"//[^\n]*", "", s)


def fn_body(impl, name):
    m = re.search(r"fn\s+%s\s*\(([^)]*)\)\s*(?:->\s*([A-Za-z0-9_]+)\s*)?\{" % name, impl)
    if not m:
        raise TranslateError("fn %s not found" % name)
    end = balanced(impl, m.end() - 1)
    return m.group(1), m.group(2), impl[m.end():end]


def split_stmts(body):
    """split on top-level ';'"""
    out, depth, cur = [], 0, ""
    for ch in body:
        if ch in "{([":
            depth += 1
        if ch in "})]":
            depth -= 1
        if ch == ";" and depth == 0:
            out.append(cur.strip())
            cur = ""
        else:
            cur += ch
    return out, cur.strip()


def translate_block(stmts, env, em=None):
    em = em or Emit(env)
    for st in stmts:
        if not st:
            continue
        m = re.match(r"let\s+([a-z_][a-z_0-9]*)\s*(?::\s*(u64|u128))?\s*=\s*(.*)$", st, re.S)
        if not m:
            raise TranslateError("unsupported statement: %s" % st)
        p = P(lex(m.group(3)))
        e = p.expr()
        if p.peek()[0] != "eof":
            raise TranslateError("trailing tokens in: %s" % st)
        a, ty = em.ex(e, m.group(2))
        if m.group(2) and m.group(2) != ty:
            raise TranslateError("declared type mismatch in: %s" % st)
        em.env[m.group(1)] = (a, ty)
    return em


def parse_expr(text):
    p = P(lex(text))
    e = p.expr()
    if p.peek()[0] != "eof":
        raise TranslateError("trailing tokens in expression: %s" % text)
    return e


def translate(src):
    src = strip_comments(src)
    # --- enum
    m = re.search(r"enum\s+StrengthReducedU64\s*\{", src)
    if not m:
        raise TranslateError("enum StrengthReducedU64 not found")
    ebody = src[m.end():balanced(src, m.end() - 1)]
    variants = []
    for vm in re.finditer(r"([A-Z][A-Za-z0-9]*)\s*\{([^}]*)\}", ebody):
        fields = []
        for f in vm.group(2).split(","):
            f = f.strip()
            if not f:
                continue
            fm = re.match(r"([a-z_][a-z_0-9]*)\s*:\s*(u64|u128)$", f)
            if not fm:
                raise TranslateError("unsupported field %r" % f)
            fields.append((fm.group(1), fm.group(2)))
        variants.append((vm.group(1), fields))
    if not variants:
        raise TranslateError("no variants")
    vdict = dict(variants)
    m = re.search(r"impl\s+StrengthReducedU64\s*\{", src)
    if not m:
        raise TranslateError("impl StrengthReducedU64 not found")
    impl = src[m.end():balanced(src, m.end() - 1)]

    out = []
    out.append("(* GENERATED by translators/rs_kernel2coq.py from\n"
               "   datafusion/physical-plan/src/repartition/mod.rs -- do not edit. *)\n"
               "From Coq Require Import ZArith.\nFrom DF Require Import Base.Bits.\nOpen Scope Z_scope.\n")
    out.append("Inductive sr : Type :=\n" + "\n".join(
        "  | %s %s" % (v, " ".join("(%s : Z)" % f for f, _ in fs)) for v, fs in variants) + ".\n")

    # --- quotient (straight line)
    params, ret, body = fn_body(impl, "quotient")
    if ret != "u64":
        raise TranslateError("quotient return type")
    penv = {}
    pnames = []
    for prm in params.split(","):
        prm = prm.strip()
        if not prm:
            continue
        pm = re.match(r"([a-z_]+)\s*:\s*(u64|u128)$", prm)
        if not pm:
            raise TranslateError("quotient param %r" % prm)
        penv[pm.group(1)] = (pm.group(1), pm.group(2))
        pnames.append(pm.group(1))
    if [penv[p][1] for p in pnames] != ["u64", "u128"]:
        raise TranslateError("quotient signature changed")
    body = re.sub(r"#\[inline[^\]]*\]", "", body)
    stmts, tail = split_stmts(body)
    em = translate_block(stmts, penv)
    a, ty = em.ex(parse_expr(tail))
    if ty != "u64":
        raise TranslateError("quotient result type %s" % ty)
    out.append("Definition sr_quotient (%s : Z) : option Z :=\n    %s.\n"
               % (" ".join(pnames), em.render("Some %s" % a)))

    # --- new
    params, ret, body = fn_body(impl, "new")
    if params.strip() != "divisor: u64":
        raise TranslateError("new signature changed")
    body = re.sub(r"debug_assert!\(divisor > 0\);", "", body)
    m = re.match(r"\s*if\s+divisor\.is_power_of_two\(\)\s*\{", body)
    if not m:
        raise TranslateError("new: expected `if divisor.is_power_of_two()`")
    tend = balanced(body, m.end() - 1)
    then_b = body[m.end():tend]
    rest = body[tend + 1:]
    m2 = re.match(r"\s*else\s*\{", rest)
    if not m2:
        raise TranslateError("new: expected else")
    eend = balanced(rest, m2.end() - 1)
    else_b = rest[m2.end():eend]
    if rest[eend + 1:].strip():
        raise TranslateError("new: trailing code")

    def variant_expr(text):
        vm = re.match(r"\s*Self::([A-Z][A-Za-z0-9]*)\s*\{(.*)\}\s*$", text, re.S)
        if not vm or vm.group(1) not in vdict:
            raise TranslateError("new: expected a variant literal, got %r" % text)
        em = Emit({"divisor": ("divisor", "u64")})
        given = {}
        parts, last = [], ""
        depth = 0
        for ch in vm.group(2):
            if ch in "([{":
                depth += 1
            if ch in ")]}":
                depth -= 1
            if ch == "," and depth == 0:
                parts.append(last)
                last = ""
            else:
                last += ch
        parts.append(last)
        for prt in parts:
            prt = prt.strip()
            if not prt:
                continue
            fm = re.match(r"([a-z_][a-z_0-9]*)\s*(?::\s*(.*))?$", prt, re.S)
            if not fm:
                raise TranslateError("new: field %r" % prt)
            fname = fm.group(1)
            etext = fm.group(2) or fname
            given[fname] = etext
        atoms = []
        for fname, fty in vdict[vm.group(1)]:
            if fname not in given:
                raise TranslateError("new: missing field %s" % fname)
            a, ty = em.ex(parse_expr(given[fname]), fty)
            if ty != fty:
                raise TranslateError("new: field %s has type %s" % (fname, ty))
            atoms.append(a)
        if set(given) != set(f for f, _ in vdict[vm.group(1)]):
            raise TranslateError("new: unexpected fields")
        return em.render("Some (%s %s)" % (vm.group(1), " ".join(atoms)))

    out.append("Definition sr_new (divisor : Z) : option sr :=\n  if is_pow2 divisor then\n    %s\n  else\n    %s.\n"
               % (variant_expr(then_b), variant_expr(else_b)))

    # --- partition_indices
    params, ret, body = fn_body(impl, "partition_indices")
    if not re.match(r"\s*self\s*,\s*hash_buffer\s*:\s*&\[u64\]\s*,\s*indices\s*:\s*&mut\s*\[Vec<u32>\]\s*$", params):
        raise TranslateError("partition_indices signature changed")
    m = re.match(r"\s*match\s+self\s*\{", body)
    if not m:
        raise TranslateError("partition_indices: expected match self")
    mend = balanced(body, m.end() - 1)
    if body[mend + 1:].strip():
        raise TranslateError("partition_indices: trailing code")
    arms_src = body[m.end():mend]
    arms = []
    pos = 0
    while True:
        am = re.compile(r"\s*Self::([A-Z][A-Za-z0-9]*)\s*\{([^}]*)\}\s*=>\s*\{").match(arms_src, pos)
        if not am:
            if arms_src[pos:].strip(" \n,"):
                raise TranslateError("partition_indices: unparsed arm text %r" % arms_src[pos:pos + 40])
            break
        aend = balanced(arms_src, am.end() - 1)
        arms.append((am.group(1), [f.strip() for f in am.group(2).split(",") if f.strip()],
                     arms_src[am.end():aend]))
        pos = aend + 1
        while pos < len(arms_src) and arms_src[pos] in ", \n":
            pos += 1
    if sorted(a[0] for a in arms) != sorted(vdict):
        raise TranslateError("partition_indices: arms do not cover the variants exactly")
    arm_txt = []
    for vname, binders, abody in arms:
        if binders != [f for f, _ in vdict[vname]]:
            raise TranslateError("arm %s binds %r" % (vname, binders))
        fm = re.match(r"\s*for\s*\(\s*index\s*,\s*hash\s*\)\s*in\s*hash_buffer\.iter\(\)\.enumerate\(\)\s*\{", abody)
        if not fm:
            raise TranslateError("arm %s: expected the enumerate loop" % vname)
        fend = balanced(abody, fm.end() - 1)
        if abody[fend + 1:].strip():
            raise TranslateError("arm %s: trailing code after loop" % vname)
        stmts, tail = split_stmts(abody[fm.end():fend])
        if tail:
            raise TranslateError("arm %s: loop tail expression" % vname)
        last = stmts[-1]
        pm = re.match(r"indices\[(.*)\s+as\s+usize\]\.push\(index as u32\)$", last, re.S)
        if not pm:
            raise TranslateError("arm %s: expected indices[<e> as usize].push(index as u32), got %r" % (vname, last))
        env = {"hash": ("hash", "u64")}
        for f, ty in vdict[vname]:
            env[f] = (f, ty)
        em = translate_block(stmts[:-1], env)
        a, ty = em.ex(parse_expr(pm.group(1)))
        if ty != "u64":
            raise TranslateError("arm %s: index expression has type %s" % (vname, ty))
        arm_txt.append("  | %s %s =>\n    %s" % (vname, " ".join(binders), em.render("Some %s" % a)))
    out.append("Definition sr_partition (s : sr) (hash : Z) : option Z :=\n  match s with\n%s\n  end.\n"
               % "\n".join(arm_txt))
    out.append("Definition partition_of (divisor hash : Z) : option Z :=\n"
               "  do s <- sr_new divisor; sr_partition s hash.\n")
    return "\n".join(out)


def main():
    src_path, out_path = sys.argv[1], sys.argv[2]
    try:
        text = translate(open(src_path).read())
    except TranslateError as e:
        print("TRANSLATE-ERROR: %s" % e)
        sys.exit(2)
    try:
        old = open(out_path).read()
    except OSError:
        old = None
    if old != text:
        open(out_path, "w").write(text)
        print("regenerated %s" % out_path)
    else:
        print("unchanged %s" % out_path)


if __name__ == "__main__":
    main()
