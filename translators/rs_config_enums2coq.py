#!/usr/bin/env python3
"""Translator (T tie) for C43: regenerates coq/Gen/ConfigEnums.v from the Rust source.

  * the spelling tables of every enum-valued configuration option, from its `impl FromStr` / `impl Display`
    blocks (SpillCompression, MapKeyDedupPolicy, ConfigDurationFormat, DFParquetWriterVersion,
    CompressionTypeVariant, CsvQuoteStyle, ExplainFormat, MetricType, MetricCategory) and from the
    `dialect_metadata!` invocation (Dialect);
  * the key -> text-domain table of the session configuration and of the CSV / JSON / Parquet table options,
    from the `config_namespace!` blocks (field name, Rust type, `transform =`).

Fails closed (TranslateError, exit 1): every block must have exactly the expected shape, and the hand-modelled
blocks (Option<F>, u8, config_field! lines, the usize wrappers, the parallelism transform, the umbrella key,
ExplainAnalyzeCategories) are pinned by the hash of their whitespace-normalised text.

Usage: rs_config_enums2coq.py <repo> <out.v> [--json <out.json>]
"""
import hashlib
import json
import re
import sys


class TranslateError(Exception):
    pass


def norm(s):
    s = re.sub(r"//[^\n]*", "", s)
    return " ".join(s.split())


def block_at(src, start):
    """text of the brace block whose '{' is the first one at or after start (string-literal aware)"""
    i = src.index("{", start)
    depth, j, n = 0, i, len(src)
    while j < n:
        c = src[j]
        if c == '"':
            j += 1
            while src[j] != '"':
                j += 2 if src[j] == "\\" else 1
        elif c == "'" and j + 2 < n and (src[j + 2] == "'" or (src[j + 1] == "\\" and src[j + 3] == "'")):
            j += 3 if src[j + 2] == "'" else 4
            continue
        elif c == "/" and src[j:j + 2] == "//":
            j = src.index("\n", j)
        elif c == "{":
            depth += 1
        elif c == "}":
            depth -= 1
            if depth == 0:
                return src[i:j + 1]
        j += 1
    raise TranslateError("unbalanced block")


def find_block(src, header):
    ms = [m for m in re.finditer(re.escape(header) + r"\s*\{", src)]
    if len(ms) != 1:
        raise TranslateError("expected exactly one %r, found %d" % (header, len(ms)))
    return block_at(src, ms[0].start())


LIT = r'"((?:[^"\\])*)"'


def ascii_plain(s, what):
    if not all(0x20 <= ord(c) < 0x7f for c in s) or '"' in s:
        raise TranslateError("non-plain literal %r in %s" % (s, what))
    return s


# ---------------------------------------------------------------- enums
def parse_fromstr(src, name):
    b = norm(find_block(src, "impl FromStr for %s" % name))
    m = re.fullmatch(
        r"\{ type Err = DataFusionError; fn from_str\((\w+): &str\) -> Result<Self, Self::Err> \{ "
        r"(?:let (\w+) = (\w+)((?:\.\w+\(\))+); )?match (\w+)((?:\.\w+\(\))*) \{ (.*) \} \} \}", b)
    if not m:
        raise TranslateError("FromStr for %s: unexpected shape: %s" % (name, b[:200]))
    param, let_v, let_src, let_chain, scrut, chain, arms = m.groups()
    calls = []
    if let_v:
        if let_src != param or scrut != let_v:
            raise TranslateError("FromStr for %s: unexpected let" % name)
        calls += re.findall(r"\.(\w+)\(\)", let_chain)
    elif scrut != param:
        raise TranslateError("FromStr for %s: match scrutinee is not the parameter" % name)
    calls += re.findall(r"\.(\w+)\(\)", chain)
    if calls and calls[-1] == "as_str":
        calls = calls[:-1]
    trim = False
    if calls and calls[0] == "trim":
        trim, calls = True, calls[1:]
    folds = {"to_ascii_lowercase": ("FLower", False), "to_lowercase": ("FLower", True),
             "to_ascii_uppercase": ("FUpper", False), "to_uppercase": ("FUpper", True)}
    if len(calls) != 1 or calls[0] not in folds:
        raise TranslateError("FromStr for %s: unexpected normalisation %s" % (name, calls))
    fold, uni = folds[calls[0]]
    # arms
    arm_re = re.compile(r"((?:%s)(?: \| (?:%s))*) => Ok\((?:Self|%s)::(\w+)\), " % (LIT, LIT, name))
    pos, accept = 0, []
    while True:
        am = arm_re.match(arms, pos)
        if not am:
            break
        for lit in re.findall(LIT, am.group(1)):
            accept.append((ascii_plain(lit, name), am.group(am.lastindex)))
        pos = am.end()
    rest = arms[pos:]
    if not accept or not re.fullmatch(r"(other|_) => (Err\(.*\)|_config_err!\(.*\)),?", rest) or "Ok(" in rest:
        raise TranslateError("FromStr for %s: unexpected arms: %s" % (name, rest[:200]))
    want = (lambda s: s == s.lower()) if fold == "FLower" else (lambda s: s == s.upper())
    for lit, _ in accept:
        if not want(lit) or (trim and lit != lit.strip()):
            raise TranslateError("FromStr for %s: arm %r can never match after normalisation" % (name, lit))
    if len({l for l, _ in accept}) != len(accept):
        raise TranslateError("FromStr for %s: duplicate arm literal" % name)
    return {"trim": trim, "fold": fold, "unicode": uni, "accept": accept}


def parse_display(src, name):
    b = norm(find_block(src, "impl Display for %s" % name))
    m = re.fullmatch(r"\{ fn fmt\(&self, f: &mut (?:std::)?(?:fmt::)?Formatter(?:<'_>)?\) -> (?:std::)?(?:fmt::)?Result \{ (.*) \} \}", b)
    if not m:
        raise TranslateError("Display for %s: unexpected shape: %s" % (name, b[:200]))
    body = m.group(1)
    m1 = re.fullmatch(r"let (\w+) = match self \{ (.*?),? \}; write!\(f, \"\{(\w+)\}\"\)", body)
    out = []
    if m1 and m1.group(1) == m1.group(3):
        arms = m1.group(2) + ","
        arm_re = re.compile(r"(?:Self|%s)::(\w+) => %s, ?" % (name, LIT))
    else:
        m2 = re.fullmatch(r"match self \{ (.*?),? \}", body)
        if not m2:
            raise TranslateError("Display for %s: unexpected body: %s" % (name, body[:200]))
        arms = m2.group(1) + ","
        arm_re = re.compile(r"(?:Self|%s)::(\w+) => write!\(f, %s\), ?" % (name, LIT))
    pos = 0
    while pos < len(arms):
        am = arm_re.match(arms, pos)
        if not am:
            raise TranslateError("Display for %s: unexpected arm: %s" % (name, arms[pos:pos + 80]))
        out.append((am.group(1), ascii_plain(am.group(2), name)))
        pos = am.end()
    return out


def parse_variants(src, name):
    b = find_block(src, "pub enum %s" % name)
    b = re.sub(r"//[^\n]*", "", b)
    b = re.sub(r"#\[[^\]]*\]", "", b)
    vs = [x.strip() for x in b.strip("{} \n").split(",") if x.strip()]
    for v in vs:
        if not re.fullmatch(r"\w+", v):
            raise TranslateError("enum %s: non-unit variant %r" % (name, v))
    return vs


def plain_enum(src, name):
    vs = parse_variants(src, name)
    fs = parse_fromstr(src, name)
    dp = parse_display(src, name)
    if [v for v, _ in dp] != vs and sorted(v for v, _ in dp) != sorted(vs):
        raise TranslateError("enum %s: Display arms %s do not cover variants %s" % (name, dp, vs))
    for _, v in fs["accept"]:
        if v not in vs:
            raise TranslateError("enum %s: FromStr yields unknown variant %s" % (name, v))
    idx = {v: i for i, v in enumerate(vs)}
    return {"name": name, "variants": vs, "trim": fs["trim"], "fold": fs["fold"], "unicode": fs["unicode"],
            "print": [(idx[v], t) for v, t in dp], "accept": [(t, idx[v]) for t, v in fs["accept"]]}


DIALECT_FROMSTR = ("{ type Err = DataFusionError; fn from_str(s: &str) -> Result<Self, Self::Err> { for info in DIALECT_INFOS { "
                   "if info.canonical_name.eq_ignore_ascii_case(s) || info .aliases .iter() .any(|alias| alias.eq_ignore_ascii_case(s)) "
                   "{ return Ok(info.dialect); } } Err(DataFusionError::Configuration(format!( \"Invalid Dialect: {s}. Expected one of: {}\", "
                   "Self::available() ))) } }")
DIALECT_DISPLAY = "{ fn fmt(&self, f: &mut fmt::Formatter<'_>) -> fmt::Result { let str = self.as_ref(); write!(f, \"{str}\") } }"
DIALECT_ASREF = "{ fn as_ref(&self) -> &str { self.info().canonical_name } }"


def dialect_enum(src):
    if norm(find_block(src, "impl FromStr for Dialect")) != DIALECT_FROMSTR:
        raise TranslateError("FromStr for Dialect changed shape")
    if norm(find_block(src, "impl Display for Dialect")) != DIALECT_DISPLAY:
        raise TranslateError("Display for Dialect changed shape")
    if norm(find_block(src, "impl AsRef<str> for Dialect")) != DIALECT_ASREF:
        raise TranslateError("AsRef<str> for Dialect changed shape")
    ms = [m for m in re.finditer(r"^dialect_metadata!\s*\{", src, re.M)]
    if len(ms) != 1:
        raise TranslateError("dialect_metadata! invocation not found")
    b = norm(block_at(src, ms[0].start()))
    m = re.fullmatch(r"\{ default: (\w+); (.*) \}", b)
    if not m:
        raise TranslateError("dialect_metadata!: unexpected shape")
    ent_re = re.compile(r"(\w+) \{ canonical_name: %s, display_name: %s, aliases: \[([^\]]*)\], \},? ?" % (LIT, LIT))
    pos, body, vs, pr, acc = 0, m.group(2), [], [], []
    while pos < len(body):
        em = ent_re.match(body, pos)
        if not em:
            raise TranslateError("dialect_metadata!: unexpected entry: %s" % body[pos:pos + 80])
        v, canon, _disp, aliases = em.groups()
        i = len(vs)
        vs.append(v)
        names = [canon] + re.findall(LIT, aliases)
        for nme in names:
            ascii_plain(nme, "Dialect")
            if nme != nme.lower():
                raise TranslateError("Dialect name %r is not lower case (eq_ignore_ascii_case model needs it)" % nme)
            acc.append((nme, i))
        pr.append((i, canon))
        pos = em.end()
    # first match wins in the Rust loop: (name -> variant) must be a function for the table to be faithful
    seen = {}
    for nme, i in acc:
        if nme in seen and seen[nme] != i:
            raise TranslateError("Dialect name %r is claimed by two variants" % nme)
        seen[nme] = i
    acc = list(dict.fromkeys(acc))
    if m.group(1) not in vs:
        raise TranslateError("dialect default unknown")
    return {"name": "Dialect", "variants": vs, "trim": False, "fold": "FLower", "unicode": False, "print": pr, "accept": acc}


# ---------------------------------------------------------------- pinned hand-modelled blocks
def sha(s):
    return hashlib.sha1(norm(s).encode()).hexdigest()[:16]


def pins(cfg, fmt):
    out = {}
    out["option_f"] = sha(find_block(cfg, "impl<F: ConfigField + Default> ConfigField for Option<F>"))
    out["u8"] = sha(find_block(cfg, "impl ConfigField for u8"))
    out["opt_max_row_group_bytes"] = sha(find_block(cfg, "impl ConfigField for Option<MaxRowGroupBytes>"))
    out["max_row_group_bytes_fromstr"] = sha(find_block(cfg, "impl FromStr for MaxRowGroupBytes"))
    out["max_row_group_bytes_new"] = sha(find_block(cfg, "impl MaxRowGroupBytes"))
    for t in ("ConfigNonZeroUsize", "ConfigMinTwoUsize", "ConfigFilterSelectivity"):
        out[t + "_fromstr"] = sha(find_block(cfg, "impl FromStr for %s" % t))
        out[t + "_field"] = sha(find_block(cfg, "impl ConfigField for %s" % t))
        out[t + "_display"] = sha(find_block(cfg, "impl Display for %s" % t))
        out[t + "_impl"] = sha(find_block(cfg, "impl %s" % t))
    out["parallelism"] = sha(find_block(cfg, "fn normalized_parallelism(value: &str) -> String"))
    out["default_transform"] = sha(block_after(cfg, "pub fn default_config_transform<T>"))
    out["config_field_macro"] = sha(find_block(cfg, "macro_rules! config_field"))
    out["config_namespace_macro"] = sha(find_block(cfg, "macro_rules! config_namespace"))
    lines = sorted(norm(l) for l in re.findall(r"^config_field!\([^\n]*\);$", cfg, re.M))
    out["config_field_lines"] = sha("\n".join(lines))
    out["options_set"] = sha(block_after(cfg, "    pub fn set(&mut self, key: &str, value: &str) -> Result<()> {\n        let Some((mut prefix, mut inner_key))"))
    out["cats_fromstr"] = sha(find_block(fmt, "impl FromStr for ExplainAnalyzeCategories"))
    out["cats_display"] = sha(find_block(fmt, "impl Display for ExplainAnalyzeCategories"))
    return out


def block_after(src, marker):
    i = src.find(marker)
    if i < 0 or src.find(marker, i + 1) >= 0:
        raise TranslateError("marker not found exactly once: %r" % marker[:60])
    return block_at(src, i)


EXPECTED_PINS = {
    # from the pinned commit; a change in any hand-modelled block fails closed
    "option_f": "0ff847659d604246",
    "u8": "19ca999d294acc5e",
    "opt_max_row_group_bytes": "b542acd6f2dd7f62",
    "max_row_group_bytes_fromstr": "c6c00e74dc477648",
    "max_row_group_bytes_new": "13507737eeb1b2bb",
    "ConfigNonZeroUsize_fromstr": "48d3ec9a9b74c10d",
    "ConfigNonZeroUsize_field": "53e6a29c2f25a6d7",
    "ConfigNonZeroUsize_display": "6633c24b9545ef2e",
    "ConfigNonZeroUsize_impl": "0143c415c9fed1a8",
    "ConfigMinTwoUsize_fromstr": "48d3ec9a9b74c10d",
    "ConfigMinTwoUsize_field": "10559a7dd91bcbe7",
    "ConfigMinTwoUsize_display": "6633c24b9545ef2e",
    "ConfigMinTwoUsize_impl": "7a38cd88ae3c991c",
    "ConfigFilterSelectivity_fromstr": "5a745758145f1a36",
    "ConfigFilterSelectivity_field": "b9e5d8d995f919e5",
    "ConfigFilterSelectivity_display": "6633c24b9545ef2e",
    "ConfigFilterSelectivity_impl": "53bd2994351dab29",
    "parallelism": "29cfcb030c712152",
    "default_transform": "4a29e66b427a4ca3",
    "config_field_macro": "5113e55c31eb05be",
    "config_namespace_macro": "fd4476c6039c9a14",
    "config_field_lines": "58707a961d8006a3",
    "options_set": "1145c19a390579f5",
    "cats_fromstr": "8f708b5760886be8",
    "cats_display": "358cdb6b49fe7a44",
}


# ---------------------------------------------------------------- key -> domain
def namespaces(src):
    """struct name -> [(field, type, transform)] for every config_namespace! / config_namespace_with_hashmap! block"""
    out = {}
    for m in re.finditer(r"^(config_namespace|config_namespace_with_hashmap)!\s*\{", src, re.M):
        b = block_at(src, m.start())
        body = re.sub(r"^\s*//[^\n]*$", "", b, flags=re.M)
        sm = re.search(r"pub struct (\w+)\s*\{", body)
        if not sm:
            raise TranslateError("config_namespace! without struct")
        inner = block_at(body, sm.start())
        fields = []
        for fm in re.finditer(r"^\s*pub (\w+)\s*:\s*([^,\n]+),(.*)$", inner, re.M):
            name, ty, rest = fm.group(1), fm.group(2).strip(), fm.group(3)
            tm = re.search(r"transform = ([\w:]+),", rest)
            if "default =" not in rest:
                raise TranslateError("field %s.%s without default on its line" % (sm.group(1), name))
            fields.append((name, ty, tm.group(1) if tm else None))
        npub = len(re.findall(r"^\s*pub \w+\s*:", inner, re.M))
        if npub != len(fields) or not fields:
            raise TranslateError("config_namespace! %s: %d pub fields, %d parsed" % (sm.group(1), npub, len(fields)))
        out[sm.group(1)] = fields
    return out


U64 = 2 ** 64 - 1
ENUM_TYPES = ["SpillCompression", "MapKeyDedupPolicy", "ConfigDurationFormat", "DFParquetWriterVersion",
              "CompressionTypeVariant", "CsvQuoteStyle", "ExplainFormat", "MetricType", "Dialect"]


def dom_of(ty, transform, where):
    """Coq term of the text domain, or ('unmodelled', reason)"""
    if transform not in (None, "str::to_lowercase", "ExecutionOptions::normalized_parallelism"):
        raise TranslateError("%s: unknown transform %s" % (where, transform))
    om = re.fullmatch(r"Option<(.+)>", ty)
    if om:
        inner = om.group(1)
        if inner == "MaxRowGroupBytes":
            if transform:
                raise TranslateError(where)
            return "DOpt false (DUint %d 1)" % U64
        d = dom_of(inner, transform, where)
        if isinstance(d, tuple):
            return d
        if inner not in ("bool", "usize", "u64", "u32", "i32", "u8", "String"):
            return ("unmodelled", "Option<%s>" % inner)
        return "DOpt true (%s)" % d
    if transform == "ExecutionOptions::normalized_parallelism":
        if ty != "usize":
            raise TranslateError(where)
        return "DPar 0"
    if ty == "String":
        return "DStr %s" % ("true" if transform == "str::to_lowercase" else "false")
    if transform:
        raise TranslateError("%s: transform on %s" % (where, ty))
    if ty == "bool":
        return "DBool true"
    if ty in ("usize", "u64"):
        return "DUint %d 0" % U64
    if ty == "u32":
        return "DUint %d 0" % (2 ** 32 - 1)
    if ty == "i32":
        return "DInt (%d) %d (%d) %d" % (-2 ** 31, 2 ** 31 - 1, -2 ** 31, 2 ** 31 - 1)
    if ty == "u8":
        return "DU8"
    if ty == "ConfigNonZeroUsize":
        return "DUint %d 1" % U64
    if ty == "ConfigMinTwoUsize":
        return "DUint %d 2" % U64
    if ty == "ConfigFilterSelectivity":
        return "DInt (%d) %d 0 100" % (-2 ** 63, 2 ** 63 - 1)
    if ty in ENUM_TYPES:
        return "DEnum enum_%s" % ty
    if ty == "ExplainAnalyzeCategories":
        return "DCats enum_MetricCategory"
    return ("unmodelled", ty)


# scalar ConfigField impls that ignore the remainder of the key (`fn set(&mut self, _: &str, ...)`)
STRICT_KEY_TYPES = ("ConfigNonZeroUsize", "ConfigMinTwoUsize", "ConfigFilterSelectivity")


def keys_of(ns, struct, prefix, out, unm):
    for name, ty, tr in ns[struct]:
        key = "%s.%s" % (prefix, name)
        if ty in ns:
            keys_of(ns, ty, key, out, unm)
            continue
        d = dom_of(ty, tr, key)
        if isinstance(d, tuple):
            unm.append((key, d[1]))
        else:
            out.append((key, d, ty not in STRICT_KEY_TYPES))


def key_tables(cfg, ns):
    # session: roots from `impl ConfigField for ConfigOptions { fn visit ... }`
    vis = find_block(cfg, "impl ConfigField for ConfigOptions")
    roots = re.findall(r'self\.(\w+)\.visit\(v, "(datafusion\.\w+)", ""\);', vis)
    st = find_block(cfg, "pub struct ConfigOptions")
    ftypes = dict(re.findall(r"pub (\w+): (\w+),", st))
    sets = dict(re.findall(r'"(\w+)" => self\.(\w+)\.set\(rem, value\),', vis))
    if not roots or set(f for f, _ in roots) | {"extensions"} != set(ftypes):
        raise TranslateError("ConfigOptions: visit roots %s do not cover fields %s" % (roots, sorted(ftypes)))
    tables, unm = {}, {}
    out, u = [], []
    for f, prefix in roots:
        if sets.get(prefix.split(".")[1]) != f:
            raise TranslateError("ConfigOptions::set does not route %s to field %s" % (prefix, f))
        keys_of(ns, ftypes[f], prefix, out, u)
    # the umbrella key is special-cased in ConfigOptions::set: strict bool::from_str, assigns 4 fields
    umb = "datafusion.optimizer.enable_dynamic_filter_pushdown"
    hit = [i for i, (k, _, _) in enumerate(out) if k == umb]
    if len(hit) != 1 or 'if inner_key == "optimizer.enable_dynamic_filter_pushdown"' not in cfg or "value.parse::<bool>()" not in cfg:
        raise TranslateError("umbrella key special case not found")
    out[hit[0]] = (umb, "DBool false", False)
    tables["session"], unm["session"] = out, u
    # table options: format.* of CsvOptions / JsonOptions / TableParquetOptions (global ParquetOptions + crypto)
    tv = norm(find_block(cfg, "impl ConfigField for TableOptions"))
    for frag in ('ConfigFileType::PARQUET => self.parquet.visit(v, "format", "")', 'ConfigFileType::CSV => self.csv.visit(v, "format", "")',
                 'ConfigFileType::JSON => self.json.visit(v, "format", "")', "ConfigFileType::PARQUET => self.parquet.set(rem, value)",
                 "ConfigFileType::CSV => self.csv.set(rem, value)", "ConfigFileType::JSON => self.json.set(rem, value)"):
        if frag not in tv:
            raise TranslateError("TableOptions visit/set changed shape: missing %s" % frag)
    tp = norm(find_block(cfg, "impl ConfigField for TableParquetOptions"))
    if "self.global.visit(v, key_prefix, description);" not in tp or "self.global.set(key, value)" not in tp:
        raise TranslateError("TableParquetOptions visit/set changed shape")
    for name, struct in (("csv", "CsvOptions"), ("json", "JsonOptions"), ("parquet", "ParquetOptions")):
        out, u = [], []
        keys_of(ns, struct, "format", out, u)
        tables[name], unm[name] = out, u
    return tables, unm


# ---------------------------------------------------------------- Coq output
def coq_text(s):
    return 'L "%s"' % s


def coq_enum(e):
    pr = "; ".join("(%d%%N, %s)" % (i, coq_text(t)) for i, t in e["print"])
    ac = "; ".join("(%s, %d%%N)" % (coq_text(t), i) for t, i in e["accept"])
    vs = " ".join("%d=%s" % (i, v) for i, v in enumerate(e["variants"]))
    return ("(* %s: %s   [Rust folds with %s case mapping%s] *)\n"
            "Definition enum_%s : enum_desc :=\n  {| e_trim := %s; e_fold := %s;\n     e_print := [%s];\n     e_accept := [%s] |}.\n"
            % (e["name"], vs, "Unicode" if e["unicode"] else "ASCII", ", after trim()" if e["trim"] else "",
               e["name"], "true" if e["trim"] else "false", e["fold"], pr, ac))


def coq_table(name, rows):
    body = ";\n   ".join("(%s, %s, %s)" % (coq_text(k), "true" if len_ else "false", d) for k, d, len_ in rows)
    return ("Definition %s_rows : list (text * bool * dom) :=\n  [%s].\n"
            "Definition %s_keys (par : Z) : list (text * bool * dom) := inst_rows par %s_rows.\n" % (name, body, name, name))


def translate(repo):
    rd = lambda p: open("%s/datafusion/common/src/%s" % (repo, p), encoding="utf-8").read()
    cfg, fmt, prs, pq = rd("config.rs"), rd("format.rs"), rd("parsers.rs"), rd("parquet_config.rs")
    enums = [plain_enum(cfg, "SpillCompression"), plain_enum(cfg, "MapKeyDedupPolicy"), plain_enum(cfg, "ConfigDurationFormat"),
             plain_enum(pq, "DFParquetWriterVersion"), plain_enum(prs, "CompressionTypeVariant"), plain_enum(prs, "CsvQuoteStyle"),
             plain_enum(fmt, "ExplainFormat"), plain_enum(fmt, "MetricType"), plain_enum(fmt, "MetricCategory"), dialect_enum(cfg)]
    got = pins(cfg, fmt)
    if EXPECTED_PINS:
        for k, v in EXPECTED_PINS.items():
            if got.get(k) != v:
                raise TranslateError("hand-modelled block %r changed (hash %s, expected %s): re-inspect the model" % (k, got.get(k), v))
        if set(got) != set(EXPECTED_PINS):
            raise TranslateError("pin set changed")
    ns = namespaces(cfg)
    tables, unm = key_tables(cfg, ns)
    v = ["(* GENERATED by translators/rs_config_enums2coq.py from datafusion/common/src/{config,format,parsers,parquet_config}.rs",
         "   -- do not edit; regenerated on every run of ./check C43. *)",
         "From Coq Require Import List NArith ZArith String Ascii.", "From DF Require Import Model.ConfigText.", "Import ListNotations.",
         "Open Scope string_scope.", "Open Scope Z_scope.", ""]
    v += [coq_enum(e) for e in enums]
    v.append("Definition all_enums : list enum_desc :=\n  [%s].\n" % "; ".join("enum_" + e["name"] for e in enums))
    for name in ("session", "csv", "json", "parquet"):
        v.append(coq_table(name, tables[name]))
    info = {"enums": enums, "tables": {k: [(a, b, c) for a, b, c in rows] for k, rows in tables.items()},
            "unmodelled": unm, "pins": got}
    return "\n".join(v), info


def main(argv):
    if len(argv) < 3:
        print(__doc__)
        return 2
    try:
        text, info = translate(argv[1])
    except (TranslateError, ValueError, IndexError, OSError) as e:
        print("TranslateError: %s" % e)
        return 1
    old = None
    try:
        old = open(argv[2]).read()
    except OSError:
        pass
    if old != text:
        open(argv[2], "w").write(text)
    if "--json" in argv:
        json.dump(info, open(argv[argv.index("--json") + 1], "w"), indent=1)
    if "--pins" in argv:
        print(json.dumps(info["pins"], indent=1))
    print("translated %d enums (%d spellings), %s keys modelled, %s unmodelled%s"
          % (len(info["enums"]), sum(len(e["accept"]) for e in info["enums"]),
             {k: len(r) for k, r in info["tables"].items()}, {k: len(r) for k, r in info["unmodelled"].items()},
             "" if old != text else " (unchanged)"))
    return 0


if __name__ == "__main__":
    sys.exit(main(sys.argv))
