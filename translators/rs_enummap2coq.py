#!/usr/bin/env python3
"""rs_enummap2coq.py -- translate the ENUM-LIKE mapping tables of datafusion's protobuf (de)serialisation into Coq.

  rs_enummap2coq.py <repo> <out.v> --set logical|physical --json <info.json>
  rs_enummap2coq.py <repo> --discover            (development aid: list every simple match block in the scanned files)

For every pinned table (see TABLES) the translator locates, in the CURRENT source,
  * the encode `match` (Rust variant  -> protobuf enum variant / oneof case / string literal) and
  * the decode `match` (protobuf enum variant / oneof case / string literal -> Rust variant),
  * and, for protobuf enums, the numbering `Variant = n` in the prost-generated code,
and emits: an inductive of the Rust variants (taken from the encode match, which rustc checks for exhaustiveness),
`enc_X : X -> tag` and `dec_X : tag -> option X` exactly as the two match blocks (composed with the prost numbering) say,
`all_X`, and the boolean table check `table_ok_X` / `bad_variants_X`.
tag = Z for protobuf enums (the i32 on the wire), string for oneof cases and string tables.

Fails closed (exit 2 with a message) when: a pinned block is not found; an arm does not have the expected simple shape
(LHS one variant path with an optional payload pattern; RHS mentions exactly one variant of the target enum);
an arm uses a guard or a wildcard / binding catch-all on the encode side; two arms of one match have the same LHS;
a protobuf variant has no number in the generated code.
A decode-side catch-all (`_ =>`) is translated as "no variant" (None).
"""
import json
import os
import re
import sys

# ---------------------------------------------------------------------------------------------- Rust lexing helpers


def strip_comments(src):
    """remove // and /* */ comments (keeping string literals and line structure)"""
    out = []
    i, n = 0, len(src)
    while i < n:
        c = src[i]
        if c == '"':
            j = i + 1
            while j < n and src[j] != '"':
                j += 2 if src[j] == "\\" else 1
            out.append(src[i:j + 1])
            i = j + 1
        elif c == "'" and i + 2 < n and (src[i + 2] == "'" or (src[i + 1] == "\\" and src.find("'", i + 2) in (i + 3, i + 4))):
            j = src.find("'", i + 2)
            out.append(src[i:j + 1])
            i = j + 1
        elif src.startswith("//", i):
            j = src.find("\n", i)
            j = n if j < 0 else j
            i = j
        elif src.startswith("/*", i):
            depth, j = 1, i + 2
            while j < n and depth:
                if src.startswith("/*", j):
                    depth += 1
                    j += 2
                elif src.startswith("*/", j):
                    depth -= 1
                    j += 2
                else:
                    j += 1
            out.append("\n" * src.count("\n", i, j))
            i = j
        else:
            out.append(c)
            i += 1
    return "".join(out)


def match_close(src, i):
    """src[i] is an opening bracket; index of the matching closing one (string-literal aware)"""
    pairs = {"{": "}", "(": ")", "[": "]"}
    stack = [pairs[src[i]]]
    j = i + 1
    n = len(src)
    while j < n:
        c = src[j]
        if c == '"':
            j += 1
            while j < n and src[j] != '"':
                j += 2 if src[j] == "\\" else 1
        elif c in pairs:
            stack.append(pairs[c])
        elif c in "})]":
            if not stack or stack[-1] != c:
                raise ValueError("unbalanced brackets")
            stack.pop()
            if not stack:
                return j
        j += 1
    raise ValueError("unbalanced brackets (eof)")


def split_arms(body):
    """split the body of a match into (lhs, rhs) pairs at top-level `=>` / `,`"""
    arms = []
    i, n = 0, len(body)
    while i < n:
        # skip whitespace / commas
        while i < n and body[i] in " \t\r\n,":
            i += 1
        if i >= n:
            break
        # LHS: up to top-level =>
        j = i
        while j < n and not body.startswith("=>", j):
            if body[j] in "{([":
                j = match_close(body, j)
            elif body[j] == '"':
                j += 1
                while body[j] != '"':
                    j += 2 if body[j] == "\\" else 1
            j += 1
        if j >= n:
            raise ValueError("arm without =>: %r" % body[i:i + 80])
        lhs = body[i:j].strip()
        j += 2
        while j < n and body[j] in " \t\r\n":
            j += 1
        # RHS: a block `{...}` (optionally followed by a comma) or an expression up to the top-level comma
        k = j
        if k < n and body[k] == "{":
            e = match_close(body, k)
            rhs = body[k:e + 1]
            k = e + 1
            # `{ .. }.into()`-like tails are not expected; a block arm ends here
        else:
            while k < n and body[k] != ",":
                if body[k] in "{([":
                    k = match_close(body, k)
                elif body[k] == '"':
                    k += 1
                    while body[k] != '"':
                        k += 2 if body[k] == "\\" else 1
                k += 1
            rhs = body[j:k]
        arms.append((" ".join(lhs.split()), " ".join(rhs.split())))
        i = k
    return arms


def all_matches(src):
    """every `match <scrutinee> { body }` of src: the body is the first `{` at bracket depth 0 after the keyword
    (closures inside call parentheses are skipped)"""
    out = []
    for mm in re.finditer(r"\bmatch\b", src):
        j, n = mm.end(), len(src)
        ok = True
        while j < n and src[j] != "{":
            if src[j] in "([":
                try:
                    j = match_close(src, j)
                except ValueError:
                    ok = False
                    break
            elif src[j] == '"':
                j += 1
                while j < n and src[j] != '"':
                    j += 2 if src[j] == "\\" else 1
            elif src[j] == ";":
                ok = False
                break
            j += 1
        if not ok or j >= n:
            continue
        try:
            cb = match_close(src, j)
        except ValueError:
            continue
        out.append({"scrutinee": " ".join(src[mm.end():j].split()), "body": src[j + 1:cb],
                    "line": src.count("\n", 0, mm.start()) + 1})
    return out


def production_part(src):
    """the file without its `#[cfg(test)] mod ... { }` tail (unit tests contain look-alike matches)"""
    m = re.search(r"#\[cfg\(test\)\]\s*(?:pub )?mod \w+ \{", src)
    return src[:m.start()] if m else src


PATH = r"(?:[A-Za-z_][A-Za-z0-9_]*::)*[A-Za-z_][A-Za-z0-9_]*"


class Fail(Exception):
    pass


def unwrap(lhs):
    """strip `&`, `Ok(..)`, `Some(..)` wrappers from an arm pattern"""
    lhs = lhs.strip()
    while True:
        if lhs.startswith("&"):
            lhs = lhs[1:].strip()
            continue
        m = re.match(r"^(?:Ok|Some)\((.*)\)$", lhs)
        if m:
            lhs = m.group(1).strip()
            continue
        return lhs


def lhs_variant(lhs, what):
    """LHS of an arm -> ("var", enum_name, variant_id) | ("str", text) | ("wild", text)
    shapes: `Path::Variant`, `Path::Variant(pat)`, `Path::Variant { .. }`, `Path::Variant(Path2::Inner)` (id Variant_Inner),
    optionally wrapped in & / Ok( ) / Some( ); a string literal; `_`, `Err(_)`, `None`, or a binding = catch-all"""
    if re.search(r"\bif\b", re.sub(r'"(?:[^"\\]|\\.)*"', '""', lhs)):
        raise Fail("%s: guarded arm `%s`" % (what, lhs))
    lhs = unwrap(lhs)
    m = re.match(r'^"((?:[^"\\]|\\.)*)"$', lhs)
    if m:
        return ("str", m.group(1))
    if lhs in ("_", "Err(_)", "None") or re.match(r"^[a-z_][a-z0-9_]*$", lhs):
        return ("wild", lhs)
    if "|" in re.sub(r"\(.*\)|\{.*\}", "", lhs):
        raise Fail("%s: or-pattern `%s` is not a simple arm" % (what, lhs))
    m = re.match(r"^(" + PATH + r")\s*(\(.*\)|\{.*\})?$", lhs)
    if not m or "::" not in m.group(1):
        raise Fail("%s: arm pattern `%s` not of the shape Path::Variant[(..)]" % (what, lhs))
    path = m.group(1).split("::")
    var = path[-1]
    pay = m.group(2) or ""
    mm = re.match(r"^\(\s*(?:[A-Za-z_][A-Za-z0-9_]*::)+([A-Z][A-Za-z0-9_]*)\s*\)$", pay)
    if mm:
        var = var + "_" + mm.group(1)
    return ("var", path[-2], var)


def rhs_targets(rhs, prefixes):
    """distinct variant ids V such that `<prefix>::V` occurs in rhs for one of the given enum path prefixes
    (`<prefix>::V(Path::W)` gives the id V_W)"""
    found = []
    for p in prefixes:
        for m in re.finditer(r"(?<![A-Za-z0-9_:])" + re.escape(p) + r"::([A-Z][A-Za-z0-9_]*)\b(?!::)"
                             r"(\(\s*(?:[A-Za-z_][A-Za-z0-9_]*::)+([A-Z][A-Za-z0-9_]*)\s*\))?", rhs):
            v = m.group(1) + ("_" + m.group(3) if m.group(3) else "")
            if v not in found:
                found.append(v)
    return found


def rhs_string(rhs):
    m = re.match(r'^(?:Some\(|Ok\()?\s*"((?:[^"\\]|\\.)*)"\s*\)?$', rhs)
    return m.group(1) if m else None


# ---------------------------------------------------------------------------------------------- prost enum numbering
def prost_enum_numbers(gen_src, enum_path):
    """numbering of a prost-generated enum; enum_path like `JoinType` or `dml_node::Type` (module nesting)"""
    parts = enum_path.split("::")
    src = gen_src
    for mod in parts[:-1]:
        m = re.search(r"^\s*pub mod %s \{" % re.escape(mod), src, re.M)
        if not m:
            raise Fail("generated prost code: module `%s` (of %s) not found" % (mod, enum_path))
        ob = src.find("{", m.start())
        src = src[ob + 1:match_close(src, ob)]
    for m in re.finditer(r"^\s*pub enum %s \{" % re.escape(parts[-1]), src, re.M):
        depth = src.count("{", 0, m.start()) - src.count("}", 0, m.start())
        if depth != 0:
            continue
        ob = src.find("{", m.start())
        body = src[ob + 1:match_close(src, ob)]
        nums = {}
        for line in strip_comments(body).split(","):
            line = re.sub(r"#\[[^\]]*\]", "", line).strip()
            if not line:
                continue
            mm = re.match(r"^([A-Z][A-Za-z0-9_]*)\s*=\s*(-?\d+)$", line)
            if not mm:
                raise Fail("generated prost enum %s: entry `%s` not of the shape Variant = n" % (enum_path, line))
            nums[mm.group(1)] = int(mm.group(2))
        if len(set(nums.values())) != len(nums):
            raise Fail("generated prost enum %s: two variants share a number" % enum_path)
        return nums
    raise Fail("generated prost code: enum `%s` not found" % enum_path)


def rust_enum_variants(src, enum_name):
    """variants of `pub enum <name> { .. }` and whether Debug is derived (for tables encoded with format!("{:?}"))"""
    m = re.search(r"((?:#\[[^\]]*\]\s*)*)pub enum %s \{" % re.escape(enum_name), src)
    if not m:
        raise Fail("enum %s not found" % enum_name)
    derives = m.group(1)
    if not re.search(r"derive\([^)]*\bDebug\b", derives):
        raise Fail("enum %s does not derive Debug (its wire name is its Debug text)" % enum_name)
    if re.search(r"impl\s+(?:std::|core::)?fmt::Debug\s+for\s+%s\b" % re.escape(enum_name), src):
        raise Fail("enum %s has a hand-written Debug impl" % enum_name)
    ob = src.find("{", m.end() - 1)
    body = src[ob + 1:match_close(src, ob)]
    out = []
    for part in body.split(","):
        part = re.sub(r"#\[[^\]]*\]", "", part).strip()
        if not part:
            continue
        mm = re.match(r"^([A-Z][A-Za-z0-9_]*)$", part)
        if not mm:
            raise Fail("enum %s: variant `%s` is not a unit variant" % (enum_name, part[:60]))
        out.append(mm.group(1))
    return out


# ---------------------------------------------------------------------------------------------- table specs
D = "datafusion/"
PM = D + "proto-models/src/"
PC = D + "proto-common/src/"
PL = D + "proto/src/logical_plan/"
PP = D + "physical-plan/src/"
GEN_MODELS = [PM + "generated/prost.rs", PM + "generated/datafusion_proto_common.rs"]
GEN_COMMON = [PC + "generated/prost.rs"]


def T(name, sets, kind, enc, dec, proto=None, gen=None, rust=None, note=""):
    """enc / dec = (file, regex on the first arm's LHS, regex on the first arm's RHS[, nth])
    the block must be the only match of the file's non-test part whose first arm fits (or the nth such)"""
    return {"name": name, "sets": sets, "kind": kind, "enc": enc, "dec": dec, "proto": proto, "gen": gen,
            "rust": rust or [name], "note": note}


def E(name, sets, f_enc, f_dec, rust, proto, gen, nth_enc=None, nth_dec=None, rust_alias=None, proto_pat=None, note=""):
    """protobuf-enum table located by `Rust::V => ..proto::V'` / `..proto::V' => Rust::V` first arms"""
    pp = proto_pat or (r"(?:\w+::)+" + re.escape(proto.split("::")[-1]) + r"::")
    return T(name, sets, "enum",
             (f_enc, r"^" + re.escape(rust) + r"::", r"^(?:\{ )?(?:\()?(?:" + pp + r"|Self::)", nth_enc),
             (f_dec, r"^" + pp, r"^(?:\{ )?(?:Ok\()?(?:" + re.escape(rust) + r"|Self)::", nth_dec),
             proto, gen, [rust] + (rust_alias or []), note)


# variants whose round trip is KNOWN to fail on the pinned tree (listed in known_findings.json): the generated check
# excludes them (known_bad_X) and reports them separately; every other failure is a new violation
KNOWN_BAD = {
    "Operator": ["Arrow", "LongArrow", "HashArrow", "HashLongArrow", "AtAt", "IntegerDivide", "HashMinus", "AtQuestion", "Question",
                 "QuestionAnd", "QuestionPipe", "Colon"],
}

L, P = "logical", "physical"
B = [L, P]
TABLES = [
    # ---- proto-models: enums of logical plan nodes
    E("JoinType", [L], PM + "to_proto.rs", PM + "from_proto.rs", "JoinType", "JoinType", GEN_MODELS),
    E("JoinConstraint", [L], PM + "to_proto.rs", PM + "from_proto.rs", "JoinConstraint", "JoinConstraint", GEN_MODELS),
    E("NullEquality", [L], PM + "to_proto.rs", PM + "from_proto.rs", "NullEquality", "NullEquality", GEN_MODELS),
    E("NullHandling", [L], PM + "to_proto.rs", PM + "from_proto.rs", "NullHandling", "unnest_options::NullHandling", GEN_MODELS,
      proto_pat=r"ProtoNullHandling::", note="UnnestOptions.null_handling; unknown numbers decode to Preserve"),
    # ---- datafusion-proto logical_plan: DML kind, EXPLAIN format, metric filters
    T("WriteOp", [L], "enum", (PL + "mod.rs", r"^WriteOp::", r"dml_node::Type::", None),
      (PL + "from_proto.rs", r"^protobuf::dml_node::Type::", r"WriteOp::", None), "dml_node::Type", GEN_MODELS, ["WriteOp"],
      note="DmlNode.dml_type; Insert(InsertOp::X) is the variant id Insert_X; WriteOp values without an arm are rejected by the encoder"),
    E("ExplainFormat_analyze", [L], PL + "mod.rs", PL + "mod.rs", "ExplainFormat", "ExplainFormat", GEN_MODELS, 0, 0, note="AnalyzeNode.format"),
    E("ExplainFormat_explain", [L], PL + "mod.rs", PL + "mod.rs", "ExplainFormat", "ExplainFormat", GEN_MODELS, 1, 1, note="ExplainNode.explain_format"),
    E("MetricType", [L], PL + "mod.rs", PL + "mod.rs", "MetricType", "MetricType", GEN_COMMON),
    E("MetricCategory", [L], PL + "mod.rs", PL + "mod.rs", "MetricCategory", "MetricCategory", GEN_COMMON),
    # ---- datafusion-expr: window frames, MERGE clause kinds, null treatment
    E("WindowFrameUnits", [L], D + "expr/src/proto.rs", D + "expr/src/proto.rs", "WindowFrameUnits", "WindowFrameUnits", GEN_MODELS),
    T("WindowFrameBound", [L], "enum", (D + "expr/src/proto.rs", r"^WindowFrameBound::", r"WindowFrameBoundType::", None),
      (D + "expr/src/proto.rs", r"^protobuf::WindowFrameBoundType::", r"Self::", None), "WindowFrameBoundType", GEN_MODELS,
      ["WindowFrameBound", "Self"], note="kind of a frame bound (the payload is a ScalarValue)"),
    E("MergeIntoClauseKind", [L], D + "expr/src/proto.rs", D + "expr/src/proto.rs", "MergeIntoClauseKind", "merge_into_clause_node::Kind", GEN_MODELS,
      rust_alias=["Self"]),
    E("NullTreatment", [L], D + "expr/src/proto.rs", D + "expr/src/proto.rs", "NullTreatment", "NullTreatment", GEN_MODELS, rust_alias=["Self"]),
    # ---- proto-common: arrow / common enums (used by logical and physical plans)
    E("TimeUnit", B, PC + "to_proto/mod.rs", PC + "from_proto/mod.rs", "TimeUnit", "TimeUnit", GEN_COMMON),
    E("IntervalUnit", B, PC + "to_proto/mod.rs", PC + "from_proto/mod.rs", "IntervalUnit", "IntervalUnit", GEN_COMMON),
    E("UnionMode", B, PC + "to_proto/mod.rs", PC + "from_proto/mod.rs", "UnionMode", "UnionMode", GEN_COMMON),
    E("JoinSide", B, PC + "to_proto/mod.rs", PC + "from_proto/mod.rs", "JoinSide", "JoinSide", GEN_COMMON),
    E("CompressionTypeVariant", B, PC + "to_proto/mod.rs", PC + "from_proto/mod.rs", "CompressionTypeVariant", "CompressionTypeVariant", GEN_COMMON,
      rust_alias=["Self"]),
    E("CsvQuoteStyle", B, PC + "to_proto/mod.rs", PC + "from_proto/mod.rs", "CsvQuoteStyle", "CsvQuoteStyle", GEN_COMMON, rust_alias=["Self"]),
    T("DataType", B, "oneof", (PC + "to_proto/mod.rs", r"^DataType::", r"^Self::", None),
      (PC + "from_proto/mod.rs", r"^arrow_type::ArrowTypeEnum::", r"DataType::", None), "arrow_type::ArrowTypeEnum", None, ["DataType"],
      note="kind of an arrow DataType <-> ArrowType oneof case (payloads of parameterised types are not modelled)"),
    # ---- binary operator names (expr-common): encoded as the derived Debug text, decoded by Operator::from_proto_name
    T("Operator", B, "debug", (D + "expr-common/src/operator.rs", "Operator", None, None),
      (D + "expr-common/src/operator.rs", r'^"And"$', r"Operator::", None), None, None, ["Operator"],
      note='BinaryExprNode.op = format!("{op:?}") (derived Debug = variant name); decode = Operator::from_proto_name'),
    # ---- physical plan operators
    E("PJoinType", [P], PP + "joins/proto.rs", PP + "joins/proto.rs", "JoinType", "JoinType", GEN_MODELS, note="HashJoin/NestedLoop/SortMerge/PiecewiseMerge joins"),
    E("PJoinSide", [P], PP + "joins/proto.rs", PP + "joins/proto.rs", "JoinSide", "JoinSide", GEN_COMMON, note="JoinFilter column sides"),
    E("PNullEquality", [P], PP + "joins/proto.rs", PP + "joins/proto.rs", "NullEquality", "NullEquality", GEN_MODELS),
    E("PartitionMode", [P], PP + "joins/hash_join/exec.rs", PP + "joins/hash_join/exec.rs", "PartitionMode", "PartitionMode", GEN_MODELS),
    E("SymJoinType", [P], PP + "joins/symmetric_hash_join.rs", PP + "joins/symmetric_hash_join.rs", "JoinType", "JoinType", GEN_MODELS),
    E("SymNullEquality", [P], PP + "joins/symmetric_hash_join.rs", PP + "joins/symmetric_hash_join.rs", "NullEquality", "NullEquality", GEN_MODELS),
    E("SymJoinSide", [P], PP + "joins/symmetric_hash_join.rs", PP + "joins/symmetric_hash_join.rs", "JoinSide", "JoinSide", GEN_COMMON),
    E("StreamJoinPartitionMode", [P], PP + "joins/symmetric_hash_join.rs", PP + "joins/symmetric_hash_join.rs", "StreamJoinPartitionMode",
      "StreamPartitionMode", GEN_MODELS),
    E("AggregateMode", [P], PP + "aggregates/mod.rs", PP + "aggregates/mod.rs", "AggregateMode", "AggregateMode", GEN_MODELS),
    E("PWindowFrameUnits", [P], PP + "windows/proto.rs", PP + "windows/proto.rs", "WindowFrameUnits", "WindowFrameUnits", GEN_MODELS),
    T("PWindowFrameBound", [P], "enum", (PP + "windows/proto.rs", r"^WindowFrameBound::", r"WindowFrameBoundType::", None),
      (PP + "windows/proto.rs", r"^protobuf::WindowFrameBoundType::", r"WindowFrameBound::", None), "WindowFrameBoundType", GEN_MODELS,
      ["WindowFrameBound"], note="kind of a frame bound (the payload is a ScalarValue)"),
    E("PExplainFormat", [P], PP + "analyze.rs", PP + "analyze.rs", "ExplainFormat", "ExplainFormat", GEN_MODELS, note="AnalyzeExec format"),
    E("InsertOp", [P], D + "datasource/src/file_sink_config/proto.rs", D + "datasource/src/file_sink_config/proto.rs", "InsertOp", "InsertOp", GEN_MODELS),
    E("FileOutputMode", [P], D + "datasource/src/file_sink_config/proto.rs", D + "datasource/src/file_sink_config/proto.rs", "FileOutputMode",
      "FileOutputMode", GEN_MODELS),
]


# ---------------------------------------------------------------------------------------------- translation of one table
def read(repo, rel, cache={}):
    p = os.path.join(repo, rel)
    if p not in cache:
        if not os.path.exists(p):
            raise Fail("source file %s not found" % rel)
        cache[p] = production_part(strip_comments(open(p, encoding="utf-8").read()))
    return cache[p]


def parsed_matches(repo, rel, cache={}):
    if rel not in cache:
        out = []
        for blk in all_matches(read(repo, rel)):
            try:
                arms = split_arms(blk["body"])
            except (ValueError, IndexError):
                continue
            if arms:
                out.append((blk["line"], arms))
        cache[rel] = out
    return cache[rel]


def locate(repo, spec, side, name):
    rel, lhs_re, rhs_re, nth = spec
    cands = [(line, arms) for line, arms in parsed_matches(repo, rel)
             if re.search(lhs_re, unwrap(arms[0][0])) and re.search(rhs_re, arms[0][1])]
    if not cands:
        raise Fail("%s.%s: no match block with a first arm /%s/ => /%s/ in %s (pinned table vanished or was rewritten)" % (name, side, lhs_re, rhs_re, rel))
    if nth is None:
        if len(cands) != 1:
            raise Fail("%s.%s: %d candidate match blocks in %s (lines %s), expected exactly 1" % (name, side, len(cands), rel, [c[0] for c in cands]))
        line, arms = cands[0]
    else:
        if len(cands) <= nth:
            raise Fail("%s.%s: only %d candidate match blocks in %s, expected more than %d" % (name, side, len(cands), rel, nth))
        line, arms = cands[nth]
    return rel, line, arms


def proto_prefixes(t):
    segs = t["proto"].split("::")
    pre = []
    for k in range(len(segs)):
        tail = "::".join(segs[k:])
        pre += ["protobuf::" + tail, "protobuf_common::" + tail, tail]
    if t["name"] == "NullHandling":
        pre.append("ProtoNullHandling")
    return pre + ["Self"]


def translate(repo, t):
    name, kind = t["name"], t["kind"]
    variants, enc, unencodable = [], {}, False
    if kind == "debug":
        rel_e = t["enc"][0]
        variants = rust_enum_variants(read(repo, rel_e), t["enc"][1])
        enc = {v: v for v in variants}
        line_e = 0
    else:
        rel_e, line_e, arms_e = locate(repo, t["enc"], "enc", name)
        what = "%s.enc (%s:%d)" % (name, rel_e, line_e)
        for lhs, rhs in arms_e:
            r = lhs_variant(lhs, what)
            if r[0] == "wild":
                if re.search(r"\bErr\(|_err!\(", rhs):
                    unencodable = True      # values the encoder rejects: outside the property ("whose encoding succeeds")
                    continue
                raise Fail("%s: encode catch-all arm `%s => %s` makes the table unverifiable" % (what, lhs, rhs[:100]))
            if r[0] != "var":
                raise Fail("%s: encode arm `%s` is not an enum variant" % (what, lhs))
            if r[1] not in t["rust"]:
                raise Fail("%s: arm `%s` is not a variant of %s" % (what, lhs, "/".join(t["rust"])))
            var = r[2]
            if var in enc:
                raise Fail("%s: variant %s has two encode arms" % (what, var))
            if kind == "string":
                sv = rhs_string(rhs)
                if sv is None:
                    raise Fail("%s: arm `%s => %s` does not produce a string literal" % (what, lhs, rhs))
                enc[var] = sv
            else:
                tg = rhs_targets(rhs, proto_prefixes(t))
                if len(tg) != 1:
                    raise Fail("%s: arm `%s => %s` mentions %d variants of protobuf %s (expected exactly 1)" % (what, lhs, rhs[:120], len(tg), t["proto"]))
                enc[var] = tg[0]
            variants.append(var)
    rel_d, line_d, arms_d = locate(repo, t["dec"], "dec", name)
    dec, dec_default = {}, None
    what = "%s.dec (%s:%d)" % (name, rel_d, line_d)
    for lhs, rhs in arms_d:
        r = lhs_variant(lhs, what)
        if r[0] == "wild":
            tg = rhs_targets(rhs, t["rust"] + ["Self"])
            if len(tg) > 1:
                raise Fail("%s: catch-all arm `%s => %s` mentions several variants" % (what, lhs, rhs[:120]))
            dec_default = tg[0] if tg else None
            continue
        if kind in ("string", "debug"):
            if r[0] != "str":
                raise Fail("%s: arm `%s` is not a string literal" % (what, lhs))
            tagname = r[1]
        else:
            if r[0] != "var":
                raise Fail("%s: arm `%s` is not a protobuf variant" % (what, lhs))
            tagname = r[2]
        if tagname in dec:
            raise Fail("%s: tag %s has two decode arms" % (what, tagname))
        tg = rhs_targets(rhs, t["rust"] + ["Self"])
        if len(tg) != 1:
            raise Fail("%s: arm `%s => %s` mentions %d variants of %s (expected exactly 1)" % (what, lhs, rhs[:120], len(tg), name))
        dec[tagname] = tg[0]
    nums = None
    if kind == "enum":
        errs = []
        for g in t["gen"]:
            try:
                nums = prost_enum_numbers(open(os.path.join(repo, g), encoding="utf-8").read(), t["proto"])
                break
            except Fail as e:
                errs.append(str(e))
        if nums is None:
            raise Fail("%s: %s" % (name, "; ".join(errs)))
        for tag in list(enc.values()) + list(dec.keys()):
            if tag not in nums:
                raise Fail("%s: protobuf variant %s::%s has no number in %s" % (name, t["proto"], tag, t["gen"]))
    extra = []
    for tagname, var in list(dec.items()) + ([("<default>", dec_default)] if dec_default else []):
        if var not in variants:
            if unencodable:
                extra.append(var)       # decodable but never produced by the encoder
                variants.append(var)
            else:
                raise Fail("%s.dec: decodes to %s which is not among the encoded variants %s" % (name, var, variants))
    return {"name": name, "kind": kind, "proto": t["proto"], "rust": t["rust"][0], "variants": [v for v in variants if v not in extra],
            "enc": enc, "dec": dec, "dec_default": dec_default, "nums": nums, "decode_only": extra,
            "enc_at": "%s:%d" % (rel_e, line_e), "dec_at": "%s:%d" % (rel_d, line_d), "note": t["note"],
            "known_bad": [v for v in KNOWN_BAD.get(name, []) if v in variants]}


# ---------------------------------------------------------------------------------------------- Coq emission
def coq_str(s):
    return '"' + s.replace('"', '""') + '"'


def zl(n):
    return "(%d)" % n if n < 0 else "%d" % n


def emit(tables, setname):
    o = []
    o.append("(* GENERATED by translators/rs_enummap2coq.py --set %s from the current datafusion source -- do not edit;\n"
             "   regenerated on every run of ./check %s.  Per enum-like table X: the inductive X of the Rust variants (from the\n"
             "   encode match), enc_X / dec_X exactly as the two match blocks say (composed with the prost numbering for\n"
             "   protobuf enums; string tags for oneof cases and name tables), all_X and the executable table check. *)"
             % (setname, "C35" if setname == "logical" else "C36"))
    o.append("From Coq Require Import List ZArith String Bool.\nFrom DF Require Import Model.ProtoCodec.\nImport ListNotations.\nOpen Scope string_scope.\nOpen Scope Z_scope.\n")
    for t in tables:
        n = t["name"]
        vs = t["variants"]
        c = lambda v: "%s_%s" % (n, v)
        isz = t["kind"] == "enum"
        tagty = "Z" if isz else "string"
        o.append("(* ---- %s (%s): encode %s, decode %s%s *)" % (n, t["kind"], t["enc_at"], t["dec_at"], (" -- " + t["note"]) if t["note"] else ""))
        o.append("Inductive %s : Set := %s." % (n, " | ".join(c(v) for v in vs)))
        o.append("Definition all_%s : list %s := [%s]." % (n, n, "; ".join(c(v) for v in vs)))
        o.append("Definition name_%s (v : %s) : string := match v with %s end." % (n, n, " | ".join("%s => %s" % (c(v), coq_str(v)) for v in vs)))
        o.append("Definition idx_%s (v : %s) : Z := match v with %s end." % (n, n, " | ".join("%s => %d" % (c(v), i) for i, v in enumerate(vs))))
        o.append("Definition eqb_%s (a b : %s) : bool := idx_%s a =? idx_%s b." % (n, n, n, n))
        if isz:
            o.append("Definition enc_%s (v : %s) : Z := match v with %s end." % (
                n, n, " | ".join("%s => %s (* %s *)" % (c(v), zl(t["nums"][t["enc"][v]]), t["enc"][v]) for v in vs)))
            rows = sorted((t["nums"][tag], tag, var) for tag, var in t["dec"].items() if var in vs)
            body = ("Some %s (* unknown number *)" % c(t["dec_default"])) if t["dec_default"] in vs else "None"
            for num, tag, var in reversed(rows):
                body = "if z =? %s then Some %s (* %s *) else\n    %s" % (zl(num), c(var), tag, body)
            o.append("Definition dec_%s (z : Z) : option %s :=\n    %s." % (n, n, body))
            o.append("Definition tag_eqb_%s : Z -> Z -> bool := Z.eqb." % n)
        else:
            o.append("Definition enc_%s (v : %s) : string := match v with %s end." % (n, n, " | ".join("%s => %s" % (c(v), coq_str(t["enc"][v])) for v in vs)))
            body = ("Some %s" % c(t["dec_default"])) if t["dec_default"] in vs else "None"
            for tag, var in reversed([(a, b) for a, b in t["dec"].items() if b in vs]):
                body = "if String.eqb s %s then Some %s else\n    %s" % (coq_str(tag), c(var), body)
            o.append("Definition dec_%s (s : string) : option %s :=\n    %s." % (n, n, body))
            o.append("Definition tag_eqb_%s : string -> string -> bool := String.eqb." % n)
        o.append("Definition table_%s : enum_table %s %s := mk_table all_%s eqb_%s enc_%s dec_%s name_%s." % (n, n, tagty, n, n, n, n, n))
        kb = [v for v in KNOWN_BAD.get(n, []) if v in vs]
        o.append("Definition known_bad_%s : list %s := [%s]." % (n, n, "; ".join(c(v) for v in kb)))
        o.append("Definition good_%s (v : %s) : bool := negb (listed table_%s known_bad_%s v)." % (n, n, n, n))
        o.append("Definition table_ok_%s : bool := table_ok table_%s known_bad_%s." % (n, n, n))
        o.append("Definition bad_variants_%s : list string := bad_variants table_%s known_bad_%s." % (n, n, n))
        o.append("Definition stale_listed_%s : list string := stale_listed table_%s known_bad_%s." % (n, n, n))
        o.append("Definition clash_variants_%s : list (string * string) := clash_variants tag_eqb_%s table_%s." % (n, n, n))
        o.append("")
    names = [t["name"] for t in tables]
    o.append("(* every generated table, by name, with its executable check *)")
    o.append("Definition generated_tables_%s : list (string * bool * list string * list (string * string)) :=\n  [%s]." % (
        setname, ";\n   ".join("(%s, table_ok_%s, bad_variants_%s, clash_variants_%s)" % (coq_str(n), n, n, n) for n in names)))
    zt = [t["name"] for t in tables if t["kind"] == "enum"]
    st = [t["name"] for t in tables if t["kind"] != "enum"]
    body = "false"
    for n in reversed(zt):
        body = "if String.eqb tbl %s then obs_ok Z.eqb table_%s v tag back else\n    %s" % (coq_str(n), n, body)
    o.append("(* correspondence with the implementation: table name -> table *)")
    o.append("Definition obs_z_%s (tbl v : string) (tag : Z) (back : option string) : bool :=\n    %s." % (setname, body))
    body = "false"
    for n in reversed(st):
        body = "if String.eqb tbl %s then obs_ok String.eqb table_%s v tag back else\n    %s" % (coq_str(n), n, body)
    o.append("Definition obs_s_%s (tbl v : string) (tag : string) (back : option string) : bool :=\n    %s." % (setname, body))
    o.append("Definition check_case_%s (c : pc_case) : bool :=\n  match c with PCz t v tag b => obs_z_%s t v tag b | PCs t v tag b => obs_s_%s t v tag b end." % (setname, setname, setname))
    o.append("Definition generated_stale_%s : list (string * list string) :=\n  [%s]." % (
        setname, ";\n   ".join("(%s, stale_listed_%s)" % (coq_str(n), n) for n in names)))
    return "\n".join(o) + "\n"


# ---------------------------------------------------------------------------------------------- discover (development aid)
SCAN = []


def discover(repo):
    for rel in SCAN:
        src = read(repo, rel)
        for mm in re.finditer(r"\bmatch\b\s*([^{;]*?)\s*\{", src):
            ob = mm.end() - 1
            try:
                cb = match_close(src, ob)
                arms = split_arms(src[ob + 1:cb])
            except Exception:
                continue
            simple = 0
            for lhs, rhs in arms:
                if re.match(r"^&?\s*" + PATH + r"(\s*\(.*\)|\s*\{.*\})?$", lhs) and "::" in lhs and re.search(PATH, rhs):
                    simple += 1
            if len(arms) >= 2 and simple >= len(arms) - 1 and all(len(r) < 400 for _, r in arms):
                line = src.count("\n", 0, mm.start()) + 1
                # enclosing header
                hdr = ""
                for h in re.finditer(r"^\s*(?:impl[^{]*|(?:pub(?:\([a-z]+\))? )?fn [a-z_0-9]+)", src[:mm.start()], re.M):
                    hdr = " ".join(h.group(0).split())
                print("%s:%d [%s] match %s  (%d arms)  %s => %s" % (rel, line, hdr[:90], " ".join(mm.group(1).split())[:40], len(arms), arms[0][0][:50], arms[0][1][:50]))


def main():
    a = sys.argv[1:]
    repo = a[0]
    if "--discover" in a:
        SCAN.extend(a[a.index("--discover") + 1:])
        discover(repo)
        return 0
    out = a[1]
    setname = a[a.index("--set") + 1]
    info_path = a[a.index("--json") + 1] if "--json" in a else None
    res, errors = [], []
    for t in TABLES:
        if setname not in t["sets"]:
            continue
        try:
            res.append(translate(repo, t))
        except Fail as e:
            errors.append(str(e))
    if errors:
        print("rs_enummap2coq: FAILED CLOSED (%d table(s)):\n  %s" % (len(errors), "\n  ".join(errors)))
        return 2
    text = emit(res, setname)
    old = open(out).read() if os.path.exists(out) else None
    if old != text:
        open(out, "w").write(text)
    if info_path:
        json.dump({"set": setname, "tables": res}, open(info_path, "w"), indent=1)
    print("rs_enummap2coq: %d tables, %d variants (%s) -> %s%s" % (
        len(res), sum(len(t["variants"]) for t in res), setname, out, "" if old != text else " (unchanged)"))
    return 0


if __name__ == "__main__":
    sys.exit(main())
