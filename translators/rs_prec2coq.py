#!/usr/bin/env python3
"""Translator (T tie) for C38: regenerates coq/Gen/OperatorPrec.v from the Rust sources.

  * datafusion/expr-common/src/operator.rs   `enum Operator` and the `match` table of `Operator::precedence`
  * datafusion/sql/src/unparser/expr.rs      `op_to_sql` / `sql_to_op` (Operator <-> sqlparser BinaryOperator), the constants
        LOWEST / IS, the `not_associative` set, the BETWEEN stand-in operator, and - pinned by the hash of their
        whitespace-normalised text - the hand-modelled functions `remove_unnecessary_nesting`, `inner_precedence`,
        `sql_op_precedence` and the arms of `expr_to_sql_inner` that decide which forms are wrapped in `Nested`
  * sqlparser-<locked version> (cargo registry)  `Dialect::prec_value`, the token -> Precedence table of
        `get_next_precedence_default`, the token -> BinaryOperator table of `Parser::parse_infix`, the prefix levels of NOT and
        unary minus, the right-operand levels of LIKE / IS DISTINCT FROM, and that GenericDialect overrides none of them.

Fails closed (TranslateError, exit 1) on every unexpected shape.
Usage: rs_prec2coq.py <repo> <out.v> [--json <out.json>]
"""
import glob
import hashlib
import json
import os
import re
import sys


class TranslateError(Exception):
    pass


def norm(s):
    s = re.sub(r"//[^\n]*", "", s)
    return " ".join(s.split())


def block_from(src, start):
    i = src.index("{", start)
    depth, j = 0, i
    while j < len(src):
        c = src[j]
        if c == '"':
            j += 1
            while src[j] != '"':
                j += 2 if src[j] == "\\" else 1
        elif c == "'" and j + 2 < len(src) and (src[j + 2] == "'" or (src[j + 1] == "\\" and src[j + 3] == "'")):
            j += 3 if src[j + 2] == "'" else 4
            continue
        elif c == "/" and src[j:j + 2] == "//":
            j = src.index("\n", j)
        elif c == "{":
            depth += 1
        elif c == "}":
            depth -= 1
            if depth == 0:
                return src[i:j + 1]
        j += 1
    raise TranslateError("unbalanced block")


def fn_block(src, header_re, what):
    ms = list(re.finditer(header_re, src))
    if len(ms) != 1:
        raise TranslateError("expected exactly one %s, found %d" % (what, len(ms)))
    return block_from(src, ms[0].end() - 1)


def h(s):
    return hashlib.sha256(norm(s).encode()).hexdigest()[:16]


# hashes of the hand-modelled unparser functions (coq/Model/Unparse.v `rm_nest`, `inner_prec`, `to_ast`)
PINS = {
    "remove_unnecessary_nesting": "PIN_RM",
    "inner_precedence": "PIN_INNER",
    "sql_op_precedence": "PIN_SQLOP",
}
PIN_VALUES = {
    "PIN_RM": "9c535fc7b190f5a4",
    "PIN_INNER": "271df2b4c7f6529d",
    "PIN_SQLOP": "2a607e2d93fa02de",
}
# snippets of expr_to_sql_inner that fix which Expr variants are wrapped in ast::Expr::Nested (normalised text must occur exactly once)
NEST_SNIPPETS = [
    "Ok(ast::Expr::Nested(Box::new(self.binary_op_to_sql(l, r, op))))",
    "Ok(ast::Expr::Nested(Box::new(self.between_op_to_sql( sql_parser_expr, *negated, sql_low, sql_high, ))))",
    "Expr::Not(expr) => { let sql_parser_expr = self.expr_to_sql_inner(expr)?; Ok(AstExpr::UnaryOp { op: UnaryOperator::Not, expr: Box::new(sql_parser_expr), }) }",
    "Expr::Negative(expr) => { let sql_parser_expr = self.expr_to_sql_inner(expr)?; Ok(AstExpr::UnaryOp { op: UnaryOperator::Minus, expr: Box::new(sql_parser_expr), }) }",
    "Expr::IsNull(expr) => { Ok(ast::Expr::IsNull(Box::new(self.expr_to_sql_inner(expr)?))) }",
    "Expr::IsNotNull(expr) => Ok(ast::Expr::IsNotNull(Box::new( self.expr_to_sql_inner(expr)?, ))),",
    "Expr::IsTrue(expr) => { Ok(ast::Expr::IsTrue(Box::new(self.expr_to_sql_inner(expr)?))) }",
    "Ok(ast::Expr::InList { expr: Box::new(self.expr_to_sql_inner(expr)?), list: list_expr, negated: *negated, })",
    "Ok(ast::Expr::Like { negated: *negated, expr: Box::new(self.expr_to_sql_inner(expr)?), pattern: Box::new(self.expr_to_sql_inner(pattern)?),",
    "DistinctFromStyle::FullText => { let expr = if is_distinct { ast::Expr::IsDistinctFrom(Box::new(left), Box::new(right)) } else { ast::Expr::IsNotDistinctFrom(Box::new(left), Box::new(right)) }; Ok(ast::Expr::Nested(Box::new(expr))) }",
    "if self.pretty { root_expr = self.remove_unnecessary_nesting(root_expr, LOWEST, LOWEST); }",
]


def translate(repo):
    info = {}
    # ------------------------------------------------------------------ Operator + precedence
    op_src = open(os.path.join(repo, "datafusion/expr-common/src/operator.rs")).read()
    enum = fn_block(op_src, r"pub enum Operator\s*\{", "enum Operator")
    body = re.sub(r"///[^\n]*", "", enum[1:-1])
    body = re.sub(r"#\[[^\]]*\]", "", body)
    variants = [v.strip() for v in body.split(",") if v.strip()]
    for v in variants:
        if not re.fullmatch(r"[A-Z]\w*", v):
            raise TranslateError("enum Operator: unexpected variant shape %r" % v)
    prec = fn_block(op_src, r"pub fn precedence\(&self\) -> u8\s*\{", "fn precedence")
    inner = norm(prec)
    m = re.fullmatch(r"\{ match self \{ (.*) \} \}", inner)
    if not m:
        raise TranslateError("Operator::precedence is not a single `match self` block")
    arms = m.group(1)
    table = {}
    pos = 0
    arm_re = re.compile(r"\s*((?:Operator::\w+\s*\|\s*)*Operator::\w+) => (\d+),")
    while pos < len(arms):
        am = arm_re.match(arms, pos)
        if not am:
            raise TranslateError("Operator::precedence: unexpected arm near %r" % arms[pos:pos + 60])
        for o in re.findall(r"Operator::(\w+)", am.group(1)):
            if o in table:
                raise TranslateError("Operator::precedence: %s listed twice" % o)
            table[o] = int(am.group(2))
        pos = am.end()
        while pos < len(arms) and arms[pos] == " ":
            pos += 1
    if set(table) != set(variants):
        raise TranslateError("Operator::precedence does not cover the enum exactly: %s" % sorted(set(table) ^ set(variants)))
    if any(not 0 < p < 100 for p in table.values()):
        raise TranslateError("Operator::precedence: value outside 1..99 (the unparser uses 0 and 100 as sentinels)")
    info["df_prec"] = table

    # ------------------------------------------------------------------ unparser
    un_src = open(os.path.join(repo, "datafusion/sql/src/unparser/expr.rs")).read()
    o2s = norm(fn_block(un_src, r"fn op_to_sql\(&self, op: &Operator\) -> Result<BinaryOperator>\s*\{", "fn op_to_sql"))
    m = re.fullmatch(r"\{ match op \{ (.*) \} \}", o2s)
    if not m:
        raise TranslateError("op_to_sql is not a single match")
    op_to_sql = {}
    rest = m.group(1)
    for am in re.finditer(r"Operator::(\w+) => (Ok\(BinaryOperator::(\w+)\)|Ok\(self\.dialect\.division_operator\(\)\)|not_impl_err!\(\"unsupported operation: \{op:\?\}\"\)|Ok\(BinaryOperator::Custom\(\"([^\"]*)\"\.to_owned\(\)\)\)),", rest):
        o = am.group(1)
        if am.group(3):
            op_to_sql[o] = am.group(3)
        elif "division_operator" in am.group(2):
            op_to_sql[o] = "@division"
        elif am.group(4) is not None:
            op_to_sql[o] = "@custom"
        else:
            op_to_sql[o] = None
    leftover = re.sub(r"Operator::(\w+) => (Ok\(BinaryOperator::(\w+)\)|Ok\(self\.dialect\.division_operator\(\)\)|not_impl_err!\(\"unsupported operation: \{op:\?\}\"\)|Ok\(BinaryOperator::Custom\(\"([^\"]*)\"\.to_owned\(\)\)\)),", "", rest).strip()
    if leftover or set(op_to_sql) != set(variants):
        raise TranslateError("op_to_sql: unexpected arms %r / uncovered %s" % (leftover[:80], sorted(set(variants) - set(op_to_sql))))
    if [o for o, v in op_to_sql.items() if v is None] != [o for o in variants if o in ("IsDistinctFrom", "IsNotDistinctFrom") and op_to_sql[o] is None] or \
            sorted(o for o, v in op_to_sql.items() if v is None) != ["IsDistinctFrom", "IsNotDistinctFrom"]:
        raise TranslateError("op_to_sql: the operators without a BinaryOperator are expected to be exactly IS [NOT] DISTINCT FROM")
    dia = open(os.path.join(repo, "datafusion/sql/src/unparser/dialect.rs")).read()
    trait = fn_block(dia, r"pub trait Dialect: Send \+ Sync\s*\{", "trait Dialect")
    if "fn division_operator(&self) -> BinaryOperator { BinaryOperator::Divide }" not in norm(trait):
        raise TranslateError("Dialect::division_operator default is not BinaryOperator::Divide")
    dd = re.search(r"impl Dialect for DefaultDialect\s*\{", dia)
    if not dd or "division_operator" in block_from(dia, dd.end() - 1):
        raise TranslateError("DefaultDialect overrides division_operator (or impl not found)")
    s2o_txt = norm(fn_block(un_src, r"fn sql_to_op\(&self, op: &BinaryOperator\) -> Result<Operator>\s*\{", "fn sql_to_op"))
    sql_to_op = {}
    for am in re.finditer(r"((?:BinaryOperator::\w+ \| )*BinaryOperator::\w+) => (?:\{ )?Ok\(Operator::(\w+)\)", s2o_txt):
        for b in re.findall(r"BinaryOperator::(\w+)", am.group(1)):
            sql_to_op[b] = am.group(2)
    for o, b in op_to_sql.items():
        bb = "Divide" if b == "@division" else b
        if bb and bb != "@custom" and sql_to_op.get(bb) != o:
            raise TranslateError("sql_to_op(op_to_sql(%s)) = %s: the unparser would look up another operator's precedence" % (o, sql_to_op.get(bb)))
    cm = re.search(r"const LOWEST: &BinaryOperator = &BinaryOperator::(\w+);", un_src)
    im = re.search(r"const IS: &BinaryOperator = &BinaryOperator::(\w+);", un_src)
    if not cm or not im:
        raise TranslateError("LOWEST / IS constants not found")
    lowest, is_ctx = sql_to_op.get(cm.group(1)), sql_to_op.get(im.group(1))
    rm = fn_block(un_src, r"fn remove_unnecessary_nesting\(", "fn remove_unnecessary_nesting")
    na = re.search(r"let not_associative = matches!\(left_op, ((?:BinaryOperator::\w+ \| )*BinaryOperator::\w+)\);", norm(rm))
    if not na:
        raise TranslateError("not_associative set not found")
    nonassoc = [sql_to_op[b] for b in re.findall(r"BinaryOperator::(\w+)", na.group(1))]
    ip = fn_block(un_src, r"fn inner_precedence\(&self, expr: &ast::Expr\) -> u8\s*\{", "fn inner_precedence")
    bm = re.search(r"ast::Expr::Between \{ \.\. \} => \{ self\.sql_op_precedence\(&BinaryOperator::(\w+)\) \}", norm(ip))
    if not bm:
        raise TranslateError("inner_precedence: BETWEEN arm not found")
    between_as = sql_to_op[bm.group(1)]
    atm = re.search(r"ast::Expr::Nested\(_\) \| ast::Expr::Identifier\(_\) \| ast::Expr::Value\(_\) => (\d+),", norm(ip))
    otm = re.search(r"_ => (\d+), \}", norm(ip))
    if not atm or not otm:
        raise TranslateError("inner_precedence: atom / default arms not found")
    sp = fn_block(un_src, r"fn sql_op_precedence\(&self, op: &BinaryOperator\) -> u8\s*\{", "fn sql_op_precedence")
    hashes = {"PIN_RM": h(rm), "PIN_INNER": h(ip), "PIN_SQLOP": h(sp)}
    info["pins"] = hashes
    for k, want in PIN_VALUES.items():
        if not want.startswith("@") and hashes[k] != want:
            raise TranslateError("%s changed (hash %s, modelled %s): coq/Model/Unparse.v models this function by hand; re-read it" % (k, hashes[k], want))
    nun = norm(un_src)
    for s in NEST_SNIPPETS:
        want = 2 if s.startswith("Ok(ast::Expr::Like {") else 1      # SimilarTo and Like share the LIKE arm text
        if nun.count(s) != want:
            raise TranslateError("expr_to_sql_inner: expected %d occurrence(s) of %r (found %d); the model's to_ast mirrors it" % (want, s[:70], nun.count(s)))

    # ------------------------------------------------------------------ sqlparser
    lock = open(os.path.join(repo, "Cargo.lock")).read()
    vm = re.search(r'name = "sqlparser"\nversion = "([^"]+)"', lock)
    if not vm:
        raise TranslateError("sqlparser not in Cargo.lock")
    dirs = glob.glob(os.path.expanduser("~/.cargo/registry/src/*/sqlparser-%s" % vm.group(1)))
    if len(dirs) != 1:
        raise TranslateError("sqlparser-%s source: %d candidates in the cargo registry" % (vm.group(1), len(dirs)))
    info["sqlparser"] = vm.group(1)
    dsrc = open(os.path.join(dirs[0], "src/dialect/mod.rs")).read()
    psrc = open(os.path.join(dirs[0], "src/parser/mod.rs")).read()
    gsrc = open(os.path.join(dirs[0], "src/dialect/generic.rs")).read()
    for f in ("fn prec_value", "fn get_next_precedence", "fn parse_infix", "fn parse_prefix", "fn prec_unknown"):
        if f in gsrc:
            raise TranslateError("GenericDialect overrides %s" % f)
    pv = norm(fn_block(dsrc, r"fn prec_value\(&self, prec: Precedence\) -> u8\s*\{", "fn prec_value"))
    m = re.fullmatch(r"\{ match prec \{ ((?:Precedence::\w+ => \d+, )+)\} \}", pv)
    if not m:
        raise TranslateError("prec_value: unexpected shape")
    sp_value = {k: int(v) for k, v in re.findall(r"Precedence::(\w+) => (\d+),", m.group(1))}
    if "fn prec_unknown(&self) -> u8 { 0 }" not in norm(dsrc):
        raise TranslateError("prec_unknown is not 0")
    gnp = norm(fn_block(dsrc, r"fn get_next_precedence_default\(&self, parser: &Parser\) -> Result<u8, ParserError>\s*\{", "fn get_next_precedence_default"))
    tok_class = {}
    for am in re.finditer(r"((?:Token::\w+(?:\(_\))? \| )*Token::\w+(?:\(_\))?) => \{? ?Ok\(p!\((\w+)\)\)", gnp):
        for t in re.findall(r"Token::(\w+)", am.group(1)):
            tok_class[t] = am.group(2)
    kw_class = dict(re.findall(r"Token::Word\(w\) if w\.keyword == Keyword::(\w+) => Ok\(p!\((\w+)\)\),", gnp))
    notm = re.search(r"Token::Word\(w\) if w\.keyword == Keyword::NOT => \{ match &parser\.peek_nth_token_ref\(1\)\.token \{ (.*?) _ => Ok\(self\.prec_unknown\(\)\), \} \}", gnp)
    if not notm:
        raise TranslateError("get_next_precedence_default: NOT look-ahead block not found")
    not_next = dict(re.findall(r"Token::Word\(w\) if w\.keyword == Keyword::(\w+) => Ok\(p!\((\w+)\)\),", notm.group(1)))
    for k, want in (("IN", "Between"), ("LIKE", "Like"), ("ILIKE", "Like")):
        if not_next.get(k) != kw_class.get(k) or kw_class.get(k) != want:
            raise TranslateError("precedence class of [NOT] %s is not %s" % (k, want))
    if kw_class.get("IS") != "Is" or kw_class.get("AND") != "And" or kw_class.get("OR") != "Or" or kw_class.get("BETWEEN") != "Between":
        raise TranslateError("keyword precedence classes changed")
    if "if precedence >= next_precedence { break; }" not in norm(fn_block(psrc, r"pub fn parse_subexpr\(&mut self, precedence: u8\) -> Result<Expr, ParserError>\s*\{", "fn parse_subexpr")):
        raise TranslateError("parse_subexpr: loop condition changed")
    pin = norm(fn_block(psrc, r"pub fn parse_infix\(&mut self, expr: Expr, precedence: u8\) -> Result<Expr, ParserError>\s*\{", "fn parse_infix"))
    bin_tok = {}
    for am in re.finditer(r"Token::(\w+) => Some\(BinaryOperator::(\w+)\),", pin):
        bin_tok.setdefault(am.group(2), am.group(1))
    for am in re.finditer(r"Token::(\w+) if ([^=]*?) => \{ Some\(BinaryOperator::(\w+)\) \}", pin):
        g = am.group(2)
        if ("GenericDialect" in g and "dialect_is!" in g) or (g.strip() == "dialect.supports_bitwise_shift_operators()" and
                                                             "fn supports_bitwise_shift_operators(&self) -> bool { true }" in norm(gsrc)):
            bin_tok.setdefault(am.group(3), am.group(1))
    if "Token::Caret => { if dialect_is!(dialect is PostgreSqlDialect) { Some(BinaryOperator::PGExp) } else { Some(BinaryOperator::BitwiseXor) } }" not in pin:
        raise TranslateError("parse_infix: Caret arm changed")
    bin_tok["BitwiseXor"] = "Caret"
    if "Keyword::AND => Some(BinaryOperator::And), Keyword::OR => Some(BinaryOperator::Or)," not in pin:
        raise TranslateError("parse_infix: AND/OR arms changed")
    if "right: Box::new(self.parse_subexpr(precedence)?)," not in pin:
        raise TranslateError("parse_infix: right operand of a binary operator is not parse_subexpr(precedence)")
    if pin.count("let expr2 = self.parse_expr()?; Ok(Expr::IsDistinctFrom(Box::new(expr), Box::new(expr2)))") != 1 or \
            pin.count("let expr2 = self.parse_expr()?; Ok(Expr::IsNotDistinctFrom(Box::new(expr), Box::new(expr2)))") != 1:
        raise TranslateError("parse_infix: IS [NOT] DISTINCT FROM right operand is not parse_expr()")
    if pin.count("pattern: Box::new( self.parse_subexpr(self.dialect.prec_value(Precedence::Like))?, ),") < 3:
        raise TranslateError("parse_infix: LIKE pattern level changed")
    if "pub fn parse_expr(&mut self) -> Result<Expr, ParserError> { self.parse_subexpr(self.dialect.prec_unknown()) }" not in norm(psrc):
        raise TranslateError("parse_expr is not parse_subexpr(prec_unknown)")
    npsrc = norm(psrc)
    if npsrc.count("op: UnaryOperator::Not, expr: Box::new( self.parse_subexpr(self.dialect.prec_value(Precedence::UnaryNot))?, ),") < 1:
        raise TranslateError("parse_not: level changed")
    if "tok @ Token::Minus | tok @ Token::Plus => { let op = if *tok == Token::Plus { UnaryOperator::Plus } else { UnaryOperator::Minus }; Ok(Expr::UnaryOp { op, expr: Box::new( self.parse_subexpr(self.dialect.prec_value(Precedence::MulDivModOp))?, ), }) }" not in npsrc:
        raise TranslateError("parse_prefix: unary minus level changed")
    sp_class_of = {}
    for o in variants:
        b = op_to_sql[o]
        if b == "@division":
            b = "Divide"
        if b in (None, "@custom"):
            sp_class_of[o] = None
        elif b == "And":
            sp_class_of[o] = kw_class["AND"]
        elif b == "Or":
            sp_class_of[o] = kw_class["OR"]
        else:
            t = bin_tok.get(b)
            sp_class_of[o] = tok_class.get(t) if t else None
    info.update({"variants": variants, "op_to_sql": op_to_sql, "sp_value": sp_value, "sp_class_of": sp_class_of, "lowest": lowest, "is_ctx": is_ctx,
                 "nonassoc": nonassoc, "between_as": between_as, "atom_prec": int(atm.group(1)), "other_prec": int(otm.group(1))})
    return info


def render(info):
    vs = info["variants"]
    L = []
    w = L.append
    w("(* GENERATED by translators/rs_prec2coq.py from datafusion/expr-common/src/operator.rs, datafusion/sql/src/unparser/expr.rs")
    w("   and sqlparser-%s (dialect/mod.rs, parser/mod.rs).  Do not edit; regenerated on every check run. *)" % info["sqlparser"])
    w("From Coq Require Import NArith List Bool.")
    w("Import ListNotations.")
    w("Open Scope N_scope.")
    w("")
    w("(* enum Operator *)")
    w("Inductive dfop : Set := " + " | ".join("Op" + v for v in vs) + ".")
    w("Definition dfop_all : list dfop := [" + "; ".join("Op" + v for v in vs) + "].")
    w("Definition dfop_code (o : dfop) : N := match o with " + " | ".join("Op%s => %d" % (v, i) for i, v in enumerate(vs)) + " end.")
    w("Definition dfop_eqb (a b : dfop) : bool := N.eqb (dfop_code a) (dfop_code b).")
    w("")
    w("(* Operator::precedence *)")
    w("Definition df_prec (o : dfop) : N := match o with " + " | ".join("Op%s => %d" % (v, info["df_prec"][v]) for v in vs) + " end.")
    w("")
    w("(* sqlparser: enum Precedence and Dialect::prec_value (not overridden by GenericDialect) *)")
    cs = list(info["sp_value"])
    w("Inductive sp_class : Set := " + " | ".join("Sp" + c for c in cs) + ".")
    w("Definition sp_value (c : sp_class) : N := match c with " + " | ".join("Sp%s => %d" % (c, info["sp_value"][c]) for c in cs) + " end.")
    w("(* Operator -> (unparser op_to_sql) BinaryOperator -> (Display / parse_infix) token -> (get_next_precedence_default) Precedence;")
    w("   None: the unparser has no BinaryOperator for it, or the generic dialect does not read the token back as this operator *)")
    w("Definition sp_class_of (o : dfop) : option sp_class := match o with " +
      " | ".join("Op%s => %s" % (v, "Some Sp" + info["sp_class_of"][v] if info["sp_class_of"][v] else "None") for v in vs) + " end.")
    w("Definition sp_prec (o : dfop) : N := match sp_class_of o with Some c => sp_value c | None => 0 end.")
    w("")
    w("(* unparser constants (unparser/expr.rs) *)")
    w("Definition un_lowest : dfop := Op%s.        (* const LOWEST *)" % info["lowest"])
    w("Definition un_is_ctx : dfop := Op%s.        (* const IS *)" % info["is_ctx"])
    w("Definition un_between_as : dfop := Op%s.    (* inner_precedence of BETWEEN *)" % info["between_as"])
    w("Definition un_nonassoc (o : dfop) : bool := match o with " + " | ".join("Op%s => true" % o for o in info["nonassoc"]) + " | _ => false end.")
    w("(* sql_op_precedence: sql_to_op(op).precedence(), 0 when sql_to_op fails (the Custom operator of Colon; IS [NOT] DISTINCT FROM never gets here) *)")
    w("Definition un_sql_op_prec (o : dfop) : N := match o with " + " | ".join("Op%s => %d" % (v, info["df_prec"][v] if info["op_to_sql"][v] not in (None, "@custom") else 0) for v in vs) + " end.")
    w("Definition un_prec_closed : N := %d.   (* inner_precedence of Nested / Identifier / Value *)" % info["atom_prec"])
    w("Definition un_prec_other : N := %d.    (* inner_precedence of every other form *)" % info["other_prec"])
    w("")
    w("(* sqlparser levels *)")
    w("Definition sp_not_level : N := sp_value SpUnaryNot.      (* parse_not: parse_subexpr(UnaryNot) *)")
    w("Definition sp_neg_level : N := sp_value SpMulDivModOp.   (* parse_prefix, unary minus: parse_subexpr(MulDivModOp) *)")
    w("Definition sp_like : N := sp_value SpLike.               (* [NOT] LIKE / ILIKE: token precedence and pattern level *)")
    w("Definition sp_is : N := sp_value SpIs.                   (* IS ...: token precedence *)")
    w("Definition sp_in : N := sp_value SpBetween.              (* [NOT] IN: token precedence *)")
    w("Definition sp_distinct_rlevel : N := 0.                  (* IS [NOT] DISTINCT FROM: right operand is parse_expr() *)")
    w("")
    return "\n".join(L)


def main():
    if len(sys.argv) < 3:
        print(__doc__)
        return 2
    try:
        info = translate(sys.argv[1])
    except TranslateError as e:
        print("TranslateError: %s" % e)
        return 1
    except (OSError, KeyError, ValueError) as e:
        print("TranslateError: %s: %s" % (type(e).__name__, e))
        return 1
    text = render(info)
    old = open(sys.argv[2]).read() if os.path.exists(sys.argv[2]) else None
    if old != text:
        with open(sys.argv[2], "w") as f:
            f.write(text)
    if "--json" in sys.argv:
        json.dump(info, open(sys.argv[sys.argv.index("--json") + 1], "w"), indent=1)
    none = [v for v in info["variants"] if not info["sp_class_of"][v]]
    print("translated %d operators (%d without a generic-dialect token: %s), sqlparser %s, pins %s%s" %
          (len(info["variants"]), len(none), ",".join(none), info["sqlparser"], info["pins"], "" if old == text else " [Gen/OperatorPrec.v rewritten]"))
    return 0


if __name__ == "__main__":
    sys.exit(main())
