(* C07 -- proofs about Model/Accum.v *)
From DF Require Import Base.Prelude Model.Accum.
From Coq Require Import Lia Permutation.
Open Scope Z_scope.

(* ------------------------------------------------------------------ helpers *)
Lemma somes_app {A} (a b : list (option A)) : somes (a ++ b) = somes a ++ somes b.
Proof. unfold somes. now rewrite flat_map_app. Qed.

Lemma zsum_app a b : zsum (a ++ b) = zsum a + zsum b.
Proof. induction a; cbn [zsum fold_right app] in *; [reflexivity|]. fold (zsum (a0 ++ b)). fold (zsum a0). lia. Qed.

Lemma nonnull_count_app {A} (a b : list (option A)) : nonnull_count (a ++ b) = nonnull_count a + nonnull_count b.
Proof. unfold nonnull_count. rewrite somes_app, app_length. lia. Qed.

Lemma wrap64_idem x : wrap64 (wrap64 x) = wrap64 x.
Proof.
  unfold wrap64. replace ((x + 2 ^ 63) mod 2 ^ 64 - 2 ^ 63 + 2 ^ 63) with ((x + 2 ^ 63) mod 2 ^ 64) by lia.
  now rewrite Z.mod_mod by lia.
Qed.
Lemma wrap64_add_l a b : wrap64 (wrap64 a + b) = wrap64 (a + b).
Proof.
  unfold wrap64.
  replace ((a + 2 ^ 63) mod 2 ^ 64 - 2 ^ 63 + b + 2 ^ 63) with ((a + 2 ^ 63) mod 2 ^ 64 + b) by lia.
  replace (a + b + 2 ^ 63) with ((a + 2 ^ 63) + b) by lia.
  now rewrite Z.add_mod_idemp_l by lia.
Qed.
Lemma wrap64_add_r a b : wrap64 (a + wrap64 b) = wrap64 (a + b).
Proof. rewrite Z.add_comm, wrap64_add_l. f_equal. lia. Qed.
Lemma wrap64_in_range x : - 2 ^ 63 <= x < 2 ^ 63 -> wrap64 x = x.
Proof. intros. unfold wrap64. rewrite Z.mod_small by lia. lia. Qed.
Lemma wrap64_range x : - 2 ^ 63 <= wrap64 x < 2 ^ 63.
Proof. unfold wrap64. pose proof (Z.mod_pos_bound (x + 2 ^ 63) (2 ^ 64)). lia. Qed.

Lemma fold_left_set_app {A B} (f : A -> B -> A) l1 l2 s : fold_left f (l1 ++ l2) s = fold_left f l2 (fold_left f l1 s).
Proof. apply fold_left_app. Qed.

(* ------------------------------------------------------------------ COUNT *)
Lemma count_update_split : update_split count_acc.
Proof. intros s a b. cbn. rewrite nonnull_count_app. lia. Qed.

Lemma zsum_counts parts :
  zsum (somes (map zcell (map (fun p : list (option Z) => [RInt (0 + nonnull_count p)]) parts)))
  = nonnull_count (concat parts).
Proof.
  induction parts as [|p r IH]; [reflexivity|].
  cbn [map concat]. rewrite nonnull_count_app. cbn [zcell somes flat_map app zsum fold_right].
  fold (somes (map zcell (map (fun p : list (option Z) => [RInt (0 + nonnull_count p)]) r))).
  fold (zsum (somes (map zcell (map (fun p : list (option Z) => [RInt (0 + nonnull_count p)]) r)))).
  rewrite IH. lia.
Qed.
Lemma count_merge_hom : merge_hom count_acc.
Proof. intros s parts. cbn. rewrite zsum_counts. reflexivity. Qed.
Lemma count_merge_split : merge_split count_acc.
Proof. intros s a b. cbn. rewrite map_app, somes_app, zsum_app. lia. Qed.
Lemma zsum_perm a b : Permutation a b -> zsum a = zsum b.
Proof. induction 1; cbn [zsum fold_right] in *; try fold (zsum l) in *; try fold (zsum l') in *; lia. Qed.
Lemma somes_perm {A} (a b : list (option A)) : Permutation a b -> Permutation (somes a) (somes b).
Proof.
  induction 1; cbn [somes flat_map] in *.
  - constructor.
  - apply Permutation_app_head. exact IHPermutation.
  - rewrite !app_assoc. apply Permutation_app_tail. apply Permutation_app_comm.
  - eapply perm_trans; eauto.
Qed.
Lemma count_merge_comm : forall s ws ws', Permutation ws ws' -> a_merge count_acc s ws = a_merge count_acc s ws'.
Proof. intros. cbn. f_equal. apply zsum_perm, somes_perm, Permutation_map, H. Qed.
Lemma count_retract_inverse : forall s a b,
  a_retract count_acc (a_update count_acc s (a ++ b)) a = a_update count_acc s b.
Proof. intros. cbn. rewrite nonnull_count_app. lia. Qed.

(* ------------------------------------------------------------------ SUM *)
Lemma batch_sum_app a b :
  batch_sum (a ++ b) =
  match batch_sum a, batch_sum b with
  | None, y => y
  | x, None => x
  | Some x, Some y => Some (wadd x y)
  end.
Proof.
  unfold batch_sum. rewrite somes_app.
  destruct (somes a) as [|x xs] eqn:Ea; [reflexivity|].
  destruct (somes b) as [|y ys] eqn:Eb.
  - now rewrite app_nil_r.
  - cbn [app]. change (x :: xs ++ y :: ys) with ((x :: xs) ++ (y :: ys)).
    rewrite zsum_app. unfold wadd. now rewrite wrap64_add_l, wrap64_add_r.
Qed.
Lemma sum_update_split : update_split sum_acc.
Proof.
  intros s a b. cbn. unfold sum_update. rewrite batch_sum_app.
  destruct (batch_sum a) as [x|], (batch_sum b) as [y|]; try reflexivity.
  unfold wadd. f_equal. rewrite wrap64_add_l, wrap64_add_r. f_equal. lia.
Qed.
Lemma batch_sum_range l x : batch_sum l = Some x -> wrap64 x = x.
Proof.
  unfold batch_sum. destruct (somes l); [discriminate|]. intros [= <-]. apply wrap64_idem.
Qed.
Lemma sum_states parts :
  batch_sum (map zcell (map (fun p => [zres (sum_update None p)]) parts)) = batch_sum (concat parts).
Proof.
  induction parts as [|p r IH]; [reflexivity|].
  cbn [map concat]. rewrite batch_sum_app.
  change (zcell [zres (sum_update None p)] :: map zcell (map (fun p0 => [zres (sum_update None p0)]) r))
    with ([zcell [zres (sum_update None p)]] ++ map zcell (map (fun p0 => [zres (sum_update None p0)]) r)).
  rewrite batch_sum_app, IH.
  unfold sum_update at 1. destruct (batch_sum p) as [x|] eqn:E.
  - cbn [zres zcell]. unfold batch_sum at 1. cbn [somes flat_map app zsum fold_right].
    assert (Hx : wrap64 (wadd 0 x + 0) = x).
    { unfold wadd. rewrite Z.add_0_l, Z.add_0_r, wrap64_idem. apply (batch_sum_range _ _ E). }
    rewrite Hx. reflexivity.
  - cbn [zres zcell]. reflexivity.
Qed.
Lemma sum_merge_hom : merge_hom sum_acc.
Proof. intros s parts. cbn. unfold sum_update at 1 3. now rewrite sum_states. Qed.
Lemma sum_merge_split : merge_split sum_acc.
Proof. intros s a b. cbn. rewrite map_app. apply sum_update_split. Qed.
Lemma batch_sum_perm a b : Permutation a b -> batch_sum a = batch_sum b.
Proof.
  intros H. apply somes_perm in H. unfold batch_sum.
  destruct (somes a) eqn:Ea, (somes b) eqn:Eb.
  - reflexivity.
  - apply Permutation_nil in H. discriminate.
  - symmetry in H. apply Permutation_nil in H. discriminate.
  - now rewrite (zsum_perm _ _ H).
Qed.
Lemma sum_merge_comm : forall s ws ws', Permutation ws ws' -> a_merge sum_acc s ws = a_merge sum_acc s ws'.
Proof. intros. cbn. unfold sum_update. now rewrite (batch_sum_perm _ _ (Permutation_map zcell H)). Qed.

(* sliding SUM *)
Lemma ssum_update_split : update_split sum_sliding_acc.
Proof.
  intros [s c] a b. cbn. unfold ssum_upd. cbn [fst snd]. rewrite batch_sum_app, nonnull_count_app.
  destruct (batch_sum a) as [x|], (batch_sum b) as [y|]; f_equal; try lia.
  unfold wadd. rewrite wrap64_add_l, wrap64_add_r. f_equal. lia.
Qed.
Lemma wsub_wrap_l a b : wsub (wrap64 a) b = wrap64 (a - b).
Proof. unfold wsub. replace (wrap64 a - b) with (wrap64 a + (- b)) by lia. rewrite wrap64_add_l. reflexivity. Qed.
Lemma ssum_retract_inverse : forall s a b, wrap64 (fst s) = fst s ->
  a_retract sum_sliding_acc (a_update sum_sliding_acc s (a ++ b)) a = a_update sum_sliding_acc s b.
Proof.
  intros [s c] a b Hr. cbn in Hr. cbn. unfold ssum_upd. cbn [fst snd]. rewrite batch_sum_app, nonnull_count_app.
  destruct (batch_sum a) as [x|] eqn:Ea, (batch_sum b) as [y|] eqn:Eb; f_equal; try lia.
  - unfold wadd at 1 2. rewrite wrap64_add_r, wsub_wrap_l. unfold wadd. f_equal. lia.
  - unfold wadd. rewrite wsub_wrap_l. rewrite <- Hr at 2. f_equal. lia.
Qed.
