(* C07 -- proofs about Model/Accum.v *)
From DF Require Import Base.Prelude Model.Accum.
From Coq Require Import Lia Permutation.
Open Scope Z_scope.

(* ------------------------------------------------------------------ helpers *)
Lemma somes_app {A} (a b : list (option A)) : somes (a ++ b) = somes a ++ somes b.
Proof. unfold somes. now rewrite flat_map_app. Qed.

Lemma zsum_app a b : zsum (a ++ b) = zsum a + zsum b.
Proof. induction a; cbn [zsum fold_right app] in *; [reflexivity|]. fold (zsum (a0 ++ b)). fold (zsum a0). lia. Qed.

Lemma nonnull_count_app {A} (a b : list (option A)) : nonnull_count (a ++ b) = nonnull_count a + nonnull_count b.
Proof. unfold nonnull_count. rewrite somes_app, app_length. lia. Qed.

Lemma wrap64_idem x : wrap64 (wrap64 x) = wrap64 x.
Proof.
  unfold wrap64. replace ((x + 2 ^ 63) mod 2 ^ 64 - 2 ^ 63 + 2 ^ 63) with ((x + 2 ^ 63) mod 2 ^ 64) by lia.
  now rewrite Z.mod_mod by lia.
Qed.
Lemma wrap64_add_l a b : wrap64 (wrap64 a + b) = wrap64 (a + b).
Proof.
  unfold wrap64.
  replace ((a + 2 ^ 63) mod 2 ^ 64 - 2 ^ 63 + b + 2 ^ 63) with ((a + 2 ^ 63) mod 2 ^ 64 + b) by lia.
  replace (a + b + 2 ^ 63) with ((a + 2 ^ 63) + b) by lia.
  now rewrite Z.add_mod_idemp_l by lia.
Qed.
Lemma wrap64_add_r a b : wrap64 (a + wrap64 b) = wrap64 (a + b).
Proof. rewrite Z.add_comm, wrap64_add_l. f_equal. lia. Qed.
Lemma wrap64_in_range x : - 2 ^ 63 <= x < 2 ^ 63 -> wrap64 x = x.
Proof. intros. unfold wrap64. rewrite Z.mod_small by lia. lia. Qed.
Lemma wrap64_range x : - 2 ^ 63 <= wrap64 x < 2 ^ 63.
Proof. unfold wrap64. pose proof (Z.mod_pos_bound (x + 2 ^ 63) (2 ^ 64)). lia. Qed.

Lemma fold_left_set_app {A B} (f : A -> B -> A) l1 l2 s : fold_left f (l1 ++ l2) s = fold_left f l2 (fold_left f l1 s).
Proof. apply fold_left_app. Qed.

(* ------------------------------------------------------------------ COUNT *)
Lemma count_update_split : update_split count_acc.
Proof. intros s a b. cbn. rewrite nonnull_count_app. lia. Qed.

Lemma zsum_counts parts :
  zsum (somes (map zcell (map (fun p : list (option Z) => [RInt (0 + nonnull_count p)]) parts)))
  = nonnull_count (concat parts).
Proof.
  induction parts as [|p r IH]; [reflexivity|].
  cbn [map concat]. rewrite nonnull_count_app. cbn [zcell somes flat_map app zsum fold_right].
  fold (somes (map zcell (map (fun p : list (option Z) => [RInt (0 + nonnull_count p)]) r))).
  fold (zsum (somes (map zcell (map (fun p : list (option Z) => [RInt (0 + nonnull_count p)]) r)))).
  rewrite IH. lia.
Qed.
Lemma count_merge_hom : merge_hom count_acc.
Proof. intros s parts. cbn. rewrite zsum_counts. reflexivity. Qed.
Lemma count_merge_split : merge_split count_acc.
Proof. intros s a b. cbn. rewrite map_app, somes_app, zsum_app. lia. Qed.
Lemma zsum_perm a b : Permutation a b -> zsum a = zsum b.
Proof. induction 1; cbn [zsum fold_right] in *; try fold (zsum l) in *; try fold (zsum l') in *; lia. Qed.
Lemma somes_perm {A} (a b : list (option A)) : Permutation a b -> Permutation (somes a) (somes b).
Proof.
  induction 1; cbn [somes flat_map] in *.
  - constructor.
  - apply Permutation_app_head. exact IHPermutation.
  - rewrite !app_assoc. apply Permutation_app_tail. apply Permutation_app_comm.
  - eapply perm_trans; eauto.
Qed.
Lemma count_merge_comm : forall s ws ws', Permutation ws ws' -> a_merge count_acc s ws = a_merge count_acc s ws'.
Proof. intros. cbn. f_equal. apply zsum_perm, somes_perm, Permutation_map, H. Qed.
Lemma count_retract_inverse : forall s a b,
  a_retract count_acc (a_update count_acc s (a ++ b)) a = a_update count_acc s b.
Proof. intros. cbn. rewrite nonnull_count_app. lia. Qed.

(* ------------------------------------------------------------------ SUM *)
Lemma batch_sum_app a b :
  batch_sum (a ++ b) =
  match batch_sum a, batch_sum b with
  | None, y => y
  | x, None => x
  | Some x, Some y => Some (wadd x y)
  end.
Proof.
  unfold batch_sum. rewrite somes_app.
  destruct (somes a) as [|x xs] eqn:Ea; [reflexivity|].
  destruct (somes b) as [|y ys] eqn:Eb.
  - now rewrite app_nil_r.
  - cbn [app]. change (x :: xs ++ y :: ys) with ((x :: xs) ++ (y :: ys)).
    rewrite zsum_app. unfold wadd. now rewrite wrap64_add_l, wrap64_add_r.
Qed.
Lemma sum_update_split : update_split sum_acc.
Proof.
  intros s a b. cbn. unfold sum_update. rewrite batch_sum_app.
  destruct (batch_sum a) as [x|], (batch_sum b) as [y|]; try reflexivity.
  unfold wadd. f_equal. rewrite wrap64_add_l, wrap64_add_r. f_equal. lia.
Qed.
Lemma batch_sum_range l x : batch_sum l = Some x -> wrap64 x = x.
Proof.
  unfold batch_sum. destruct (somes l); [discriminate|]. intros [= <-]. apply wrap64_idem.
Qed.
Lemma sum_states parts :
  batch_sum (map zcell (map (fun p => [zres (sum_update None p)]) parts)) = batch_sum (concat parts).
Proof.
  induction parts as [|p r IH]; [reflexivity|].
  cbn [map concat]. rewrite batch_sum_app.
  change (zcell [zres (sum_update None p)] :: map zcell (map (fun p0 => [zres (sum_update None p0)]) r))
    with ([zcell [zres (sum_update None p)]] ++ map zcell (map (fun p0 => [zres (sum_update None p0)]) r)).
  rewrite batch_sum_app, IH.
  unfold sum_update at 1. destruct (batch_sum p) as [x|] eqn:E.
  - cbn [zres zcell]. unfold batch_sum at 1. cbn [somes flat_map app zsum fold_right].
    assert (Hx : wrap64 (wadd 0 x + 0) = x).
    { unfold wadd. rewrite Z.add_0_l, Z.add_0_r, wrap64_idem. apply (batch_sum_range _ _ E). }
    rewrite Hx. reflexivity.
  - cbn [zres zcell]. reflexivity.
Qed.
Lemma sum_merge_hom : merge_hom sum_acc.
Proof. intros s parts. cbn. unfold sum_update at 1 3. now rewrite sum_states. Qed.
Lemma sum_merge_split : merge_split sum_acc.
Proof. intros s a b. cbn. rewrite map_app. apply sum_update_split. Qed.
Lemma batch_sum_perm a b : Permutation a b -> batch_sum a = batch_sum b.
Proof.
  intros H. apply somes_perm in H. unfold batch_sum.
  destruct (somes a) eqn:Ea, (somes b) eqn:Eb.
  - reflexivity.
  - apply Permutation_nil in H. discriminate.
  - symmetry in H. apply Permutation_nil in H. discriminate.
  - now rewrite (zsum_perm _ _ H).
Qed.
Lemma sum_merge_comm : forall s ws ws', Permutation ws ws' -> a_merge sum_acc s ws = a_merge sum_acc s ws'.
Proof. intros. cbn. unfold sum_update. now rewrite (batch_sum_perm _ _ (Permutation_map zcell H)). Qed.

(* sliding SUM *)
Lemma ssum_update_split : update_split sum_sliding_acc.
Proof.
  intros [s c] a b. cbn. unfold ssum_upd. cbn [fst snd]. rewrite batch_sum_app, nonnull_count_app.
  destruct (batch_sum a) as [x|], (batch_sum b) as [y|]; f_equal; try lia.
  unfold wadd. rewrite wrap64_add_l, wrap64_add_r. f_equal. lia.
Qed.
Lemma wsub_wrap_l a b : wsub (wrap64 a) b = wrap64 (a - b).
Proof. unfold wsub. replace (wrap64 a - b) with (wrap64 a + (- b)) by lia. rewrite wrap64_add_l. reflexivity. Qed.
Lemma ssum_retract_inverse : forall s a b, wrap64 (fst s) = fst s ->
  a_retract sum_sliding_acc (a_update sum_sliding_acc s (a ++ b)) a = a_update sum_sliding_acc s b.
Proof.
  intros [s c] a b Hr. cbn in Hr. cbn. unfold ssum_upd. cbn [fst snd]. rewrite batch_sum_app, nonnull_count_app.
  destruct (batch_sum a) as [x|] eqn:Ea, (batch_sum b) as [y|] eqn:Eb; f_equal; try lia.
  - unfold wadd at 1 2. rewrite wrap64_add_r, wsub_wrap_l. unfold wadd. f_equal. lia.
  - unfold wadd. rewrite wsub_wrap_l. rewrite <- Hr at 2. f_equal. lia.
Qed.

(* ------------------------------------------------------------------ the optional-monoid family *)
Section OptFoldProofs.
  Context {T : Type} (f : T -> T -> T).
  Hypothesis f_assoc : forall a b c, f (f a b) c = f a (f b c).

  Lemma fold_left_f_assoc r : forall a x, f a (fold_left f r x) = fold_left f r (f a x).
  Proof. induction r as [|y r IH]; intros; cbn [fold_left]; [reflexivity|]. now rewrite IH, f_assoc. Qed.

  Lemma reduce_app xs ys : reduce f (xs ++ ys) = comb f (reduce f xs) (reduce f ys).
  Proof.
    destruct xs as [|x r]; [reflexivity|]. cbn [app reduce]. rewrite fold_left_app.
    destruct ys as [|y r2]; [reflexivity|]. cbn [fold_left reduce comb]. now rewrite fold_left_f_assoc.
  Qed.
  Lemma comb_assoc a b c : comb f (comb f a b) c = comb f a (comb f b c).
  Proof. destruct a, b, c; cbn [comb]; try reflexivity. now rewrite f_assoc. Qed.
  Lemma comb_none_r a : comb f a None = a.
  Proof. now destruct a. Qed.

  Lemma og_update_split_gen s a b : og_update f s (a ++ b) = og_update f (og_update f s a) b.
  Proof. unfold og_update. now rewrite somes_app, reduce_app, comb_assoc. Qed.

  Lemma reduce_somes_parts (parts : list (list (option T))) :
    reduce f (somes (map (fun p => og_update f None p) parts)) = reduce f (somes (concat parts)).
  Proof.
    induction parts as [|p r IH]; [reflexivity|].
    cbn [map concat]. rewrite somes_app, reduce_app, <- IH.
    change (og_update f None p :: map (fun p0 => og_update f None p0) r)
      with ([og_update f None p] ++ map (fun p0 => og_update f None p0) r).
    rewrite somes_app, reduce_app. f_equal.
    unfold og_update. cbn [comb]. destruct (reduce f (somes p)); reflexivity.
  Qed.

  Hypothesis f_comm : forall a b, f a b = f b a.
  Lemma reduce_cons x l : reduce f (x :: l) = comb f (Some x) (reduce f l).
  Proof. change (x :: l) with ([x] ++ l). now rewrite reduce_app. Qed.
  Lemma reduce_perm xs ys : Permutation xs ys -> reduce f xs = reduce f ys.
  Proof.
    induction 1.
    - reflexivity.
    - now rewrite !reduce_cons, IHPermutation.
    - rewrite !reduce_cons, <- !comb_assoc. f_equal. cbn [comb]. now rewrite f_comm.
    - congruence.
  Qed.
  Lemma og_update_perm s a b : Permutation a b -> og_update f s a = og_update f s b.
  Proof. intros H. unfold og_update. now rewrite (reduce_perm _ _ (somes_perm _ _ H)). Qed.
End OptFoldProofs.

Lemma zcell_zres o : zcell [zres o] = o. Proof. now destruct o. Qed.
Lemma bcell_bres o : bcell [bres o] = o. Proof. now destruct o. Qed.

Section OgInstances.
  Variable f : Z -> Z -> Z.
  Hypothesis f_assoc : forall a b c, f (f a b) c = f a (f b c).
  Variable retr : bool.
  Lemma ogz_update_split : update_split (og_acc_z f retr).
  Proof. intros s a b. cbn. now apply og_update_split_gen. Qed.
  Lemma ogz_merge_hom : merge_hom (og_acc_z f retr).
  Proof.
    intros s parts. cbn. rewrite map_map. erewrite map_ext by (intros; apply zcell_zres).
    unfold og_update. f_equal. exact (reduce_somes_parts f f_assoc parts).
  Qed.
  Lemma ogz_merge_split : merge_split (og_acc_z f retr).
  Proof. intros s a b. cbn. rewrite map_app. now apply og_update_split_gen. Qed.
  Hypothesis f_comm : forall a b, f a b = f b a.
  Lemma ogz_merge_comm : forall s ws ws', Permutation ws ws' ->
    a_merge (og_acc_z f retr) s ws = a_merge (og_acc_z f retr) s ws'.
  Proof. intros. cbn. apply og_update_perm; auto. now apply Permutation_map. Qed.
  Lemma ogz_update_comm : forall s a b, Permutation a b ->
    a_update (og_acc_z f retr) s a = a_update (og_acc_z f retr) s b.
  Proof. intros. cbn. now apply og_update_perm. Qed.
End OgInstances.
Section OgInstancesB.
  Variable f : bool -> bool -> bool.
  Hypothesis f_assoc : forall a b c, f (f a b) c = f a (f b c).
  Lemma ogb_update_split : update_split (og_acc_b f).
  Proof. intros s a b. cbn. now apply og_update_split_gen. Qed.
  Lemma ogb_merge_hom : merge_hom (og_acc_b f).
  Proof.
    intros s parts. cbn. rewrite map_map. erewrite map_ext by (intros; apply bcell_bres).
    unfold og_update. f_equal. exact (reduce_somes_parts f f_assoc parts).
  Qed.
  Lemma ogb_merge_split : merge_split (og_acc_b f).
  Proof. intros s a b. cbn. rewrite map_app. now apply og_update_split_gen. Qed.
  Hypothesis f_comm : forall a b, f a b = f b a.
  Lemma ogb_merge_comm : forall s ws ws', Permutation ws ws' ->
    a_merge (og_acc_b f) s ws = a_merge (og_acc_b f) s ws'.
  Proof. intros. cbn. apply og_update_perm; auto. now apply Permutation_map. Qed.
End OgInstancesB.

Lemma zmin_assoc a b c : Z.min (Z.min a b) c = Z.min a (Z.min b c). Proof. symmetry. apply Z.min_assoc. Qed.
Lemma zmax_assoc a b c : Z.max (Z.max a b) c = Z.max a (Z.max b c). Proof. symmetry. apply Z.max_assoc. Qed.
Lemma zland_assoc a b c : Z.land (Z.land a b) c = Z.land a (Z.land b c). Proof. symmetry. apply Z.land_assoc. Qed.
Lemma zlor_assoc a b c : Z.lor (Z.lor a b) c = Z.lor a (Z.lor b c). Proof. symmetry. apply Z.lor_assoc. Qed.
Lemma zlxor_assoc a b c : Z.lxor (Z.lxor a b) c = Z.lxor a (Z.lxor b c). Proof. apply Z.lxor_assoc. Qed.
Lemma andb_assoc' a b c : andb (andb a b) c = andb a (andb b c). Proof. now destruct a, b, c. Qed.
Lemma orb_assoc' a b c : orb (orb a b) c = orb a (orb b c). Proof. now destruct a, b, c. Qed.

(* ------------------------------------------------------------------ merge_hom from its one-partition form *)
Lemma merge_hom_from (A : accum) :
  merge_split A -> update_split A ->
  (forall s, a_merge A s [] = s) -> (forall s, a_update A s [] = s) ->
  (forall s p, a_merge A s [a_state A (a_update A (a_init A) p)] = a_update A s p) ->
  merge_hom A.
Proof.
  intros Hms Hus Hm0 Hu0 H1 s parts. revert s.
  induction parts as [|p r IH]; intros s; cbn [map concat].
  - now rewrite Hm0, Hu0.
  - change (a_state A (a_update A (a_init A) p) :: map (fun p0 => a_state A (a_update A (a_init A) p0)) r)
      with ([a_state A (a_update A (a_init A) p)] ++ map (fun p0 => a_state A (a_update A (a_init A) p0)) r).
    now rewrite Hms, H1, IH, Hus.
Qed.

(* ------------------------------------------------------------------ AVG *)
Lemma exact_sum_app a b :
  exact_sum (a ++ b) =
  match exact_sum a, exact_sum b with
  | None, y => y
  | x, None => x
  | Some x, Some y => Some (x + y)
  end.
Proof.
  unfold exact_sum. rewrite somes_app.
  destruct (somes a) as [|x xs] eqn:Ea; [reflexivity|].
  destruct (somes b) as [|y ys] eqn:Eb.
  - now rewrite app_nil_r.
  - cbn [app]. change (x :: xs ++ y :: ys) with ((x :: xs) ++ (y :: ys)). now rewrite zsum_app.
Qed.
Lemma avg_update_split : update_split avg_acc.
Proof.
  intros [s c] a b. cbn. rewrite exact_sum_app, nonnull_count_app.
  destruct (exact_sum a), (exact_sum b), s; cbn [avg_add]; f_equal; try lia; f_equal; lia.
Qed.
Lemma avg_merge_split : merge_split avg_acc.
Proof.
  intros [s c] a b. cbn. rewrite !map_app, exact_sum_app, somes_app, zsum_app.
  destruct (exact_sum (map (fun r => zcell (tl r)) a)), (exact_sum (map (fun r => zcell (tl r)) b)), s;
    cbn [avg_add]; f_equal; try lia; f_equal; lia.
Qed.
Lemma avg_merge_one s p : a_merge avg_acc s [a_state avg_acc (a_update avg_acc (a_init avg_acc) p)] = a_update avg_acc s p.
Proof.
  destruct s as [s c]. cbn. f_equal; [|lia].
  unfold exact_sum at 1. cbn [map tl zcell somes flat_map].
  destruct (exact_sum p) as [x|]; cbn [avg_add zres zcell app zsum fold_right]; [|reflexivity].
  destruct s; f_equal; lia.
Qed.
Lemma avg_merge_hom : merge_hom avg_acc.
Proof.
  apply merge_hom_from.
  - exact avg_merge_split.
  - exact avg_update_split.
  - intros [s c]. cbn. f_equal. lia.
  - intros [s c]. cbn. f_equal. unfold nonnull_count. cbn. lia.
  - exact avg_merge_one.
Qed.
Lemma exact_sum_perm a b : Permutation a b -> exact_sum a = exact_sum b.
Proof.
  intros H. apply somes_perm in H. unfold exact_sum.
  destruct (somes a) eqn:Ea, (somes b) eqn:Eb.
  - reflexivity.
  - apply Permutation_nil in H. discriminate.
  - symmetry in H. apply Permutation_nil in H. discriminate.
  - now rewrite (zsum_perm _ _ H).
Qed.
Lemma avg_merge_comm : forall s ws ws', Permutation ws ws' -> a_merge avg_acc s ws = a_merge avg_acc s ws'.
Proof.
  intros [s c] ws ws' H. cbn. f_equal.
  - f_equal. apply exact_sum_perm. now apply Permutation_map.
  - f_equal. apply zsum_perm, somes_perm. now apply Permutation_map.
Qed.
(* reachable states: a positive count comes with a sum *)
Definition avg_wf (s : option Z * Z) : Prop := snd s <> 0 -> fst s <> None.
Lemma avg_wf_init : avg_wf (a_init avg_acc). Proof. intros H. now elim H. Qed.
Lemma nonnull_count_nonneg {A} (l : list (option A)) : 0 <= nonnull_count l.
Proof. unfold nonnull_count. lia. Qed.
Lemma exact_sum_none_count l : exact_sum l = None -> nonnull_count l = 0.
Proof. unfold exact_sum, nonnull_count. destruct (somes l); [reflexivity|discriminate]. Qed.
Lemma avg_wf_update s (l : list (option Z)) : 0 <= snd s -> avg_wf s -> avg_wf (a_update avg_acc s l) /\ 0 <= snd (a_update avg_acc s l).
Proof.
  destruct s as [s c]. unfold avg_wf. cbn. intros Hc Hw. pose proof (nonnull_count_nonneg l). split; [|lia].
  intros Hn. destruct (exact_sum l) eqn:E; cbn [avg_add]; [discriminate|].
  apply exact_sum_none_count in E. apply Hw. lia.
Qed.
Lemma avg_retract_inverse : forall s a b, avg_wf s ->
  a_eval avg_acc (a_retract avg_acc (a_update avg_acc s (a ++ b)) a) = a_eval avg_acc (a_update avg_acc s b).
Proof.
  intros [s c] a b Hw. unfold avg_wf in Hw. cbn in *. unfold avg_eval. cbn [fst snd].
  rewrite nonnull_count_app, exact_sum_app.
  replace (c + (nonnull_count a + nonnull_count b) - nonnull_count a) with (c + nonnull_count b) by lia.
  destruct (c + nonnull_count b =? 0) eqn:E0; [reflexivity|].
  apply Z.eqb_neq in E0.
  destruct (exact_sum a) as [x|] eqn:Ea; [|reflexivity].
  destruct (exact_sum b) as [y|] eqn:Eb; cbn [avg_add].
  - f_equal. destruct s; lia.
  - apply exact_sum_none_count in Eb. destruct s as [v|]; [f_equal; lia|].
    exfalso. apply Hw; [lia|reflexivity].
Qed.

(* ------------------------------------------------------------------ FIRST_VALUE / LAST_VALUE *)
Lemma first_pick_app ign a b :
  first_pick ign (a ++ b) = match first_pick ign a with Some v => Some v | None => first_pick ign b end.
Proof.
  unfold first_pick. destruct ign.
  - rewrite somes_app. destruct (somes a); reflexivity.
  - destruct a; reflexivity.
Qed.
Lemma first_update_split ign : update_split (first_acc ign).
Proof.
  intros [v [|]] a b; cbn; [reflexivity|]. rewrite first_pick_app.
  destruct (first_pick ign a); cbn; reflexivity.
Qed.
Lemma fl_set_rows_app a b : fl_set_rows (a ++ b) = fl_set_rows a ++ fl_set_rows b.
Proof. unfold fl_set_rows. apply flat_map_app. Qed.
Lemma first_merge_split ign : merge_split (first_acc ign).
Proof.
  intros [v [|]] a b; cbn; [reflexivity|]. rewrite fl_set_rows_app.
  destruct (fl_set_rows a); cbn; reflexivity.
Qed.
Lemma first_merge_one ign s p :
  a_merge (first_acc ign) s [a_state (first_acc ign) (a_update (first_acc ign) (a_init (first_acc ign)) p)]
  = a_update (first_acc ign) s p.
Proof.
  destruct s as [v [|]]; cbn; [reflexivity|].
  destruct (first_pick ign p) as [w|]; cbn; [|reflexivity]. destruct w; reflexivity.
Qed.
Lemma first_merge_hom ign : merge_hom (first_acc ign).
Proof.
  apply merge_hom_from.
  - apply first_merge_split.
  - apply first_update_split.
  - intros [v [|]]; reflexivity.
  - intros [v [|]]; cbn; [reflexivity|]. unfold first_pick. destruct ign; reflexivity.
  - apply first_merge_one.
Qed.

Lemma last_update_split_raw ign (s : fl_st) (a b : list (option Z)) :
  match last_pick ign (a ++ b) with Some v => (v, true) | None => s end
  = match last_pick ign b with
    | Some v => (v, true)
    | None => match last_pick ign a with Some v => (v, true) | None => s end
    end.
Proof. unfold last_pick. rewrite rev_app_distr, first_pick_app. destruct (first_pick ign (rev b)); reflexivity. Qed.
Lemma last_update_split ign : update_split (last_acc ign).
Proof. intros s a b. apply last_update_split_raw. Qed.
Lemma last_merge_split ign : merge_split (last_acc ign).
Proof.
  intros s a b. cbn. rewrite fl_set_rows_app, rev_app_distr.
  destruct (rev (fl_set_rows b)); cbn [app]; reflexivity.
Qed.
Lemma last_merge_one ign s p :
  a_merge (last_acc ign) s [a_state (last_acc ign) (a_update (last_acc ign) (a_init (last_acc ign)) p)]
  = a_update (last_acc ign) s p.
Proof.
  cbn. destruct (last_pick ign p) as [w|]; cbn; [|reflexivity]. destruct w; reflexivity.
Qed.
Lemma last_merge_hom ign : merge_hom (last_acc ign).
Proof.
  apply merge_hom_from.
  - apply last_merge_split.
  - apply last_update_split.
  - intros s; reflexivity.
  - intros s; cbn. unfold last_pick, first_pick. destruct ign; reflexivity.
  - apply last_merge_one.
Qed.

(* ------------------------------------------------------------------ MEDIAN *)
Lemma median_update_split : update_split median_acc.
Proof. intros s a b. cbn. now rewrite somes_app, app_assoc. Qed.
Lemma median_merge_split : merge_split median_acc.
Proof. intros s a b. cbn. now rewrite map_app, concat_app, app_assoc. Qed.
Lemma median_merge_hom : merge_hom median_acc.
Proof.
  apply merge_hom_from.
  - exact median_merge_split.
  - exact median_update_split.
  - intros s. cbn. apply app_nil_r.
  - intros s. cbn. apply app_nil_r.
  - intros s p. cbn. now rewrite app_nil_r.
Qed.
Lemma insert_comm x y l : insert_sorted x (insert_sorted y l) = insert_sorted y (insert_sorted x l).
Proof.
  induction l as [|a l IH]; cbn [insert_sorted].
  - destruct (x <=? y) eqn:E1, (y <=? x) eqn:E2; try reflexivity.
    + apply Z.leb_le in E1, E2. assert (x = y) by lia. now subst.
    + apply Z.leb_gt in E1, E2. lia.
  - destruct (y <=? a) eqn:Eya, (x <=? a) eqn:Exa; cbn [insert_sorted];
      destruct (x <=? y) eqn:Exy; destruct (y <=? x) eqn:Eyx;
      rewrite ?Eya, ?Exa; try reflexivity;
      try (apply Z.leb_le in Exy); try (apply Z.leb_le in Eyx); try (apply Z.leb_gt in Exy);
      try (apply Z.leb_gt in Eyx); try (apply Z.leb_le in Eya); try (apply Z.leb_le in Exa);
      try (apply Z.leb_gt in Eya); try (apply Z.leb_gt in Exa); try lia.
    + assert (x = y) by lia. now subst.
    + now rewrite IH.
    + now rewrite IH.
    + now rewrite IH.
Qed.
Lemma isort_perm a b : Permutation a b -> isort a = isort b.
Proof.
  induction 1; cbn [isort fold_right] in *.
  - reflexivity.
  - fold (isort l). fold (isort l'). now rewrite IHPermutation.
  - fold (isort l). apply insert_comm.
  - congruence.
Qed.
Lemma median_eval_perm a b : Permutation a b -> median_eval a = median_eval b.
Proof. intros H. unfold median_eval. now rewrite (isort_perm _ _ H), (Permutation_length H). Qed.
Lemma flat_map_perm {A B} (g : A -> list B) a b : Permutation a b -> Permutation (flat_map g a) (flat_map g b).
Proof.
  induction 1; cbn [flat_map] in *.
  - constructor.
  - now apply Permutation_app_head.
  - rewrite !app_assoc. apply Permutation_app_tail, Permutation_app_comm.
  - eapply perm_trans; eauto.
Qed.
Lemma median_merge_comm : forall s ws ws', Permutation ws ws' ->
  a_eval median_acc (a_merge median_acc s ws) = a_eval median_acc (a_merge median_acc s ws').
Proof.
  intros. cbn. apply median_eval_perm, Permutation_app_head.
  rewrite <- !flat_map_concat_map. now apply flat_map_perm.
Qed.
Lemma median_update_comm : forall s a b, Permutation a b ->
  a_eval median_acc (a_update median_acc s a) = a_eval median_acc (a_update median_acc s b).
Proof. intros. cbn. apply median_eval_perm, Permutation_app_head. now apply somes_perm. Qed.

(* ------------------------------------------------------------------ COUNT(DISTINCT) *)
Lemma set_add_in s y x : In x (set_add s y) <-> x = y \/ In x s.
Proof.
  unfold set_add. destruct (existsb (Z.eqb y) s) eqn:E.
  - apply existsb_exists in E. destruct E as [z [Hz Hyz]]. apply Z.eqb_eq in Hyz. subst z.
    split; [auto|]. intros [->|H]; assumption.
  - cbn. split; intros [H|H]; auto.
Qed.
Lemma set_add_nodup s y : NoDup s -> NoDup (set_add s y).
Proof.
  intros H. unfold set_add. destruct (existsb (Z.eqb y) s) eqn:E; [assumption|].
  constructor; [|assumption]. intros Hin.
  assert (existsb (Z.eqb y) s = true) by (apply existsb_exists; exists y; split; [assumption|apply Z.eqb_refl]).
  congruence.
Qed.
Lemma fold_set_add_in l : forall s x, In x (fold_left set_add l s) <-> In x l \/ In x s.
Proof.
  induction l as [|y l IH]; intros; cbn [fold_left].
  - cbn. tauto.
  - rewrite IH, set_add_in. cbn. intuition congruence.
Qed.
Lemma fold_set_add_nodup l : forall s, NoDup s -> NoDup (fold_left set_add l s).
Proof. induction l; intros; cbn [fold_left]; auto using set_add_nodup. Qed.
Lemma count_distinct_update_split : update_split count_distinct_acc.
Proof. intros s a b. cbn. now rewrite somes_app, fold_left_app. Qed.
Lemma count_distinct_merge_split : merge_split count_distinct_acc.
Proof. intros s a b. cbn. now rewrite map_app, concat_app, fold_left_app. Qed.
Lemma same_members_card (a b : list Z) : NoDup a -> NoDup b -> (forall x, In x a <-> In x b) -> length a = length b.
Proof. intros. apply Permutation_length, NoDup_Permutation; assumption. Qed.
Lemma in_somes {A} (x : A) l : In x (somes l) <-> In (Some x) l.
Proof.
  unfold somes. rewrite in_flat_map. split.
  - intros [[y|] [H1 H2]]; cbn in H2; [destruct H2 as [->|[]]; assumption|destruct H2].
  - intros H. exists (Some x). split; [assumption|now left].
Qed.
Lemma count_distinct_members s parts x :
  In x (a_merge count_distinct_acc s
          (map (fun p => a_state count_distinct_acc (a_update count_distinct_acc (a_init count_distinct_acc) p)) parts))
  <-> In x (a_update count_distinct_acc s (concat parts)).
Proof.
  cbn. rewrite !fold_set_add_in. rewrite map_map. cbn [wire_list].
  rewrite in_concat, in_somes, in_concat.
  split; (intros [H|H]; [left|now right]).
  - destruct H as [l [Hl Hx]]. apply in_map_iff in Hl. destruct Hl as [p [<- Hp]].
    apply fold_set_add_in in Hx. destruct Hx as [Hx|[]]. exists p. split; [assumption|now apply in_somes].
  - destruct H as [p [Hp Hx]]. exists (fold_left set_add (somes p) []). split.
    + apply in_map_iff. now exists p.
    + apply fold_set_add_in. left. now apply in_somes.
Qed.
Lemma count_distinct_merge_hom s parts : NoDup s ->
  a_eval count_distinct_acc (a_merge count_distinct_acc s
     (map (fun p => a_state count_distinct_acc (a_update count_distinct_acc (a_init count_distinct_acc) p)) parts))
  = a_eval count_distinct_acc (a_update count_distinct_acc s (concat parts)).
Proof.
  intros Hs. cbn [a_eval count_distinct_acc]. do 2 f_equal. apply same_members_card.
  - cbn. now apply fold_set_add_nodup.
  - cbn. now apply fold_set_add_nodup.
  - intros x. apply count_distinct_members.
Qed.
Lemma count_distinct_merge_comm s ws ws' : NoDup s -> Permutation ws ws' ->
  a_eval count_distinct_acc (a_merge count_distinct_acc s ws) = a_eval count_distinct_acc (a_merge count_distinct_acc s ws').
Proof.
  intros Hs H. cbn. do 2 f_equal. apply same_members_card; try now apply fold_set_add_nodup.
  intros x. rewrite !fold_set_add_in. rewrite <- !flat_map_concat_map.
  pose proof (flat_map_perm wire_list _ _ H) as P.
  split; (intros [Hx|Hx]; [left|now right]).
  - eapply Permutation_in; eauto.
  - eapply Permutation_in; [symmetry|]; eauto.
Qed.

(* ------------------------------------------------------------------ BIT_XOR retraction does not restore NULL *)
Lemma bit_xor_retract_refuted :
  exists s a b, a_eval bit_xor_acc (a_retract bit_xor_acc (a_update bit_xor_acc s (a ++ b)) a)
                <> a_eval bit_xor_acc (a_update bit_xor_acc s b).
Proof. exists None, [Some 1], [None]. vm_compute. discriminate. Qed.

(* ================================================================== the vectorised accumulator *)
Lemma upd_nth_length {A} n (x : A) l : length (upd_nth n x l) = length l.
Proof. revert n; induction l; destruct n; cbn; auto. Qed.
Lemma nth_upd_nth {A} (d : A) l : forall n k x, (n < length l)%nat ->
  nth k (upd_nth n x l) d = if (k =? n)%nat then x else nth k l d.
Proof.
  induction l as [|y l IH]; intros n k x Hn; [cbn in Hn; lia|].
  destruct n, k; cbn [upd_nth nth Nat.eqb]; try reflexivity.
  apply IH. cbn in Hn. lia.
Qed.
Lemma resize_length {C} (c : list C) total d : (length c <= total)%nat -> length (resize c total d) = total.
Proof. intros. unfold resize. rewrite firstn_length, app_length, repeat_length. lia. Qed.
Lemma resize_nth {C} (c : list C) total d g : (length c <= total)%nat -> nth g (resize c total d) d = nth g c d.
Proof.
  intros H. unfold resize. rewrite firstn_all2 by (rewrite app_length, repeat_length; lia).
  destruct (Nat.lt_ge_cases g (length c)).
  - now rewrite app_nth1.
  - rewrite app_nth2 by assumption. rewrite (nth_overflow c) by assumption.
    destruct (Nat.lt_ge_cases (g - length c) (total - length c)).
    + now rewrite nth_repeat.
    + apply nth_overflow. now rewrite repeat_length.
Qed.

Definition rows_below {V} (total : nat) (rows : list (grow V)) : Prop :=
  Forall (fun r => (row_group r < total)%nat) rows.

Lemma apply_rows_length {C V} (step : C -> V -> C) d rows : forall cells,
  length (apply_rows step d cells rows) = length cells.
Proof.
  induction rows as [|r0 rows IH]; intros; [reflexivity|].
  destruct r0 as [[g [v|]] [|]]; unfold apply_rows in *; cbn [fold_left]; rewrite IH; try reflexivity.
  apply upd_nth_length.
Qed.
Lemma apply_rows_nth {C V} (step : C -> V -> C) d g rows : forall cells,
  rows_below (length cells) rows ->
  nth g (apply_rows step d cells rows) d = fold_left step (live_vals g rows) (nth g cells d).
Proof.
  induction rows as [|r0 rows IH]; intros cells Hb; [reflexivity|].
  destruct r0 as [[g' [v|]] [|]]; inversion Hb as [|r rs Hr Hrs]; subst;
    cbn [live_vals flat_map app]; fold (live_vals g rows); unfold apply_rows; cbn [fold_left]; fold (apply_rows step d);
    try (apply IH; assumption).
  unfold row_group in Hr. cbn in Hr.
  fold (apply_rows step d (upd_nth g' (step (nth g' cells d) v) cells) rows).
  rewrite IH by (now rewrite upd_nth_length).
  rewrite nth_upd_nth by assumption.
  destruct (g' =? g)%nat eqn:E.
  - apply Nat.eqb_eq in E. subst g'. rewrite Nat.eqb_refl. reflexivity.
  - rewrite Nat.eqb_sym, E. reflexivity.
Qed.

(* the seen bitmap *)
Definition seen_len (s : seen) : nat := match s with SAll n => n | SSome l => length l end.
Lemma nth_pad_bits l total g : nth g (pad_bits l total) false = nth g l false.
Proof.
  unfold pad_bits. destruct (Nat.lt_ge_cases g (length l)).
  - now rewrite app_nth1.
  - rewrite app_nth2 by assumption. rewrite (nth_overflow l) by assumption.
    destruct (Nat.lt_ge_cases (g - length l) (total - length l)).
    + now rewrite nth_repeat.
    + apply nth_overflow. now rewrite repeat_length.
Qed.
Lemma nth_repeat_true n g : nth g (repeat true n) false = (g <? n)%nat.
Proof.
  destruct (Nat.lt_ge_cases g n).
  - rewrite (nth_indep _ false true) by (now rewrite repeat_length). rewrite nth_repeat. symmetry. now apply Nat.ltb_lt.
  - rewrite nth_overflow by (now rewrite repeat_length). symmetry. now apply Nat.ltb_ge.
Qed.
Lemma get_builder_nth s total g : nth g (get_builder s total) false = seen_bit s g.
Proof. destruct s; cbn [get_builder seen_bit]; rewrite nth_pad_bits; [apply nth_repeat_true|reflexivity]. Qed.
Lemma get_builder_length s total : (seen_len s <= total)%nat -> length (get_builder s total) = total.
Proof. destruct s; cbn; intros; unfold pad_bits; rewrite app_length, ?repeat_length; lia. Qed.

Definition has_live {V} (g : nat) (rows : list (grow V)) : bool :=
  match live_vals g rows with [] => false | _ => true end.

Lemma set_bits_nth {V} g (rows : list (grow V)) : forall b,
  rows_below (length b) rows ->
  nth g (fold_left (fun b r => if row_live r then upd_nth (row_group r) true b else b) rows b) false
  = nth g b false || has_live g rows.
Proof.
  unfold has_live.
  induction rows as [|r0 rows IH]; intros b Hb; [cbn; now rewrite orb_false_r|].
  destruct r0 as [[g' [v|]] [|]]; inversion Hb as [|r rs Hr Hrs]; subst;
    cbn [fold_left row_live row_group fst live_vals flat_map app]; fold (live_vals g rows);
    try (apply IH; assumption).
  unfold row_group in Hr. cbn in Hr.
  rewrite IH by (now rewrite upd_nth_length). rewrite nth_upd_nth by assumption.
  destruct (g' =? g)%nat eqn:E.
  - apply Nat.eqb_eq in E. subst g'. rewrite Nat.eqb_refl. cbn [app]. now rewrite orb_true_r.
  - rewrite Nat.eqb_sym, E. reflexivity.
Qed.
Lemma set_bits_length {V} (rows : list (grow V)) : forall b,
  length (fold_left (fun b r => if row_live r then upd_nth (row_group r) true b else b) rows b) = length b.
Proof.
  induction rows as [|r rows IH]; intros; cbn [fold_left]; [reflexivity|].
  rewrite IH. destruct (row_live r); [apply upd_nth_length|reflexivity].
Qed.

(* the contract of update_batch: a group index not yet known to the accumulator occurs in the batch that
   introduces it (the hash table creates a group index because a row of this batch has that key) *)
Definition covers {V} (s : seen) (total : nat) (rows : list (grow V)) : Prop :=
  forall g, (seen_len s <= g < total)%nat -> exists r, In r rows /\ row_group r = g.

Lemma all_live_has_live {V} g (rows : list (grow V)) :
  forallb (fun r => match r with (_, Some _, _) => true | _ => false end) rows = true ->
  Forall (fun r => snd r = true) rows ->
  (exists r, In r rows /\ row_group r = g) -> has_live g rows = true.
Proof.
  unfold has_live. induction rows as [|[[g' [v|]] p] rows IH]; intros Hv Hp [r [Hin Hg]]; cbn in Hv; try discriminate.
  - destruct Hin.
  - pose proof (Forall_inv Hp) as Hp1. pose proof (Forall_inv_tail Hp) as Hp2. cbn in Hp1. subst p.
    cbn [live_vals flat_map]. fold (live_vals g rows).
    destruct Hin as [<-|Hin].
    + unfold row_group in Hg. cbn in Hg. subst g'. rewrite Nat.eqb_refl. reflexivity.
    + destruct (g' =? g)%nat; [reflexivity|]. cbn [app]. apply IH; eauto.
Qed.

Lemma null_accumulate_bit {V} s (rows : list (grow V)) hf total g :
  (seen_len s <= total)%nat -> rows_below total rows -> covers s total rows ->
  (hf = false -> Forall (fun r => snd r = true) rows) ->
  (g < total)%nat ->
  seen_bit (null_accumulate s rows hf total) g = seen_bit s g || has_live g rows.
Proof.
  intros Hl Hb Hc Hf Hg.
  assert (Hslow : seen_bit (SSome (fold_left (fun b r => if row_live r then upd_nth (row_group r) true b else b)
                                             rows (get_builder s total))) g = seen_bit s g || has_live g rows).
  { cbn [seen_bit]. rewrite set_bits_nth by (now rewrite get_builder_length). now rewrite get_builder_nth. }
  unfold null_accumulate. destruct s as [n|l]; [|exact Hslow].
  match goal with |- context [if ?c then _ else _] => destruct c eqn:E end; [|exact Hslow].
  apply andb_true_iff in E. destruct E as [E1 E2]. apply negb_true_iff in E1.
  cbn [seen_bit]. replace (g <? total)%nat with true by (symmetry; now apply Nat.ltb_lt).
  destruct (g <? n)%nat eqn:En; [reflexivity|]. apply Nat.ltb_ge in En. cbn [orb]. symmetry.
  apply all_live_has_live; [exact E2 | now apply Hf | apply Hc; cbn; lia].
Qed.
Lemma null_accumulate_len {V} s (rows : list (grow V)) hf total :
  (seen_len s <= total)%nat -> seen_len (null_accumulate s rows hf total) = total.
Proof.
  intros. unfold null_accumulate.
  assert (seen_len (SSome (fold_left (fun b r => if row_live r then upd_nth (row_group r) true b else b)
                                     rows (get_builder s total))) = total).
  { cbn. now rewrite set_bits_length, get_builder_length. }
  destruct s; [match goal with |- context [if ?c then _ else _] => destruct c end|]; auto.
Qed.

(* ---- update_batch: the view of every group after the batch *)
Definition gwf (F : gfam) (st : gstate F) (total : nat) : Prop :=
  (length (g_cells st) <= total)%nat /\ (seen_len (g_seen st) <= total)%nat.

Lemma mk_rows_pass_all {V} (vals : list (option V)) gidx :
  Forall (fun r : grow V => snd r = true) (mk_rows vals gidx None).
Proof.
  unfold mk_rows. apply Forall_forall. intros [[g v] p] H. apply in_combine_r in H.
  apply in_map_iff in H. destruct H as [? [<- _]]. reflexivity.
Qed.

Theorem gupdate_view (F : gfam) st vals gidx filt total g :
  let rows := mk_rows vals gidx filt in
  gwf F st total -> rows_below total rows -> covers (g_seen st) total rows -> (g < total)%nat ->
  gview F (gupdate F st vals gidx filt total) g
  = (fold_left (g_step F) (live_vals g rows) (fst (gview F st g)),
     if g_tracks F then snd (gview F st g) || has_live g rows else true).
Proof.
  intros rows [Hc Hs] Hb Hcov Hg. unfold gview, gupdate. cbn [g_cells g_seen fst snd].
  fold rows. f_equal.
  - rewrite apply_rows_nth by (now rewrite resize_length). now rewrite resize_nth.
  - destruct (g_tracks F); [|reflexivity].
    apply null_accumulate_bit; auto.
    intros Hf. destruct filt; [discriminate|]. apply mk_rows_pass_all.
Qed.
Lemma gupdate_wf (F : gfam) st vals gidx filt total :
  gwf F st total ->
  (if g_tracks F then True else seen_len (g_seen st) = 0%nat) ->
  length (g_cells (gupdate F st vals gidx filt total)) = total
  /\ (if g_tracks F then seen_len (g_seen (gupdate F st vals gidx filt total)) = total
      else seen_len (g_seen (gupdate F st vals gidx filt total)) = 0%nat).
Proof.
  intros [Hc Hs] Ht. unfold gupdate. cbn [g_cells g_seen]. split.
  - now rewrite apply_rows_length, resize_length.
  - destruct (g_tracks F); [now apply null_accumulate_len|assumption].
Qed.

(* ---- the link to the scalar optional-monoid accumulators: a (cell, seen) pair is the scalar state *)
Definition to_opt {T} (v : T * bool) : option T := if snd v then Some (fst v) else None.
Lemma cell_fold_scalar {T} (f : T -> T -> T) (start : T) (D : T -> Prop) :
  (forall a b c, f (f a b) c = f a (f b c)) ->
  (forall x, D x -> f start x = x) ->
  forall c sn vs, Forall D vs -> (sn = false -> c = start) ->
    to_opt (fold_left f vs c, sn || match vs with [] => false | _ => true end)
    = comb f (to_opt (c, sn)) (reduce f vs).
Proof.
  intros Ha Hs c sn vs HD Hc. unfold to_opt. cbn [fst snd]. destruct vs as [|x r].
  - rewrite orb_false_r. cbn. destruct sn; reflexivity.
  - rewrite orb_true_r. cbn [reduce fold_left]. destruct sn; cbn [comb].
    + now rewrite fold_left_f_assoc.
    + rewrite Hc by reflexivity. inversion HD; subst. now rewrite Hs.
Qed.

(* ---- evaluate(EmitTo::First n) / state(First n): the first n groups leave, group g + n becomes group g *)
Lemma nth_skipn {A} (d : A) n : forall l g, nth g (skipn n l) d = nth (n + g) l d.
Proof. induction n; intros; [reflexivity|]. destruct l; [now destruct g|]. cbn [skipn plus nth]. apply IHn. Qed.

Theorem emit_first_shifts (F : gfam) st n {X} (f : G_cell F -> X) (nul : X) g :
  gview F (snd (gemit F st (Some n) f nul)) g = gview F st (n + g).
Proof.
  unfold gemit, gview. cbn [take_needed].
  destruct (g_tracks F) eqn:Et.
  - destruct (g_seen st) as [k|l]; cbn [null_build snd g_cells g_seen seen_bit]; rewrite nth_skipn; f_equal.
    + destruct (g <? k - n)%nat eqn:E1, (n + g <? k)%nat eqn:E2; try reflexivity.
      * apply Nat.ltb_lt in E1. apply Nat.ltb_ge in E2. lia.
      * apply Nat.ltb_ge in E1. apply Nat.ltb_lt in E2. lia.
    + apply nth_skipn.
  - cbn [snd g_cells g_seen]. now rewrite nth_skipn.
Qed.

Lemma nth_firstn_lt {A} (d : A) : forall n i l, (i < n)%nat -> nth i (firstn n l) d = nth i l d.
Proof.
  induction n; intros i l H; [lia|]. destruct l; [now destruct i|]. destruct i; [reflexivity|].
  cbn [firstn nth]. apply IHn. lia.
Qed.
(* what is emitted is the view of the first n groups *)
Lemma emit_rows_nth {C X} (f : C -> X) nul d dx valid (cells : list C) i :
  (i < length cells)%nat ->
  (match valid with Some bits => length bits = length cells | None => True end) ->
  nth i (emit_rows valid cells f nul) dx
  = if match valid with Some bits => nth i bits false | None => true end then f (nth i cells d) else nul.
Proof.
  intros Hi Hl. unfold emit_rows. destruct valid as [bits|].
  - rewrite (nth_indep _ dx (if snd (d, false) then f (fst (d, false)) else nul))
      by (rewrite map_length, combine_length; lia).
    rewrite (map_nth (fun cb : C * bool => if snd cb then f (fst cb) else nul)).
    rewrite combine_nth by (symmetry; assumption). reflexivity.
  - rewrite (nth_indep _ dx (f d)) by (now rewrite map_length). now rewrite map_nth.
Qed.
Theorem emit_first_output (F : gfam) st n {X} (f : G_cell F -> X) (nul dx : X) i :
  (i < n)%nat -> (n <= length (g_cells st))%nat ->
  (g_tracks F = true -> seen_len (g_seen st) = length (g_cells st)) ->
  nth i (fst (gemit F st (Some n) f nul)) dx
  = if snd (gview F st i) then f (fst (gview F st i)) else nul.
Proof.
  intros Hi Hn Hs. unfold gemit, gview. cbn [take_needed fst snd].
  destruct (g_tracks F) eqn:Et.
  - specialize (Hs eq_refl). destruct (g_seen st) as [k|l]; cbn [null_build fst snd seen_bit seen_len] in *.
    + rewrite (emit_rows_nth _ _ (g_start F)) by (rewrite ?firstn_length; cbn; auto; lia).
      replace (i <? k)%nat with true by (symmetry; apply Nat.ltb_lt; lia).
      now rewrite nth_firstn_lt.
    + rewrite (emit_rows_nth _ _ (g_start F)) by (rewrite ?firstn_length; cbn; auto; lia).
      rewrite !nth_firstn_lt by assumption. reflexivity.
  - cbn [fst]. rewrite (emit_rows_nth _ _ (g_start F)) by (rewrite ?firstn_length; cbn; auto; lia).
    now rewrite nth_firstn_lt.
Qed.

(* ---- convert_to_state: row i is the state a fresh accumulator emits after seeing row i alone *)
(* a family without NullState (COUNT) emits its starting cell for a group that saw nothing *)
Definition untracked_ok (F : gfam) : Prop := g_tracks F = false -> g_null_wire F = g_wire F (g_start F).
Theorem convert_to_state_eq (F : gfam) (v : option Z) (fi : option (option bool)) :
  untracked_ok F ->
  let filt := option_map (fun x => [x]) fi in
  gconvert F [v] filt = fst (gstate_rows F (gupdate F (ginit F) [v] [O] filt 1) None).
Proof.
  intros Hu.
  unfold gconvert, gstate_rows, gemit, gupdate, ginit, mk_rows. cbn [map g_cells g_seen take_needed].
  destruct fi as [[[|]|]|]; destruct v as [z|]; cbn [option_map map combine];
    unfold resize, apply_rows; cbn [length Nat.sub repeat app firstn fold_left nth upd_nth];
    destruct (g_tracks F) eqn:Et; cbn; rewrite ?Et; try reflexivity; now rewrite (Hu Et).
Qed.
Lemma gconvert_rowwise (F : gfam) v vs f fs :
  gconvert F (v :: vs) (Some (f :: fs)) = gconvert F [v] (Some [f]) ++ gconvert F vs (Some fs).
Proof. reflexivity. Qed.
Lemma gconvert_rowwise_nofilter (F : gfam) v vs :
  gconvert F (v :: vs) None = gconvert F [v] None ++ gconvert F vs None.
Proof. reflexivity. Qed.

(* ---- one update_batch of the primitive family = the scalar optional-monoid update of every group *)
Lemma somes_map_Some {A} (l : list A) : somes (map Some l) = l.
Proof. induction l; cbn; [reflexivity|]. unfold somes in IHl. now rewrite IHl. Qed.
Theorem prim_groups_eq_scalar (f : Z -> Z -> Z) (start : Z) (D : Z -> Prop) st vals gidx filt total g :
  (forall a b c, f (f a b) c = f a (f b c)) ->
  (forall x, D x -> f start x = x) ->
  let F := prim_fam f start in
  let rows := mk_rows vals gidx filt in
  gwf F st total -> rows_below total rows -> covers (g_seen st) total rows -> (g < total)%nat ->
  Forall D (live_vals g rows) ->
  (snd (gview F st g) = false -> fst (gview F st g) = start) ->
  to_opt (gview F (gupdate F st vals gidx filt total) g)
  = og_update f (to_opt (gview F st g)) (map Some (live_vals g rows)).
Proof.
  intros Ha Hs F rows. subst F rows. intros Hwf Hb Hc Hg HD Hinv.
  rewrite gupdate_view by assumption. cbn [g_tracks prim_fam g_step].
  unfold og_update. rewrite somes_map_Some. unfold has_live.
  destruct (gview (prim_fam f start) st g) as [c sn] eqn:Ev. cbn [fst snd] in *.
  apply (cell_fold_scalar f start D); assumption.
Qed.

Lemma untracked_ok_all i : untracked_ok (fam_of i).
Proof.
  unfold fam_of. repeat (destruct i as [|i|]; try (intros H; try discriminate H; reflexivity)).
Qed.

(* merge order matters for FIRST_VALUE / LAST_VALUE *)
Lemma first_last_order_sensitive :
  a_eval (first_acc false) (a_merge (first_acc false) (a_init _) [[RInt 1; RBool true]; [RInt 2; RBool true]])
  <> a_eval (first_acc false) (a_merge (first_acc false) (a_init _) [[RInt 2; RBool true]; [RInt 1; RBool true]])
  /\ a_eval (last_acc false) (a_merge (last_acc false) (a_init _) [[RInt 1; RBool true]; [RInt 2; RBool true]])
  <> a_eval (last_acc false) (a_merge (last_acc false) (a_init _) [[RInt 2; RBool true]; [RInt 1; RBool true]]).
Proof. split; vm_compute; discriminate. Qed.
