(* C43 -- proofs about the configuration text model (Model/ConfigText.v). *)
From Coq Require Import List NArith ZArith Bool String Ascii Lia.
From DF Require Import Base.Prelude Model.ConfigText.
Import ListNotations.
Open Scope Z_scope.

(* ---------------------------------------------------------------- text equality *)
Lemma text_eqb_refl : forall t, text_eqb t t = true.
Proof. induction t as [|c t IH]; cbn; [reflexivity|]. rewrite Ascii.eqb_refl, IH. reflexivity. Qed.

Lemma text_eqb_eq : forall a b, text_eqb a b = true <-> a = b.
Proof.
  induction a as [|x a IH]; destruct b as [|y b]; cbn; split; intro H; try reflexivity; try discriminate.
  - apply andb_true_iff in H. destruct H as [H1 H2]. apply Ascii.eqb_eq in H1. apply IH in H2. congruence.
  - inversion H; subst. rewrite Ascii.eqb_refl. cbn. apply IH. reflexivity.
Qed.

Lemma text_eqb_neq : forall a b, text_eqb a b = false -> a <> b.
Proof. intros a b H E. subst. rewrite text_eqb_refl in H. discriminate. Qed.

(* ---------------------------------------------------------------- characters: 256-case facts *)
Ltac all_chars c := destruct c as [[] [] [] [] [] [] [] []]; vm_compute; try reflexivity; try discriminate; auto.

Lemma lower1_idem : forall c, lower1 (lower1 c) = lower1 c.
Proof. intro c. all_chars c. Qed.

Lemma to_lower_idem : forall t, to_lower (to_lower t) = to_lower t.
Proof. intro t. unfold to_lower. rewrite map_map. apply map_ext. apply lower1_idem. Qed.

Lemma code_nonneg : forall c, 0 <= code c.
Proof. intro c. unfold code. lia. Qed.

Lemma digit_range : forall c d, digit c = Some d -> 0 <= d <= 9.
Proof.
  intros c d. unfold digit. destruct ((48 <=? code c) && (code c <=? 57)) eqn:E; [|discriminate].
  intro H. inversion H; subst. apply andb_true_iff in E. destruct E as [E1 E2].
  apply Z.leb_le in E1. apply Z.leb_le in E2. lia.
Qed.

Definition isdig (d : Z) : Prop := 0 <= d <= 9.

Lemma isdig_cases : forall d, isdig d -> d = 0 \/ d = 1 \/ d = 2 \/ d = 3 \/ d = 4 \/ d = 5 \/ d = 6 \/ d = 7 \/ d = 8 \/ d = 9.
Proof. unfold isdig. intros. lia. Qed.

Lemma digit_chr_digit : forall d, isdig d -> digit (digit_chr d) = Some d.
Proof. intros d H. apply isdig_cases in H. repeat (destruct H as [H|H]; [subst; reflexivity|]). subst. reflexivity. Qed.

Lemma digit_chr_not_plus : forall d, isdig d -> Ascii.eqb (digit_chr d) plus_c = false.
Proof. intros d H. apply isdig_cases in H. repeat (destruct H as [H|H]; [subst; reflexivity|]). subst. reflexivity. Qed.

Lemma digit_chr_not_minus : forall d, isdig d -> Ascii.eqb (digit_chr d) minus_c = false.
Proof. intros d H. apply isdig_cases in H. repeat (destruct H as [H|H]; [subst; reflexivity|]). subst. reflexivity. Qed.

(* ---------------------------------------------------------------- decimal accumulation *)
Definition val_be (acc : Z) (ds : list Z) : Z := fold_left (fun a d => a * 10 + d) ds acc.
Definition val_le (ds : list Z) : Z := fold_right (fun d a => a * 10 + d) 0 ds.

Lemma val_be_mono : forall ds acc, Forall isdig ds -> 0 <= acc -> acc <= val_be acc ds.
Proof.
  induction ds as [|d ds IH]; intros acc F A; cbn; [lia|].
  inversion F as [|? ? Hd F']; subst. unfold isdig in Hd.
  specialize (IH (acc * 10 + d) F'). unfold val_be in IH. lia.
Qed.

Lemma acc_pos_digits : forall ds tmax acc,
  Forall isdig ds -> 0 <= acc -> val_be acc ds <= tmax ->
  acc_pos tmax acc (map digit_chr ds) = Some (val_be acc ds).
Proof.
  induction ds as [|d ds IH]; intros tmax acc F A V; cbn; [reflexivity|].
  inversion F as [|? ? Hd F']; subst.
  rewrite (digit_chr_digit d Hd). cbn in V.
  assert (M : acc * 10 + d <= val_be (acc * 10 + d) ds) by (apply val_be_mono; [assumption|unfold isdig in Hd; lia]).
  unfold val_be in M, V.
  replace (acc * 10 + d <=? tmax) with true by (symmetry; apply Z.leb_le; lia).
  apply IH; [assumption|unfold isdig in Hd; lia|exact V].
Qed.

Lemma acc_pos_range : forall t tmax acc v,
  acc_pos tmax acc t = Some v -> 0 <= acc <= tmax -> acc <= v <= tmax.
Proof.
  induction t as [|c t IH]; intros tmax acc v H A; cbn in H.
  - inversion H; subst. lia.
  - destruct (digit c) as [d|] eqn:D; [|discriminate]. apply digit_range in D.
    destruct (acc * 10 + d <=? tmax) eqn:E; [|discriminate]. apply Z.leb_le in E.
    apply IH in H; lia.
Qed.

Lemma acc_neg_digits : forall ds tmin acc,
  Forall isdig ds -> acc <= 0 -> tmin <= - val_be (- acc) ds ->
  acc_neg tmin acc (map digit_chr ds) = Some (- val_be (- acc) ds).
Proof.
  induction ds as [|d ds IH]; intros tmin acc F A V; cbn.
  - unfold val_be. cbn. f_equal. lia.
  - inversion F as [|? ? Hd F']; subst. rewrite (digit_chr_digit d Hd). cbn in V.
    assert (E : - (acc * 10 - d) = - acc * 10 + d) by lia.
    assert (M : - acc * 10 + d <= val_be (- acc * 10 + d) ds) by (apply val_be_mono; [assumption|unfold isdig in Hd; lia]).
    unfold val_be in M, V.
    replace (tmin <=? acc * 10 - d) with true by (symmetry; apply Z.leb_le; lia).
    rewrite (IH tmin (acc * 10 - d) F'); [rewrite E; reflexivity|unfold isdig in Hd; lia|rewrite E; exact V].
Qed.

Lemma acc_neg_range : forall t tmin acc v,
  acc_neg tmin acc t = Some v -> tmin <= acc <= 0 -> tmin <= v <= acc.
Proof.
  induction t as [|c t IH]; intros tmin acc v H A; cbn in H.
  - inversion H; subst. lia.
  - destruct (digit c) as [d|] eqn:D; [|discriminate]. apply digit_range in D.
    destruct (tmin <=? acc * 10 - d) eqn:E; [|discriminate]. apply Z.leb_le in E.
    apply IH in H; lia.
Qed.

(* ---------------------------------------------------------------- decimal printing *)
Lemma digits_le_spec : forall f n, 0 <= n < 10 ^ Z.of_nat f -> (0 < f)%nat ->
  val_le (digits_le f n) = n /\ Forall isdig (digits_le f n) /\ digits_le f n <> [].
Proof.
  induction f as [|f IH]; intros n B P; [lia|].
  cbn [digits_le]. destruct (n <? 10) eqn:E.
  - apply Z.ltb_lt in E. split; [|split].
    + cbn. lia.
    + constructor; [unfold isdig; lia|constructor].
    + discriminate.
  - apply Z.ltb_ge in E.
    rewrite Nat2Z.inj_succ, Z.pow_succ_r in B by lia.
    assert (Pf : (0 < f)%nat).
    { destruct f; [cbn in B; lia|lia]. }
    assert (B' : 0 <= n / 10 < 10 ^ Z.of_nat f).
    { split; [apply Z.div_pos; lia|apply Z.div_lt_upper_bound; lia]. }
    destruct (IH (n / 10) B' Pf) as [V [F NE]].
    split; [|split].
    + cbn [val_le fold_right]. unfold val_le in V. rewrite V.
      pose proof (Z.div_mod n 10). lia.
    + constructor; [unfold isdig; pose proof (Z.mod_pos_bound n 10); lia|exact F].
    + discriminate.
Qed.

Lemma fuel_enough : forall n, 0 <= n -> n < 10 ^ Z.of_nat (S (Z.to_nat (Z.log2 n))).
Proof.
  intros n H. rewrite Nat2Z.inj_succ, Z2Nat.id by apply Z.log2_nonneg.
  destruct (Z.eq_dec n 0) as [->|NZ]; [cbn; lia|].
  assert (P : 0 < n) by lia.
  pose proof (Z.log2_spec n P) as [_ U].
  assert (M : 2 ^ Z.succ (Z.log2 n) <= 10 ^ Z.succ (Z.log2 n)).
  { apply Z.pow_le_mono_l. lia. }
  lia.
Qed.

Lemma val_be_rev : forall l, val_be 0 (rev l) = val_le l.
Proof.
  intro l. unfold val_be, val_le.
  rewrite <- (rev_involutive l) at 2. rewrite fold_left_rev_right. reflexivity.
Qed.

(* the digits of print_nat: a non-empty big-endian digit list with value n *)
Lemma print_nat_spec : forall n, 0 <= n ->
  exists d ds, print_nat n = map digit_chr (d :: ds) /\ Forall isdig (d :: ds) /\ val_be 0 (d :: ds) = n.
Proof.
  intros n H. unfold print_nat.
  destruct (digits_le_spec (S (Z.to_nat (Z.log2 n))) n) as [V [F NE]]; [split; [lia|apply fuel_enough; lia]|lia|].
  set (l := digits_le (S (Z.to_nat (Z.log2 n))) n) in *.
  destruct (rev l) as [|d ds] eqn:R.
  - exfalso. apply NE. rewrite <- (rev_involutive l), R. reflexivity.
  - exists d, ds. repeat split.
    + rewrite <- R. apply Forall_rev. exact F.
    + rewrite <- R, val_be_rev. exact V.
Qed.

Lemma parse_uint_print : forall n tmax, 0 <= n <= tmax -> parse_uint tmax (print_z n) = Some n.
Proof.
  intros n tmax H. unfold print_z. replace (n <? 0) with false by (symmetry; apply Z.ltb_ge; lia).
  destruct (print_nat_spec n) as [d [ds [E [F V]]]]; [lia|]. rewrite E.
  cbn [map]. unfold parse_uint.
  inversion F as [|? ? Hd F']; subst. rewrite (digit_chr_not_plus d Hd).
  change (digit_chr d :: map digit_chr ds) with (map digit_chr (d :: ds)).
  rewrite acc_pos_digits; [reflexivity|assumption|lia|lia].
Qed.

Lemma print_z_nonempty : forall z, print_z z <> [].
Proof.
  intro z. unfold print_z. destruct (z <? 0); [discriminate|].
  destruct (Z_lt_le_dec z 0) as [N|P].
  - unfold print_nat. rewrite Z.log2_nonpos by lia. cbn. destruct (z <? 10); discriminate.
  - destruct (print_nat_spec z P) as [d [ds [E _]]]. rewrite E. discriminate.
Qed.

Lemma parse_int_print : forall z tmin tmax, tmin <= 0 <= tmax -> tmin <= z <= tmax ->
  parse_int tmin tmax (print_z z) = Some z.
Proof.
  intros z tmin tmax W H. unfold print_z. destruct (z <? 0) eqn:S.
  - apply Z.ltb_lt in S.
    destruct (print_nat_spec (- z)) as [d [ds [E [F V]]]]; [lia|]. rewrite E.
    unfold parse_int. change (Ascii.eqb minus_c plus_c) with false. cbn iota.
    rewrite Ascii.eqb_refl. cbn [map].
    change (digit_chr d :: map digit_chr ds) with (map digit_chr (d :: ds)).
    rewrite acc_neg_digits; cbn [Z.opp]; [rewrite V; f_equal; lia|assumption|lia|rewrite V; lia].
  - apply Z.ltb_ge in S.
    destruct (print_nat_spec z) as [d [ds [E [F V]]]]; [lia|]. rewrite E.
    cbn [map]. unfold parse_int.
    inversion F as [|? ? Hd F']; subst.
    rewrite (digit_chr_not_plus d Hd), (digit_chr_not_minus d Hd).
    change (digit_chr d :: map digit_chr ds) with (map digit_chr (d :: ds)).
    rewrite acc_pos_digits; [reflexivity|assumption|lia|lia].
Qed.

Lemma parse_uint_range : forall t tmax v, 0 <= tmax -> parse_uint tmax t = Some v -> 0 <= v <= tmax.
Proof.
  intros t tmax v W H. unfold parse_uint in H. destruct t as [|c r]; [discriminate|].
  destruct (Ascii.eqb c plus_c).
  - destruct r; [discriminate|]. apply acc_pos_range in H; lia.
  - apply acc_pos_range in H; lia.
Qed.

Lemma parse_int_range : forall t tmin tmax v, tmin <= 0 <= tmax -> parse_int tmin tmax t = Some v -> tmin <= v <= tmax.
Proof.
  intros t tmin tmax v W H. unfold parse_int in H. destruct t as [|c r]; [discriminate|].
  destruct (Ascii.eqb c plus_c).
  - destruct r; [discriminate|]. apply acc_pos_range in H; lia.
  - destruct (Ascii.eqb c minus_c).
    + destruct r; [discriminate|]. apply acc_neg_range in H; lia.
    + apply acc_pos_range in H; lia.
Qed.

(* ---------------------------------------------------------------- enums *)
Lemma assoc_n_in : forall k l t, assoc_n k l = Some t -> In (k, t) l.
Proof.
  induction l as [|[a v] l IH]; intros t H; cbn in H; [discriminate|].
  destruct (N.eqb k a) eqn:E.
  - apply N.eqb_eq in E. inversion H; subst. left. reflexivity.
  - right. apply IH. exact H.
Qed.

Lemma assoc_t_in : forall k l v, assoc_t k l = Some v -> exists a, In (a, v) l.
Proof.
  induction l as [|[a w] l IH]; intros v H; cbn in H; [discriminate|].
  destruct (text_eqb k a).
  - inversion H; subst. exists a. left. reflexivity.
  - destruct (IH v H) as [a' I]. exists a'. right. exact I.
Qed.

Lemma enum_parse_print : forall e x, enum_ok e = true -> enum_valid e x = true ->
  enum_parse e (enum_print e x) = Some x.
Proof.
  intros e x OK V. unfold enum_ok in OK. apply andb_true_iff in OK. destruct OK as [OK _].
  unfold enum_valid in V. unfold enum_print.
  destruct (assoc_n x (e_print e)) as [t|] eqn:A; [|discriminate].
  apply assoc_n_in in A. rewrite forallb_forall in OK. specialize (OK _ A). cbn in OK.
  destruct (enum_parse e t) as [v|]; [|discriminate]. apply N.eqb_eq in OK. congruence.
Qed.

Lemma enum_parse_valid : forall e t v, enum_ok e = true -> enum_parse e t = Some v -> enum_valid e v = true.
Proof.
  intros e t v OK H. unfold enum_ok in OK. apply andb_true_iff in OK. destruct OK as [_ OK].
  unfold enum_parse in H. apply assoc_t_in in H. destruct H as [a I].
  rewrite forallb_forall in OK. exact (OK _ I).
Qed.

(* ---------------------------------------------------------------- comma lists *)
Lemma dedup_no_consec : forall l, no_consec_dup (dedup l) = true.
Proof.
  induction l as [|x l IH]; [reflexivity|]. cbn [dedup].
  destruct (dedup l) as [|y r] eqn:D; [reflexivity|].
  destruct (N.eqb x y) eqn:E; [exact IH|].
  cbn [no_consec_dup]. rewrite E. exact IH.
Qed.

Lemma dedup_id : forall l, no_consec_dup l = true -> dedup l = l.
Proof.
  induction l as [|x l IH]; intro H; [reflexivity|]. cbn [dedup].
  destruct l as [|y r]; [reflexivity|].
  cbn [no_consec_dup] in H. apply andb_true_iff in H. destruct H as [H1 H2].
  rewrite (IH H2). apply negb_true_iff in H1. rewrite H1. reflexivity.
Qed.

Lemma dedup_subset : forall (P : N -> bool) l, forallb P l = true -> forallb P (dedup l) = true.
Proof.
  induction l as [|x l IH]; intro H; [reflexivity|]. cbn [dedup]. cbn in H.
  apply andb_true_iff in H. destruct H as [H1 H2]. specialize (IH H2).
  destruct (dedup l) as [|y r]; [cbn; rewrite H1; reflexivity|].
  destruct (N.eqb x y); [exact IH|]. cbn [forallb]. rewrite H1. exact IH.
Qed.

Definition no_comma (t : text) : Prop := Forall (fun c => Ascii.eqb c comma = false) t.

Lemma split_comma_plain : forall a, no_comma a -> split_comma a = [a].
Proof.
  induction a as [|c a IH]; intro H; [reflexivity|].
  inversion H as [|? ? Hc H']; subst. cbn [split_comma]. rewrite Hc, (IH H'). reflexivity.
Qed.

Lemma split_comma_app : forall a r, no_comma a -> split_comma (a ++ comma :: r) = a :: split_comma r.
Proof.
  induction a as [|c a IH]; intros r H.
  - cbn [app split_comma]. rewrite Ascii.eqb_refl. reflexivity.
  - inversion H as [|? ? Hc H']; subst. cbn [app split_comma]. rewrite Hc, (IH r H'). reflexivity.
Qed.

Lemma split_join : forall l, l <> [] -> Forall no_comma l -> split_comma (join_comma l) = l.
Proof.
  induction l as [|a l IH]; intros NE F; [congruence|].
  inversion F as [|? ? Ha F']; subst.
  destruct l as [|b l'].
  - cbn. apply split_comma_plain. exact Ha.
  - change (join_comma (a :: b :: l')) with (a ++ comma :: join_comma (b :: l')).
    rewrite split_comma_app by exact Ha. rewrite IH; [reflexivity|discriminate|exact F'].
Qed.

Lemma trim_start_nows : forall t, Forall (fun c => is_ws c = false) t -> trim_start t = t.
Proof. destruct t as [|c t]; intro H; [reflexivity|]. inversion H; subst. cbn. rewrite H2. reflexivity. Qed.

Lemma trim_nows : forall t, Forall (fun c => is_ws c = false) t -> trim t = t.
Proof.
  intros t H. unfold trim. rewrite (trim_start_nows t H).
  rewrite trim_start_nows by (apply Forall_rev; exact H). apply rev_involutive.
Qed.

Lemma to_lower_fixed : forall t, Forall (fun c => lower1 c = c) t -> to_lower t = t.
Proof. unfold to_lower. induction t as [|c t IH]; intro H; [reflexivity|]. inversion H; subst. cbn [map]. rewrite H2, (IH H3). reflexivity. Qed.

Lemma plain_char_facts : forall c, plain_char c = true ->
  is_ws c = false /\ Ascii.eqb c comma = false /\ lower1 c = c.
Proof.
  intros c H. unfold plain_char in H. apply andb_true_iff in H. destruct H as [H H3].
  apply andb_true_iff in H. destruct H as [H1 H2].
  apply negb_true_iff in H1. apply negb_true_iff in H2. apply Ascii.eqb_eq in H3. auto.
Qed.

Definition plain_text (t : text) : Prop := Forall (fun c => plain_char c = true) t.

Lemma plain_text_facts : forall t, plain_text t ->
  Forall (fun c => is_ws c = false) t /\ no_comma t /\ Forall (fun c => lower1 c = c) t.
Proof.
  induction t as [|c t IH]; intro H; [repeat split; constructor|].
  inversion H as [|? ? Hc H']; subst. destruct (IH H') as [A [B C]].
  destruct (plain_char_facts c Hc) as [X [Y Z]]. repeat split; constructor; assumption.
Qed.

(* joining plain names with commas gives a text without whitespace, fixed by to_lower *)
Lemma join_nows_lower : forall l, Forall plain_text l ->
  Forall (fun c => is_ws c = false) (join_comma l) /\ Forall (fun c => lower1 c = c) (join_comma l).
Proof.
  induction l as [|a l IH]; intro F; [split; constructor|].
  inversion F as [|? ? Ha F']; subst. destruct (plain_text_facts a Ha) as [A [_ C]].
  destruct l as [|b l']; [cbn; auto|].
  change (join_comma (a :: b :: l')) with (a ++ comma :: join_comma (b :: l')).
  destruct (IH F') as [I1 I2]. split; apply Forall_app; split; try assumption; constructor; try assumption; reflexivity.
Qed.

Lemma join_has_comma : forall a b l, In comma (join_comma (a :: b :: l)).
Proof. intros. change (join_comma (a :: b :: l)) with (a ++ comma :: join_comma (b :: l)). apply in_or_app. right. left. reflexivity. Qed.

Lemma map_opt_map : forall {A B C} (f : A -> option B) (g : C -> A) (h : C -> B) l,
  (forall x, In x l -> f (g x) = Some (h x)) -> map_opt f (map g l) = Some (map h l).
Proof.
  induction l as [|x l IH]; intro H; [reflexivity|]. cbn.
  rewrite (H x (or_introl eq_refl)), IH; [reflexivity|]. intros y I. apply H. right. exact I.
Qed.

Lemma map_opt_forall : forall {A B} (f : A -> option B) (P : B -> bool) l r,
  (forall x y, f x = Some y -> P y = true) -> map_opt f l = Some r -> forallb P r = true.
Proof.
  induction l as [|x l IH]; intros r H M; cbn in M.
  - inversion M; subst. reflexivity.
  - destruct (f x) as [y|] eqn:E; [|discriminate]. destruct (map_opt f l) as [ys|] eqn:E2; [|discriminate].
    inversion M; subst. cbn. rewrite (H _ _ E), (IH ys H eq_refl). reflexivity.
Qed.

Lemma cats_names : forall e x, cats_ok e = true -> enum_valid e x = true ->
  plain_text (enum_print e x) /\ enum_print e x <> t_all /\ enum_print e x <> t_none /\ enum_print e x <> [].
Proof.
  intros e x OK V. unfold cats_ok in OK. apply andb_true_iff in OK. destruct OK as [_ OK].
  unfold enum_valid in V. unfold enum_print.
  destruct (assoc_n x (e_print e)) as [t|] eqn:A; [|discriminate].
  apply assoc_n_in in A. rewrite forallb_forall in OK. specialize (OK _ A). cbn [snd] in OK.
  apply andb_true_iff in OK. destruct OK as [OK N3]. apply andb_true_iff in OK. destruct OK as [OK N2].
  apply andb_true_iff in OK. destruct OK as [P N1].
  apply negb_true_iff in N1. apply negb_true_iff in N2.
  repeat split.
  - unfold plain_text. apply Forall_forall. rewrite forallb_forall in P. exact P.
  - apply text_eqb_neq. exact N1.
  - apply text_eqb_neq. exact N2.
  - destruct t; [discriminate|discriminate].
Qed.

Lemma cats_ok_enum_ok : forall e, cats_ok e = true -> enum_ok e = true.
Proof. intros e H. unfold cats_ok in H. apply andb_true_iff in H. tauto. Qed.

Lemma parse_cats_print : forall e l, cats_ok e = true ->
  forallb (enum_valid e) l = true -> no_consec_dup l = true ->
  parse_cats e (print (DCats e) (VOnly l)) = Some (VOnly l).
Proof.
  intros e l OK V ND. destruct l as [|x l]; [reflexivity|].
  cbn [print].
  set (names := map (enum_print e) (x :: l)).
  assert (PL : Forall plain_text names).
  { unfold names. apply Forall_forall. intros t I. apply in_map_iff in I. destruct I as [y [<- I]].
    rewrite forallb_forall in V. apply (cats_names e y OK (V y I)). }
  destruct (join_nows_lower names PL) as [NW LW].
  unfold parse_cats. rewrite (trim_nows _ NW), (to_lower_fixed _ LW).
  assert (N1 : text_eqb (join_comma names) t_all = false /\ text_eqb (join_comma names) t_none = false).
  { unfold names. destruct l as [|y l'].
    - cbn [map join_comma]. rewrite forallb_forall in V.
      destruct (cats_names e x OK (V x (or_introl eq_refl))) as [_ [A [B _]]].
      split; apply not_true_iff_false; intro E; apply text_eqb_eq in E; contradiction.
    - cbn [map]. split; apply not_true_iff_false; intro E; apply text_eqb_eq in E;
        pose proof (join_has_comma (enum_print e x) (enum_print e y) (map (enum_print e) l')) as I;
        rewrite E in I; vm_compute in I; repeat (destruct I as [I|I]; [discriminate I|]); exact I. }
  destruct N1 as [N1 N2]. rewrite N1, N2.
  rewrite split_join.
  - unfold names. rewrite (map_opt_map _ (enum_print e) (fun y => y)).
    + rewrite map_id, (dedup_id _ ND). reflexivity.
    + intros y I. rewrite forallb_forall in V. specialize (V y I).
      destruct (cats_names e y OK V) as [P _]. destruct (plain_text_facts _ P) as [W _].
      rewrite (trim_nows _ W). apply enum_parse_print; [apply cats_ok_enum_ok; exact OK|exact V].
  - unfold names. discriminate.
  - apply Forall_forall. intros t I. rewrite Forall_forall in PL. apply (plain_text_facts t (PL t I)).
Qed.

(* ---------------------------------------------------------------- domains *)
Lemma parse_bool_print : forall (lower b : bool),
  parse_bool (if lower then to_lower (if b then t_true else t_false) else (if b then t_true else t_false)) = Some (VBool b).
Proof. intros [] []; reflexivity. Qed.

Theorem parse_print_id : forall d v, wf_dom d -> valid d v -> parse d (print d v) = Some v.
Proof.
  induction d as [lower|tmax lo|tmin tmax lo hi|p| |lower|e|e|lz d IH]; intros v W V.
  - destruct v; try contradiction. cbn [print parse]. apply parse_bool_print.
  - destruct v as [|z| | | |]; try contradiction. cbn in V, W. cbn [print parse].
    rewrite parse_uint_print by lia. replace (lo <=? z) with true by (symmetry; apply Z.leb_le; lia). reflexivity.
  - destruct v as [|z| | | |]; try contradiction. cbn in V, W. cbn [print parse].
    rewrite parse_int_print by lia.
    replace (lo <=? z) with true by (symmetry; apply Z.leb_le; lia).
    replace (z <=? hi) with true by (symmetry; apply Z.leb_le; lia). reflexivity.
  - destruct v as [|z| | | |]; try contradiction. cbn in V. cbn [print parse].
    rewrite parse_uint_print by lia. destruct z as [|q|q]; try lia.
    rewrite parse_uint_print by lia. reflexivity.
  - destruct v as [|z| | | |]; try contradiction. cbn in V. cbn [print parse].
    pose proof (print_z_nonempty z) as NE. destruct (print_z z) as [|c r] eqn:E; [congruence|].
    rewrite <- E. rewrite parse_uint_print by lia. reflexivity.
  - destruct v as [| |s| | |]; try contradiction. cbn in V. cbn [print parse]. destruct lower; [rewrite V|]; reflexivity.
  - destruct v as [| | |x| |]; try contradiction. cbn in V, W. cbn [print parse].
    rewrite enum_parse_print by assumption. reflexivity.
  - destruct v as [| | | | |l]; try contradiction.
    + reflexivity.
    + cbn in V, W. destruct V as [V1 V2]. cbn [parse]. apply parse_cats_print; assumption.
  - cbn in W, V. cbn [print parse]. destruct v; apply IH; assumption.
Qed.

Lemma parse_cats_valid : forall e t v, cats_ok e = true -> parse_cats e t = Some v -> valid (DCats e) v.
Proof.
  intros e t v OK H. unfold parse_cats in H.
  destruct (text_eqb (to_lower (trim t)) t_all); [inversion H; exact I|].
  destruct (text_eqb (to_lower (trim t)) t_none); [inversion H; cbn; auto|].
  destruct (map_opt (fun part => enum_parse e (trim part)) (split_comma (to_lower (trim t)))) as [l|] eqn:M; [|discriminate].
  inversion H; subst. cbn. split.
  - apply dedup_subset. eapply map_opt_forall; [|exact M].
    intros x y E. cbn in E. eapply enum_parse_valid; [apply cats_ok_enum_ok; exact OK|exact E].
  - apply dedup_no_consec.
Qed.

Theorem parse_valid : forall d t v, wf_dom d -> parse d t = Some v -> valid d v.
Proof.
  induction d as [lower|tmax lo|tmin tmax lo hi|p| |lower|e|e|lz d IH]; intros t v W H; cbn [parse] in H.
  - unfold parse_bool in H. destruct (text_eqb _ t_true); [inversion H; exact I|].
    destruct (text_eqb _ t_false); [inversion H; exact I|discriminate].
  - cbn in W. destruct (parse_uint tmax t) as [z|] eqn:P; [|discriminate].
    destruct (lo <=? z) eqn:E; [|discriminate]. inversion H; subst. apply Z.leb_le in E.
    apply parse_uint_range in P; [|exact W]. cbn. lia.
  - cbn in W. destruct (parse_int tmin tmax t) as [z|] eqn:P; [|discriminate].
    destruct ((lo <=? z) && (z <=? hi)) eqn:E; [|discriminate]. inversion H; subst.
    apply andb_true_iff in E. destruct E as [E1 E2]. apply Z.leb_le in E1. apply Z.leb_le in E2.
    apply parse_int_range in P; [|exact W]. cbn. lia.
  - cbn in W. assert (U : 0 <= u64max) by (unfold u64max; lia).
    destruct (parse_uint u64max t) as [z|] eqn:P.
    + destruct z as [|q|q].
      * rewrite parse_uint_print in H by lia. inversion H; subst. cbn. lia.
      * rewrite P in H. inversion H; subst. apply parse_uint_range in P; [|exact U]. cbn. lia.
      * apply parse_uint_range in P; [|exact U]. lia.
    + rewrite P in H. discriminate.
  - destruct t as [|c r]; [discriminate|].
    destruct (parse_uint 255 (c :: r)) as [z|] eqn:P.
    + inversion H; subst. apply parse_uint_range in P; [|lia]. cbn. lia.
    + destruct r; [|discriminate]. destruct (code c <? 128) eqn:E; [|discriminate].
      inversion H; subst. apply Z.ltb_lt in E. pose proof (code_nonneg c). cbn. lia.
  - inversion H; subst. cbn. destruct lower; [apply to_lower_idem|exact I].
  - cbn in W. destruct (enum_parse e t) as [x|] eqn:P; [|discriminate]. inversion H; subst.
    cbn. eapply enum_parse_valid; eassumption.
  - cbn in W. eapply parse_cats_valid; eassumption.
  - cbn in W. cbn. destruct v; eapply IH; eassumption.
Qed.

(* printing canonicalises: whatever spelling was accepted, the printed form is accepted and denotes the same value *)
Theorem print_parse_canonical : forall d t v, wf_dom d -> parse d t = Some v -> parse d (print d v) = Some v.
Proof. intros d t v W H. apply parse_print_id; [exact W|eapply parse_valid; eassumption]. Qed.

Lemma wf_domb_sound : forall d p, wf_domb d = true -> 0 < p <= u64max -> wf_dom (subst_par p d).
Proof.
  induction d as [lower|tmax lo|tmin tmax lo hi|q| |lower|e|e|lz d IH]; intros p H P; cbn in H |- *; auto.
  - apply Z.leb_le in H. exact H.
  - apply andb_true_iff in H. destruct H as [H1 H2]. apply Z.leb_le in H1. apply Z.leb_le in H2. lia.
Qed.

Lemma inst_rows_wf : forall rows p, forallb (fun r => wf_domb (snd r)) rows = true -> 0 < p <= u64max ->
  Forall (fun r => wf_dom (snd r)) (inst_rows p rows).
Proof.
  intros rows p H P. unfold inst_rows. apply Forall_forall. intros r I.
  apply in_map_iff in I. destruct I as [r0 [<- I]]. cbn [snd].
  rewrite forallb_forall in H. apply wf_domb_sound; [apply (H r0 I)|exact P].
Qed.

(* ---------------------------------------------------------------- field-level set *)
Definition lazy_unset_dom (d : dom) (cur : option value) : bool :=
  match d, cur with DOpt true _, None => true | _, _ => false end.

Lemma fset_ok : forall d cur t v', fset d cur t = (true, v') -> exists v, parse d t = Some v /\ v' = Some v.
Proof.
  intros d cur t v' H. unfold fset in H.
  destruct d as [| | | | | | | |[] d']; cbn [parse];
    match type of H with context [match ?p with Some _ => _ | None => _ end] => destruct p as [v|] eqn:P end;
    inversion H; subst; eauto.
Qed.

Lemma fset_parse : forall d cur t v, parse d t = Some v -> fset d cur t = (true, Some v).
Proof.
  intros d cur t v P. unfold fset.
  destruct d as [| | | | | | | |[] d']; cbn [parse] in P |- *; rewrite P; reflexivity.
Qed.

Lemma fset_fail : forall d cur t v', fset d cur t = (false, v') -> lazy_unset_dom d cur = false ->
  v' = cur /\ parse d t = None.
Proof.
  intros d cur t v' H LU. unfold fset in H.
  destruct d as [| | | | | | | |[] d']; cbn [parse];
    match type of H with context [match ?p with Some _ => _ | None => _ end] => destruct p as [v|] eqn:P end;
    inversion H; subst; auto.
  destruct cur; [auto|discriminate].
Qed.

(* ---------------------------------------------------------------- the state machine *)
Definition no_match (o : opts) (k : text) : Prop := forall g, In g o -> key_matches g k = false.

Lemma set_no_match : forall o k t, no_match o k -> set o k t = (false, o).
Proof.
  induction o as [|f o IH]; intros k t NM; [reflexivity|].
  cbn [set]. rewrite (NM f (or_introl eq_refl)).
  rewrite IH; [reflexivity|]. intros g I. apply NM. right. exact I.
Qed.

Lemma set_split : forall o k t ok o', set o k t = (ok, o') ->
  (no_match o k /\ ok = false /\ o' = o) \/
  (exists pre f post v', o = pre ++ f :: post /\ no_match pre k /\ key_matches f k = true /\
     fset (fdom f) (fval f) t = (ok, v') /\ o' = pre ++ with_val f v' :: post).
Proof.
  induction o as [|f o IH]; intros k t ok o' H; cbn [set] in H.
  - inversion H; subst. left. repeat split. intros g [].
  - destruct (key_matches f k) eqn:M.
    + destruct (fset (fdom f) (fval f) t) as [ok1 v'] eqn:F. inversion H; subst.
      right. exists [], f, o, v'. repeat split; auto. intros g [].
    + destruct (set o k t) as [ok1 r'] eqn:S. inversion H; subst.
      destruct (IH k t ok r' S) as [[NM [E1 E2]]|[pre [g [post [v' [E [NM [KM [F E2]]]]]]]]].
      * left. subst. repeat split. intros g [<-|I]; [exact M|apply NM; exact I].
      * right. exists (f :: pre), g, post, v'. subst. repeat split; auto.
        intros h [<-|I]; [exact M|apply NM; exact I].
Qed.

Lemma set_at : forall pre f post k t, no_match pre k -> key_matches f k = true ->
  set (pre ++ f :: post) k t = (fst (fset (fdom f) (fval f) t), pre ++ with_val f (snd (fset (fdom f) (fval f) t)) :: post).
Proof.
  induction pre as [|g pre IH]; intros f post k t NM KM.
  - cbn [app set]. rewrite KM. destruct (fset (fdom f) (fval f) t). reflexivity.
  - cbn [app set]. rewrite (NM g (or_introl eq_refl)).
    rewrite IH; [reflexivity| |exact KM]. intros h I. apply NM. right. exact I.
Qed.

Lemma with_val_same : forall f, with_val f (fval f) = f.
Proof. destruct f; reflexivity. Qed.

Lemma key_matches_with_val : forall f v k, key_matches (with_val f v) k = key_matches f k.
Proof. reflexivity. Qed.

Lemma key_matches_self : forall f, key_matches f (fkey f) = true.
Proof. intro f. unfold key_matches. rewrite text_eqb_refl. reflexivity. Qed.

(* an invalid value or an unknown key is rejected and nothing changes -- EXCEPT when the addressed field is an
   Option<F> of the blanket impl that is currently unset (see invalid_on_unset_optional_refuted) *)
Theorem invalid_rejected_unchanged : forall o k t o',
  set o k t = (false, o') ->
  (forall f, In f o -> key_matches f k = true -> lazy_unset f = false) ->
  o' = o.
Proof.
  intros o k t o' H LU. destruct (set_split o k t false o' H) as [[_ [_ E]]|[pre [f [post [v' [E [NM [KM [F E2]]]]]]]]]; [exact E|].
  subst. assert (L : lazy_unset f = false) by (apply LU; [apply in_or_app; right; left; reflexivity|exact KM]).
  apply fset_fail in F; [|exact L]. destruct F as [-> _]. rewrite with_val_same. reflexivity.
Qed.

Theorem unknown_key_rejected : forall o k t, no_match o k -> set o k t = (false, o).
Proof. exact set_no_match. Qed.

(* what a successful set does: exactly the first matching field now holds the parsed value, its entry shows
   the printed form of that value, every other entry is untouched *)
Theorem set_get : forall o k t o', set o k t = (true, o') ->
  exists pre f post v,
    o = pre ++ f :: post /\ no_match pre k /\ key_matches f k = true /\
    parse (fdom f) t = Some v /\
    o' = pre ++ with_val f (Some v) :: post /\
    entries o' = entries pre ++ (fkey f, Some (print (fdom f) v)) :: entries post.
Proof.
  intros o k t o' H. destruct (set_split o k t true o' H) as [[_ [E _]]|[pre [f [post [v' [E [NM [KM [F E2]]]]]]]]]; [discriminate|].
  apply fset_ok in F. destruct F as [v [P ->]].
  exists pre, f, post, v. subst. repeat split; auto.
  unfold entries. rewrite map_app. reflexivity.
Qed.

(* round trip: setting a key to the text its entry shows changes nothing *)
Theorem set_display_noop : forall pre f post v,
  no_match pre (fkey f) -> fval f = Some v -> wf_dom (fdom f) -> valid (fdom f) v ->
  set (pre ++ f :: post) (fkey f) (print (fdom f) v) = (true, pre ++ f :: post).
Proof.
  intros pre f post v NM FV W V.
  rewrite set_at; [|exact NM|apply key_matches_self].
  rewrite (fset_parse _ _ _ v) by (apply parse_print_id; assumption).
  cbn [fst snd]. rewrite <- FV, with_val_same. reflexivity.
Qed.

(* after any successful set, the printed value of the key set back (under the same key) is a fixed point *)
Theorem set_print_fixed_point : forall o k t o',
  (forall f, In f o -> wf_dom (fdom f)) ->
  set o k t = (true, o') ->
  exists f v, In f o' /\ key_matches f k = true /\ fval f = Some v /\
              set o' k (print (fdom f) v) = (true, o').
Proof.
  intros o k t o' W H. destruct (set_get o k t o' H) as [pre [f [post [v [E [NM [KM [P [E2 _]]]]]]]]].
  exists (with_val f (Some v)), v. subst. repeat split.
  - apply in_or_app. right. left. reflexivity.
  - exact KM.
  - rewrite set_at; [|exact NM|exact KM]. cbn [fdom fval with_val].
    assert (Wf : wf_dom (fdom f)) by (apply W; apply in_or_app; right; left; reflexivity).
    rewrite (fset_parse _ _ _ v) by (eapply print_parse_canonical; eassumption).
    reflexivity.
Qed.

(* The code as it is: a rejected value on an unset Option<F> (blanket impl) leaves Some(default) behind. *)
Definition witness_opts : opts :=
  [ {| fkey := L "datafusion.execution.parquet.max_predicate_cache_size"; flen := true;
       fdom := DOpt true (DUint u64max 0); fval := None |} ].

Theorem invalid_on_unset_optional_refuted :
  exists o k t o', set o k t = (false, o') /\ entries o' <> entries o.
Proof.
  exists witness_opts, (L "datafusion.execution.parquet.max_predicate_cache_size"), (L "abc").
  eexists. split; [vm_compute; reflexivity|]. vm_compute. discriminate.
Qed.
