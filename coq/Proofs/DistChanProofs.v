(* C15 -- proofs about Model/DistChan.v: one invariant over (state, trace), preserved by every operation, hence true
   after every schedule (= every interleaving of poll-level operations). *)
From DF Require Import Base.Prelude Model.DistChan.
From Coq Require Import Lia.
Open Scope Z_scope.

(* ------------------------------------------------------------------ lists *)
Lemma nth_error_set_eq : forall A (l : list A) n x y,
  nth_error l n = Some y -> nth_error (set_nth n x l) n = Some x.
Proof. induction l; destruct n; simpl; intros; try discriminate; eauto. Qed.

Lemma nth_error_set_neq : forall A (l : list A) n m x,
  n <> m -> nth_error (set_nth n x l) m = nth_error l m.
Proof. induction l; destruct n, m; simpl; intros; try congruence; eauto. Qed.

Lemma set_nth_nil : forall A (l : list A) n x, set_nth n x l = [] -> l = [].
Proof. destruct l, n; simpl; intros; congruence. Qed.

Definition b2z (b : bool) : Z := if b then 1 else 0.

Lemma count_set : forall l n ch ch', nth_error l n = Some ch ->
  count_oe (set_nth n ch' l) = count_oe l - b2z (open_empty ch) + b2z (open_empty ch').
Proof.
  induction l; destruct n; simpl; intros; try discriminate.
  - inversion H; subst. unfold b2z. lia.
  - rewrite (IHl _ _ _ H). lia.
Qed.

Lemma count_nonneg : forall l, 0 <= count_oe l.
Proof. induction l; simpl; [lia | destruct (open_empty a); lia]. Qed.

Lemma count_ge_1 : forall l n ch, nth_error l n = Some ch -> open_empty ch = true -> 1 <= count_oe l.
Proof.
  induction l; destruct n; simpl; intros; try discriminate.
  - inversion H; subst. rewrite H0. pose proof (count_nonneg l). lia.
  - specialize (IHl _ _ H H0). destruct (open_empty a); lia.
Qed.

Lemma count_zero : forall l n ch, count_oe l = 0 -> nth_error l n = Some ch -> open_empty ch = false.
Proof.
  intros. destruct (open_empty ch) eqn:E; auto. pose proof (count_ge_1 _ _ _ H0 E). lia.
Qed.

Lemma zmem_In : forall w l, zmem w l = true <-> In w l.
Proof.
  unfold zmem. intros. rewrite existsb_exists. split.
  - intros [x [Hx He]]. apply Z.eqb_eq in He. subst; auto.
  - intros. exists w. split; auto. apply Z.eqb_refl.
Qed.

Lemma In_unwoken : forall A (f : A -> Z) wk l p,
  In p (filter (fun p => negb (zmem (f p) wk)) l) -> In p l /\ ~ In (f p) wk.
Proof.
  intros. apply filter_In in H. destruct H as [H1 H2]. split; auto.
  intro Hc. apply zmem_In in Hc. rewrite Hc in H2. discriminate.
Qed.

Lemma In_unwoken_nil : forall A (f : A -> Z) l p,
  In p (filter (fun p => negb (zmem (f p) [])) l) -> In p l.
Proof. intros. apply In_unwoken in H. tauto. Qed.

(* ------------------------------------------------------------------ the invariant *)
Definition chan_ok (rtr : list event) (c : nat) (ch : chan) : Prop :=
  (rwk ch = None <-> nsend ch = O) /\
  (forall rl w, rwk ch = Some rl -> In w rl -> data ch = Some [] \/ data ch = None) /\
  match data ch with
  | Some q => received rtr c ++ q = sent_ok rtr c
  | None => exists q, received rtr c ++ q = sent_ok rtr c
  end /\
  (nsend ch + sdrops rtr c = 1 + clones rtr c)%nat /\
  (data ch = None <-> rdropped rtr c = true) /\
  (forall w, In w (parked_recv rtr c) -> exists rl, rwk ch = Some rl /\ In w rl).

Definition gate_ok (s : state) (rtr : list event) : Prop :=
  empty s = count_oe (chans s) /\
  (forall l, swk s = Some l -> empty s = 0) /\
  (empty s = 0 -> swk s <> None \/ chans s = []) /\
  (forall l w c, swk s = Some l -> In (w, c) l -> exists ch, nth_error (chans s) c = Some ch /\ data ch <> None) /\
  (forall w c, In (w, c) (parked_send rtr) -> exists l, swk s = Some l /\ In (w, c) l).

Definition no_panic (rtr : list event) : Prop := Forall (fun e : event => fst (snd e) <> RPanic) rtr.

Definition Inv (s : state) (rtr : list event) : Prop :=
  (forall c ch, nth_error (chans s) c = Some ch -> chan_ok rtr c ch) /\ gate_ok s rtr /\ no_panic rtr.

(* an operation on another channel leaves a channel's part of the invariant alone *)
Lemma chan_ok_other : forall rtr o ou c ch,
  op_chan o <> c -> chan_ok rtr c ch -> chan_ok ((o, ou) :: rtr) c ch.
Proof.
  unfold chan_ok. intros rtr o ou c ch Hne (H1 & H2 & H3 & H4 & H5 & H6).
  assert (E : (op_chan o =? c)%nat = false) by (apply Nat.eqb_neq; auto).
  simpl. unfold on_chan. simpl. rewrite E. rewrite !app_nil_r.
  repeat split; try tauto.
  - destruct o; simpl in *; rewrite ?E; lia.
  - destruct o; simpl in *; rewrite ?E; simpl; tauto.
  - destruct o; simpl in *; rewrite ?E; simpl; tauto.
  - simpl. intros w Hw. apply In_unwoken with (f := fun w => w) in Hw. apply H6. tauto.
Qed.

Lemma chans_update : forall cs rtr o ou c ch ch',
  (forall c0 ch0, nth_error cs c0 = Some ch0 -> chan_ok rtr c0 ch0) ->
  nth_error cs c = Some ch -> op_chan o = c ->
  chan_ok ((o, ou) :: rtr) c ch' ->
  forall c0 ch0, nth_error (set_nth c ch' cs) c0 = Some ch0 -> chan_ok ((o, ou) :: rtr) c0 ch0.
Proof.
  intros. destruct (Nat.eq_dec c c0).
  - subst c0. rewrite (nth_error_set_eq _ _ _ _ _ H0) in H3. inversion H3; subst; auto.
  - rewrite nth_error_set_neq in H3 by auto. apply chan_ok_other; auto. congruence.
Qed.

Lemma chans_keep : forall cs rtr o ou c,
  (forall c0 ch0, nth_error cs c0 = Some ch0 -> chan_ok rtr c0 ch0) ->
  op_chan o = c ->
  (forall ch, nth_error cs c = Some ch -> chan_ok ((o, ou) :: rtr) c ch) ->
  forall c0 ch0, nth_error cs c0 = Some ch0 -> chan_ok ((o, ou) :: rtr) c0 ch0.
Proof.
  intros. destruct (Nat.eq_dec c c0).
  - subst c0. auto.
  - apply chan_ok_other; auto. congruence.
Qed.
