(* C33 -- proofs: every evaluation strategy of Model/EvalStrategies.v computes the row-by-row
   three-valued SQL semantics. *)
From Coq Require Import List ZArith Bool Lia.
From DF Require Import Base.Prelude Model.RefSQL Proofs.RefSQLLaws Model.EvalStrategies.
Import ListNotations.
Open Scope Z_scope.

(* ------------------------------------------------------------------ generic list / monad facts *)
Lemma mapM_cons_ok : forall {A B} (f : A -> res B) a l ys,
  mapM f (a :: l) = Ok ys <-> exists y ys', f a = Ok y /\ mapM f l = Ok ys' /\ ys = y :: ys'.
Proof.
  intros. cbn [mapM]. destruct (f a) as [y|e]; cbn [bind].
  - destruct (mapM f l) as [ys'|e]; cbn [bind].
    + split; [intros H; inversion H; eauto | intros [y0 [ys0 [H1 [H2 H3]]]]; inversion H1; inversion H2; subst; reflexivity].
    + split; [discriminate | intros [y0 [ys0 [_ [H2 _]]]]; discriminate].
  - split; [discriminate | intros [y0 [ys0 [H1 _]]]; discriminate].
Qed.

Lemma mapM_ext_in : forall {A B} (f g : A -> res B) l, (forall x, In x l -> f x = g x) -> mapM f l = mapM g l.
Proof.
  induction l; intros H; [reflexivity|]. cbn [mapM]. rewrite (H a (or_introl eq_refl)).
  rewrite IHl; [reflexivity | intros; apply H; right; assumption].
Qed.

Lemma mapM_all_ok : forall {A B} (f : A -> res B) l, (forall x, In x l -> exists y, f x = Ok y) -> exists ys, mapM f l = Ok ys.
Proof.
  induction l; intros H; [exists []; reflexivity|].
  destruct (H a (or_introl eq_refl)) as [y Hy]. destruct IHl as [ys Hys]; [intros; apply H; right; assumption|].
  exists (y :: ys). apply mapM_cons_ok; eauto.
Qed.

Lemma mapM_map : forall {A B C} (f : B -> res C) (g : A -> B) l, mapM f (map g l) = mapM (fun x => f (g x)) l.
Proof. induction l; [reflexivity|]. cbn [map mapM]. rewrite IHl. reflexivity. Qed.

Lemma mapM_pure : forall {A B} (f : A -> B) l, mapM (fun x => Ok (f x)) l = Ok (map f l).
Proof. induction l; [reflexivity|]. cbn [mapM map bind]. rewrite IHl. reflexivity. Qed.

Lemma map2_map : forall {A B C D} (f : B -> C -> D) (g : A -> B) (h : A -> C) l,
  map2 f (map g l) (map h l) = map (fun r => f (g r) (h r)) l.
Proof. induction l; [reflexivity|]. cbn [map map2]. rewrite IHl. reflexivity. Qed.

Lemma tv_eqb_eq : forall a b, tv_eqb a b = true <-> a = b.
Proof. destruct a, b; simpl; split; congruence. Qed.
Lemma is_TT_iff : forall t, is_TT t = true <-> t = TT.
Proof. intros; apply tv_eqb_eq. Qed.

(* ------------------------------------------------------------------ equality on plain values *)
Lemma str_cmp_eq_iff : forall a b, str_cmp a b = Eq <-> list_eqb Z.eqb a b = true.
Proof.
  induction a as [|x a IH]; destruct b as [|y b]; cbn [str_cmp list_eqb]; try (split; congruence).
  destruct (x ?= y) eqn:C.
  - apply Z.compare_eq in C. subst. rewrite Z.eqb_refl. cbn [andb]. apply IH.
  - assert (x =? y = false) by (apply Z.eqb_neq; intros ->; rewrite Z.compare_refl in C; discriminate).
    rewrite H. cbn [andb]. split; discriminate.
  - assert (x =? y = false) by (apply Z.eqb_neq; intros ->; rewrite Z.compare_refl in C; discriminate).
    rewrite H. cbn [andb]. split; discriminate.
Qed.

Lemma eq3_plain : forall x v, plain x = true -> plain v = true -> x <> VNull -> v <> VNull ->
  eq3 x v = if value_eqb x v then TT else TF.
Proof.
  intros x v Px Pv Nx Nv. unfold eq3, cmp3, vcompare.
  destruct x as [|a|a|a|? ?]; try contradiction; try discriminate;
    destruct v as [|b|b|b|? ?]; try contradiction; try discriminate; cbn [vcmp_nn value_eqb tag]; try reflexivity.
  - destruct (a ?= b) eqn:C.
    + apply Z.compare_eq in C; subst. rewrite Z.eqb_refl. reflexivity.
    + replace (a =? b) with false; [reflexivity|]. symmetry. apply Z.eqb_neq. intros ->. rewrite Z.compare_refl in C. discriminate.
    + replace (a =? b) with false; [reflexivity|]. symmetry. apply Z.eqb_neq. intros ->. rewrite Z.compare_refl in C. discriminate.
  - destruct a, b; reflexivity.
  - pose proof (str_cmp_eq_iff a b) as H. destruct (str_cmp a b); destruct (list_eqb Z.eqb a b); try reflexivity.
    + destruct H as [H _]. specialize (H eq_refl). discriminate.
    + destruct H as [_ H]. specialize (H eq_refl). discriminate.
    + destruct H as [_ H]. specialize (H eq_refl). discriminate.
Qed.

Lemma eq3_null_l : forall v, eq3 VNull v = TU.
Proof. reflexivity. Qed.
Lemma eq3_null_r : forall x, eq3 x VNull = TU.
Proof. destruct x; reflexivity. Qed.

(* ------------------------------------------------------------------ 1. IN list: set + null flag = OR chain *)
Lemma has_null_cons : forall v vs, (0 <? null_count (v :: vs)) = is_null v || (0 <? null_count vs).
Proof.
  intros. unfold null_count, len. cbn [filter]. destruct (is_null v); cbn [orb length].
  - apply Z.ltb_lt. lia.
  - reflexivity.
Qed.

Lemma in3_by_set : forall x vs, plain x = true -> forallb plain vs = true -> x <> VNull ->
  in3 x vs = if set_contains (nonnull vs) x then TT else if 0 <? null_count vs then TU else TF.
Proof.
  intros x vs Px Pvs Nx. induction vs as [|v vs IH]; [reflexivity|].
  cbn [forallb] in Pvs. apply andb_true_iff in Pvs. destruct Pvs as [Pv Pvs]. specialize (IH Pvs).
  destruct (in_as_or_chain x) as [_ Hc]. rewrite Hc, IH, has_null_cons. clear Hc IH.
  unfold nonnull, set_contains. cbn [filter]. destruct v as [|a|a|a|a b] eqn:Ev.
  - cbn [is_null negb orb]. rewrite eq3_null_r. fold (nonnull vs).
    destruct (existsb (value_eqb x) (nonnull vs)); [reflexivity|]. destruct (0 <? null_count vs); reflexivity.
  - cbn [is_null negb orb existsb]. rewrite eq3_plain by (auto; discriminate). fold (nonnull vs).
    destruct (value_eqb x (VInt a)); cbn [orb]; [reflexivity|].
    destruct (existsb (value_eqb x) (nonnull vs)); [reflexivity|]. destruct (0 <? null_count vs); reflexivity.
  - cbn [is_null negb orb existsb]. rewrite eq3_plain by (auto; discriminate). fold (nonnull vs).
    destruct (value_eqb x (VBool a)); cbn [orb]; [reflexivity|].
    destruct (existsb (value_eqb x) (nonnull vs)); [reflexivity|]. destruct (0 <? null_count vs); reflexivity.
  - cbn [is_null negb orb existsb]. rewrite eq3_plain by (auto; discriminate). fold (nonnull vs).
    destruct (value_eqb x (VStr a)); cbn [orb]; [reflexivity|].
    destruct (existsb (value_eqb x) (nonnull vs)); [reflexivity|]. destruct (0 <? null_count vs); reflexivity.
  - discriminate.
Qed.

Lemma in3_null_needle : forall vs, vs <> [] -> in3 VNull vs = TU.
Proof.
  intros vs H. destruct vs as [|v vs]; [contradiction|]. clear H. revert v.
  induction vs as [|w vs IH]; intros v; [reflexivity|].
  destruct (in_as_or_chain VNull) as [_ Hc]. rewrite Hc, IH. reflexivity.
Qed.

Theorem inlist_set_eq_or_chain_pf : forall neg vs x,
  vs <> [] -> plain x = true -> forallb plain vs = true ->
  inlist_set neg vs x = in_spec neg x vs.
Proof.
  intros neg vs x Hne Px Pvs. unfold inlist_set, filter_contains, static_filter, in_spec, not_in3. cbn [fst snd].
  destruct (is_null x) eqn:Nx.
  - destruct x; try discriminate. rewrite in3_null_needle by assumption. cbn [negb].
    unfold inlist_result. destruct (0 <? null_count vs), neg; reflexivity.
  - assert (x <> VNull) by (intros ->; discriminate). rewrite in3_by_set by assumption. cbn [negb].
    unfold inlist_result, mk_tv. destruct (set_contains (nonnull vs) x), (0 <? null_count vs), neg; reflexivity.
Qed.

(* the column form and the scalar-needle form are the row function applied to every row *)
Lemma inlist_set_col_map : forall neg vs xs, inlist_set_col neg vs xs = map (inlist_set neg vs) xs.
Proof. reflexivity. Qed.

Lemma inlist_set_scalar_repeat : forall neg vs s n,
  inlist_set_scalar neg vs s n = inlist_set_col neg vs (repeat s n).
Proof.
  intros. unfold inlist_set_scalar, inlist_set_col. cbn [map].
  destruct (is_null s) eqn:Ns.
  - destruct s; try discriminate. induction n; [reflexivity|]. cbn [repeat map]. rewrite <- IHn. f_equal.
    unfold filter_contains, inlist_result. cbn [is_null negb andb]. destruct (0 <? snd (static_filter vs)), neg; reflexivity.
  - induction n; [reflexivity|]. cbn [repeat map]. rewrite <- IHn. reflexivity.
Qed.

(* dynamic path *)
Lemma or3_TF_r : forall t, or3 t TF = t.
Proof. destruct t; reflexivity. Qed.
Lemma or3_TT_l : forall t, or3 TT t = TT.
Proof. destruct t; reflexivity. Qed.

Lemma or_chain_go_spec : forall {A} (rows : list A) (x : A -> value) (fs : list (A -> value)) (g : A -> tv),
  or_chain_go (map g rows) (map x rows) (map (fun f => map f rows) fs)
  = map (fun r => or3 (g r) (in3 (x r) (map (fun f => f r) fs))) rows.
Proof.
  intros A rows x fs. induction fs as [|f fs IH]; intros g; cbn [map or_chain_go].
  - apply map_ext. intros. unfold in3. cbn [map any3 fold_right]. rewrite or3_TF_r. reflexivity.
  - destruct (col_all_true (map g rows)) eqn:E.
    + unfold col_all_true in E. rewrite forallb_forall in E. apply map_ext_in. intros r Hr.
      assert (g r = TT) as -> by (apply is_TT_iff; apply E; apply in_map; assumption). rewrite or3_TT_l. reflexivity.
    + rewrite (map2_map eq3 x f rows). rewrite (map2_map or3 g (fun r => eq3 (x r) (f r)) rows). rewrite IH.
      apply map_ext. intros r. destruct (in_as_or_chain (x r)) as [_ Hc]. rewrite Hc. rewrite or3_assoc. reflexivity.
Qed.

Theorem inlist_or_chain_eq_rowwise_pf : forall {A} (rows : list A) (x : A -> value) (fs : list (A -> value)) neg,
  inlist_or_chain neg (map x rows) (map (fun f => map f rows) fs)
  = map (fun r => in_spec neg (x r) (map (fun f => f r) fs)) rows.
Proof.
  intros. unfold inlist_or_chain.
  assert (H : match map (fun f => map f rows) fs with
              | [] => map (fun _ => TF) (map x rows)
              | c :: rest => or_chain_go (map2 eq3 (map x rows) c) (map x rows) rest
              end = map (fun r => in3 (x r) (map (fun f => f r) fs)) rows).
  { destruct fs as [|f fs]; cbn [map].
    - rewrite map_map. reflexivity.
    - rewrite (map2_map eq3 x f rows). rewrite or_chain_go_spec. apply map_ext. intros r.
      destruct (in_as_or_chain (x r)) as [_ Hc]. rewrite Hc. reflexivity. }
  rewrite H. unfold in_spec, not_in3. destruct neg; [rewrite map_map|]; reflexivity.
Qed.

(* ------------------------------------------------------------------ 3. CASE lookup table *)
Definition assoc_default (x : value) (tbl : list (value * value)) (d : value) : value :=
  match find (fun p => value_eqb x (fst p)) tbl with Some p => snd p | None => d end.

Lemma lookup_nth : forall x tbl els,
  nth (match index_of x (map fst tbl) with Some j => j | None => length tbl end) (map snd tbl ++ [els]) VNull
  = assoc_default x tbl els.
Proof.
  intros x tbl els. unfold assoc_default. induction tbl as [|[w t] tbl IH]; [reflexivity|].
  cbn [map fst snd index_of find length app]. destruct (value_eqb x w); [reflexivity|].
  destruct (index_of x (map fst tbl)) as [j|]; cbn [option_map]; cbn [nth]; exact IH.
Qed.

Lemma find_dedup_first : forall x ws seen, existsb (value_eqb x) seen = false ->
  find (fun p => value_eqb x (fst p)) (dedup_first ws seen) = find (fun p => value_eqb x (fst p)) ws.
Proof.
  intros x ws. induction ws as [|[w t] ws IH]; intros seen Hs; [reflexivity|].
  cbn [dedup_first find fst]. destruct (existsb (value_eqb w) seen) eqn:E.
  - destruct (value_eqb x w) eqn:Exw.
    + apply value_eqb_eq in Exw. subst. congruence.
    + apply IH. assumption.
  - cbn [find fst]. destruct (value_eqb x w) eqn:Exw; [reflexivity|]. apply IH. cbn [existsb]. rewrite Exw, Hs. reflexivity.
Qed.

Lemma case_simple_row_find : forall ws els x, plain x = true -> x <> VNull ->
  forallb (fun p => plain (fst p)) ws = true ->
  case_simple_row ws els x = assoc_default x (filter (fun p => negb (is_null (fst p))) ws) els.
Proof.
  intros ws els x Px Nx. unfold assoc_default. induction ws as [|[w t] ws IH]; intros Pw; [reflexivity|].
  cbn [forallb fst] in Pw. apply andb_true_iff in Pw. destruct Pw as [Pw Pws]. specialize (IH Pws).
  cbn [case_simple_row filter fst]. destruct (is_null w) eqn:Nw; cbn [negb].
  - destruct w; try discriminate. rewrite eq3_null_r. exact IH.
  - assert (w <> VNull) by (intros ->; discriminate). rewrite eq3_plain by assumption.
    cbn [find fst]. destruct (value_eqb x w); [reflexivity | exact IH].
Qed.

Lemma case_simple_row_null : forall ws els, case_simple_row ws els VNull = els.
Proof. induction ws as [|[w t] ws IH]; intros; [reflexivity|]. cbn [case_simple_row]. rewrite eq3_null_l. apply IH. Qed.

Theorem case_lookup_eq_rowwise_pf : forall ws els x,
  plain x = true -> forallb (fun p => plain (fst p)) ws = true ->
  case_lookup ws els x = case_simple_row ws els x.
Proof.
  intros ws els x Px Pw. unfold case_lookup.
  destruct (is_null x) eqn:Nx.
  - destruct x; try discriminate. rewrite case_simple_row_null.
    rewrite <- (map_length snd (lookup_table ws)). rewrite app_nth2 by lia. rewrite Nat.sub_diag. reflexivity.
  - assert (x <> VNull) by (intros ->; discriminate).
    rewrite lookup_nth. rewrite case_simple_row_find by assumption. unfold assoc_default, lookup_table.
    rewrite find_dedup_first by reflexivity. reflexivity.
Qed.

(* ------------------------------------------------------------------ 2. CASE by remainder masks *)
Lemma mapM_in : forall {X B} (f : X -> res B) l ys x, mapM f l = Ok ys -> In x l -> exists y, f x = Ok y /\ In y ys.
Proof.
  induction l; intros ys x H Hin; [destruct Hin|].
  apply mapM_cons_ok in H. destruct H as [y [ys' [H1 [H2 ->]]]].
  destruct Hin as [<-|Hin]; [exists y; split; [assumption | left; reflexivity]|].
  destruct (IHl ys' x H2 Hin) as [y' [Hy Hin']]. exists y'. split; [assumption | right; assumption].
Qed.

Lemma is_tt_ok : forall t, is_tt (Ok t) = is_TT t.
Proof. destruct t; reflexivity. Qed.

Lemma select_filter : forall {X} (f : X -> res tv) l c, mapM f l = Ok c ->
  select (map is_TT c) l = filter (fun x => is_tt (f x)) l /\
  select (map (fun t => negb (is_TT t)) c) l = filter (fun x => negb (is_tt (f x))) l.
Proof.
  induction l; intros c H.
  - cbn in H. inversion H. split; reflexivity.
  - apply mapM_cons_ok in H. destruct H as [y [ys' [H1 [H2 ->]]]]. destruct (IHl ys' H2) as [I1 I2].
    cbn [map select filter]. rewrite H1, is_tt_ok, I1, I2. split; destruct (is_TT y); reflexivity.
Qed.

Lemma filter_keys_in : forall {X} (p : nat * X -> bool) l k, In k (map fst (filter p l)) -> In k (map fst l).
Proof.
  intros X p l k H. apply in_map_iff in H. destruct H as [[k' r] [E Hin]]. apply filter_In in Hin.
  apply in_map_iff. exists (k', r). tauto.
Qed.

Lemma NoDup_keys_filter : forall {X} (p : nat * X -> bool) l, NoDup (map fst l) -> NoDup (map fst (filter p l)).
Proof.
  induction l as [|[k r] l IH]; intros H; [constructor|]. cbn [map fst] in H. apply NoDup_cons_iff in H. destruct H as [Hni Hnd].
  cbn [filter]. destruct (p (k, r)); [|auto]. cbn [map fst]. constructor; [|auto].
  intros Hin. apply filter_keys_in in Hin. contradiction.
Qed.

Lemma NoDup_keys_unique : forall {X} (l : list (nat * X)) k r r', NoDup (map fst l) -> In (k, r) l -> In (k, r') l -> r = r'.
Proof.
  induction l as [|[k0 r0] l IH]; intros k r r' H H1 H2; [destruct H1|]. cbn [map fst] in H. apply NoDup_cons_iff in H. destruct H as [Hni Hnd].
  destruct H1 as [E1|H1], H2 as [E2|H2].
  - congruence.
  - inversion E1; subst. exfalso. apply Hni. apply in_map_iff. exists (k, r'). auto.
  - inversion E2; subst. exfalso. apply Hni. apply in_map_iff. exists (k, r). auto.
  - eauto.
Qed.

Lemma filter_keys_disjoint : forall {X} (p : nat * X -> bool) l k, NoDup (map fst l) ->
  In k (map fst (filter (fun x => negb (p x)) l)) -> ~ In k (map fst (filter p l)).
Proof.
  intros X p l k H H1 H2. apply in_map_iff in H1. destruct H1 as [[k1 r1] [E1 I1]]. apply in_map_iff in H2.
  destruct H2 as [[k2 r2] [E2 I2]]. cbn [fst] in *. subst. apply filter_In in I1. apply filter_In in I2.
  destruct I1 as [I1 P1], I2 as [I2 P2]. assert (r1 = r2) by (eapply NoDup_keys_unique; eauto). subst.
  rewrite P2 in P1. discriminate.
Qed.

Section CaseProofs.
  Context {A : Type}.
  Implicit Types (ws : list (@cond A * @rexpr A)) (els : option (@rexpr A)) (rem : list (nat * A)) (acc : partial).

  Lemma lookupv_add_notin : forall (l : list (nat * A)) (f : nat * A -> res value) vs acc k,
    mapM f l = Ok vs -> ~ In k (map fst l) -> lookupv k (add_branch_result (map fst l) vs acc) = lookupv k acc.
  Proof.
    unfold lookupv, add_branch_result. induction l as [|[k0 r0] l IH]; intros f vs acc k H Hn.
    - reflexivity.
    - apply mapM_cons_ok in H. destruct H as [y [ys' [H1 [H2 ->]]]]. cbn [map fst combine app find].
      cbn [map fst] in Hn. destruct (Nat.eqb k0 k) eqn:E.
      + apply Nat.eqb_eq in E. subst. exfalso. apply Hn. left. reflexivity.
      + apply (IH f ys' acc k H2). intros Hin. apply Hn. right. assumption.
  Qed.

  Lemma lookupv_add_in : forall (l : list (nat * A)) (f : nat * A -> res value) vs acc k r,
    mapM f l = Ok vs -> NoDup (map fst l) -> In (k, r) l ->
    f (k, r) = Ok (lookupv k (add_branch_result (map fst l) vs acc)).
  Proof.
    unfold lookupv, add_branch_result. induction l as [|[k0 r0] l IH]; intros f vs acc k r H Hd Hin; [destruct Hin|].
    apply mapM_cons_ok in H. destruct H as [y [ys' [H1 [H2 ->]]]]. cbn [map fst combine app find].
    cbn [map fst] in Hd. apply NoDup_cons_iff in Hd. destruct Hd as [Hni Hnd]. destruct Hin as [E|Hin].
    - inversion E; subst. rewrite Nat.eqb_refl. cbn [snd]. assumption.
    - destruct (Nat.eqb k0 k) eqn:E.
      + apply Nat.eqb_eq in E. subst. exfalso. apply Hni. apply in_map_iff. exists (k, r). auto.
      + apply (IH f ys' acc k r H2 Hnd Hin).
  Qed.

  Lemma case_mask_go_nil_none : forall rem acc, case_mask_go [] None rem acc = Ok acc.
  Proof. reflexivity. Qed.

  Lemma shortcut_eq : forall ws els rem acc,
    match ws, els with [], None => Ok acc | _, _ => case_mask_go ws els rem acc end = case_mask_go ws els rem acc.
  Proof. intros. destruct ws; [destruct els|]; reflexivity. Qed.

  Lemma go_sound : forall ws els rem acc acc',
    NoDup (map fst rem) -> (forall k, In k (map fst rem) -> lookupv k acc = VNull) ->
    case_mask_go ws els rem acc = Ok acc' ->
    (forall k r, In (k, r) rem -> case_row ws els r = Ok (lookupv k acc')) /\
    (forall k, ~ In k (map fst rem) -> lookupv k acc' = lookupv k acc).
  Proof.
    induction ws as [|[w t] ws IH]; intros els rem acc acc' Hd Hinv H.
    - cbn [case_mask_go] in H. destruct els as [e|].
      + destruct (mapM (fun p => e (snd p)) rem) as [vs|] eqn:M; cbn [bind] in H; [|discriminate]. inversion H; subst. split.
        * intros k r Hin. cbn [case_row]. exact (lookupv_add_in rem (fun p => e (snd p)) vs acc k r M Hd Hin).
        * intros k Hn. eapply lookupv_add_notin; eauto.
      + inversion H; subst. split; [|reflexivity]. intros k r Hin. cbn [case_row]. rewrite Hinv; [reflexivity|].
        apply in_map_iff. exists (k, r). auto.
    - cbn [case_mask_go] in H. destruct (mapM (fun p => w (snd p)) rem) as [c|] eqn:Mc; cbn [bind] in H; [|discriminate].
      assert (Hw : forall k r, In (k, r) rem -> exists cv, w r = Ok cv /\ In cv c).
      { intros k r Hin. exact (mapM_in (fun p => w (snd p)) rem c (k, r) Mc Hin). }
      destruct (existsb is_TT c) eqn:Ex; cbn [negb] in H.
      2:{ (* no row is true: skip the branch *)
        destruct (IH els rem acc acc' Hd Hinv H) as [I1 I2]. split; [|exact I2].
        intros k r Hin. cbn [case_row]. destruct (Hw k r Hin) as [cv [Hcv Hc]]. rewrite Hcv. cbn [bind].
        assert (is_TT cv = false).
        { destruct (is_TT cv) eqn:E; [|reflexivity]. assert (existsb is_TT c = true) by (apply existsb_exists; eauto). congruence. }
        destruct cv; try discriminate; apply I1; assumption. }
      destruct (forallb is_TT c) eqn:Fa.
      + (* every remaining row is true *)
        destruct (mapM (fun p => t (snd p)) rem) as [vs|] eqn:M; cbn [bind] in H; [|discriminate]. inversion H; subst. split.
        * intros k r Hin. cbn [case_row]. destruct (Hw k r Hin) as [cv [Hcv Hc]]. rewrite Hcv. cbn [bind].
          rewrite forallb_forall in Fa. apply Fa in Hc. apply is_TT_iff in Hc. subst.
          exact (lookupv_add_in rem (fun p => t (snd p)) vs acc k r M Hd Hin).
        * intros k Hn. eapply lookupv_add_notin; eauto.
      + destruct (select_filter (fun p => w (snd p)) rem c Mc) as [S1 S2]. rewrite S1, S2 in H. clear S1 S2.
        set (pf := fun x : nat * A => is_tt (w (snd x))) in *.
        destruct (mapM (fun p => t (snd p)) (filter pf rem)) as [vs|] eqn:M; cbn [bind] in H; [|discriminate].
        cbv zeta in H. rewrite shortcut_eq in H.
        set (acc1 := add_branch_result (map fst (filter pf rem)) vs acc) in *.
        assert (Hd1 : NoDup (map fst (filter pf rem))) by (apply NoDup_keys_filter; assumption).
        assert (Hd2 : NoDup (map fst (filter (fun x => negb (pf x)) rem))) by (apply NoDup_keys_filter; assumption).
        assert (Hinv2 : forall k, In k (map fst (filter (fun x => negb (pf x)) rem)) -> lookupv k acc1 = VNull).
        { intros k Hk. unfold acc1. rewrite (lookupv_add_notin _ _ _ _ _ M).
          - apply Hinv. eapply filter_keys_in; eauto.
          - apply filter_keys_disjoint; assumption. }
        destruct (IH els _ acc1 acc' Hd2 Hinv2 H) as [I1 I2]. split.
        * intros k r Hin. cbn [case_row]. destruct (Hw k r Hin) as [cv [Hcv Hc]]. rewrite Hcv. cbn [bind].
          destruct (is_TT cv) eqn:E.
          -- apply is_TT_iff in E. subst.
             assert (Hs : In (k, r) (filter pf rem)) by (apply filter_In; split; [assumption | unfold pf; cbn [snd]; rewrite Hcv; reflexivity]).
             rewrite I2.
             ++ exact (lookupv_add_in _ (fun p => t (snd p)) vs acc k r M Hd1 Hs).
             ++ intros Hk. apply (filter_keys_disjoint pf rem k Hd Hk). apply in_map_iff. exists (k, r). auto.
          -- assert (Hs : In (k, r) (filter (fun x => negb (pf x)) rem)).
             { apply filter_In; split; [assumption|]. unfold pf; cbn [snd]; rewrite Hcv, is_tt_ok, E. reflexivity. }
             destruct cv; try discriminate; apply I1; assumption.
        * intros k Hn. rewrite I2.
          -- unfold acc1. apply (lookupv_add_notin _ _ _ _ _ M). intros Hk. apply Hn. eapply filter_keys_in; eauto.
          -- intros Hk. apply Hn. eapply filter_keys_in; eauto.
  Qed.

  Lemma case_row_cons_ok : forall w t ws els r v, case_row ((w, t) :: ws) els r = Ok v ->
    exists cv, w r = Ok cv /\ (if is_TT cv then t r = Ok v else case_row ws els r = Ok v).
  Proof.
    intros w t ws els r v H. cbn [case_row] in H. destruct (w r) as [cv|]; cbn [bind] in H; [|discriminate].
    exists cv. split; [reflexivity|]. destruct cv; cbn; assumption.
  Qed.

  Lemma go_complete : forall ws els rem acc,
    (forall k r, In (k, r) rem -> exists v, case_row ws els r = Ok v) -> exists acc', case_mask_go ws els rem acc = Ok acc'.
  Proof.
    induction ws as [|[w t] ws IH]; intros els rem acc H.
    - cbn [case_mask_go]. destruct els as [e|]; [|eauto].
      destruct (mapM_all_ok (fun p => e (snd p)) rem) as [vs Hvs].
      { intros [k r] Hin. destruct (H k r Hin) as [v Hv]. exists v. exact Hv. }
      rewrite Hvs. cbn [bind]. eauto.
    - cbn [case_mask_go].
      assert (Hrow : forall k r, In (k, r) rem -> exists v cv, w r = Ok cv /\ (if is_TT cv then t r = Ok v else case_row ws els r = Ok v)).
      { intros k r Hin. destruct (H k r Hin) as [v Hv]. apply case_row_cons_ok in Hv. destruct Hv as [cv Hcv]. eauto. }
      destruct (mapM_all_ok (fun p => w (snd p)) rem) as [c Mc].
      { intros [k r] Hin. destruct (Hrow k r Hin) as [v [cv [Hcv _]]]. exists cv. exact Hcv. }
      rewrite Mc. cbn [bind].
      assert (Hc : forall k r cv, In (k, r) rem -> w r = Ok cv -> In cv c).
      { intros k r cv Hin Hcv. destruct (mapM_in (fun p => w (snd p)) rem c (k, r) Mc Hin) as [cv' [E Hi]]. cbn [snd] in E. congruence. }
      destruct (existsb is_TT c) eqn:Ex; cbn [negb].
      2:{ apply IH. intros k r Hin. destruct (Hrow k r Hin) as [v [cv [Hcv Hb]]].
          assert (is_TT cv = false).
          { destruct (is_TT cv) eqn:E; [|reflexivity]. assert (existsb is_TT c = true) by (apply existsb_exists; eauto). congruence. }
          rewrite H0 in Hb. eauto. }
      destruct (forallb is_TT c) eqn:Fa.
      + destruct (mapM_all_ok (fun p => t (snd p)) rem) as [vs Hvs].
        { intros [k r] Hin. destruct (Hrow k r Hin) as [v [cv [Hcv Hb]]]. rewrite forallb_forall in Fa.
          rewrite (Fa cv (Hc k r cv Hin Hcv)) in Hb. exists v. exact Hb. }
        rewrite Hvs. cbn [bind]. eauto.
      + destruct (select_filter (fun p => w (snd p)) rem c Mc) as [S1 S2]. rewrite S1, S2. clear S1 S2.
        set (pf := fun x : nat * A => is_tt (w (snd x))).
        destruct (mapM_all_ok (fun p => t (snd p)) (filter pf rem)) as [vs Hvs].
        { intros [k r] Hin. apply filter_In in Hin. destruct Hin as [Hin Hp]. destruct (Hrow k r Hin) as [v [cv [Hcv Hb]]].
          unfold pf in Hp. cbn [snd] in Hp. rewrite Hcv, is_tt_ok in Hp. rewrite Hp in Hb. exists v. exact Hb. }
        rewrite Hvs. cbn [bind]. cbv zeta. rewrite shortcut_eq. apply IH.
        intros k r Hin. apply filter_In in Hin. destruct Hin as [Hin Hp]. destruct (Hrow k r Hin) as [v [cv [Hcv Hb]]].
        unfold pf in Hp. cbn [snd] in Hp. rewrite Hcv, is_tt_ok in Hp. destruct (is_TT cv); [discriminate|]. eauto.
  Qed.

  Lemma map_fst_combine_seq : forall (rows : list A) s, map fst (combine (seq s (length rows)) rows) = seq s (length rows).
  Proof. induction rows; intros s; [reflexivity|]. cbn [length seq combine map fst]. rewrite IHrows. reflexivity. Qed.

  Lemma mapM_indexed : forall {B} (f : A -> res B) (g : nat -> B) rows s,
    (forall k r, In (k, r) (combine (seq s (length rows)) rows) -> f r = Ok (g k)) ->
    mapM f rows = Ok (map g (seq s (length rows))).
  Proof.
    induction rows as [|a rows IH]; intros s H; [reflexivity|]. cbn [length seq combine] in *.
    apply mapM_cons_ok. exists (g s), (map g (seq (S s) (length rows))). repeat split.
    - apply H. left. reflexivity.
    - apply IH. intros k r Hin. apply H. right. assumption.
  Qed.

  Theorem case_mask_eq_rowwise_pf : forall ws els (rows : list A) out,
    case_mask ws els rows = Ok out <-> mapM (case_row ws els) rows = Ok out.
  Proof.
    intros ws els rows out.
    assert (Hd : NoDup (map fst (combine (seq 0 (length rows)) rows))) by (rewrite map_fst_combine_seq; apply seq_NoDup).
    assert (Fwd : forall o, case_mask ws els rows = Ok o -> mapM (case_row ws els) rows = Ok o).
    { intros o H. unfold case_mask in H.
      destruct (case_mask_go ws els (combine (seq 0 (length rows)) rows) []) as [acc'|] eqn:G; cbn [bind] in H; [|discriminate].
      inversion H; subst. destruct (go_sound ws els _ [] acc' Hd (fun _ _ => eq_refl) G) as [I1 _].
      unfold finish. apply mapM_indexed. exact I1. }
    split; [apply Fwd|]. intros H.
    destruct (go_complete ws els (combine (seq 0 (length rows)) rows) []) as [acc' G].
    { intros k r Hin. apply in_combine_r in Hin. exact (mapM_ok_all _ _ _ H r Hin). }
    assert (E : case_mask ws els rows = Ok (finish (length rows) acc')) by (unfold case_mask; rewrite G; reflexivity).
    pose proof (Fwd _ E) as F. rewrite H in F. inversion F; subst. exact E.
  Qed.

  (* a branch (or ELSE) that fails only on rows that do not select it raises nothing *)
  Corollary case_guarded_branch_no_error_pf : forall ws els (rows : list A),
    (forall r, In r rows -> exists v, case_row ws els r = Ok v) -> exists out, case_mask ws els rows = Ok out.
  Proof.
    intros ws els rows H. destruct (mapM_all_ok (case_row ws els) rows H) as [out Ho]. exists out.
    apply case_mask_eq_rowwise_pf. exact Ho.
  Qed.
End CaseProofs.

(* ------------------------------------------------------------------ 4. AND / OR short circuit *)
Lemma binop_neutral : forall b y, binop b (neutral b) y = y.
Proof. destruct b, y; reflexivity. Qed.
Lemma binop_absorb : forall b y, binop b (absorb b) y = absorb b.
Proof. destruct b, y; reflexivity. Qed.
Lemma no_TU_cases : forall b x, is_TU x = false -> x = neutral b \/ x = absorb b.
Proof. destruct b, x; cbn; auto; discriminate. Qed.
Lemma neutral_not_absorb : forall b, tv_eqb (neutral b) (absorb b) = false /\ tv_eqb (absorb b) (neutral b) = false
                                   /\ tv_eqb (neutral b) (neutral b) = true /\ tv_eqb (absorb b) (absorb b) = true.
Proof. destruct b; cbn; auto. Qed.

Lemma bind_eta : forall {B} (x : res B), (y <- x;; Ok y) = x.
Proof. destruct x; reflexivity. Qed.

Lemma filter_length_le : forall {X} (p : X -> bool) l, (length (filter p l) <= length l)%nat.
Proof. induction l; cbn [filter length]; [lia|]. destruct (p a); cbn [length]; lia. Qed.

Lemma count_tt_all : forall lv, count_tt lv = len lv -> forall x, In x lv -> x = TT.
Proof.
  unfold count_tt, len. induction lv as [|y lv IH]; intros H x Hin; [destruct Hin|].
  cbn [filter] in H. pose proof (filter_length_le is_TT lv) as L. destruct (is_TT y) eqn:E; cbn [length] in H.
  - destruct Hin as [<-|Hin]; [apply is_TT_iff; assumption | apply IH; [lia | assumption]].
  - lia.
Qed.
Lemma count_tt_none : forall lv, count_tt lv = 0 -> forall x, In x lv -> is_TT x = false.
Proof.
  unfold count_tt, len. induction lv as [|y lv IH]; intros H x Hin; [destruct Hin|].
  cbn [filter] in H. destruct (is_TT y) eqn:E; cbn [length] in H; [lia|].
  destruct Hin as [<-|Hin]; [assumption | apply IH; assumption].
Qed.

Lemma scatter_neutral : forall b lv rv, existsb is_TU lv = false -> (forall y, In y rv -> y = neutral b) ->
  length rv = length (filter (fun m => m) (map (tv_eqb (neutral b)) lv)) ->
  scatter (map (tv_eqb (neutral b)) lv) rv (absorb b) = lv.
Proof.
  intros b. destruct (neutral_not_absorb b) as [N1 [N2 [N3 N4]]].
  induction lv as [|x lv IH]; intros rv Hu Hr Hl; [reflexivity|].
  cbn [existsb] in Hu. apply orb_false_iff in Hu. destruct Hu as [Hx Hu]. cbn [map] in Hl |- *.
  destruct (no_TU_cases b x Hx) as [->| ->].
  - rewrite N3 in *. cbn [filter length] in Hl. destruct rv as [|y rv]; [discriminate|]. cbn [scatter].
    rewrite (Hr y (or_introl eq_refl)). f_equal. apply IH; [assumption | intros; apply Hr; right; assumption | cbn [length] in Hl; lia].
  - rewrite N1 in *. cbn [filter] in Hl. cbn [scatter]. f_equal. apply IH; assumption.
Qed.
Lemma scatter_absorb : forall b lv rv, existsb is_TU lv = false -> (forall y, In y rv -> y = absorb b) ->
  length rv = length (filter (fun m => m) (map (tv_eqb (neutral b)) lv)) ->
  scatter (map (tv_eqb (neutral b)) lv) rv (absorb b) = map (fun _ => absorb b) lv.
Proof.
  intros b. destruct (neutral_not_absorb b) as [N1 [N2 [N3 N4]]].
  induction lv as [|x lv IH]; intros rv Hu Hr Hl; [reflexivity|].
  cbn [existsb] in Hu. apply orb_false_iff in Hu. destruct Hu as [Hx Hu]. cbn [map] in Hl |- *.
  destruct (no_TU_cases b x Hx) as [->| ->].
  - rewrite N3 in *. cbn [filter length] in Hl. destruct rv as [|y rv]; [discriminate|]. cbn [scatter].
    rewrite (Hr y (or_introl eq_refl)). f_equal. apply IH; [assumption | intros; apply Hr; right; assumption | cbn [length] in Hl; lia].
  - rewrite N1 in *. cbn [filter] in Hl. cbn [scatter]. f_equal. apply IH; assumption.
Qed.

Lemma all_of_not_exists : forall rv, existsb is_TU rv = false -> existsb is_TF rv = false -> forall y, In y rv -> y = TT.
Proof.
  intros rv H1 H2 y Hin. destruct y; [reflexivity | |].
  - assert (existsb is_TF rv = true) by (apply existsb_exists; exists TF; auto). congruence.
  - assert (existsb is_TU rv = true) by (apply existsb_exists; exists TU; auto). congruence.
Qed.
Lemma all_of_not_exists' : forall rv, existsb is_TU rv = false -> existsb is_TT rv = false -> forall y, In y rv -> y = TF.
Proof.
  intros rv H1 H2 y Hin. destruct y; [| reflexivity |].
  - assert (existsb is_TT rv = true) by (apply existsb_exists; exists TT; auto). congruence.
  - assert (existsb is_TU rv = true) by (apply existsb_exists; exists TU; auto). congruence.
Qed.

Lemma pre_selection_finish_scatter : forall b lv rv, existsb is_TU lv = false ->
  length rv = length (filter (fun m => m) (map (tv_eqb (neutral b)) lv)) ->
  pre_selection_finish b lv (map (tv_eqb (neutral b)) lv) rv = scatter (map (tv_eqb (neutral b)) lv) rv (absorb b).
Proof.
  intros b lv rv Hu Hl. unfold pre_selection_finish. destruct (existsb is_TU rv) eqn:E1; [reflexivity|].
  destruct (existsb is_TF rv) eqn:E2; cbn [negb].
  - destruct (existsb is_TT rv) eqn:E3; cbn [negb]; [reflexivity|].
    pose proof (all_of_not_exists' rv E1 E3) as Hall. destruct b; cbn [negb Bool.eqb].
    + symmetry. apply (scatter_absorb true); assumption.
    + symmetry. apply (scatter_neutral false); assumption.
  - pose proof (all_of_not_exists rv E1 E2) as Hall. destruct b; cbn [negb Bool.eqb].
    + symmetry. apply (scatter_neutral true); assumption.
    + symmetry. apply (scatter_absorb false); assumption.
Qed.

Lemma select_length : forall {X} (mask : list bool) (l : list X), length mask = length l ->
  length (select mask l) = length (filter (fun m => m) mask).
Proof.
  induction mask as [|m mask IH]; intros l H; destruct l as [|x l]; try discriminate; [reflexivity|].
  cbn [select filter]. cbn [length] in H. destruct m; cbn [length]; rewrite IH by lia; reflexivity.
Qed.

Section LogicProofs.
  Context {A : Type}.
  Implicit Types (l r : @cond A) (rows : list A).

  Lemma strict_decomp : forall b l r rows vs,
    mapM (logic_strict b l r) rows = Ok vs <->
    exists lv rv, mapM l rows = Ok lv /\ mapM r rows = Ok rv /\ vs = map2 (binop b) lv rv.
  Proof.
    induction rows as [|a rows IH]; intros vs.
    - cbn. split; [intros H; inversion H; exists [], []; auto | intros [lv [rv [H1 [H2 ->]]]]; inversion H1; inversion H2; reflexivity].
    - rewrite mapM_cons_ok. split.
      + intros [y [ys [H1 [H2 ->]]]]. apply IH in H2. destruct H2 as [lv [rv [L [R ->]]]].
        unfold logic_strict in H1. destruct (l a) as [x|] eqn:La; cbn [bind] in H1; [|discriminate].
        destruct (r a) as [z|] eqn:Ra; cbn [bind] in H1; [|discriminate]. inversion H1; subst.
        exists (x :: lv), (z :: rv). repeat split.
        * apply mapM_cons_ok. eauto.
        * apply mapM_cons_ok. eauto.
      + intros [lv [rv [L [R ->]]]]. apply mapM_cons_ok in L. destruct L as [x [lv' [La [L ->]]]].
        apply mapM_cons_ok in R. destruct R as [z [rv' [Ra [R ->]]]].
        exists (binop b x z), (map2 (binop b) lv' rv'). repeat split.
        * unfold logic_strict. rewrite La, Ra. reflexivity.
        * apply IH. eauto.
  Qed.

  Lemma strict_lazy_row : forall b l r a v, logic_strict b l r a = Ok v -> logic_lazy b l r a = Ok v.
  Proof.
    intros b l r a v H. unfold logic_strict in H. unfold logic_lazy. destruct (l a) as [x|]; cbn [bind] in *; [|discriminate].
    destruct (r a) as [y|]; cbn [bind] in *; [|discriminate]. inversion H; subst.
    destruct (tv_eqb x (absorb b)) eqn:E; [|reflexivity]. apply tv_eqb_eq in E. subst. rewrite binop_absorb. reflexivity.
  Qed.

  Lemma strict_lazy : forall b l r rows vs, mapM (logic_strict b l r) rows = Ok vs -> mapM (logic_lazy b l r) rows = Ok vs.
  Proof.
    induction rows as [|a rows IH]; intros vs H; [exact H|].
    apply mapM_cons_ok in H. destruct H as [y [ys [H1 [H2 ->]]]]. apply mapM_cons_ok. exists y, ys.
    repeat split; [apply strict_lazy_row; assumption | apply IH; assumption].
  Qed.

  (* pre-selection: the right side evaluated on exactly the rows a lazy evaluator evaluates it on *)
  Lemma presel_lazy : forall b l r rows lv, mapM l rows = Ok lv -> existsb is_TU lv = false ->
    mapM (logic_lazy b l r) rows =
    (rv <- mapM r (select (map (tv_eqb (neutral b)) lv) rows);; Ok (scatter (map (tv_eqb (neutral b)) lv) rv (absorb b))).
  Proof.
    intros b l r. destruct (neutral_not_absorb b) as [N1 [N2 [N3 N4]]].
    induction rows as [|a rows IH]; intros lv L Hu.
    - cbn in L. inversion L; subst. reflexivity.
    - apply mapM_cons_ok in L. destruct L as [x [lv' [La [L ->]]]].
      cbn [existsb] in Hu. apply orb_false_iff in Hu. destruct Hu as [Hx Hu].
      cbn [mapM map]. rewrite (IH lv' L Hu). unfold logic_lazy at 1. rewrite La. cbn [bind].
      destruct (no_TU_cases b x Hx) as [->| ->].
      + rewrite N1, N3. cbn [select mapM]. destruct (r a) as [y|]; cbn [bind]; [|reflexivity].
        rewrite binop_neutral. destruct (mapM r (select (map (tv_eqb (neutral b)) lv') rows)); reflexivity.
      + rewrite N4, N1. cbn [select bind]. destruct (mapM r (select (map (tv_eqb (neutral b)) lv') rows)); reflexivity.
  Qed.

  Lemma lazy_all_absorb : forall b l r rows lv, mapM l rows = Ok lv -> (forall x, In x lv -> x = absorb b) ->
    mapM (logic_lazy b l r) rows = Ok lv.
  Proof.
    intros b l r. destruct (neutral_not_absorb b) as [N1 [N2 [N3 N4]]].
    induction rows as [|a rows IH]; intros lv L H.
    - exact L.
    - apply mapM_cons_ok in L. destruct L as [x [lv' [La [L ->]]]]. apply mapM_cons_ok. exists x, lv'. repeat split.
      + unfold logic_lazy. rewrite La. cbn [bind]. rewrite (H x (or_introl eq_refl)), N4. reflexivity.
      + apply IH; [assumption | intros; apply H; right; assumption].
  Qed.

  Lemma lazy_all_neutral : forall b l r rows lv, mapM l rows = Ok lv -> (forall x, In x lv -> x = neutral b) ->
    mapM (logic_lazy b l r) rows = mapM r rows.
  Proof.
    intros b l r rows lv L H. apply mapM_ext_in. intros a Hin.
    destruct (mapM_in l rows lv a L Hin) as [x [La Hx]]. unfold logic_lazy. rewrite La. cbn [bind].
    rewrite (H x Hx). destruct (neutral_not_absorb b) as [N1 _]. rewrite N1.
    destruct (r a); cbn [bind]; [rewrite binop_neutral|]; reflexivity.
  Qed.

  Lemma no_TU_not_TT : forall (b : bool) lv, existsb is_TU lv = false -> forall x, In x lv -> is_TT x = false -> x = TF.
  Proof.
    intros b lv Hu x Hin Hx. destruct x; [discriminate | reflexivity |].
    assert (existsb is_TU lv = true) by (apply existsb_exists; exists TU; auto). congruence.
  Qed.

  (* whenever a short-circuit strategy is chosen, the vectorised result IS the lazy row semantics *)
  Theorem short_circuit_is_lazy_pf : forall b l r rows lv vs,
    mapM l rows = Ok lv -> check_short_circuit b lv <> SNone ->
    (logic_vec b l r rows = Ok vs <-> mapM (logic_lazy b l r) rows = Ok vs).
  Proof.
    intros b l r rows lv vs L Hs. unfold logic_vec. rewrite L. cbn [bind].
    unfold check_short_circuit in *. destruct (existsb is_TU lv) eqn:Hu; [contradiction|].
    destruct (len lv =? 0) eqn:Hn; [contradiction|].
    assert (Hlen : length (map (tv_eqb (neutral b)) lv) = length rows).
    { rewrite map_length. apply (mapM_length _ _ _ L). }
    assert (Presel : (rv <- mapM r (select (map (tv_eqb (neutral b)) lv) rows);;
                      Ok (pre_selection_finish b lv (map (tv_eqb (neutral b)) lv) rv)) = Ok vs <->
                     mapM (logic_lazy b l r) rows = Ok vs).
    { rewrite (presel_lazy b l r rows lv L Hu).
      destruct (mapM r (select (map (tv_eqb (neutral b)) lv) rows)) as [rv|] eqn:R; cbn [bind]; [|tauto].
      rewrite pre_selection_finish_scatter; [tauto | assumption |].
      rewrite (mapM_length _ _ _ R). apply select_length. assumption. }
    destruct b.
    - destruct (count_tt lv =? 0) eqn:C0.
      + apply Z.eqb_eq in C0. rewrite (lazy_all_absorb true l r rows lv L); [tauto|].
        intros x Hin. apply (no_TU_not_TT true lv Hu x Hin). apply count_tt_none with lv; assumption.
      + destruct (count_tt lv =? len lv) eqn:C1.
        * apply Z.eqb_eq in C1. rewrite (lazy_all_neutral true l r rows lv L); [tauto|]. apply count_tt_all. assumption.
        * destruct (5 * count_tt lv <=? len lv); [exact Presel | contradiction].
    - destruct (count_tt lv =? len lv) eqn:C1.
      + apply Z.eqb_eq in C1. rewrite (lazy_all_absorb false l r rows lv L); [tauto|]. apply count_tt_all. assumption.
      + destruct (count_tt lv =? 0) eqn:C0.
        * apply Z.eqb_eq in C0. rewrite (lazy_all_neutral false l r rows lv L); [tauto|].
          intros x Hin. apply (no_TU_not_TT false lv Hu x Hin). apply count_tt_none with lv; assumption.
        * destruct (5 * (len lv - count_tt lv) <=? len lv); [exact Presel | contradiction].
  Qed.

  Lemma logic_vec_none : forall b l r rows lv vs,
    mapM l rows = Ok lv -> check_short_circuit b lv = SNone ->
    (logic_vec b l r rows = Ok vs <-> mapM (logic_strict b l r) rows = Ok vs).
  Proof.
    intros b l r rows lv vs L Hs. unfold logic_vec. rewrite L. cbn [bind]. rewrite Hs. rewrite strict_decomp. split.
    - intros H. destruct (mapM r rows) as [rv|] eqn:R; cbn [bind] in H; [|discriminate]. inversion H; subst. eauto.
    - intros [lv' [rv [L' [R ->]]]]. rewrite L in L'. inversion L'; subst. rewrite R. reflexivity.
  Qed.

  Theorem short_circuit_sound_pf : forall b l r rows vs,
    (mapM (logic_strict b l r) rows = Ok vs -> logic_vec b l r rows = Ok vs) /\
    (logic_vec b l r rows = Ok vs -> mapM (logic_lazy b l r) rows = Ok vs).
  Proof.
    intros b l r rows vs. split.
    - intros H. pose proof H as H0. apply strict_decomp in H0. destruct H0 as [lv [rv [L _]]].
      destruct (check_short_circuit b lv) eqn:Hs.
      + apply (logic_vec_none b l r rows lv vs L Hs). assumption.
      + apply (short_circuit_is_lazy_pf b l r rows lv vs L); [rewrite Hs; discriminate | apply strict_lazy; assumption].
      + apply (short_circuit_is_lazy_pf b l r rows lv vs L); [rewrite Hs; discriminate | apply strict_lazy; assumption].
      + apply (short_circuit_is_lazy_pf b l r rows lv vs L); [rewrite Hs; discriminate | apply strict_lazy; assumption].
    - intros H. destruct (mapM l rows) as [lv|] eqn:L.
      2:{ unfold logic_vec in H. rewrite L in H. discriminate. }
      destruct (check_short_circuit b lv) eqn:Hs.
      + apply strict_lazy. apply (logic_vec_none b l r rows lv vs L Hs). assumption.
      + apply (short_circuit_is_lazy_pf b l r rows lv vs L); [rewrite Hs; discriminate | assumption].
      + apply (short_circuit_is_lazy_pf b l r rows lv vs L); [rewrite Hs; discriminate | assumption].
      + apply (short_circuit_is_lazy_pf b l r rows lv vs L); [rewrite Hs; discriminate | assumption].
  Qed.

  (* ---------------------------------------------------------------- 5. evaluate_selection *)
  Lemma select_all : forall {X} (sel : list bool) (l : list X), forallb (fun b => b) sel = true -> length sel = length l -> select sel l = l.
  Proof.
    induction sel as [|m sel IH]; intros l H Hl; destruct l as [|x l]; try discriminate; [reflexivity|].
    cbn [forallb] in H. apply andb_true_iff in H. destruct H as [-> H]. cbn [select]. f_equal. apply IH; [assumption | cbn [length] in Hl; lia].
  Qed.
  Lemma select_none : forall {X} (sel : list bool) (l : list X), existsb (fun b => b) sel = false -> select sel l = [].
  Proof.
    induction sel as [|m sel IH]; intros l H; [reflexivity|]. destruct l as [|x l]; [reflexivity|].
    cbn [existsb] in H. apply orb_false_iff in H. destruct H as [-> H]. cbn [select]. apply IH. assumption.
  Qed.
  Lemma select_scatter_opt : forall {X} (sel : list bool) (vs : list X), length vs = length (filter (fun m => m) sel) ->
    select sel (scatter_opt sel vs) = map Some vs.
  Proof.
    induction sel as [|m sel IH]; intros vs H.
    - destruct vs; [reflexivity | discriminate].
    - destruct m; cbn [filter] in H.
      + destruct vs as [|v vs]; [discriminate|]. cbn [scatter_opt select map]. f_equal. apply IH. cbn [length] in H. lia.
      + cbn [scatter_opt select]. apply IH. assumption.
  Qed.

  Theorem selection_commutes_pf : forall (f : @rexpr A) sel rows, length sel = length rows ->
    (forall vs, mapM f (select sel rows) = Ok vs ->
       exists out, eval_selection f sel rows = Ok out /\ select sel out = map Some vs) /\
    (forall out, eval_selection f sel rows = Ok out ->
       exists vs, mapM f (select sel rows) = Ok vs /\ select sel out = map Some vs).
  Proof.
    intros f sel rows Hl. unfold eval_selection. destruct (forallb (fun b => b) sel) eqn:Fa.
    - rewrite (select_all sel rows Fa Hl). split.
      + intros vs H. rewrite H. cbn [bind]. exists (map Some vs). split; [reflexivity|].
        apply select_all; [assumption|]. rewrite map_length, (mapM_length _ _ _ H). assumption.
      + intros out H. destruct (mapM f rows) as [vs|] eqn:M; cbn [bind] in H; [|discriminate]. inversion H; subst.
        exists vs. split; [reflexivity|]. apply select_all; [assumption|]. rewrite map_length, (mapM_length _ _ _ M). assumption.
    - destruct (existsb (fun b => b) sel) eqn:Ex; cbn [negb].
      + split.
        * intros vs H. rewrite H. cbn [bind]. eexists. split; [reflexivity|]. apply select_scatter_opt.
          rewrite (mapM_length _ _ _ H). apply select_length. assumption.
        * intros out H. destruct (mapM f (select sel rows)) as [vs|] eqn:M; cbn [bind] in H; [|discriminate]. inversion H; subst.
          exists vs. split; [reflexivity|]. apply select_scatter_opt. rewrite (mapM_length _ _ _ M). apply select_length. assumption.
      + rewrite (select_none sel rows Ex). split.
        * intros vs H. cbn in H. inversion H; subst. eexists. split; [reflexivity|]. apply select_none. assumption.
        * intros out H. inversion H; subst. exists []. split; [reflexivity|]. apply select_none. assumption.
  Qed.
End LogicProofs.

(* ------------------------------------------------------------------ scalar operand = the array of that scalar repeated *)
Lemma map2_repeat_r : forall {X Y Z'} (op : X -> Y -> Z') (col : list X) (s : Y),
  map2 op col (repeat s (length col)) = map (fun x => op x s) col.
Proof. induction col; intros; [reflexivity|]. cbn [length repeat map2 map]. rewrite IHcol. reflexivity. Qed.
Lemma map2_repeat_l : forall {X Y Z'} (op : X -> Y -> Z') (col : list Y) (s : X),
  map2 op (repeat s (length col)) col = map (fun y => op s y) col.
Proof. induction col; intros; [reflexivity|]. cbn [length repeat map2 map]. rewrite IHcol. reflexivity. Qed.

Theorem scalar_array_agree_pf :
  (forall (op : value -> value -> tv) col s,
     map (fun x => op x s) col = map2 op col (repeat s (length col)) /\
     map (fun y => op s y) col = map2 op (repeat s (length col)) col) /\
  (forall neg vs s n, inlist_set_scalar neg vs s n = inlist_set_col neg vs (repeat s n)) /\
  (forall ws els s n, repeat (case_lookup ws els s) n = map (case_lookup ws els) (repeat s n)).
Proof.
  split; [|split].
  - intros. split; [rewrite map2_repeat_r | rewrite map2_repeat_l]; reflexivity.
  - apply inlist_set_scalar_repeat.
  - intros. induction n; [reflexivity|]. cbn [repeat map]. rewrite IHn. reflexivity.
Qed.
