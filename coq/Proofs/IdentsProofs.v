(* C52 -- proofs about Model/Idents.v: the printer/parser round trip for every string. *)
From Coq Require Import List NArith Bool Arith Lia.
From DF Require Import Base.Prelude Model.Idents.
Import ListNotations.
Local Open Scope N_scope.

(* ------------------------------------------------------------------ boolean ranges *)
Ltac brange :=
  unfold plain_first, plain_rest, is_lower, is_upper, is_digit, in_range in *;
  repeat match goal with
         | H : _ && _ = true |- _ => apply andb_true_iff in H; destruct H
         | H : _ || _ = true |- _ => apply orb_true_iff in H; destruct H
         | H : (_ <=? _) = true |- _ => apply N.leb_le in H
         | H : (_ <? _) = true |- _ => apply N.ltb_lt in H
         | H : (_ =? _) = true |- _ => apply N.eqb_eq in H
         | H : (_ <=? _) = false |- _ => apply N.leb_gt in H
         | H : (_ <? _) = false |- _ => apply N.ltb_ge in H
         | H : (_ =? _) = false |- _ => apply N.eqb_neq in H
         end.

(* decide a boolean goal [b = false] by contradiction with range facts *)
Ltac bfalse :=
  match goal with
  | |- ?b = false => let E := fresh "E" in destruct b eqn:E; [exfalso; brange; try lia | reflexivity]
  end.

Lemma plain_first_rest : forall c, plain_first c = true -> plain_rest c = true.
Proof.
  intros c H. unfold plain_first, plain_rest in *.
  apply orb_true_iff in H. destruct H as [H | H]; rewrite H; [reflexivity | apply orb_true_r].
Qed.

Lemma plain_rest_cases : forall c, plain_rest c = true -> (97 <= c <= 122) \/ (48 <= c <= 57) \/ c = 95.
Proof. intros c H. brange; lia. Qed.

Lemma plain_first_cases : forall c, plain_first c = true -> (97 <= c <= 122) \/ c = 95.
Proof. intros c H. brange; lia. Qed.

Lemma ascii_lower_plain : forall c, plain_rest c = true -> ascii_lower c = c.
Proof.
  intros c H. unfold ascii_lower.
  assert (is_upper c = false) as ->; [| reflexivity].
  apply plain_rest_cases in H. bfalse.
Qed.

Lemma one_of_in : forall l c, one_of l c = true -> In c l.
Proof.
  induction l; simpl; intros c H; [discriminate |].
  apply orb_true_iff in H. destruct H as [H | H]; [left; apply N.eqb_eq in H; auto | right; auto].
Qed.

Lemma one_of_false : forall l c, ~ In c l -> one_of l c = false.
Proof.
  intros l c H. destruct (one_of l c) eqn:E; [| reflexivity]. apply one_of_in in E. contradiction.
Qed.

(* [c] satisfies range facts in the context; [l] is a literal list: c is in none of them *)
Ltac not_one_of :=
  apply one_of_false; simpl; intuition lia.

(* ------------------------------------------------------------------ needs_quotes facts *)
Lemma needs_quotes_false_inv : forall c r,
  needs_quotes (c :: r) = false -> plain_first c = true /\ forallb plain_rest r = true.
Proof.
  intros c r H. simpl in H. destruct (plain_first c); simpl in H; [| discriminate].
  split; [reflexivity |]. apply negb_false_iff in H. exact H.
Qed.

Lemma needs_quotes_false_all : forall p, needs_quotes p = false -> forallb plain_rest p = true.
Proof.
  destruct p as [| c r]; intros H; [reflexivity |].
  apply needs_quotes_false_inv in H. destruct H as [H1 H2]. simpl.
  rewrite (plain_first_rest _ H1), H2. reflexivity.
Qed.

Lemma lower_plain : forall p, forallb plain_rest p = true -> map ascii_lower p = p.
Proof.
  induction p as [| c r IH]; simpl; intros H; [reflexivity |].
  apply andb_true_iff in H. destruct H as [H1 H2].
  rewrite (ascii_lower_plain _ H1), (IH H2). reflexivity.
Qed.

(* ------------------------------------------------------------------ escape / quote *)
Lemma escape_dq_injective : forall a b, escape_dq a = escape_dq b -> a = b.
Proof.
  induction a as [| x a IH]; intros b H.
  - destruct b as [| y b]; [reflexivity |]. simpl in H. destruct (y =? 34); discriminate.
  - destruct b as [| y b].
    + simpl in H. destruct (x =? 34); discriminate.
    + simpl in H. destruct (x =? 34) eqn:Ex, (y =? 34) eqn:Ey.
      * apply N.eqb_eq in Ex, Ey. subst. injection H as H. f_equal. auto.
      * injection H as H1 H2. subst y. discriminate.
      * injection H as H1 H2. subst x. discriminate.
      * injection H as H1 H2. subst. f_equal. auto.
Qed.

Lemma app_last_inj : forall (A : Type) (a b : list A) x, a ++ [x] = b ++ [x] -> a = b.
Proof. intros A a b x H. apply app_inj_tail in H. tauto. Qed.

Lemma quote_identifier_injective : forall a b, quote_identifier a = quote_identifier b -> a = b.
Proof.
  intros a b H. unfold quote_identifier in H.
  destruct (needs_quotes a) eqn:Ea, (needs_quotes b) eqn:Eb.
  - injection H as H. apply app_last_inj in H. apply escape_dq_injective. exact H.
  - destruct b as [| c r]; [discriminate |]. injection H as H1 H2. subst c.
    apply needs_quotes_false_inv in Eb. destruct Eb as [Eb _]. discriminate.
  - destruct a as [| c r]; [discriminate |]. injection H as H1 H2. subst c.
    apply needs_quotes_false_inv in Ea. destruct Ea as [Ea _]. discriminate.
  - exact H.
Qed.

Lemma quote_identifier_nonempty : forall p, nonempty p = true -> nonempty (quote_identifier p) = true.
Proof.
  intros p H. unfold quote_identifier. destruct (needs_quotes p); [reflexivity | exact H].
Qed.

(* ------------------------------------------------------------------ text shapes *)
(* what may follow a printed part: end of text or a '.' *)
Definition tail_ok (rest : str) : Prop := match rest with [] => True | d :: _ => d = 46 end.

Definition qstyle (p : str) : option N := if needs_quotes p then Some 34 else None.
Definition print_tail (ps : list str) : str := flat_map (fun p => 46 :: quote_identifier p) ps.
Definition print_parts (ps : list str) : str :=
  match ps with [] => [] | p :: r => quote_identifier p ++ print_tail r end.

Lemma print_parts_single : forall p, print_parts [p] = quote_identifier p.
Proof. intros. simpl. apply app_nil_r. Qed.

Lemma tail_ok_print_tail : forall ps, tail_ok (print_tail ps).
Proof. destruct ps; simpl; auto. Qed.

Lemma print_tail_app : forall a b, print_tail (a ++ b) = print_tail a ++ print_tail b.
Proof. intros. unfold print_tail. apply flat_map_app. Qed.

Lemma to_quoted_string_parts : forall r, to_quoted_string r = print_parts (to_vec r).
Proof.
  destruct r; simpl; rewrite ?app_nil_r; reflexivity.
Qed.

Lemma hd_is_app_plain : forall q r rest,
  plain_rest q = false -> q <> 46 -> forallb plain_rest r = true -> tail_ok rest ->
  hd_is q (r ++ rest) = false.
Proof.
  intros q r rest Hq Hq46 Hr Ht. destruct r as [| d r]; simpl.
  - destruct rest as [| d rest]; simpl; [reflexivity |]. simpl in Ht. subst d.
    apply N.eqb_neq. auto.
  - simpl in Hr. apply andb_true_iff in Hr. destruct Hr as [Hd _].
    apply N.eqb_neq. intros ->. congruence.
Qed.

Section TokenizerProofs.
  Variable ua us : N -> bool.

  Notation is_ident_part := (is_ident_part ua).
  Notation is_ident_start := (is_ident_start ua).
  Notation lex_word := (lex_word ua).
  Notation next_token := (next_token ua us).
  Notation tokenize := (tokenize ua us).
  Notation parse_identifiers := (parse_identifiers ua us).
  Notation pin := (parse_identifiers_normalized ua us).
  Notation parse_str_normalized := (parse_str_normalized ua us).
  Notation from_qualified_name_ic := (from_qualified_name_ic ua us).

  Lemma plain_is_ident_part : forall c, plain_rest c = true -> is_ident_part c = true.
  Proof.
    intros c H. unfold Idents.is_ident_part, is_alphabetic.
    apply plain_rest_cases in H. destruct H as [H | [H | H]].
    - assert (c <? 128 = true) as -> by (apply N.ltb_lt; lia).
      assert (is_lower c = true) as ->; [| reflexivity].
      unfold is_lower, in_range. apply andb_true_iff; split; apply N.leb_le; lia.
    - assert (is_digit c = true) as ->; [| rewrite orb_true_r; reflexivity].
      unfold is_digit, in_range. apply andb_true_iff; split; apply N.leb_le; lia.
    - subst c. rewrite !orb_true_r. reflexivity.
  Qed.

  Lemma plain_first_ident_start : forall c, plain_first c = true -> is_ident_start c = true.
  Proof.
    intros c H. unfold Idents.is_ident_start, is_alphabetic.
    apply plain_first_cases in H. destruct H as [H | H].
    - assert (c <? 128 = true) as -> by (apply N.ltb_lt; lia).
      assert (is_lower c = true) as ->; [| reflexivity].
      unfold is_lower, in_range. apply andb_true_iff; split; apply N.leb_le; lia.
    - subst c. reflexivity.
  Qed.

  Lemma dot_not_ident_part : is_ident_part 46 = false.
  Proof. reflexivity. Qed.

  Lemma take_while_plain : forall r rest,
    forallb plain_rest r = true -> tail_ok rest ->
    take_while is_ident_part (r ++ rest) = (r, rest).
  Proof.
    induction r as [| d r IH]; intros rest Hr Ht; simpl.
    - destruct rest as [| e rest]; [reflexivity |]. simpl in Ht. subst e. reflexivity.
    - simpl in Hr. apply andb_true_iff in Hr. destruct Hr as [Hd Hr].
      rewrite (plain_is_ident_part _ Hd), (IH rest Hr Ht). reflexivity.
  Qed.

  Lemma lex_word_plain : forall first r rest,
    forallb plain_rest r = true -> tail_ok rest ->
    lex_word first (r ++ rest) = Some (TWord (first ++ r) None, rest).
  Proof.
    intros. unfold Idents.lex_word. rewrite take_while_plain; auto.
  Qed.

  (* an unquoted (plain) non-empty part, followed by end-of-text or '.', is one Word token *)
  Lemma next_token_plain : forall c r rest prev,
    plain_first c = true -> forallb plain_rest r = true -> tail_ok rest ->
    next_token (c :: r ++ rest) prev = Some (TWord (c :: r) None, rest).
  Proof.
    intros c r rest prev Hc Hr Ht.
    assert (Hq39 : hd_is 39 (r ++ rest) = false) by (apply hd_is_app_plain; auto; discriminate).
    assert (Hq34 : hd_is 34 (r ++ rest) = false) by (apply hd_is_app_plain; auto; discriminate).
    assert (Hq38 : hd_is 38 (r ++ rest) = false) by (apply hd_is_app_plain; auto; discriminate).
    assert (Hw : lex_word [c] (r ++ rest) = Some (TWord (c :: r) None, rest))
      by (apply (lex_word_plain [c]); auto).
    pose proof (plain_first_cases _ Hc) as Hcc.
    unfold Idents.next_token.
    assert (one_of [32; 9; 10] c = false) as -> by not_one_of.
    assert (c =? 13 = false) as -> by (apply N.eqb_neq; lia).
    rewrite Hq39, Hq34, Hq38. simpl orb. simpl andb.
    destruct (one_of [66; 98; 82; 114] c); [exact Hw |].
    destruct (one_of [78; 110] c).
    { destruct r as [| d r0].
      - simpl app in *. destruct rest as [| e rest0]; [exact Hw |].
        simpl in Ht. subst e.
        assert (one_of [113; 81] 46 = false) as -> by reflexivity. exact Hw.
      - simpl app. simpl in Hr. apply andb_true_iff in Hr. destruct Hr as [Hd Hr0].
        destruct (one_of [113; 81] d); [| exact Hw].
        assert (hd_is 39 (r0 ++ rest) = false) as ->
          by (apply hd_is_app_plain; auto; discriminate).
        rewrite (lex_word_plain [c; d]); auto. }
    destruct (one_of [81; 113; 69; 101; 88; 120] c); [exact Hw |].
    destruct (one_of [85; 117] c); [exact Hw |].
    assert (c =? 39 = false) as -> by (apply N.eqb_neq; lia).
    assert (c =? 34 = false) as -> by (apply N.eqb_neq; lia).
    assert (c =? 96 = false) as -> by (apply N.eqb_neq; lia).
    simpl orb.
    assert (is_digit c = false) as -> by bfalse.
    assert (c =? 46 = false) as -> by (apply N.eqb_neq; lia).
    assert (one_of [45; 47; 35; 64] c = false) as -> by not_one_of.
    rewrite (plain_first_ident_start _ Hc). exact Hw.
  Qed.

  Lemma quoted_ident_escape : forall p rest,
    hd_is 34 rest = false ->
    quoted_ident 34 (escape_dq p ++ 34 :: rest) = Some (p, rest).
  Proof.
    induction p as [| c p IH]; intros rest Hr.
    - simpl. destruct rest as [| d rest]; [reflexivity |].
      simpl in Hr. rewrite Hr. reflexivity.
    - simpl escape_dq. destruct (c =? 34) eqn:Ec.
      + apply N.eqb_eq in Ec. subst c.
        change (quoted_ident 34 ((34 :: 34 :: escape_dq p) ++ 34 :: rest))
          with (match quoted_ident 34 (escape_dq p ++ 34 :: rest) with
                | Some (v, rest0) => Some (34 :: v, rest0) | None => None end).
        rewrite (IH rest Hr). reflexivity.
      + change (quoted_ident 34 ((c :: escape_dq p) ++ 34 :: rest))
          with (if c =? 34
                then match escape_dq p ++ 34 :: rest with
                     | d :: r' =>
                         if d =? 34
                         then match quoted_ident 34 r' with
                              | Some (v, rest0) => Some (34 :: v, rest0) | None => None end
                         else Some ([], escape_dq p ++ 34 :: rest)
                     | [] => Some ([], [])
                     end
                else match quoted_ident 34 (escape_dq p ++ 34 :: rest) with
                     | Some (v, rest0) => Some (c :: v, rest0) | None => None end).
        rewrite Ec, (IH rest Hr). reflexivity.
  Qed.

  Lemma next_token_dq : forall r prev,
    next_token (34 :: r) prev =
    match quoted_ident 34 r with Some (v, rest) => Some (TWord v (Some 34), rest) | None => None end.
  Proof. reflexivity. Qed.

  Lemma tail_ok_hd34 : forall rest, tail_ok rest -> hd_is 34 rest = false.
  Proof. destruct rest as [| d rest]; simpl; intros H; [reflexivity | subst d; reflexivity]. Qed.

  (* a quoted part is one Word token carrying the original string *)
  Lemma next_token_quoted : forall p rest prev,
    tail_ok rest ->
    next_token ((34 :: escape_dq p ++ [34]) ++ rest) prev = Some (TWord p (Some 34), rest).
  Proof.
    intros p rest prev Ht.
    replace ((34 :: escape_dq p ++ [34]) ++ rest) with (34 :: (escape_dq p ++ 34 :: rest))
      by (simpl; rewrite <- app_assoc; reflexivity).
    rewrite next_token_dq, quoted_ident_escape; [reflexivity | apply tail_ok_hd34; exact Ht].
  Qed.

  Lemma next_token_part : forall p rest prev,
    nonempty p = true -> tail_ok rest ->
    next_token (quote_identifier p ++ rest) prev = Some (TWord p (qstyle p), rest).
  Proof.
    intros p rest prev Hp Ht. unfold quote_identifier, qstyle.
    destruct (needs_quotes p) eqn:E.
    - apply next_token_quoted. exact Ht.
    - destruct p as [| c r]; [discriminate |].
      apply needs_quotes_false_inv in E. destruct E as [E1 E2].
      simpl app. apply next_token_plain; auto.
  Qed.

  Definition hd_digit (s : str) : bool := match s with d :: _ => is_digit d | [] => false end.

  Lemma next_token_dot : forall r prev,
    next_token (46 :: r) prev =
    if hd_is 95 r
    then match prev with Some (TWord _ _) => Some (TPeriod, r) | _ => None end
    else let (ds, rest) := take_while is_digit r in
         match ds with [] => Some (TPeriod, rest) | _ => None end.
  Proof. reflexivity. Qed.

  (* a '.' that follows a Word and is not followed by a digit is a Period token *)
  Lemma next_token_period : forall r v q,
    hd_digit r = false -> next_token (46 :: r) (Some (TWord v q)) = Some (TPeriod, r).
  Proof.
    intros r v q H. rewrite next_token_dot. destruct (hd_is 95 r); [reflexivity |].
    destruct r as [| d r]; [reflexivity |]. simpl in H. simpl. rewrite H. reflexivity.
  Qed.

  Lemma hd_digit_part : forall p rest, nonempty p = true -> hd_digit (quote_identifier p ++ rest) = false.
  Proof.
    intros p rest Hp. unfold quote_identifier. destruct (needs_quotes p) eqn:E; [reflexivity |].
    destruct p as [| c r]; [discriminate |].
    apply needs_quotes_false_inv in E. destruct E as [E _].
    simpl. apply plain_first_cases in E. bfalse.
  Qed.

  Lemma tokenize_S : forall f c s prev,
    tokenize (S f) (c :: s) prev =
    match next_token (c :: s) prev with
    | None => None
    | Some (t, rest) =>
        match tokenize f rest (Some t) with Some ts => Some (t :: ts) | None => None end
    end.
  Proof. reflexivity. Qed.

  Definition tail_tokens (ps : list str) : list token :=
    flat_map (fun p => [TPeriod; TWord p (qstyle p)]) ps.

  Lemma tokenize_S' : forall f s prev,
    nonempty s = true ->
    tokenize (S f) s prev =
    match next_token s prev with
    | None => None
    | Some (t, rest) =>
        match tokenize f rest (Some t) with Some ts => Some (t :: ts) | None => None end
    end.
  Proof. intros f s prev H. destruct s; [discriminate | reflexivity]. Qed.

  Lemma nonempty_app_l : forall (a b : str), nonempty a = true -> nonempty (a ++ b) = true.
  Proof. destruct a; [discriminate | reflexivity]. Qed.

  Lemma nonempty_length : forall (a : str), nonempty a = true -> (1 <= length a)%nat.
  Proof. destruct a; [discriminate | simpl; lia]. Qed.

  Lemma tokenize_tail : forall ps,
    forallb nonempty ps = true ->
    forall fuel v q, (length (print_tail ps) <= fuel)%nat ->
    tokenize fuel (print_tail ps) (Some (TWord v q)) = Some (tail_tokens ps).
  Proof.
    induction ps as [| p ps IH]; intros Hne fuel v q Hf.
    - destruct fuel; reflexivity.
    - simpl in Hne. apply andb_true_iff in Hne. destruct Hne as [Hp Hps].
      change (print_tail (p :: ps)) with (46 :: quote_identifier p ++ print_tail ps) in *.
      pose proof (nonempty_length _ (quote_identifier_nonempty p Hp)) as Hq.
      simpl length in Hf. rewrite app_length in Hf.
      destruct fuel as [| [| f]]; [lia | lia |].
      rewrite tokenize_S.
      rewrite next_token_period by (apply hd_digit_part; exact Hp).
      rewrite tokenize_S' by (apply nonempty_app_l, quote_identifier_nonempty; exact Hp).
      rewrite next_token_part by (auto using tail_ok_print_tail).
      rewrite (IH Hps f p (qstyle p)) by lia. reflexivity.
  Qed.

  Lemma tokenize_parts : forall p ps fuel,
    forallb nonempty (p :: ps) = true ->
    (length (print_parts (p :: ps)) <= fuel)%nat ->
    tokenize fuel (print_parts (p :: ps)) None = Some (TWord p (qstyle p) :: tail_tokens ps).
  Proof.
    intros p ps fuel Hne Hf. simpl in Hne. apply andb_true_iff in Hne. destruct Hne as [Hp Hps].
    change (print_parts (p :: ps)) with (quote_identifier p ++ print_tail ps) in *.
    pose proof (nonempty_length _ (quote_identifier_nonempty p Hp)) as Hq.
    rewrite app_length in Hf.
    destruct fuel as [| f]; [lia |].
    rewrite tokenize_S' by (apply nonempty_app_l, quote_identifier_nonempty; exact Hp).
    rewrite next_token_part by (auto using tail_ok_print_tail).
    rewrite (tokenize_tail ps Hps f p (qstyle p)) by lia. reflexivity.
  Qed.

  Lemma filter_tail_tokens : forall ps, filter not_space (tail_tokens ps) = tail_tokens ps.
  Proof. induction ps as [| p ps IH]; simpl; [reflexivity | rewrite IH; reflexivity]. Qed.

  Lemma parse_more_tail : forall ps, parse_more (tail_tokens ps) = Some (map (fun p => (p, qstyle p)) ps).
  Proof. induction ps as [| p ps IH]; simpl; [reflexivity | rewrite IH; reflexivity]. Qed.

  Lemma parse_identifiers_print : forall ps,
    ps <> [] -> forallb nonempty ps = true ->
    parse_identifiers (print_parts ps) = Some (map (fun p => (p, qstyle p)) ps).
  Proof.
    intros ps Hnil Hne. destruct ps as [| p ps]; [congruence |].
    unfold Idents.parse_identifiers. rewrite tokenize_parts by (auto; lia).
    unfold parse_multipart. simpl filter. rewrite filter_tail_tokens, parse_more_tail. reflexivity.
  Qed.

  Lemma normalize_qstyle : forall ic p, normalize ic (p, qstyle p) = p.
  Proof.
    intros ic p. unfold normalize, qstyle. simpl. destruct (needs_quotes p) eqn:E; simpl; [reflexivity |].
    destruct ic; [reflexivity |]. apply lower_plain, needs_quotes_false_all. exact E.
  Qed.

  (* the heart of C52: for ANY non-empty list of non-empty strings, printing the parts quoted and
     joined by '.', then tokenizing + parsing + normalizing, gives the parts back *)
  Lemma pin_print : forall ps ic,
    ps <> [] -> forallb nonempty ps = true -> pin (print_parts ps) ic = ps.
  Proof.
    intros ps ic Hnil Hne. unfold Idents.parse_identifiers_normalized.
    rewrite parse_identifiers_print by auto. rewrite map_map.
    rewrite (map_ext _ (fun p => p)) by (intros; apply normalize_qstyle). apply map_id.
  Qed.

  Lemma from_vec_to_vec : forall r, from_vec (to_vec r) = Some r.
  Proof. destruct r; reflexivity. Qed.

  Lemma ref_ok_parts : forall r, ref_ok r = true ->
    (r = Bare []) \/ forallb nonempty (to_vec r) = true.
  Proof.
    destruct r as [t | s t | c s t]; simpl; intros H.
    - destruct t; [left; reflexivity | right; reflexivity].
    - apply andb_true_iff in H. destruct H as [H1 H2]. right. simpl. rewrite H1, H2. reflexivity.
    - apply andb_true_iff in H. destruct H as [H H3]. apply andb_true_iff in H. destruct H as [H1 H2].
      right. simpl. rewrite H1, H2, H3. reflexivity.
  Qed.

  Lemma to_vec_not_nil : forall r, to_vec r <> [].
  Proof. destruct r; discriminate. Qed.

  Theorem table_ref_roundtrip : forall r ic,
    ref_ok r = true -> parse_str_normalized (to_quoted_string r) ic = r.
  Proof.
    intros r ic H. apply ref_ok_parts in H. destruct H as [-> | H].
    - reflexivity.
    - unfold Idents.parse_str_normalized. rewrite to_quoted_string_parts.
      rewrite pin_print by (auto using to_vec_not_nil). rewrite from_vec_to_vec. reflexivity.
  Qed.

  Lemma print_parts_snoc : forall ps n, ps <> [] ->
    print_parts (ps ++ [n]) = print_parts ps ++ 46 :: quote_identifier n.
  Proof.
    intros ps n H. destruct ps as [| p ps]; [congruence |].
    simpl. rewrite print_tail_app. simpl. rewrite app_nil_r, app_assoc. reflexivity.
  Qed.

  Lemma from_idents_snoc : forall r n, from_idents (to_vec r ++ [n]) = Some (mkcol (Some r) n).
  Proof. destruct r; reflexivity. Qed.

  Theorem column_roundtrip : forall c ic,
    col_ok c = true -> from_qualified_name_ic (quoted_flat_name c) ic = c.
  Proof.
    intros [rel n] ic H. unfold col_ok in H. simpl in H.
    unfold Idents.from_qualified_name_ic, quoted_flat_name. simpl.
    destruct rel as [r |].
    - apply andb_true_iff in H. destruct H as [Hr Hn].
      rewrite to_quoted_string_parts.
      rewrite <- (print_parts_snoc (to_vec r) n (to_vec_not_nil r)).
      rewrite pin_print.
      + rewrite from_idents_snoc. reflexivity.
      + intros E. apply app_eq_nil in E. destruct E; discriminate.
      + rewrite forallb_app, Hr. simpl. rewrite Hn. reflexivity.
    - destruct n as [| x n].
      + reflexivity.
      + rewrite <- print_parts_single.
        rewrite pin_print by (discriminate || reflexivity). reflexivity.
  Qed.

  (* distinct (well-formed) references never print to the same text *)
  Theorem to_quoted_string_injective : forall r1 r2,
    ref_ok r1 = true -> ref_ok r2 = true -> to_quoted_string r1 = to_quoted_string r2 -> r1 = r2.
  Proof.
    intros r1 r2 H1 H2 E.
    rewrite <- (table_ref_roundtrip r1 false H1), <- (table_ref_roundtrip r2 false H2), E. reflexivity.
  Qed.

  (* quote_identifier leaves a string unquoted only if that text parses back to exactly it *)
  Theorem unquoted_is_safe : forall p,
    nonempty p = true -> needs_quotes p = false ->
    quote_identifier p = p /\ pin p false = [p].
  Proof.
    intros p Hp Hq. assert (E : quote_identifier p = p) by (unfold quote_identifier; rewrite Hq; reflexivity).
    split; [exact E |]. rewrite <- E at 1. rewrite <- print_parts_single.
    apply pin_print; [discriminate | simpl; rewrite Hp; reflexivity].
  Qed.

  (* when no part needs quotes, the unquoted Display form is the quoted form (so it round-trips too) *)
  Lemma display_plain : forall r,
    forallb (fun p => negb (needs_quotes p)) (to_vec r) = true -> display r = to_quoted_string r.
  Proof.
    assert (Q : forall p, negb (needs_quotes p) = true -> quote_identifier p = p).
    { intros p H. apply negb_true_iff in H. unfold quote_identifier. rewrite H. reflexivity. }
    destruct r; simpl; intros H;
      repeat (apply andb_true_iff in H; destruct H as [? H]);
      rewrite ?Q by assumption; reflexivity.
  Qed.

  Theorem flat_name_plain : forall c ic,
    col_plain c = true -> col_ok c = true ->
    flat_name c = quoted_flat_name c /\ from_qualified_name_ic (flat_name c) ic = c.
  Proof.
    intros c ic Hp Hok.
    assert (E : flat_name c = quoted_flat_name c).
    { destruct c as [rel n]. unfold col_plain in Hp. unfold flat_name, quoted_flat_name. simpl in *.
      destruct rel as [r |].
      - apply andb_true_iff in Hp. destruct Hp as [Hr Hn].
        rewrite (display_plain r Hr). apply negb_true_iff in Hn.
        assert (quote_identifier n = n) as -> by (unfold quote_identifier; rewrite Hn; reflexivity).
        reflexivity.
      - apply negb_true_iff in Hp. unfold quote_identifier. rewrite Hp. reflexivity. }
    split; [exact E |]. rewrite E. apply column_roundtrip. exact Hok.
  Qed.

  (* ---------------------------------------------------------------- fuel never runs out *)
  Lemma take_while_length : forall p s, (length (snd (take_while p s)) <= length s)%nat.
  Proof.
    induction s as [| c s IH]; simpl; [lia |].
    destruct (p c); simpl; [| lia]. destruct (take_while p s); simpl in *. lia.
  Qed.

  Lemma lex_word_shorter : forall first r t rest,
    lex_word first r = Some (t, rest) -> (length rest <= length r)%nat.
  Proof.
    intros first r t rest H. unfold Idents.lex_word in H.
    pose proof (take_while_length is_ident_part r) as L.
    destruct (take_while is_ident_part r). injection H as _ <-. exact L.
  Qed.

  Lemma quoted_ident_shorter : forall q s v rest,
    quoted_ident q s = Some (v, rest) -> (length rest < length s)%nat.
  Proof.
    intros q s. remember (length s) as n eqn:Hn. revert s Hn.
    induction n as [n IH] using lt_wf_ind. intros s Hn v rest H.
    destruct s as [| c r]; [discriminate |]. simpl in H, Hn.
    destruct (c =? q).
    - destruct r as [| d r'].
      + injection H as _ <-. simpl. lia.
      + destruct (d =? q).
        * destruct (quoted_ident q r') as [[v0 rest0] |] eqn:E; [| discriminate].
          injection H as _ <-. apply (IH (length r')) in E; simpl in *; subst; auto; lia.
        * injection H as _ <-. subst. simpl. lia.
    - destruct (quoted_ident q r) as [[v0 rest0] |] eqn:E; [| discriminate].
      injection H as _ <-. apply (IH (length r)) in E; subst; auto; lia.
  Qed.

  Lemma tl_length : forall (s : str), (length (tl s) <= length s)%nat.
  Proof. destruct s; simpl; lia. Qed.

  Lemma next_token_shorter : forall s prev t rest,
    next_token s prev = Some (t, rest) -> (length rest < length s)%nat.
  Proof.
    intros s prev t rest H. destruct s as [| c r]; [discriminate |].
    unfold Idents.next_token in H. simpl length.
    assert (W : forall first r0, lex_word first r0 = Some (t, rest) ->
                                 (length r0 <= length r)%nat -> (length rest < S (length r))%nat).
    { intros first r0 E L. apply lex_word_shorter in E. lia. }
    pose proof (tl_length r) as Ltl.
    destruct (one_of [32; 9; 10] c). { injection H as <- <-. lia. }
    destruct (c =? 13). { injection H as <- <-. destruct (hd_is 10 r); lia. }
    destruct (one_of [66; 98; 82; 114] c).
    { destruct (hd_is 39 r || hd_is 34 r); [discriminate |]. eapply W; [eassumption | lia]. }
    destruct (one_of [78; 110] c).
    { destruct (hd_is 39 r); [discriminate |].
      destruct r as [| d r']; [eapply W; [eassumption | lia] |].
      destruct (one_of [113; 81] d).
      - destruct (hd_is 39 r'); [discriminate |]. eapply W; [eassumption | simpl; lia].
      - eapply W; [eassumption | lia]. }
    destruct (one_of [81; 113; 69; 101; 88; 120] c).
    { destruct (hd_is 39 r); [discriminate |]. eapply W; [eassumption | lia]. }
    destruct (one_of [85; 117] c).
    { destruct (hd_is 38 r && hd_is 39 (tl r)); [discriminate |]. eapply W; [eassumption | lia]. }
    destruct (c =? 39); [discriminate |].
    destruct ((c =? 34) || (c =? 96)).
    { destruct (quoted_ident c r) as [[v rest0] |] eqn:E; [| discriminate].
      injection H as <- <-. apply quoted_ident_shorter in E. lia. }
    destruct (is_digit c); [discriminate |].
    destruct (c =? 46).
    { destruct (hd_is 95 r).
      - destruct prev as [[| |] |]; try discriminate. injection H as <- <-. lia.
      - pose proof (take_while_length is_digit r) as L.
        destruct (take_while is_digit r) as [ds rest0]. destruct ds; [| discriminate].
        injection H as <- <-. simpl in L. lia. }
    destruct (one_of [45; 47; 35; 64] c); [discriminate |].
    destruct (is_ident_start c). { eapply W; [eassumption | lia]. }
    destruct (is_whitespace us c); [| discriminate]. injection H as <- <-. lia.
  Qed.

  (* the result of [tokenize] does not depend on the fuel once it is at least the input length:
     the [None] of fuel exhaustion is never what parse_identifiers sees *)
  Theorem tokenize_fuel_irrelevant : forall f1 f2 s prev,
    (length s <= f1)%nat -> (length s <= f2)%nat -> tokenize f1 s prev = tokenize f2 s prev.
  Proof.
    induction f1 as [| f1 IH]; intros f2 s prev H1 H2.
    - destruct s; [destruct f2; reflexivity | simpl in H1; lia].
    - destruct s as [| c r]; [destruct f2; reflexivity |].
      destruct f2 as [| f2]; [simpl in H2; lia |].
      rewrite !tokenize_S. destruct (next_token (c :: r) prev) as [[t rest] |] eqn:E; [| reflexivity].
      apply next_token_shorter in E. simpl in *.
      rewrite (IH f2 rest (Some t)) by lia. reflexivity.
  Qed.
End TokenizerProofs.

(* ------------------------------------------------------------------ the side condition is needed *)
(* Faithful model, empty part in a 2/3-part reference: the text does not parse back.
   (Replayed on the implementation by the harness: same behaviour.) *)
Lemma empty_part_refuted : forall ua us,
  parse_str ua us (to_quoted_string (Partial [] [116])) = Bare [46; 116] /\
  parse_str ua us (to_quoted_string (Partial [116] [])) = Bare [116; 46] /\
  parse_str ua us (to_quoted_string (Full [99] [] [116])) = Bare [99; 46; 46; 116] /\
  from_qualified_name ua us (quoted_flat_name (mkcol (Some (Bare [])) [120])) = mkcol None [46; 120].
Proof. intros. repeat split. Qed.

(* ------------------------------------------------------------------ fallback parser (no sql feature) *)
Lemma plain_not_dq_dot : forall d, plain_rest d = true -> (d =? 34) = false /\ (d =? 46) = false.
Proof.
  intros d H. apply plain_rest_cases in H. split; apply N.eqb_neq; lia.
Qed.

Lemma split_ns_plain : forall r rest inq cur acc,
  forallb plain_rest r = true ->
  split_ns (r ++ rest) inq cur acc = split_ns rest inq (rev r ++ cur) acc.
Proof.
  induction r as [| d r IH]; intros rest inq cur acc H; [reflexivity |].
  simpl in H. apply andb_true_iff in H. destruct H as [Hd Hr].
  destruct (plain_not_dq_dot d Hd) as [E1 E2].
  simpl. rewrite E1, E2. simpl. rewrite (IH rest inq (d :: cur) acc Hr), <- app_assoc. reflexivity.
Qed.

Lemma split_ns_escaped : forall p rest cur acc,
  split_ns (escape_dq p ++ rest) true cur acc = split_ns rest true (rev (escape_dq p) ++ cur) acc.
Proof.
  induction p as [| c p IH]; intros rest cur acc; [reflexivity |].
  simpl escape_dq. destruct (c =? 34) eqn:Ec.
  - apply N.eqb_eq in Ec. subst c.
    change (split_ns ((34 :: 34 :: escape_dq p) ++ rest) true cur acc)
      with (split_ns (escape_dq p ++ rest) true (34 :: 34 :: cur) acc).
    rewrite IH. simpl. rewrite <- !app_assoc. reflexivity.
  - simpl. rewrite Ec. rewrite andb_false_r. rewrite IH, <- app_assoc. reflexivity.
Qed.

Lemma split_ns_part : forall p rest cur acc,
  split_ns (quote_identifier p ++ rest) false cur acc =
  split_ns rest false (rev (quote_identifier p) ++ cur) acc.
Proof.
  intros p rest cur acc. unfold quote_identifier. destruct (needs_quotes p) eqn:E.
  - replace ((34 :: escape_dq p ++ [34]) ++ rest) with (34 :: (escape_dq p ++ 34 :: rest))
      by (simpl; rewrite <- app_assoc; reflexivity).
    change (split_ns (34 :: (escape_dq p ++ 34 :: rest)) false cur acc)
      with (split_ns (escape_dq p ++ 34 :: rest) true (34 :: cur) acc).
    rewrite split_ns_escaped.
    change (split_ns (34 :: rest) true (rev (escape_dq p) ++ 34 :: cur) acc)
      with (split_ns rest false (34 :: rev (escape_dq p) ++ 34 :: cur) acc).
    f_equal. simpl. rewrite rev_app_distr. simpl. rewrite <- app_assoc. reflexivity.
  - apply split_ns_plain, needs_quotes_false_all. exact E.
Qed.

Lemma split_ns_dot : forall rest cur acc,
  split_ns (46 :: rest) false cur acc = split_ns rest false [] (rev cur :: acc).
Proof. reflexivity. Qed.

Lemma split_ns_end : forall cur acc,
  nonempty cur = true -> split_ns [] false cur acc = rev acc ++ [rev cur].
Proof. intros cur acc H. destruct cur; [discriminate | reflexivity]. Qed.

Lemma nonempty_rev : forall (s : str), nonempty s = true -> nonempty (rev s) = true.
Proof.
  intros s H. destruct s as [| c s]; [discriminate |]. simpl.
  destruct (rev s ++ [c]) eqn:E; [apply app_eq_nil in E; destruct E; discriminate | reflexivity].
Qed.

Lemma split_ns_print : forall ps p acc,
  nonempty (last (p :: ps) []) = true ->
  split_ns (quote_identifier p ++ print_tail ps) false [] acc = rev acc ++ map quote_identifier (p :: ps).
Proof.
  induction ps as [| p' ps IH]; intros p acc H.
  - simpl in H. change (print_tail []) with (@nil N). rewrite split_ns_part. rewrite !app_nil_r.
    rewrite split_ns_end by (apply nonempty_rev, quote_identifier_nonempty; exact H).
    rewrite rev_involutive. reflexivity.
  - change (print_tail (p' :: ps)) with (46 :: quote_identifier p' ++ print_tail ps).
    rewrite split_ns_part, app_nil_r, split_ns_dot, rev_involutive.
    rewrite IH by exact H. simpl. rewrite <- app_assoc. reflexivity.
Qed.

Lemma unescape_escape : forall p, unescape_dq (escape_dq p) = p.
Proof.
  induction p as [| c p IH]; [reflexivity |].
  simpl escape_dq. destruct (c =? 34) eqn:Ec.
  - apply N.eqb_eq in Ec. subst c. simpl. rewrite IH. reflexivity.
  - change (unescape_dq (c :: escape_dq p))
      with (match escape_dq p with
            | d :: r' => if (c =? 34) && (d =? 34) then 34 :: unescape_dq r' else c :: unescape_dq (escape_dq p)
            | [] => [c] end).
    destruct (escape_dq p) as [| d r'] eqn:E.
    + simpl in IH. subst p. reflexivity.
    + rewrite Ec. simpl andb. cbv iota. rewrite IH. reflexivity.
Qed.

Lemma utf8_len_ge : forall s, N.of_nat (length s) <= utf8_len s.
Proof.
  induction s as [| c s IH]; [simpl; lia |].
  change (utf8_len (c :: s)) with (utf8_len1 c + utf8_len s).
  assert (1 <= utf8_len1 c) by (unfold utf8_len1; repeat destruct (_ <? _); lia).
  simpl length. lia.
Qed.

Lemma escape_dq_length : forall p, (length p <= length (escape_dq p))%nat.
Proof.
  induction p as [| c p IH]; simpl; [lia |]. destruct (c =? 34); simpl; lia.
Qed.

Lemma last_is_snoc : forall q l, last_is q (l ++ [q]) = true.
Proof.
  intros q l. unfold last_is. destruct (l ++ [q]) eqn:E.
  - apply app_eq_nil in E. destruct E; discriminate.
  - rewrite <- E, last_last. apply N.eqb_refl.
Qed.

Lemma normalize_ns_quote : forall ic p, normalize_ns ic (quote_identifier p) = p.
Proof.
  intros ic p. unfold normalize_ns, quote_identifier. destruct (needs_quotes p) eqn:E.
  - assert (Hp : (1 <= length p)%nat) by (destruct p; [discriminate | simpl; lia]).
    assert (D : is_double_quoted (34 :: escape_dq p ++ [34]) = true).
    { unfold is_double_quoted.
      assert (2 <? utf8_len (34 :: escape_dq p ++ [34]) = true) as ->.
      { apply N.ltb_lt. pose proof (utf8_len_ge (34 :: escape_dq p ++ [34])) as L.
        simpl length in L. rewrite app_length in L. simpl length in L.
        pose proof (escape_dq_length p). lia. }
      simpl tl. rewrite last_is_snoc. reflexivity. }
    rewrite D. simpl tl. rewrite removelast_last. apply unescape_escape.
  - assert (D : is_double_quoted p = false).
    { unfold is_double_quoted. destruct (2 <? utf8_len p); [| reflexivity].
      destruct p as [| c r]; [reflexivity |].
      apply needs_quotes_false_inv in E. destruct E as [E _].
      apply plain_first_cases in E. simpl hd_is.
      assert (c =? 34 = false) as -> by (apply N.eqb_neq; lia). reflexivity. }
    rewrite D. destruct ic; [reflexivity |]. apply lower_plain, needs_quotes_false_all. exact E.
Qed.

Lemma pin_ns_print : forall ps ic,
  nonempty (last ps []) = true -> parse_identifiers_normalized_ns (print_parts ps) ic = ps.
Proof.
  intros ps ic H. destruct ps as [| p ps]; [discriminate |].
  unfold parse_identifiers_normalized_ns, parse_identifiers_ns. simpl print_parts.
  rewrite split_ns_print by exact H.
  change (rev (@nil str) ++ map quote_identifier (p :: ps)) with (map quote_identifier (p :: ps)).
  rewrite map_map. rewrite (map_ext _ (fun p => p)) by (intros; apply normalize_ns_quote). apply map_id.
Qed.

Lemma ref_ok_ns_parts : forall r, ref_ok_ns r = true ->
  r = Bare [] \/ nonempty (last (to_vec r) []) = true.
Proof.
  destruct r as [t | s t | c s t]; simpl; intros H.
  - destruct t; [left; reflexivity | right; reflexivity].
  - right. exact H.
  - right. exact H.
Qed.

Theorem ns_table_ref_roundtrip : forall r ic,
  ref_ok_ns r = true -> parse_str_normalized_ns (to_quoted_string r) ic = r.
Proof.
  intros r ic H. apply ref_ok_ns_parts in H. destruct H as [-> | H].
  - reflexivity.
  - unfold parse_str_normalized_ns. rewrite to_quoted_string_parts, pin_ns_print by exact H.
    destruct r; reflexivity.
Qed.

Lemma print_parts_snoc' : forall ps n, ps <> [] ->
  print_parts (ps ++ [n]) = print_parts ps ++ 46 :: quote_identifier n.
Proof.
  intros ps n H. destruct ps as [| p ps]; [congruence |].
  simpl. rewrite print_tail_app. simpl. rewrite app_nil_r, app_assoc. reflexivity.
Qed.

Theorem ns_column_roundtrip : forall c,
  col_ok_ns c = true -> from_qualified_name_ns (quoted_flat_name c) = c.
Proof.
  intros [rel n] H. unfold col_ok_ns in H. simpl in H.
  unfold from_qualified_name_ns, quoted_flat_name. simpl.
  destruct rel as [r |].
  - rewrite to_quoted_string_parts.
    rewrite <- (print_parts_snoc' (to_vec r) n) by (destruct r; discriminate).
    rewrite pin_ns_print by (rewrite last_last; exact H).
    destruct r; reflexivity.
  - destruct n as [| x n]; [reflexivity |].
    rewrite <- print_parts_single. rewrite pin_ns_print by reflexivity. reflexivity.
Qed.

(* the fallback parser silently DROPS a trailing empty part: the text resolves to a different,
   well-formed reference *)
Lemma ns_empty_last_refuted :
  parse_str_ns (to_quoted_string (Partial [116] [])) = Bare [116] /\
  parse_str_ns (to_quoted_string (Full [99] [115] [])) = Partial [99] [115] /\
  from_qualified_name_ns (quoted_flat_name (mkcol (Some (Bare [116])) [])) = mkcol None [116] /\
  (* but empty leading / middle parts are fine for this parser *)
  parse_str_ns (to_quoted_string (Full [] [] [116])) = Full [] [] [116].
Proof. repeat split. Qed.
