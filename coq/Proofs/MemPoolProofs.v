(* C17 -- proofs about Model/MemPool.v: exact accounting, refusals change nothing, limits, fair share,
   consumer tracking, peak recording; all by induction over arbitrary operation histories. *)
From Coq Require Import List NArith Bool Lia.
From DF Require Import Base.Prelude Model.MemPool.
Import ListNotations.
Open Scope N_scope.

Ltac destr_eqb :=
  repeat match goal with
  | |- context [?a =? ?b] => destruct (N.eqb_spec a b)
  | H : context [?a =? ?b] |- _ => destruct (N.eqb_spec a b)
  end.

(* ------------------------------------------------------------------ sums over reservations *)
Lemma wsum_app g a b : wsum g (a ++ b) = wsum g a + wsum g b.
Proof.
  unfold wsum. induction a as [|x a IH]; cbn [app fold_right]; [lia|].
  rewrite IH. destruct (g (r_cid x) (r_spill x)); lia.
Qed.

Lemma wsum_cons g x a :
  wsum g (x :: a) = (if g (r_cid x) (r_spill x) then r_size x else 0) + wsum g a.
Proof. unfold wsum. cbn [fold_right]. destruct (g (r_cid x) (r_spill x)); lia. Qed.

Lemma wsum_nil g : wsum g [] = 0.
Proof. reflexivity. Qed.

Lemma wsum_split rs : wsum g_spillable rs + wsum g_unspillable rs = wsum g_all rs.
Proof.
  induction rs as [|x rs IH]; [reflexivity|].
  rewrite !wsum_cons. unfold g_spillable, g_unspillable, g_all in *. destruct (r_spill x); cbn [negb]; lia.
Qed.

Lemma wsum_le_all g rs : wsum g rs <= wsum g_all rs.
Proof.
  induction rs as [|x rs IH]; [reflexivity|].
  rewrite !wsum_cons. unfold g_all at 1. destruct (g (r_cid x) (r_spill x)); lia.
Qed.

(* the shape of the list around the (first) reservation with a given id *)
Lemma find_split rid rs r :
  find_resv rid rs = Some r ->
  exists l1 l2, rs = l1 ++ r :: l2 /\ r_id r = rid /\
    (forall z, set_size rid z rs = l1 ++ mkResv (r_id r) (r_cid r) (r_spill r) z :: l2) /\
    remove_resv rid rs = l1 ++ l2.
Proof.
  induction rs as [|x rs IH]; cbn [find_resv set_size remove_resv]; [discriminate|].
  destruct (N.eqb_spec (r_id x) rid) as [E|E]; intros H.
  - inversion H; subst x. exists [], rs. cbn [app]. repeat split; auto.
  - destruct (IH H) as (l1 & l2 & -> & Hid & Hs & Hr).
    exists (x :: l1), l2. cbn [app]. repeat split; auto.
    + intros z. now rewrite Hs.
    + now rewrite Hr.
Qed.

Lemma find_none_notin rid rs : find_resv rid rs = None -> ~ In rid (map r_id rs).
Proof.
  induction rs as [|x rs IH]; cbn [find_resv map In]; [tauto|].
  destruct (N.eqb_spec (r_id x) rid); [discriminate|]. intros H [E|E]; [contradiction|]. now apply IH.
Qed.

Definition gsel (g : N -> bool -> bool) (r : resv) (v : N) : N := if g (r_cid r) (r_spill r) then v else 0.

Lemma wsum_set_size g rid z rs r :
  find_resv rid rs = Some r ->
  wsum g (set_size rid z rs) + gsel g r (r_size r) = wsum g rs + gsel g r z.
Proof.
  intros H. destruct (find_split _ _ _ H) as (l1 & l2 & -> & _ & Hs & _).
  rewrite Hs, !wsum_app, !wsum_cons. unfold gsel. cbn [r_cid r_spill r_size].
  destruct (g (r_cid r) (r_spill r)); lia.
Qed.

Lemma wsum_remove g rid rs r :
  find_resv rid rs = Some r ->
  wsum g (remove_resv rid rs) + gsel g r (r_size r) = wsum g rs.
Proof.
  intros H. destruct (find_split _ _ _ H) as (l1 & l2 & -> & _ & _ & Hr).
  rewrite Hr, !wsum_app, !wsum_cons. unfold gsel. destruct (g (r_cid r) (r_spill r)); lia.
Qed.

Lemma wsum_ge_size g rid rs r :
  find_resv rid rs = Some r -> gsel g r (r_size r) <= wsum g rs.
Proof. intros H. pose proof (wsum_remove g _ _ _ H). lia. Qed.

(* ------------------------------------------------------------------ the pool invariant *)
Definition keys (cs : list creg) : list (N * bool) := map (fun c => (g_id c, g_spill c)) cs.
Definition trk_ok (rs : list resv) (e : trk) : Prop :=
  t_res e = wsum (g_cid (t_cid e)) rs /\ t_res e <= t_peak e.

Fixpoint pool_ok (p : pool) (ks : list (N * bool)) (rs : list resv) : Prop :=
  match p with
  | PUnbounded u => u = wsum g_all rs
  | PGreedy _ u => u = wsum g_all rs
  | PFair _ ns sp un =>
      ns = N.of_nat (length (filter snd ks)) /\ sp = wsum g_spillable rs /\ un = wsum g_unspillable rs
  | PTrack i t => pool_ok i ks rs /\ map t_cid t = map fst ks /\ Forall (trk_ok rs) t
  | PPeak i r pk mx => pool_ok i ks rs /\ r = wsum g_all rs /\ r <= pk /\ pk <= mx
  end.

Lemma pool_reserved_ok p ks rs : pool_ok p ks rs -> pool_reserved p = wsum g_all rs.
Proof.
  induction p; cbn [pool_ok pool_reserved]; intros H; auto.
  - destruct H as (_ & -> & ->). apply wsum_split.
  - now apply IHp.
  - now apply IHp.
Qed.

Lemma fresh_ok p : fresh p = true -> pool_ok p [] [].
Proof.
  induction p; cbn [fresh pool_ok]; intros H;
    repeat (apply andb_prop in H; destruct H as [H ?]); destr_eqb; try discriminate; subst; auto.
  - split; [now apply IHp|]. destruct tracked; [|discriminate]. split; [reflexivity|constructor].
  - split; [now apply IHp|]. rewrite wsum_nil. repeat split; reflexivity.
Qed.

Lemma g_cid_neq k cid sp : k <> cid -> g_cid k cid sp = false.
Proof. unfold g_cid. intros H. destruct (N.eqb_spec cid k); congruence. Qed.
Lemma g_cid_eq k sp : g_cid k k sp = true.
Proof. unfold g_cid. apply N.eqb_refl. Qed.

(* --- tracked-consumer list *)
Lemma tr_grow_keys cid n t : map t_cid (tr_grow cid n t) = map t_cid t.
Proof. induction t as [|e t IH]; cbn [tr_grow map]; [reflexivity|]. destr_eqb; cbn [map t_cid]; congruence. Qed.

Lemma trk_ok_other rs rs' cid t :
  (forall k, k <> cid -> wsum (g_cid k) rs' = wsum (g_cid k) rs) ->
  ~ In cid (map t_cid t) -> Forall (trk_ok rs) t -> Forall (trk_ok rs') t.
Proof.
  intros Hw. induction t as [|e t IH]; intros Hn Hf; [constructor|].
  inversion Hf; subst. cbn [map In] in Hn. constructor.
  - unfold trk_ok in *. rewrite Hw; [assumption|]. intros E; apply Hn; now left.
  - apply IH; auto.
Qed.

Lemma tr_grow_ok rs rs' cid sp n t :
  (forall g, wsum g rs' = wsum g rs + (if g cid sp then n else 0)) ->
  NoDup (map t_cid t) -> Forall (trk_ok rs) t -> Forall (trk_ok rs') (tr_grow cid n t).
Proof.
  intros Hw. assert (Ho : forall k, k <> cid -> wsum (g_cid k) rs' = wsum (g_cid k) rs).
  { intros k Hk. rewrite Hw, g_cid_neq by assumption. lia. }
  induction t as [|e t IH]; intros Hnd Hf; cbn [tr_grow]; [constructor|].
  cbn [map] in Hnd. inversion Hnd; subst. inversion Hf; subst.
  destruct (N.eqb_spec (t_cid e) cid) as [E|E].
  - constructor.
    + unfold trk_ok in *. cbn [t_res t_cid t_peak]. rewrite Hw, E, g_cid_eq.
      destruct H3 as [-> _]. rewrite E. split; [reflexivity|]. apply N.le_max_r.
    + apply (trk_ok_other rs rs' cid); auto. now rewrite <- E.
  - constructor.
    + unfold trk_ok in *. now rewrite Ho.
    + now apply IH.
Qed.

Lemma tr_shrink_ok rs rs' cid sp n t :
  (forall g, wsum g rs' + (if g cid sp then n else 0) = wsum g rs) ->
  NoDup (map t_cid t) -> Forall (trk_ok rs) t ->
  exists t', tr_shrink cid n t = Some t' /\ map t_cid t' = map t_cid t /\ Forall (trk_ok rs') t'.
Proof.
  intros Hw. assert (Ho : forall k, k <> cid -> wsum (g_cid k) rs' = wsum (g_cid k) rs).
  { intros k Hk. rewrite <- (Hw (g_cid k)), g_cid_neq by assumption. lia. }
  induction t as [|e t IH]; intros Hnd Hf; cbn [tr_shrink].
  - exists []. repeat split; constructor.
  - cbn [map] in Hnd. inversion Hnd; subst. inversion Hf; subst.
    destruct (N.eqb_spec (t_cid e) cid) as [E|E].
    + pose proof (Hw (g_cid cid)) as Hc. rewrite g_cid_eq in Hc.
      destruct H3 as [Hr Hp]. rewrite E in Hr.
      destruct (N.leb_spec n (t_res e)); [|lia].
      eexists. split; [reflexivity|]. split; [reflexivity|]. constructor.
      * unfold trk_ok. cbn [t_res t_cid t_peak]. rewrite E. split; lia.
      * apply (trk_ok_other rs rs' cid); auto. now rewrite <- E.
    + destruct (IH H2 H4) as (t' & -> & Hk & Hf').
      eexists. split; [reflexivity|]. split; [cbn [map]; congruence|]. constructor; auto.
      unfold trk_ok in *. now rewrite Ho.
Qed.

Lemma tr_remove_notin cid t : ~ In cid (map t_cid t) -> tr_remove cid t = t.
Proof.
  induction t as [|e t IH]; cbn [tr_remove map In]; [reflexivity|]. intros H.
  destruct (N.eqb_spec (t_cid e) cid); [tauto|]. rewrite IH; tauto.
Qed.

Lemma tr_remove_split cid (k1 : list (N * bool)) : forall t kx k2,
  map t_cid t = map fst (k1 ++ kx :: k2) -> fst kx = cid -> ~ In cid (map fst k1) ->
  exists t1 e t2, t = t1 ++ e :: t2 /\ tr_remove cid t = t1 ++ t2 /\ map t_cid (t1 ++ t2) = map fst (k1 ++ k2).
Proof.
  induction k1 as [|a k1 IH]; intros t kx k2 Hm Hx Hn; cbn [app map In] in *.
  - destruct t as [|e t]; [discriminate|]. cbn [map] in Hm. inversion Hm.
    exists [], e, t. cbn [app tr_remove]. rewrite H0, Hx, N.eqb_refl. auto.
  - destruct t as [|e t]; [discriminate|]. cbn [map] in Hm. inversion Hm.
    destruct (IH t kx k2 H1 Hx) as (t1 & e' & t2 & -> & Hr & Hk); [tauto|].
    exists (e :: t1), e', t2. cbn [app tr_remove map].
    destruct (N.eqb_spec (t_cid e) cid) as [E|E]; [exfalso; apply Hn; left; congruence|].
    rewrite Hr. cbn [app map] in *. repeat split; congruence.
Qed.

(* --- one lemma per MemoryPool method *)
Lemma pool_grow_ok p ks rs rs' sp cid n :
  NoDup (map fst ks) ->
  (forall g, wsum g rs' = wsum g rs + (if g cid sp then n else 0)) ->
  pool_ok p ks rs -> pool_ok (pool_grow p sp cid n) ks rs'.
Proof.
  intros Hnd Hw.
  pose proof (Hw g_all) as Ha. change (g_all cid sp) with true in Ha.
  pose proof (Hw g_spillable) as H1. change (g_spillable cid sp) with sp in H1.
  pose proof (Hw g_unspillable) as H2. change (g_unspillable cid sp) with (negb sp) in H2.
  induction p; cbn [pool_ok pool_grow]; intros H.
  - lia.
  - lia.
  - destruct H as (Hn & Hs & Hu).
    destruct sp; cbn [pool_ok negb] in *; repeat split; auto; lia.
  - destruct H as (Hi & Hk & Hf). split; [auto|]. split; [now rewrite tr_grow_keys|].
    apply (tr_grow_ok rs rs' cid sp); auto. now rewrite Hk.
  - destruct H as (Hi & Hr & Hp & Hm). unfold peak_record. cbn [pool_ok]. split; [auto|].
    subst reserved. repeat split; lia.
Qed.

Lemma try_grow_is_grow p sp cid z n p' :
  pool_try_grow p sp cid z n = Some p' -> p' = pool_grow p sp cid n.
Proof.
  revert p'. induction p; cbn [pool_try_grow pool_grow]; intros p' H.
  - now inversion H.
  - destruct (_ <=? _) in H; [now inversion H|discriminate].
  - destruct sp.
    + destruct (_ <? _) in H; [discriminate|now inversion H].
    + destruct (_ <? _) in H; [discriminate|now inversion H].
  - destruct (pool_try_grow p sp cid z n); [|discriminate]. inversion H. now rewrite (IHp p0).
  - destruct (pool_try_grow p sp cid z n); [|discriminate]. inversion H. now rewrite (IHp p0).
Qed.

Lemma pool_shrink_ok p ks rs rs' sp cid n :
  NoDup (map fst ks) ->
  (forall g, wsum g rs' + (if g cid sp then n else 0) = wsum g rs) ->
  pool_ok p ks rs -> exists p', pool_shrink p sp cid n = Some p' /\ pool_ok p' ks rs'.
Proof.
  intros Hnd Hw.
  pose proof (Hw g_all) as Ha. change (g_all cid sp) with true in Ha.
  pose proof (Hw g_spillable) as H1. change (g_spillable cid sp) with sp in H1.
  pose proof (Hw g_unspillable) as H2. change (g_unspillable cid sp) with (negb sp) in H2.
  induction p; cbn [pool_ok pool_shrink]; intros H.
  - destruct (N.leb_spec n used); [|lia]. eexists; split; [reflexivity|]. cbn [pool_ok]. lia.
  - destruct (N.leb_spec n used); [|lia]. eexists; split; [reflexivity|]. cbn [pool_ok]. lia.
  - destruct H as (Hn & Hs & Hu). destruct sp; cbn [negb] in *.
    + destruct (N.leb_spec n spillable); [|lia]. eexists; split; [reflexivity|].
      cbn [pool_ok]. repeat split; auto; lia.
    + destruct (N.leb_spec n unspillable); [|lia]. eexists; split; [reflexivity|].
      cbn [pool_ok]. repeat split; auto; lia.
  - destruct H as (Hi & Hk & Hf). destruct (IHp Hi) as (i' & -> & Hi').
    destruct (tr_shrink_ok rs rs' cid sp n tracked Hw) as (t' & -> & Hk' & Hf'); [now rewrite Hk|auto|].
    eexists; split; [reflexivity|]. cbn [pool_ok]. repeat split; auto. congruence.
  - destruct H as (Hi & Hr & Hp & Hm). destruct (IHp Hi) as (i' & -> & Hi').
    destruct (N.leb_spec n reserved); [|lia]. eexists; split; [reflexivity|].
    cbn [pool_ok]. repeat split; auto; lia.
Qed.

Lemma pool_same_ok p ks rs rs' :
  (forall g, wsum g rs' = wsum g rs) -> pool_ok p ks rs -> pool_ok p ks rs'.
Proof.
  intros Hw. induction p; cbn [pool_ok]; intros H; rewrite ?Hw; auto.
  - destruct H as (Hi & Hk & Hf). repeat split; auto.
    eapply Forall_impl; [|exact Hf]. intros e. unfold trk_ok. now rewrite Hw.
  - destruct H as (Hi & Hr & Hp). repeat split; auto; tauto.
Qed.

Lemma pool_register_ok p ks rs cid sp :
  ~ In cid (map fst ks) -> wsum (g_cid cid) rs = 0 ->
  pool_ok p ks rs -> pool_ok (pool_register p cid sp) (ks ++ [(cid, sp)]) rs.
Proof.
  intros Hn Hz. induction p; cbn [pool_ok pool_register]; intros H; auto.
  - destruct H as (Hc & Hs & Hu).
    destruct sp; cbn [pool_ok]; rewrite filter_app, app_length; cbn [filter snd length]; repeat split; auto; lia.
  - destruct H as (Hi & Hk & Hf). split; [auto|]. unfold tr_insert.
    rewrite tr_remove_notin by now rewrite Hk. rewrite !map_app, Hk. split; [reflexivity|].
    apply Forall_app. split; [assumption|]. constructor; [|constructor].
    unfold trk_ok. cbn [t_res t_cid t_peak]. rewrite Hz. split; reflexivity.
  - destruct H as (Hi & Hr). split; auto.
Qed.

Lemma pool_unregister_ok p k1 k2 cid sp rs :
  ~ In cid (map fst k1) ->
  pool_ok p (k1 ++ (cid, sp) :: k2) rs ->
  exists p', pool_unregister p cid sp = Some p' /\ pool_ok p' (k1 ++ k2) rs.
Proof.
  intros Hn. induction p; cbn [pool_ok pool_unregister]; intros H.
  - eexists; split; [reflexivity|exact H].
  - eexists; split; [reflexivity|exact H].
  - destruct H as (Hc & Hs & Hu). rewrite filter_app, app_length in Hc. cbn [filter snd] in Hc.
    destruct sp; cbn [length] in Hc.
    + destruct (N.leb_spec 1 num_spill); [|lia]. eexists; split; [reflexivity|].
      cbn [pool_ok]. rewrite filter_app, app_length. repeat split; auto; lia.
    + eexists; split; [reflexivity|]. cbn [pool_ok]. rewrite filter_app, app_length. repeat split; auto.
  - destruct H as (Hi & Hk & Hf). destruct (IHp Hi) as (i' & -> & Hi').
    destruct (tr_remove_split cid k1 tracked (cid, sp) k2 Hk eq_refl Hn) as (t1 & e & t2 & -> & -> & Hk').
    eexists; split; [reflexivity|]. cbn [pool_ok]. repeat split; auto.
    apply Forall_app in Hf. destruct Hf as [F1 F2]. inversion F2; subst. apply Forall_app; split; auto.
  - destruct H as (Hi & Hr). destruct (IHp Hi) as (i' & -> & Hi').
    eexists; split; [reflexivity|]. cbn [pool_ok]. split; auto.
Qed.

Lemma pool_reset_ok p ks rs : pool_ok p ks rs -> pool_ok (pool_reset_peak p) ks rs.
Proof.
  induction p; cbn [pool_ok pool_reset_peak]; intros H; auto.
  - destruct H as (Hi & Hr). split; auto.
  - destruct H as (Hi & Hr & Hp & Hm). repeat split; auto; lia.
Qed.

(* ------------------------------------------------------------------ reservations and registrations *)
Definition rkey (r : resv) : N * bool := (r_cid r, r_spill r).
Fixpoint cnt (k : N) (rs : list resv) : N :=
  match rs with
  | [] => 0
  | r :: t => (if r_cid r =? k then 1 else 0) + cnt k t
  end.

Lemma cnt_app k a b : cnt k (a ++ b) = cnt k a + cnt k b.
Proof. induction a as [|x a IH]; cbn [app cnt]; [reflexivity|]. rewrite IH. lia. Qed.

Lemma cnt_zero_notin k rs : cnt k rs = 0 <-> ~ In k (map r_cid rs).
Proof.
  induction rs as [|x rs IH]; cbn [cnt map In]; [tauto|].
  destruct (N.eqb_spec (r_cid x) k); split; intros H; try lia; try tauto.
Qed.

Lemma notin_wsum_zero k rs : ~ In k (map r_cid rs) -> wsum (g_cid k) rs = 0.
Proof.
  induction rs as [|x rs IH]; cbn [map In]; intros H; [reflexivity|].
  rewrite wsum_cons, IH by tauto. rewrite g_cid_neq; [reflexivity|]. intros E. apply H. now left.
Qed.

Lemma set_size_ids rid z rs : map r_id (set_size rid z rs) = map r_id rs.
Proof. induction rs as [|x rs IH]; cbn [set_size map]; [reflexivity|]. destr_eqb; cbn [map r_id]; congruence. Qed.
Lemma set_size_rkeys rid z rs : map rkey (set_size rid z rs) = map rkey rs.
Proof. induction rs as [|x rs IH]; cbn [set_size map]; [reflexivity|]. destr_eqb; cbn [map]; unfold rkey in *; cbn [r_cid r_spill]; congruence. Qed.
Lemma set_size_cnt k rid z rs : cnt k (set_size rid z rs) = cnt k rs.
Proof. induction rs as [|x rs IH]; cbn [set_size cnt]; [reflexivity|]. destruct (r_id x =? rid); cbn [cnt r_cid]; congruence. Qed.

Lemma keys_fst cs : map fst (keys cs) = map g_id cs.
Proof. unfold keys. rewrite map_map. reflexivity. Qed.
Lemma keys_app a b : keys (a ++ b) = keys a ++ keys b.
Proof. apply map_app. Qed.

Lemma reg_split cid cs :
  In cid (map g_id cs) ->
  exists l1 c l2, cs = l1 ++ c :: l2 /\ g_id c = cid /\ ~ In cid (map g_id l1) /\
    reg_incr cid cs = l1 ++ mkReg (g_id c) (g_spill c) (g_rc c + 1) :: l2 /\
    reg_decr cid cs = Some (if g_rc c <=? 1 then (l1 ++ l2, true)
                            else (l1 ++ mkReg (g_id c) (g_spill c) (g_rc c - 1) :: l2, false)).
Proof.
  induction cs as [|x cs IH]; cbn [map In reg_incr reg_decr]; [tauto|]. intros H.
  destruct (N.eqb_spec (g_id x) cid) as [E|E].
  - exists [], x, cs. cbn [app map In]. repeat split; auto. destruct (g_rc x <=? 1); reflexivity.
  - destruct H as [H|H]; [contradiction|].
    destruct (IH H) as (l1 & c & l2 & -> & Hc & Hn & Hi & Hd).
    exists (x :: l1), c, l2. cbn [app map In]. repeat split; auto.
    + intros [F|F]; [contradiction|tauto].
    + now rewrite Hi.
    + rewrite Hd. destruct (g_rc c <=? 1); reflexivity.
Qed.

Lemma NoDup_snoc (l : list N) x : NoDup l -> Forall (fun i => i < x) l -> NoDup (l ++ [x]).
Proof.
  intros Hn Hf. induction l as [|a l IH]; cbn [app]; [constructor; [intros []|constructor]|].
  inversion Hn; subst. inversion Hf; subst. constructor; [|auto].
  rewrite in_app_iff. cbn [In]. intros [F|[F|[]]]; [contradiction|lia].
Qed.

Lemma Forall_lt_notin (l : list N) x : Forall (fun i => i < x) l -> ~ In x l.
Proof. intros Hf Hi. rewrite Forall_forall in Hf. apply Hf in Hi. lia. Qed.

Lemma Forall_lt_weaken (l : list N) x : Forall (fun i => i < x) l -> Forall (fun i => i < x + 1) l.
Proof. intros H. eapply Forall_impl; [|exact H]. cbv beta. intros; lia. Qed.

(* ------------------------------------------------------------------ the state invariant *)
Record Inv (s : state) : Prop := mkInv {
  inv_pool : pool_ok (st_pool s) (keys (st_regs s)) (st_resvs s);
  inv_rid_nodup : NoDup (map r_id (st_resvs s));
  inv_rid_lt : Forall (fun i => i < st_next_rid s) (map r_id (st_resvs s));
  inv_cid_nodup : NoDup (map g_id (st_regs s));
  inv_cid_lt : Forall (fun i => i < st_next_cid s) (map g_id (st_regs s));
  inv_rc : Forall (fun c => g_rc c = cnt (g_id c) (st_resvs s) /\ 1 <= g_rc c) (st_regs s);
  inv_reg : Forall (fun k => In k (keys (st_regs s))) (map rkey (st_resvs s));
  inv_lim : wsum g_all (st_resvs s) < usize_lim }.

Lemma init_inv cfg : fresh cfg = true -> Inv (init cfg).
Proof.
  intros H. constructor; cbn [init st_pool st_regs st_resvs st_next_rid st_next_cid keys map];
    try constructor. now apply fresh_ok. Qed.

Lemma inv_reserved s : Inv s -> pool_reserved (st_pool s) = wsum g_all (st_resvs s).
Proof. intros I. eapply pool_reserved_ok, inv_pool, I. Qed.

Lemma inv_keys_nodup s : Inv s -> NoDup (map fst (keys (st_regs s))).
Proof. intros I. rewrite keys_fst. apply I. Qed.

Lemma inv_find_key s rid r :
  Inv s -> find_resv rid (st_resvs s) = Some r -> In (rkey r) (keys (st_regs s)).
Proof.
  intros I H. destruct (find_split _ _ _ H) as (l1 & l2 & E & _).
  pose proof (inv_reg s I) as F. rewrite E, map_app in F. apply Forall_app in F. destruct F as [_ F].
  cbn [map] in F. now inversion F.
Qed.

(* the size of one reservation changes (the pool has been told): everything structural is untouched *)
Lemma inv_set_size s p' rid z :
  Inv s ->
  pool_ok p' (keys (st_regs s)) (set_size rid z (st_resvs s)) ->
  wsum g_all (set_size rid z (st_resvs s)) < usize_lim ->
  Inv (upd s p' (st_regs s) (set_size rid z (st_resvs s))).
Proof.
  intros I Hp Hl. destruct I. constructor; cbn [upd st_pool st_regs st_resvs st_next_rid st_next_cid];
    rewrite ?set_size_ids, ?set_size_rkeys; auto.
  eapply Forall_impl; [|exact inv_rc0]. cbv beta. intros c. now rewrite set_size_cnt.
Qed.

Lemma find_id rid rs r : find_resv rid rs = Some r -> r_id r = rid.
Proof. intros H. now destruct (find_split _ _ _ H) as (? & ? & _ & E & _). Qed.

Lemma set_size_grow_eq rid rs r n :
  find_resv rid rs = Some r ->
  forall g, wsum g (set_size rid (r_size r + n) rs) = wsum g rs + (if g (r_cid r) (r_spill r) then n else 0).
Proof.
  intros H g. pose proof (wsum_set_size g rid (r_size r + n) rs r H) as E. unfold gsel in E.
  destruct (g (r_cid r) (r_spill r)); lia.
Qed.

Lemma set_size_shrink_eq rid rs r n :
  find_resv rid rs = Some r -> n <= r_size r ->
  forall g, wsum g (set_size rid (r_size r - n) rs) + (if g (r_cid r) (r_spill r) then n else 0) = wsum g rs.
Proof.
  intros H Hn g. pose proof (wsum_set_size g rid (r_size r - n) rs r H) as E. unfold gsel in E.
  destruct (g (r_cid r) (r_spill r)); lia.
Qed.

Definition good (x : state * out) : Prop := Inv (fst x) /\ snd x <> Fault.

Lemma good_same s o : Inv s -> o <> Fault -> good (s, o).
Proof. intros; split; assumption. Qed.

Lemma do_grow_good s r n :
  Inv s -> find_resv (r_id r) (st_resvs s) = Some r -> good (do_grow s r n).
Proof.
  intros I H. unfold do_grow, overflows. destruct (N.leb_spec usize_lim (pool_reserved (st_pool s) + n)).
  - apply good_same; [assumption|discriminate].
  - split; [|discriminate]. cbn [fst]. pose proof (set_size_grow_eq _ _ _ n H) as W.
    apply inv_set_size; auto.
    + eapply pool_grow_ok; [now apply inv_keys_nodup|exact W|apply I].
    + rewrite W. change (g_all (r_cid r) (r_spill r)) with true. cbv iota. rewrite <- inv_reserved; assumption.
Qed.

Lemma do_try_grow_good s r n :
  Inv s -> find_resv (r_id r) (st_resvs s) = Some r -> good (do_try_grow s r n).
Proof.
  intros I H. unfold do_try_grow.
  destruct (pool_try_grow (st_pool s) (r_spill r) (r_cid r) (r_size r) n) eqn:E.
  - apply try_grow_is_grow in E. subst p. exact (do_grow_good s r n I H).
  - destruct (overflows s n); apply good_same; auto; discriminate.
Qed.

Lemma do_shrink_good s r n fail ok :
  fail <> Fault -> (forall v, ok v <> Fault) ->
  Inv s -> find_resv (r_id r) (st_resvs s) = Some r -> good (do_shrink s r n fail ok).
Proof.
  intros Hf Ho I H. unfold do_shrink. destruct (N.ltb_spec (r_size r) n).
  - now apply good_same.
  - pose proof (set_size_shrink_eq _ _ _ n H H0) as W.
    destruct (pool_shrink_ok (st_pool s) _ _ _ (r_spill r) (r_cid r) n (inv_keys_nodup s I) W (inv_pool s I))
      as (p' & -> & Hp).
    split; [|apply Ho]. cbn [fst]. apply inv_set_size; auto.
    pose proof (W g_all) as Wa. pose proof (inv_lim s I). lia.
Qed.

Lemma do_free_good s r :
  Inv s -> find_resv (r_id r) (st_resvs s) = Some r -> good (do_free s r).
Proof.
  intros I H. unfold do_free. destruct (N.eqb_spec (r_size r) 0).
  - apply good_same; [assumption|discriminate].
  - pose proof (set_size_shrink_eq _ _ _ (r_size r) H (N.le_refl _)) as W. rewrite N.sub_diag in W.
    destruct (pool_shrink_ok (st_pool s) _ _ _ (r_spill r) (r_cid r) (r_size r) (inv_keys_nodup s I) W (inv_pool s I))
      as (p' & -> & Hp).
    split; [|discriminate]. cbn [fst]. apply inv_set_size; auto.
    pose proof (W g_all) as Wa. pose proof (inv_lim s I). lia.
Qed.

Lemma Forall_mid {A} (P : A -> Prop) l1 c l2 :
  Forall P (l1 ++ c :: l2) <-> Forall P l1 /\ P c /\ Forall P l2.
Proof.
  rewrite Forall_app. split.
  - intros [H1 H2]. inversion H2; subst. auto.
  - intros (H1 & H2 & H3). split; [assumption|constructor; assumption].
Qed.

Definition rc_ok (rs : list resv) (c : creg) : Prop := g_rc c = cnt (g_id c) rs /\ 1 <= g_rc c.

Lemma rc_others rs rs' cid l :
  (forall k, k <> cid -> cnt k rs' = cnt k rs) ->
  ~ In cid (map g_id l) -> Forall (rc_ok rs) l -> Forall (rc_ok rs') l.
Proof.
  intros Hc. induction l as [|c l IH]; intros Hn Hf; [constructor|].
  cbn [map In] in Hn. inversion Hf; subst. constructor; [|apply IH; tauto].
  unfold rc_ok in *. rewrite Hc; [assumption|]. intros E. apply Hn. now left.
Qed.

Lemma nodup_mid (l1 : list creg) c l2 :
  NoDup (map g_id (l1 ++ c :: l2)) ->
  ~ In (g_id c) (map g_id l1) /\ ~ In (g_id c) (map g_id l2) /\ NoDup (map g_id (l1 ++ l2)).
Proof.
  rewrite !map_app. cbn [map]. intros H. pose proof (NoDup_remove _ _ _ H) as [H1 H2].
  rewrite in_app_iff in H2. tauto.
Qed.

Lemma key_in_regs s r : In (rkey r) (keys (st_regs s)) -> In (r_cid r) (map g_id (st_regs s)).
Proof.
  intros Hk. rewrite <- keys_fst. apply in_map_iff. exists (rkey r). split; [reflexivity|assumption].
Qed.

(* the registration of a key present in NoDup keys carries that key's spill flag *)
Lemma key_spill (l1 : list creg) c l2 k :
  NoDup (map g_id (l1 ++ c :: l2)) -> In k (keys (l1 ++ c :: l2)) -> fst k = g_id c -> snd k = g_spill c.
Proof.
  intros Hn Hi Hf. destruct (nodup_mid _ _ _ Hn) as (N1 & N2 & _).
  rewrite keys_app in Hi. cbn [keys map] in Hi. apply in_app_iff in Hi. cbn [In] in Hi.
  destruct Hi as [Hi|[Hi|Hi]].
  - exfalso. apply N1. rewrite <- Hf, <- keys_fst. now apply in_map.
  - now rewrite <- Hi.
  - exfalso. apply N2. rewrite <- Hf, <- keys_fst. now apply in_map.
Qed.

Lemma do_split_good s r n :
  Inv s -> find_resv (r_id r) (st_resvs s) = Some r -> good (do_split s r n).
Proof.
  intros I H. unfold do_split. destruct (N.ltb_spec (r_size r) n).
  - apply good_same; [assumption|discriminate].
  - split; [|discriminate]. cbn [fst].
    pose proof (inv_find_key s _ r I H) as Hk.
    destruct (reg_split _ _ (key_in_regs s r Hk)) as (l1 & c & l2 & Ecs & Hc & Hn1 & Hi & _).
    set (new := mkResv (st_next_rid s) (r_cid r) (r_spill r) n).
    set (rs' := set_size (r_id r) (r_size r - n) (st_resvs s) ++ [new]).
    assert (W : forall g, wsum g rs' = wsum g (st_resvs s)).
    { intros g. unfold rs'. rewrite wsum_app, wsum_cons, wsum_nil. cbn [new r_cid r_spill r_size].
      pose proof (set_size_shrink_eq _ _ _ n H H0 g). destruct (g (r_cid r) (r_spill r)); lia. }
    assert (C : forall k, cnt k rs' = cnt k (st_resvs s) + (if r_cid r =? k then 1 else 0)).
    { intros k. unfold rs'. rewrite cnt_app, set_size_cnt. cbn [cnt new r_cid]. lia. }
    assert (K : keys (reg_incr (r_cid r) (st_regs s)) = keys (st_regs s)).
    { rewrite Hi, Ecs, !keys_app. reflexivity. }
    assert (G : map g_id (reg_incr (r_cid r) (st_regs s)) = map g_id (st_regs s)).
    { rewrite <- !keys_fst. now rewrite K. }
    destruct I. constructor; cbn [st_pool st_regs st_resvs st_next_rid st_next_cid]; rewrite ?K, ?G; auto.
    + eapply pool_same_ok; eauto.
    + unfold rs'. rewrite map_app, set_size_ids. cbn [map new r_id]. now apply NoDup_snoc.
    + unfold rs'. rewrite map_app, set_size_ids. apply Forall_app. split; [now apply Forall_lt_weaken|].
      cbn [map new r_id]. constructor; [lia|constructor].
    + fold (rc_ok rs'). fold (rc_ok (st_resvs s)) in inv_rc0.
      rewrite Ecs in inv_rc0, inv_cid_nodup0. rewrite Hi.
      destruct (nodup_mid _ _ _ inv_cid_nodup0) as (N1 & N2 & _).
      apply Forall_mid in inv_rc0. destruct inv_rc0 as (F1 & Fc & F2). apply Forall_mid. repeat split.
      * apply (rc_others (st_resvs s) rs' (g_id c)); auto.
        intros k Hk'. rewrite C. destruct (N.eqb_spec (r_cid r) k); [congruence|lia].
      * cbn [g_rc g_id]. destruct Fc as [Fc _]. rewrite Fc, C, Hc, N.eqb_refl. reflexivity.
      * cbn [g_rc]. lia.
      * apply (rc_others (st_resvs s) rs' (g_id c)); auto.
        intros k Hk'. rewrite C. destruct (N.eqb_spec (r_cid r) k); [congruence|lia].
    + unfold rs'. rewrite map_app, set_size_rkeys. apply Forall_app. split; [assumption|].
      cbn [map]. constructor; [exact Hk|constructor].
    + now rewrite W.
Qed.

Lemma in_keys_other (l1 : list creg) c l2 k :
  In k (keys (l1 ++ c :: l2)) -> fst k <> g_id c -> In k (keys (l1 ++ l2)).
Proof.
  rewrite !keys_app. cbn [keys map]. rewrite !in_app_iff. cbn [In]. intros [H|[H|H]] Hn; auto.
  exfalso. apply Hn. now rewrite <- H.
Qed.

Lemma do_drop_good s r :
  Inv s -> find_resv (r_id r) (st_resvs s) = Some r -> good (do_drop s r).
Proof.
  intros I H. unfold do_drop.
  set (rs' := remove_resv (r_id r) (st_resvs s)).
  assert (W : forall g, wsum g rs' + (if g (r_cid r) (r_spill r) then r_size r else 0) = wsum g (st_resvs s)).
  { intros g. exact (wsum_remove g _ _ _ H). }
  assert (P1 : exists p1, (if r_size r =? 0 then Some (st_pool s)
                           else pool_shrink (st_pool s) (r_spill r) (r_cid r) (r_size r)) = Some p1
                          /\ pool_ok p1 (keys (st_regs s)) rs').
  { destruct (N.eqb_spec (r_size r) 0) as [E|E].
    - exists (st_pool s). split; [reflexivity|]. eapply pool_same_ok; [|apply I].
      intros g. specialize (W g). rewrite E in W. destruct (g (r_cid r) (r_spill r)); lia.
    - apply pool_shrink_ok with (rs := st_resvs s); auto using inv_keys_nodup, inv_pool. }
  destruct P1 as (p1 & -> & Hp1).
  pose proof (inv_find_key s _ r I H) as Hk.
  destruct (reg_split _ _ (key_in_regs s r Hk)) as (l1 & c & l2 & Ecs & Hc & Hn1 & _ & Hd).
  rewrite Hd. clear Hd.
  destruct (find_split _ _ _ H) as (a & b & Ers & _ & _ & Erm). fold rs' in Erm.
  assert (C : forall k, cnt k rs' + (if r_cid r =? k then 1 else 0) = cnt k (st_resvs s)).
  { intros k. rewrite Erm, Ers, !cnt_app. cbn [cnt]. lia. }
  assert (Co : forall k, k <> g_id c -> cnt k rs' = cnt k (st_resvs s)).
  { intros k Hk'. specialize (C k). destruct (N.eqb_spec (r_cid r) k); [congruence|lia]. }
  pose proof (C (r_cid r)) as Cc. rewrite N.eqb_refl in Cc.
  destruct I. cbn [fst snd].
  fold (rc_ok (st_resvs s)) in inv_rc0.
  rewrite Ecs in inv_rc0, inv_cid_nodup0, inv_cid_lt0.
  pose proof (key_spill _ _ _ _ inv_cid_nodup0 (eq_ind _ (fun x => In (rkey r) (keys x)) Hk _ Ecs)
                        (eq_sym Hc)) as Hsp. cbn [rkey snd] in Hsp.
  destruct (nodup_mid _ _ _ inv_cid_nodup0) as (N1 & N2 & N3).
  apply Forall_mid in inv_rc0. destruct inv_rc0 as (F1 & [Fc Fc1] & F2).
  rewrite map_app in inv_cid_lt0. cbn [map] in inv_cid_lt0. apply Forall_mid in inv_cid_lt0.
  destruct inv_cid_lt0 as (L1 & Lc & L2).
  rewrite Ers, map_app in inv_rid_nodup0, inv_rid_lt0. cbn [map] in inv_rid_nodup0, inv_rid_lt0.
  apply Forall_mid in inv_rid_lt0. destruct inv_rid_lt0 as (R1 & _ & R2).
  assert (Hlim : wsum g_all rs' < usize_lim) by (pose proof (W g_all); lia).
  destruct (N.leb_spec (g_rc c) 1) as [Hl|Hl].
  - (* the last reservation of this consumer: unregister *)
    assert (Z : cnt (r_cid r) rs' = 0) by (rewrite Hc in Fc; lia).
    assert (Kc : keys (st_regs s) = keys l1 ++ (r_cid r, r_spill r) :: keys l2).
    { rewrite Ecs, keys_app. cbn [keys map]. now rewrite Hc, Hsp. }
    rewrite Kc in Hp1.
    destruct (pool_unregister_ok p1 (keys l1) (keys l2) (r_cid r) (r_spill r) rs') as (p2 & -> & Hp2); auto.
    { now rewrite keys_fst, <- Hc. }
    split; [|discriminate]. cbn [fst].
    constructor; cbn [upd st_pool st_regs st_resvs st_next_rid st_next_cid]; auto.
    + now rewrite keys_app.
    + rewrite Erm, map_app. eapply NoDup_remove_1; eauto.
    + rewrite Erm, map_app. apply Forall_app; auto.
    + rewrite map_app. apply Forall_app; auto.
    + fold (rc_ok rs'). apply Forall_app. split; eapply rc_others; eauto.
    + rewrite Ecs in inv_reg0. rewrite Ers, map_app in inv_reg0. cbn [map] in inv_reg0.
      apply Forall_mid in inv_reg0. destruct inv_reg0 as (G1 & _ & G2).
      apply cnt_zero_notin in Z. rewrite Erm, map_app in Z.
      rewrite Erm, map_app.
      assert (G : Forall (fun k => In k (keys (l1 ++ c :: l2))) (map rkey a ++ map rkey b)) by (apply Forall_app; auto).
      rewrite Forall_forall in G. apply Forall_forall. intros k Hin.
      apply (in_keys_other l1 c l2); [now apply G|].
      intros E. apply Z. rewrite <- map_app in *. apply in_map_iff in Hin. destruct Hin as (x & <- & Hx).
      apply in_map_iff. exists x. split; [|assumption]. cbn [rkey fst] in E. congruence.
  - (* other reservations still share the registration *)
    split; [|discriminate]. cbn [fst].
    assert (K : keys (l1 ++ mkReg (g_id c) (g_spill c) (g_rc c - 1) :: l2) = keys (st_regs s)).
    { rewrite Ecs, !keys_app. reflexivity. }
    constructor; cbn [upd st_pool st_regs st_resvs st_next_rid st_next_cid]; rewrite ?K; auto.
    + rewrite Erm, map_app. eapply NoDup_remove_1; eauto.
    + rewrite Erm, map_app. apply Forall_app; auto.
    + rewrite <- keys_fst, K, keys_fst, Ecs. assumption.
    + rewrite map_app. cbn [map g_id]. apply Forall_mid. repeat split; auto.
    + fold (rc_ok rs'). apply Forall_mid. repeat split.
      * eapply rc_others; eauto.
      * cbn [g_rc g_id]. rewrite Hc in *. lia.
      * cbn [g_rc]. lia.
      * eapply rc_others; eauto.
    + rewrite Erm, map_app. rewrite Ers, map_app in inv_reg0. cbn [map] in inv_reg0.
      apply Forall_mid in inv_reg0. destruct inv_reg0 as (G1 & _ & G2). apply Forall_app; auto.
Qed.

Lemma regs_cids_lt s : Inv s -> Forall (fun i => i < st_next_cid s) (map r_cid (st_resvs s)).
Proof.
  intros I. pose proof (inv_reg s I) as G. pose proof (inv_cid_lt s I) as L.
  rewrite Forall_forall in *. intros k Hin. apply in_map_iff in Hin. destruct Hin as (x & <- & Hx).
  apply L. rewrite <- keys_fst. apply in_map_iff. exists (rkey x). split; [reflexivity|].
  apply G. now apply in_map.
Qed.

Lemma register_good s sp : Inv s -> good (step s (ORegister sp)).
Proof.
  intros I. cbn [step]. split; [|discriminate]. cbn [fst].
  set (new := mkResv (st_next_rid s) (st_next_cid s) sp 0).
  assert (Hn : ~ In (st_next_cid s) (map r_cid (st_resvs s))) by (apply Forall_lt_notin, regs_cids_lt, I).
  assert (W : forall g, wsum g (st_resvs s ++ [new]) = wsum g (st_resvs s)).
  { intros g. rewrite wsum_app, wsum_cons, wsum_nil. cbn [new r_size]. destruct (g _ _); lia. }
  assert (C : forall k, k <> st_next_cid s -> cnt k (st_resvs s ++ [new]) = cnt k (st_resvs s)).
  { intros k Hk. rewrite cnt_app. cbn [cnt new r_cid]. destruct (N.eqb_spec (st_next_cid s) k); [congruence|lia]. }
  pose proof (Forall_lt_notin _ _ (inv_cid_lt s I)) as Hc.
  destruct I. constructor; cbn [st_pool st_regs st_resvs st_next_rid st_next_cid].
  - rewrite keys_app. cbn [keys map g_id g_spill]. eapply pool_same_ok; [exact W|].
    apply pool_register_ok; auto. + now rewrite keys_fst. + now apply notin_wsum_zero.
  - rewrite map_app. cbn [map new r_id]. now apply NoDup_snoc.
  - rewrite map_app. apply Forall_app. split; [now apply Forall_lt_weaken|]. cbn [map new r_id]. constructor; [lia|constructor].
  - rewrite map_app. cbn [map g_id]. now apply NoDup_snoc.
  - rewrite map_app. apply Forall_app. split; [now apply Forall_lt_weaken|]. cbn [map g_id]. constructor; [lia|constructor].
  - fold (rc_ok (st_resvs s ++ [new])). fold (rc_ok (st_resvs s)) in inv_rc0. apply Forall_app. split.
    + eapply rc_others; eauto.
    + constructor; [|constructor]. unfold rc_ok. cbn [g_rc g_id]. rewrite cnt_app. cbn [cnt new r_cid].
      rewrite N.eqb_refl. apply cnt_zero_notin in Hn. lia.
  - rewrite map_app. apply Forall_app. split.
    + eapply Forall_impl; [|exact inv_reg0]. cbv beta. intros k Hk. rewrite keys_app. apply in_app_iff. now left.
    + cbn [map new]. constructor; [|constructor]. rewrite keys_app. apply in_app_iff. right. now left.
  - now rewrite W.
Qed.

Lemma on_resv_good s rid k :
  Inv s -> (forall r, find_resv (r_id r) (st_resvs s) = Some r -> good (k r)) -> good (on_resv s rid k).
Proof.
  intros I Hk. unfold on_resv. destruct (find_resv rid (st_resvs s)) as [r|] eqn:E.
  - apply Hk. now rewrite (find_id _ _ _ E).
  - apply good_same; [assumption|discriminate].
Qed.

Theorem step_good s o : Inv s -> good (step s o).
Proof.
  intros I. destruct o; try (cbn [step]; apply on_resv_good; [assumption|intros r Hr]).
  - now apply register_good.
  - now apply do_try_grow_good.
  - now apply do_grow_good.
  - apply do_shrink_good; auto; discriminate.
  - apply do_shrink_good; auto; discriminate.
  - destruct (n ?= r_size r).
    + apply good_same; [assumption|discriminate].
    + apply do_shrink_good; auto; discriminate.
    + now apply do_grow_good.
  - destruct (n ?= r_size r).
    + apply good_same; [assumption|discriminate].
    + apply do_shrink_good; auto; discriminate.
    + now apply do_try_grow_good.
  - now apply do_free_good.
  - now apply do_split_good.
  - now apply do_split_good.
  - now apply do_split_good.
  - now apply do_drop_good.
  - cbn [step]. split; [|discriminate]. cbn [fst]. destruct I.
    constructor; cbn [upd st_pool st_regs st_resvs st_next_rid st_next_cid]; auto. now apply pool_reset_ok.
Qed.

Lemma step_inv s o : Inv s -> Inv (fst (step s o)).
Proof. intros I. apply (step_good s o I). Qed.

Lemma run_inv s h : Inv s -> Inv (run s h).
Proof. revert s. induction h as [|o h IH]; intros s I; cbn [run]; [assumption|]. apply IH, step_inv, I. Qed.

Lemma run_app s h1 h2 : run s (h1 ++ h2) = run (run s h1) h2.
Proof. revert s. induction h1 as [|o h1 IH]; intros s; cbn [run app]; [reflexivity|]. apply IH. Qed.

Lemma run_states_inv s h : Inv s -> Forall Inv (run_states s h).
Proof.
  revert s. induction h as [|o h IH]; intros s I; cbn [run_states]; constructor.
  - now apply step_inv. - apply IH. now apply step_inv.
Qed.

(* ================================================================== property lemmas *)
Ltac step_cases :=
  cbn [step] in *;
  unfold on_resv, do_try_grow, do_grow, do_shrink, do_free, do_split, do_drop in *;
  repeat match goal with
         | |- context [match ?x with _ => _ end] => destruct x eqn:?
         | |- context [if ?x then _ else _] => destruct x eqn:?
         end;
  cbn [fst snd upd st_pool st_regs st_resvs st_next_rid st_next_cid] in *.

(* ------------------------------------------------------------------ exact accounting *)
Theorem reserved_eq_sum_live cfg h :
  fresh cfg = true ->
  total (run (init cfg) h) = sum_sizes (st_resvs (run (init cfg) h)).
Proof. intros F. apply inv_reserved, run_inv, init_inv, F. Qed.

Theorem reserved_zero_when_all_dropped cfg h :
  fresh cfg = true -> st_resvs (run (init cfg) h) = [] -> total (run (init cfg) h) = 0.
Proof. intros F E. rewrite reserved_eq_sum_live, E by assumption. reflexivity. Qed.

Theorem never_faults cfg h o :
  fresh cfg = true -> snd (step (run (init cfg) h) o) <> Fault.
Proof. intros F. apply step_good, run_inv, init_inv, F. Qed.

Lemma find_In rid rs r : find_resv rid rs = Some r -> In r rs.
Proof. intros H. destruct (find_split _ _ _ H) as (a & b & -> & _). apply in_app_iff. right. now left. Qed.

Lemma In_size_le r rs : In r rs -> r_size r <= wsum g_all rs.
Proof.
  induction rs as [|x rs IH]; cbn [In]; [tauto|]. rewrite wsum_cons. unfold g_all at 1.
  intros [->|H]; [lia|]. apply IH in H. lia.
Qed.

Theorem usize_bounded cfg h :
  fresh cfg = true ->
  let s := run (init cfg) h in
  total s < usize_lim /\ (forall r, In r (st_resvs s) -> r_size r < usize_lim) /\
  (forall cid, consumer_sum cid (st_resvs s) < usize_lim).
Proof.
  intros F s. pose proof (run_inv _ h (init_inv cfg F)) as I. fold s in I.
  pose proof (inv_lim s I) as L. unfold total. rewrite (inv_reserved s I). repeat split; auto.
  - intros r Hr. apply In_size_le in Hr. lia.
  - intros cid. pose proof (wsum_le_all (g_cid cid) (st_resvs s)). unfold consumer_sum. lia.
Qed.

(* ------------------------------------------------------------------ a refused call changes nothing *)
Definition refused (o : out) : bool :=
  match o with Err | Panic | NoSuch | Overflow | Fault => true | _ => false end.

Theorem refused_unchanged s o : refused (snd (step s o)) = true -> fst (step s o) = s.
Proof.
  destruct o; step_cases; cbn [refused]; intros; try reflexivity; try discriminate.
Qed.

(* ------------------------------------------------------------------ what the pool total does *)
Lemma reserved_grow p sp cid n : pool_reserved (pool_grow p sp cid n) = pool_reserved p + n.
Proof. induction p; cbn [pool_grow pool_reserved peak_record]; auto; try lia. destruct sp; cbn [pool_reserved]; lia. Qed.

Lemma reserved_shrink p sp cid n p' :
  pool_shrink p sp cid n = Some p' -> pool_reserved p' + n = pool_reserved p.
Proof.
  revert p'. induction p; cbn [pool_shrink pool_reserved]; intros p' H.
  - destruct (N.leb_spec n used); inversion H. cbn [pool_reserved]. lia.
  - destruct (N.leb_spec n used); inversion H. cbn [pool_reserved]. lia.
  - destruct sp.
    + destruct (N.leb_spec n spillable); inversion H. cbn [pool_reserved]. lia.
    + destruct (N.leb_spec n unspillable); inversion H. cbn [pool_reserved]. lia.
  - destruct (pool_shrink p sp cid n); [|discriminate]. destruct (tr_shrink cid n tracked); inversion H.
    cbn [pool_reserved]. now apply IHp.
  - destruct (pool_shrink p sp cid n); [|discriminate]. destruct (n <=? reserved); inversion H.
    cbn [pool_reserved]. now apply IHp.
Qed.

Lemma reserved_register p cid sp : pool_reserved (pool_register p cid sp) = pool_reserved p.
Proof. induction p; cbn [pool_register pool_reserved]; auto. destruct sp; reflexivity. Qed.

Lemma reserved_unregister p cid sp p' : pool_unregister p cid sp = Some p' -> pool_reserved p' = pool_reserved p.
Proof.
  revert p'. induction p; cbn [pool_unregister pool_reserved]; intros p' H; try (now inversion H).
  - destruct sp; [destruct (1 <=? num_spill)|]; inversion H; reflexivity.
  - destruct (pool_unregister p cid sp); inversion H. cbn [pool_reserved]. now apply IHp.
  - destruct (pool_unregister p cid sp); inversion H. cbn [pool_reserved]. now apply IHp.
Qed.

Lemma reserved_reset p : pool_reserved (pool_reset_peak p) = pool_reserved p.
Proof. induction p; cbn [pool_reset_peak pool_reserved]; auto. Qed.

(* ------------------------------------------------------------------ Greedy: the limit *)
Definition greedy_limit (p : pool) : option N :=
  match pool_base p with PGreedy l _ => Some l | _ => None end.
Definition fair_limit (p : pool) : option N :=
  match pool_base p with PFair l _ _ _ => Some l | _ => None end.

(* the bottom pool is a Greedy pool of limit l that is within its limit *)
Definition lim_ok (l : N) (p : pool) : Prop :=
  match pool_base p with PGreedy l' u => l' = l /\ u <= l | _ => False end.

Lemma lim_ok_total l p : lim_ok l p -> pool_reserved p <= l.
Proof. unfold lim_ok. induction p; cbn [pool_base pool_reserved]; try tauto; auto. Qed.

Lemma lim_ok_limit l p : lim_ok l p -> greedy_limit p = Some l.
Proof. unfold lim_ok, greedy_limit. destruct (pool_base p); try tauto. intros [-> _]. reflexivity. Qed.

Lemma try_grow_greedy l p sp cid z n p' :
  greedy_limit p = Some l -> pool_try_grow p sp cid z n = Some p' -> lim_ok l p'.
Proof.
  unfold greedy_limit, lim_ok. revert p'. induction p; cbn [pool_base pool_try_grow]; intros p' G H; try discriminate.
  - inversion G; subst. destruct (N.leb_spec (used + n) l); inversion H. cbn [pool_base]. split; [reflexivity|lia].
  - destruct (pool_try_grow p sp cid z n); inversion H. cbn [pool_base]. now apply IHp.
  - destruct (pool_try_grow p sp cid z n); inversion H. cbn [pool_base peak_record]. now apply IHp.
Qed.

Lemma shrink_greedy l p sp cid n p' : lim_ok l p -> pool_shrink p sp cid n = Some p' -> lim_ok l p'.
Proof.
  unfold lim_ok. revert p'. induction p; cbn [pool_base pool_shrink]; intros p' G H; try tauto.
  - destruct (N.leb_spec n used); inversion H. cbn [pool_base]. split; [tauto|lia].
  - destruct (pool_shrink p sp cid n); [|discriminate]. destruct (tr_shrink cid n tracked); inversion H.
    cbn [pool_base]. now apply IHp.
  - destruct (pool_shrink p sp cid n); [|discriminate]. destruct (n <=? reserved); inversion H.
    cbn [pool_base]. now apply IHp.
Qed.

Lemma register_greedy l p cid sp : lim_ok l p -> lim_ok l (pool_register p cid sp).
Proof. unfold lim_ok. induction p; cbn [pool_base pool_register]; auto. destruct sp; auto. Qed.

Lemma unregister_greedy l p cid sp p' : lim_ok l p -> pool_unregister p cid sp = Some p' -> lim_ok l p'.
Proof.
  unfold lim_ok. revert p'. induction p; cbn [pool_base pool_unregister]; intros p' G H; try tauto.
  - now inversion H.
  - destruct (pool_unregister p cid sp); inversion H. cbn [pool_base]. now apply IHp.
  - destruct (pool_unregister p cid sp); inversion H. cbn [pool_base]. now apply IHp.
Qed.

Lemma reset_greedy l p : lim_ok l p -> lim_ok l (pool_reset_peak p).
Proof. unfold lim_ok. induction p; cbn [pool_base pool_reset_peak]; auto. Qed.

Lemma fresh_greedy l p : fresh p = true -> greedy_limit p = Some l -> lim_ok l p.
Proof.
  unfold greedy_limit, lim_ok. induction p; cbn [fresh pool_base]; intros F G; try discriminate.
  - inversion G; subst. apply N.eqb_eq in F. subst. split; [reflexivity|lia].
  - apply andb_prop in F. now apply IHp.
  - repeat (apply andb_prop in F; destruct F as [F ?]). now apply IHp.
Qed.

Lemma step_greedy l s o :
  fallible o = true -> lim_ok l (st_pool s) -> lim_ok l (st_pool (fst (step s o))).
Proof.
  intros Ff L. destruct o; try discriminate; step_cases;
    eauto using try_grow_greedy, lim_ok_limit, shrink_greedy, register_greedy, unregister_greedy, reset_greedy.
  - (* drop: shrink, then unregister if it was the last reservation of the consumer *)
    assert (lim_ok l p).
    { destruct (r_size r =? 0); [inversion Heqo0; subst; assumption|eauto using shrink_greedy]. }
    destruct b; [eauto using unregister_greedy|inversion Heqo2; subst; assumption].
Qed.

Theorem greedy_never_exceeds_by_try_grow cfg l h :
  fresh cfg = true -> greedy_limit cfg = Some l -> forallb fallible h = true ->
  total (run (init cfg) h) <= l.
Proof.
  intros F G Hf. apply lim_ok_total.
  assert (L : lim_ok l (st_pool (init cfg))) by (cbn [init st_pool]; now apply fresh_greedy).
  revert L Hf. generalize (init cfg). induction h as [|o h IH]; intros s L Hf; cbn [run]; [assumption|].
  cbn [forallb] in Hf. apply andb_prop in Hf. destruct Hf as [H1 H2]. apply IH; [|assumption].
  now apply step_greedy.
Qed.

(* the additional bytes requested by a fallible growth call, if [o] is one *)
Definition fallible_growth (s : state) (o : op) : option (N * N) :=
  match o with
  | OTryGrow rid n => Some (rid, n)
  | OTryResize rid n =>
      match find_resv rid (st_resvs s) with
      | Some r => if r_size r <? n then Some (rid, n - r_size r) else None
      | None => None
      end
  | _ => None
  end.

Lemma fallible_growth_step s o rid n :
  fallible_growth s o = Some (rid, n) -> step s o = on_resv s rid (fun r => do_try_grow s r n).
Proof.
  destruct o; cbn [fallible_growth step]; try discriminate.
  - intros H; inversion H; reflexivity.
  - unfold on_resv. destruct (find_resv rid0 (st_resvs s)) as [r|] eqn:E; [|discriminate].
    destruct (N.ltb_spec (r_size r) n0); [|discriminate]. intros Hx; inversion Hx; subst. rewrite E.
    destruct (N.compare_spec n0 (r_size r)); try lia. reflexivity.
Qed.

Theorem greedy_grant_within_limit s o rid n l s' :
  greedy_limit (st_pool s) = Some l -> fallible_growth s o = Some (rid, n) ->
  step s o = (s', Done) -> total s' <= l.
Proof.
  intros G Fg. rewrite (fallible_growth_step _ _ _ _ Fg). unfold on_resv, do_try_grow.
  destruct (find_resv rid (st_resvs s)); [|discriminate]. destruct (overflows s n); [discriminate|].
  destruct (pool_try_grow _ _ _ _ _) eqn:E; [|discriminate]. intros H; inversion H; subst.
  unfold total. cbn [upd st_pool]. eapply lim_ok_total, try_grow_greedy; eauto.
Qed.

(* ------------------------------------------------------------------ FairSpillPool: the fair share *)
Lemma try_grow_fair_spill l p ks rs cid z n p' :
  pool_ok p ks rs -> fair_limit p = Some l -> pool_try_grow p true cid z n = Some p' ->
  z + n <= (if N.of_nat (length (filter snd ks)) =? 0 then l - wsum g_unspillable rs
            else (l - wsum g_unspillable rs) / N.of_nat (length (filter snd ks))).
Proof.
  unfold fair_limit. revert p'. induction p; cbn [pool_ok pool_base pool_try_grow]; intros p' Hok Hl H; try discriminate.
  - inversion Hl; subst. destruct Hok as (-> & _ & ->).
    destruct (N.ltb_spec (if N.of_nat (length (filter snd ks)) =? 0 then l - wsum g_unspillable rs
                          else (l - wsum g_unspillable rs) / N.of_nat (length (filter snd ks))) (z + n));
      [discriminate|assumption].
  - destruct (pool_try_grow p true cid z n) eqn:E; [|discriminate]. destruct Hok. eapply IHp; eauto.
  - destruct (pool_try_grow p true cid z n) eqn:E; [|discriminate]. destruct Hok. eapply IHp; eauto.
Qed.

Lemma try_grow_fair_unspill l p ks rs cid z n p' :
  pool_ok p ks rs -> fair_limit p = Some l -> pool_try_grow p false cid z n = Some p' ->
  n <= l - wsum g_all rs.
Proof.
  unfold fair_limit. revert p'. induction p; cbn [pool_ok pool_base pool_try_grow]; intros p' Hok Hl H; try discriminate.
  - inversion Hl; subst. destruct Hok as (_ & -> & ->).
    destruct (N.ltb_spec (l - (wsum g_unspillable rs + wsum g_spillable rs)) n); [discriminate|].
    pose proof (wsum_split rs). lia.
  - destruct (pool_try_grow p false cid z n) eqn:E; [|discriminate]. destruct Hok. eapply IHp; eauto.
  - destruct (pool_try_grow p false cid z n) eqn:E; [|discriminate]. destruct Hok. eapply IHp; eauto.
Qed.

Lemma find_set_size rid z rs r :
  find_resv rid rs = Some r ->
  find_resv rid (set_size rid z rs) = Some (mkResv (r_id r) (r_cid r) (r_spill r) z).
Proof.
  induction rs as [|x rs IH]; cbn [find_resv set_size]; [discriminate|].
  destruct (N.eqb_spec (r_id x) rid) as [E|E]; intros H.
  - inversion H; subst x. cbn [find_resv r_id]. destruct (N.eqb_spec (r_id r) rid); [reflexivity|contradiction].
  - cbn [find_resv]. destruct (N.eqb_spec (r_id x) rid); [contradiction|]. now apply IH.
Qed.

Lemma num_spillable_keys cs : num_spillable cs = N.of_nat (length (filter snd (keys cs))).
Proof.
  unfold num_spillable, keys. f_equal. induction cs as [|c cs IH]; cbn [map filter snd]; [reflexivity|].
  destruct (g_spill c); cbn [length]; congruence.
Qed.

Lemma spill_key_counted (k : N * bool) ks : In k ks -> snd k = true -> 1 <= N.of_nat (length (filter snd ks)).
Proof.
  intros Hi Hs. assert (In k (filter snd ks)) by (apply filter_In; auto).
  destruct (filter snd ks); [contradiction|]. cbn [length]. lia.
Qed.

Theorem fair_grant_within_share s o rid n l s' r' :
  Inv s -> fair_limit (st_pool s) = Some l -> fallible_growth s o = Some (rid, n) ->
  step s o = (s', Done) -> find_resv rid (st_resvs s') = Some r' ->
  if r_spill r'
  then 1 <= num_spillable (st_regs s') /\
       r_size r' <= (l - sum_unspillable (st_resvs s')) / num_spillable (st_regs s')
  else n = 0 \/ total s' <= l.
Proof.
  intros I Fl Fg. rewrite (fallible_growth_step _ _ _ _ Fg). unfold on_resv, do_try_grow.
  destruct (find_resv rid (st_resvs s)) as [r|] eqn:Fr; [|discriminate].
  destruct (overflows s n); [discriminate|].
  destruct (pool_try_grow _ _ _ _ _) as [p'|] eqn:E; [|discriminate]. intros H; inversion H; subst s'. clear H.
  cbn [upd st_resvs st_regs]. pose proof (find_id _ _ _ Fr) as Hid. rewrite Hid.
  rewrite (find_set_size _ _ _ _ Fr). intros H; inversion H; subst r'. clear H. cbn [r_spill r_size].
  pose proof (inv_find_key s _ _ I Fr) as Hk.
  destruct (r_spill r) eqn:Sp.
  - pose proof (try_grow_fair_spill _ _ _ _ _ _ _ _ (inv_pool s I) Fl E) as B.
    rewrite <- num_spillable_keys in B.
    assert (N1 : 1 <= num_spillable (st_regs s)).
    { rewrite num_spillable_keys. apply (spill_key_counted (rkey r)); auto. }
    destruct (N.eqb_spec (num_spillable (st_regs s)) 0); [lia|].
    split; [assumption|]. unfold sum_unspillable.
    pose proof (set_size_grow_eq _ _ _ n Fr g_unspillable) as W.
    change (g_unspillable (r_cid r) (r_spill r)) with (negb (r_spill r)) in W. rewrite Sp in W. cbn [negb] in W.
    rewrite W, N.add_0_r. exact B.
  - pose proof (try_grow_fair_unspill _ _ _ _ _ _ _ _ (inv_pool s I) Fl E) as B.
    apply try_grow_is_grow in E. subst p'. unfold total. cbn [upd st_pool]. rewrite reserved_grow.
    rewrite (inv_reserved s I). lia.
Qed.

(* ------------------------------------------------------------------ TrackConsumersPool *)
Lemma metrics_ok p ks rs :
  pool_ok p ks rs ->
  Forall (fun t => map t_cid t = map fst ks /\ Forall (trk_ok rs) t) (pool_metrics p).
Proof.
  induction p; cbn [pool_ok pool_metrics]; intros H; try constructor.
  - tauto. - apply IHp; tauto. - apply IHp; tauto.
Qed.

Theorem track_consumers_exact cfg h :
  fresh cfg = true ->
  let s := run (init cfg) h in
  Forall (fun t => map t_cid t = map g_id (st_regs s) /\
                   Forall (fun e => t_res e = consumer_sum (t_cid e) (st_resvs s) /\ t_res e <= t_peak e) t)
         (pool_metrics (st_pool s)).
Proof.
  intros F s. pose proof (run_inv _ h (init_inv cfg F)) as I. fold s in I.
  pose proof (metrics_ok _ _ _ (inv_pool s I)) as M. rewrite keys_fst in M. exact M.
Qed.

Theorem registered_iff_live cfg h cid :
  fresh cfg = true ->
  let s := run (init cfg) h in
  In cid (map g_id (st_regs s)) <-> In cid (map r_cid (st_resvs s)).
Proof.
  intros F s. pose proof (run_inv _ h (init_inv cfg F)) as I. fold s in I. split; intros H.
  - apply in_map_iff in H. destruct H as (c & <- & Hc).
    pose proof (inv_rc s I) as R. rewrite Forall_forall in R. destruct (R c Hc) as [R1 R2].
    destruct (in_dec N.eq_dec (g_id c) (map r_cid (st_resvs s))) as [Y|Nn]; [assumption|].
    apply cnt_zero_notin in Nn. lia.
  - apply in_map_iff in H. destruct H as (x & <- & Hx).
    pose proof (inv_reg s I) as G. rewrite Forall_forall in G.
    rewrite <- keys_fst. apply in_map_iff. exists (rkey x). split; [reflexivity|]. apply G. now apply in_map.
Qed.

(* ------------------------------------------------------------------ PeakRecordingPool *)
Definition peaks_are (P M : N) (p : pool) : Prop := Forall (fun x => x = (P, M)) (pool_peaks p).

Lemma peaks_grow p ks rs sp cid n P M :
  pool_ok p ks rs -> peaks_are P M p ->
  peaks_are (N.max P (wsum g_all rs + n)) (N.max M (wsum g_all rs + n)) (pool_grow p sp cid n).
Proof.
  unfold peaks_are. induction p; cbn [pool_ok pool_grow pool_peaks peak_record]; intros Hok Hp; auto.
  - destruct sp; constructor.
  - apply IHp; tauto.
  - destruct Hok as (Hi & Hr & _). inversion Hp; subst. inversion H1; subst. constructor; [reflexivity|auto].
Qed.

Lemma peaks_shrink p sp cid n p' : pool_shrink p sp cid n = Some p' -> pool_peaks p' = pool_peaks p.
Proof.
  revert p'. induction p; cbn [pool_shrink pool_peaks]; intros p' H.
  - destruct (n <=? used); inversion H; reflexivity.
  - destruct (n <=? used); inversion H; reflexivity.
  - destruct sp; [destruct (n <=? spillable)|destruct (n <=? unspillable)]; inversion H; reflexivity.
  - destruct (pool_shrink p sp cid n); [|discriminate]. destruct (tr_shrink cid n tracked); inversion H.
    cbn [pool_peaks]. now apply IHp.
  - destruct (pool_shrink p sp cid n); [|discriminate]. destruct (n <=? reserved); inversion H.
    cbn [pool_peaks]. f_equal. now apply IHp.
Qed.

Lemma peaks_register p cid sp : pool_peaks (pool_register p cid sp) = pool_peaks p.
Proof. induction p; cbn [pool_register pool_peaks]; auto; [destruct sp; reflexivity|congruence]. Qed.

Lemma peaks_unregister p cid sp p' : pool_unregister p cid sp = Some p' -> pool_peaks p' = pool_peaks p.
Proof.
  revert p'. induction p; cbn [pool_unregister pool_peaks]; intros p' H; try (now inversion H).
  - destruct sp; [destruct (1 <=? num_spill)|]; inversion H; reflexivity.
  - destruct (pool_unregister p cid sp); inversion H. cbn [pool_peaks]. now apply IHp.
  - destruct (pool_unregister p cid sp); inversion H. cbn [pool_peaks]. f_equal. now apply IHp.
Qed.

Lemma peaks_reset p ks rs P M :
  pool_ok p ks rs -> peaks_are P M p -> peaks_are (wsum g_all rs) M (pool_reset_peak p).
Proof.
  unfold peaks_are. induction p; cbn [pool_ok pool_reset_peak pool_peaks]; intros Hok Hp; auto.
  - apply IHp; tauto.
  - destruct Hok as (Hi & Hr & _). inversion Hp; subst. inversion H1; subst. constructor; [reflexivity|auto].
Qed.

Lemma fresh_peaks p : fresh p = true -> peaks_are 0 0 p.
Proof.
  unfold peaks_are. induction p; cbn [fresh pool_peaks]; intros F; try constructor.
  - apply andb_prop in F. now apply IHp.
  - repeat (apply andb_prop in F; destruct F as [F ?]). destr_eqb; try discriminate. subst. reflexivity.
  - repeat (apply andb_prop in F; destruct F as [F ?]). now apply IHp.
Qed.

(* a step that leaves the recorders alone and does not raise the total *)
Lemma peaks_keep P M p p' :
  peaks_are P M p -> pool_peaks p' = pool_peaks p -> pool_reserved p' <= P -> P <= M ->
  peaks_are (N.max P (pool_reserved p')) (N.max M (pool_reserved p')) p'.
Proof.
  unfold peaks_are. intros Hp E L1 L2. rewrite E, !N.max_l by lia. exact Hp.
Qed.

Lemma step_peaks s o P M :
  Inv s -> is_reset o = false -> peaks_are P M (st_pool s) -> total s <= P -> P <= M ->
  let s' := fst (step s o) in
  peaks_are (N.max P (total s')) (N.max M (total s')) (st_pool s').
Proof.
  intros I Hr Hp L1 L2. unfold total in *.
  assert (Same : peaks_are (N.max P (pool_reserved (st_pool s))) (N.max M (pool_reserved (st_pool s))) (st_pool s)).
  { apply (peaks_keep P M (st_pool s)); auto. }
  assert (Grow : forall sp cid n, peaks_are (N.max P (pool_reserved (pool_grow (st_pool s) sp cid n)))
                                   (N.max M (pool_reserved (pool_grow (st_pool s) sp cid n)))
                                   (pool_grow (st_pool s) sp cid n)).
  { intros. rewrite reserved_grow, (inv_reserved s I). eapply peaks_grow; eauto. apply I. }
  assert (Shr : forall sp cid n p', pool_shrink (st_pool s) sp cid n = Some p' ->
                 peaks_are (N.max P (pool_reserved p')) (N.max M (pool_reserved p')) p').
  { intros sp cid n p' E. apply (peaks_keep P M (st_pool s)); auto using (peaks_shrink _ _ _ _ _ E).
    pose proof (reserved_shrink _ _ _ _ _ E). lia. }
  destruct o; try discriminate; cbv zeta; step_cases; auto;
    try match goal with
        | E : pool_try_grow _ _ _ _ _ = Some _ |- _ => apply try_grow_is_grow in E; subst; auto
        end; eauto.
  - apply (peaks_keep P M (st_pool s)); auto using peaks_register. rewrite reserved_register. assumption.
  - (* drop *)
    assert (K : pool_peaks p = pool_peaks (st_pool s) /\ pool_reserved p <= pool_reserved (st_pool s)).
    { destruct (r_size r =? 0).
      - inversion Heqo0; subst. split; [reflexivity|lia].
      - split; [eapply peaks_shrink; eauto|]. pose proof (reserved_shrink _ _ _ _ _ Heqo0). lia. }
    destruct K as [K1 K2].
    assert (K' : pool_peaks p1 = pool_peaks p /\ pool_reserved p1 = pool_reserved p).
    { destruct b.
      - split; [eapply peaks_unregister; eauto|eapply reserved_unregister; eauto].
      - inversion Heqo2; subst. auto. }
    destruct K' as [K3 K4].
    apply (peaks_keep P M (st_pool s)); auto; [congruence|lia].
Qed.

Lemma step_peaks_reset s P M :
  Inv s -> peaks_are P M (st_pool s) ->
  peaks_are (total s) M (st_pool (fst (step s OResetPeak))) /\ total (fst (step s OResetPeak)) = total s.
Proof.
  intros I Hp. unfold total. cbn [step fst upd st_pool]. rewrite reserved_reset. split; [|reflexivity].
  rewrite (inv_reserved s I). eapply peaks_reset; eauto. apply I.
Qed.

Definition no_reset (h : list op) : bool := forallb (fun o => negb (is_reset o)) h.

Lemma list_max_cons x l : list_max (x :: l) = N.max x (list_max l).
Proof. reflexivity. Qed.

Lemma run_peaks_noreset h : forall s P M,
  Inv s -> no_reset h = true -> peaks_are P M (st_pool s) -> total s <= P -> P <= M ->
  peaks_are (N.max P (list_max (map total (run_states s h)))) (N.max M (list_max (map total (run_states s h))))
            (st_pool (run s h)).
Proof.
  induction h as [|o h IH]; intros s P M I Hn Hp L1 L2; cbn [run run_states map].
  - cbn [list_max fold_right]. now rewrite !N.max_0_r.
  - cbn [no_reset forallb] in Hn. apply andb_prop in Hn. destruct Hn as [Ho Hn]. apply negb_true_iff in Ho.
    rewrite list_max_cons, !N.max_assoc. apply IH; auto.
    + now apply step_inv.
    + now apply step_peaks.
    + lia.
    + lia.
Qed.

Lemma run_max h : forall s P M,
  Inv s -> peaks_are P M (st_pool s) -> total s <= P -> P <= M ->
  exists P', peaks_are P' (N.max M (list_max (map total (run_states s h)))) (st_pool (run s h)).
Proof.
  induction h as [|o h IH]; intros s P M I Hp L1 L2; cbn [run run_states map].
  - exists P. cbn [list_max fold_right]. now rewrite N.max_0_r.
  - rewrite list_max_cons, N.max_assoc. destruct (is_reset o) eqn:R.
    + destruct o; try discriminate. destruct (step_peaks_reset s P M I Hp) as [Hp' Ht].
      rewrite Ht. rewrite (N.max_l M (total s)) by lia.
      apply (IH _ (total s)); auto; [now apply step_inv|lia|lia].
    + apply (IH _ (N.max P (total (fst (step s o))))); [now apply step_inv|now apply step_peaks|lia|lia].
Qed.

Lemma total_le_list_max h : forall s M,
  total s <= M -> total (run s h) <= N.max M (list_max (map total (run_states s h))).
Proof.
  induction h as [|o h IH]; intros s M L; cbn [run run_states map].
  - cbn [list_max fold_right]. lia.
  - rewrite list_max_cons, N.max_assoc. apply IH. lia.
Qed.

Lemma init_total cfg : fresh cfg = true -> total (init cfg) = 0.
Proof. intros F. unfold total. rewrite (inv_reserved _ (init_inv cfg F)). reflexivity. Qed.

Theorem peak_max_is_max_ever cfg h :
  fresh cfg = true ->
  Forall (fun x => snd x = list_max (map total (init cfg :: run_states (init cfg) h)))
         (pool_peaks (st_pool (run (init cfg) h))).
Proof.
  intros F. destruct (run_max h (init cfg) 0 0 (init_inv cfg F)) as (P' & Hp).
  - cbn [init st_pool]. now apply fresh_peaks.
  - rewrite init_total by assumption. lia.
  - lia.
  - cbn [map]. rewrite list_max_cons, init_total by assumption.
    eapply Forall_impl; [|exact Hp]. cbv beta. intros x ->. reflexivity.
Qed.

Theorem peak_is_max_without_reset cfg h :
  fresh cfg = true -> no_reset h = true ->
  Forall (fun x => fst x = list_max (map total (init cfg :: run_states (init cfg) h)))
         (pool_peaks (st_pool (run (init cfg) h))).
Proof.
  intros F Hn. pose proof (run_peaks_noreset h (init cfg) 0 0 (init_inv cfg F) Hn) as Hp.
  cbn [map]. rewrite list_max_cons, init_total by assumption.
  eapply Forall_impl; [|apply Hp].
  - cbv beta. intros x ->. reflexivity.
  - cbn [init st_pool]. now apply fresh_peaks.
  - rewrite init_total by assumption. lia.
  - lia.
Qed.

Theorem peak_is_max_since_reset cfg h1 h2 :
  fresh cfg = true -> no_reset h2 = true ->
  let s1 := run (init cfg) (h1 ++ [OResetPeak]) in
  Forall (fun x => fst x = list_max (map total (s1 :: run_states s1 h2)))
         (pool_peaks (st_pool (run (init cfg) (h1 ++ OResetPeak :: h2)))).
Proof.
  intros F Hn s1.
  pose proof (run_inv _ h1 (init_inv cfg F)) as I0.
  destruct (run_max h1 (init cfg) 0 0 (init_inv cfg F)) as (P0 & Hp0);
    [cbn [init st_pool]; now apply fresh_peaks|rewrite init_total by assumption; lia|lia|].
  destruct (step_peaks_reset _ _ _ I0 Hp0) as [Hp1 Ht].
  assert (E1 : s1 = fst (step (run (init cfg) h1) OResetPeak)).
  { unfold s1. rewrite run_app. reflexivity. }
  assert (E2 : run (init cfg) (h1 ++ OResetPeak :: h2) = run s1 h2).
  { rewrite run_app. cbn [run]. now rewrite <- E1. }
  rewrite E2. rewrite <- E1 in Hp1, Ht.
  assert (I1 : Inv s1) by (rewrite E1; now apply step_inv).
  assert (LM : total s1 <= N.max 0 (list_max (map total (run_states (init cfg) h1)))).
  { rewrite Ht. apply total_le_list_max. rewrite init_total by assumption. lia. }
  rewrite <- Ht in Hp1.
  pose proof (run_peaks_noreset h2 s1 (total s1) _ I1 Hn Hp1 (N.le_refl _) LM) as Hp.
  cbn [map]. rewrite list_max_cons.
  eapply Forall_impl; [|exact Hp]. cbv beta. intros x ->. reflexivity.
Qed.

(* ------------------------------------------------------------------ free / drop give back exactly the bytes *)
Lemma notin_find_none rid rs : ~ In rid (map r_id rs) -> find_resv rid rs = None.
Proof.
  induction rs as [|x rs IH]; cbn [map In find_resv]; [reflexivity|]. intros H.
  destruct (N.eqb_spec (r_id x) rid); [tauto|]. apply IH. tauto.
Qed.

Theorem free_returns_exact cfg h rid r :
  fresh cfg = true ->
  let s := run (init cfg) h in
  find_resv rid (st_resvs s) = Some r ->
  exists s' r', step s (OFree rid) = (s', DoneN (r_size r)) /\
                total s' + r_size r = total s /\
                find_resv rid (st_resvs s') = Some r' /\ r_size r' = 0.
Proof.
  intros F s Fr. pose proof (run_inv _ h (init_inv cfg F)) as I. fold s in I.
  cbn [step]. unfold on_resv. rewrite Fr. unfold do_free.
  pose proof (find_id _ _ _ Fr) as Hid.
  destruct (N.eqb_spec (r_size r) 0) as [E|E].
  - exists s, r. rewrite E. repeat split; auto. lia.
  - rewrite <- Hid in Fr.
    pose proof (set_size_shrink_eq _ _ _ (r_size r) Fr (N.le_refl _)) as W. rewrite N.sub_diag in W.
    destruct (pool_shrink_ok (st_pool s) _ _ _ (r_spill r) (r_cid r) (r_size r) (inv_keys_nodup s I) W (inv_pool s I))
      as (p' & Ep & Hp). rewrite Ep.
    eexists. eexists. split; [reflexivity|]. unfold total. cbn [upd st_pool st_resvs]. split.
    + eapply reserved_shrink; eauto.
    + rewrite <- Hid. rewrite (find_set_size _ 0 _ _ Fr). split; reflexivity.
Qed.

Theorem drop_returns_exact cfg h rid r :
  fresh cfg = true ->
  let s := run (init cfg) h in
  find_resv rid (st_resvs s) = Some r ->
  exists s', step s (ODrop rid) = (s', Done) /\
             total s' + r_size r = total s /\
             find_resv rid (st_resvs s') = None.
Proof.
  intros F s Fr. pose proof (run_inv _ h (init_inv cfg F)) as I. fold s in I.
  pose proof (step_good s (ODrop rid) I) as [I' NF].
  pose proof (inv_reserved _ I') as T'. pose proof (inv_reserved _ I) as T.
  revert I' NF T'. cbn [step]. unfold on_resv. rewrite Fr. unfold do_drop.
  pose proof (find_id _ _ _ Fr) as Hid.
  destruct (if r_size r =? 0 then Some (st_pool s) else pool_shrink (st_pool s) (r_spill r) (r_cid r) (r_size r));
    [|intros _ NF; now elim NF].
  destruct (reg_decr (r_cid r) (st_regs s)) as [[cs' last]|]; [|intros _ NF; now elim NF].
  destruct (if last then pool_unregister p (r_cid r) (r_spill r) else Some p); [|intros _ NF; now elim NF].
  cbn [fst snd upd st_pool st_resvs]. intros I' _ T'.
  eexists. split; [reflexivity|]. unfold total. cbn [upd st_pool st_resvs]. rewrite T', T. split.
  - rewrite Hid. pose proof (wsum_remove g_all _ _ _ Fr) as W. unfold gsel, g_all at 2 in W. exact W.
  - rewrite Hid. apply notin_find_none.
    destruct (find_split _ _ _ Fr) as (a & b & Ers & _ & _ & Erm). rewrite Erm.
    pose proof (inv_rid_nodup s I) as Nd. rewrite Ers, map_app in Nd. cbn [map] in Nd.
    apply NoDup_remove_2 in Nd. now rewrite map_app, <- Hid.
Qed.

(* ------------------------------------------------------------------ interleavings of per-thread operation lists *)
Lemma interleaving_forallb (f : op -> bool) ts l :
  interleaving ts l -> Forall (fun t => forallb f t = true) ts -> forallb f l = true.
Proof.
  induction 1 as [ts H|ts1 o t ts2 l H IH]; intros Hf; [reflexivity|].
  apply Forall_app in Hf. destruct Hf as [F1 F2]. inversion F2; subst. cbn [forallb] in *.
  apply andb_prop in H2. destruct H2 as [Ho Ht]. rewrite Ho. cbn [andb]. apply IH.
  apply Forall_app. split; [assumption|]. constructor; assumption.
Qed.

(* every consequence of the invariant, for the state reached by any operation list *)
Definition accounted (s : state) : Prop :=
  total s = sum_sizes (st_resvs s) /\
  total s < usize_lim /\
  Forall (fun t => map t_cid t = map g_id (st_regs s) /\
                   Forall (fun e => t_res e = consumer_sum (t_cid e) (st_resvs s) /\ t_res e <= t_peak e) t)
         (pool_metrics (st_pool s)) /\
  Forall (fun x => total s <= fst x /\ fst x <= snd x) (pool_peaks (st_pool s)).

Lemma peaks_ge_total p ks rs :
  pool_ok p ks rs -> Forall (fun x => wsum g_all rs <= fst x /\ fst x <= snd x) (pool_peaks p).
Proof.
  induction p; cbn [pool_ok pool_peaks]; intros H; try constructor.
  - apply IHp; tauto.
  - cbn [fst snd]. destruct H as (_ & -> & ? & ?). split; assumption.
  - apply IHp; tauto.
Qed.

Lemma inv_accounted s : Inv s -> accounted s.
Proof.
  intros I. unfold accounted, total. rewrite (inv_reserved s I). repeat split.
  - apply I.
  - pose proof (metrics_ok _ _ _ (inv_pool s I)) as M. rewrite keys_fst in M. exact M.
  - exact (peaks_ge_total _ _ _ (inv_pool s I)).
Qed.

Theorem accounted_after_any_history cfg h : fresh cfg = true -> accounted (run (init cfg) h).
Proof. intros F. apply inv_accounted, run_inv, init_inv, F. Qed.

Theorem accounted_after_every_step cfg h :
  fresh cfg = true -> Forall accounted (run_states (init cfg) h).
Proof.
  intros F. eapply Forall_impl; [exact inv_accounted|]. apply run_states_inv, init_inv, F.
Qed.

Theorem interleaving_accounted cfg ts l :
  fresh cfg = true -> interleaving ts l ->
  accounted (run (init cfg) l) /\ Forall accounted (run_states (init cfg) l).
Proof. intros F _. split; [now apply accounted_after_any_history|now apply accounted_after_every_step]. Qed.

Theorem interleaving_greedy cfg lim ts l :
  fresh cfg = true -> greedy_limit cfg = Some lim -> interleaving ts l ->
  Forall (fun t => forallb fallible t = true) ts ->
  total (run (init cfg) l) <= lim.
Proof.
  intros F G Hi Hf. apply greedy_never_exceeds_by_try_grow; auto. eapply interleaving_forallb; eauto.
Qed.

(* ------------------------------------------------------------------ the kind and limit of the bottom pool never change *)
Inductive kind := KUnbounded | KGreedy (l : N) | KFair (l : N).
Definition pool_kind (p : pool) : kind :=
  match pool_base p with
  | PGreedy l _ => KGreedy l
  | PFair l _ _ _ => KFair l
  | _ => KUnbounded
  end.

Lemma kind_grow p sp cid n : pool_kind (pool_grow p sp cid n) = pool_kind p.
Proof. unfold pool_kind. induction p; cbn [pool_grow pool_base peak_record]; auto. destruct sp; reflexivity. Qed.
Lemma kind_shrink p sp cid n p' : pool_shrink p sp cid n = Some p' -> pool_kind p' = pool_kind p.
Proof.
  unfold pool_kind. revert p'. induction p; cbn [pool_shrink pool_base]; intros p' H.
  - destruct (n <=? used); inversion H; reflexivity.
  - destruct (n <=? used); inversion H; reflexivity.
  - destruct sp; [destruct (n <=? spillable)|destruct (n <=? unspillable)]; inversion H; reflexivity.
  - destruct (pool_shrink p sp cid n); [|discriminate]. destruct (tr_shrink cid n tracked); inversion H.
    cbn [pool_base]. now apply IHp.
  - destruct (pool_shrink p sp cid n); [|discriminate]. destruct (n <=? reserved); inversion H.
    cbn [pool_base]. now apply IHp.
Qed.
Lemma kind_register p cid sp : pool_kind (pool_register p cid sp) = pool_kind p.
Proof. unfold pool_kind. induction p; cbn [pool_register pool_base]; auto. destruct sp; reflexivity. Qed.
Lemma kind_unregister p cid sp p' : pool_unregister p cid sp = Some p' -> pool_kind p' = pool_kind p.
Proof.
  unfold pool_kind. revert p'. induction p; cbn [pool_unregister pool_base]; intros p' H; try (now inversion H).
  - destruct sp; [destruct (1 <=? num_spill)|]; inversion H; reflexivity.
  - destruct (pool_unregister p cid sp); inversion H. cbn [pool_base]. now apply IHp.
  - destruct (pool_unregister p cid sp); inversion H. cbn [pool_base]. now apply IHp.
Qed.
Lemma kind_reset p : pool_kind (pool_reset_peak p) = pool_kind p.
Proof. unfold pool_kind. induction p; cbn [pool_reset_peak pool_base]; auto. Qed.

Lemma step_kind s o : pool_kind (st_pool (fst (step s o))) = pool_kind (st_pool s).
Proof.
  destruct o; step_cases; auto using kind_grow, kind_register, kind_reset;
    try match goal with
        | E : pool_try_grow _ _ _ _ _ = Some _ |- _ => apply try_grow_is_grow in E; subst; apply kind_grow
        end; eauto using kind_shrink.
  (* drop *)
  assert (pool_kind p = pool_kind (st_pool s)).
  { destruct (r_size r =? 0); [now inversion Heqo0|eauto using kind_shrink]. }
  destruct b; [erewrite kind_unregister; eauto|inversion Heqo2; subst; assumption].
Qed.

Lemma run_kind s h : pool_kind (st_pool (run s h)) = pool_kind (st_pool s).
Proof. revert s. induction h as [|o h IH]; intros s; cbn [run]; [reflexivity|]. now rewrite IH, step_kind. Qed.

Lemma fair_limit_kind p : fair_limit p = match pool_kind p with KFair l => Some l | _ => None end.
Proof. unfold fair_limit, pool_kind. destruct (pool_base p); reflexivity. Qed.
Lemma greedy_limit_kind p : greedy_limit p = match pool_kind p with KGreedy l => Some l | _ => None end.
Proof. unfold greedy_limit, pool_kind. destruct (pool_base p); reflexivity. Qed.

Theorem fair_grant_within_share_reachable cfg h o rid n l s' r' :
  fresh cfg = true -> fair_limit cfg = Some l ->
  let s := run (init cfg) h in
  fallible_growth s o = Some (rid, n) ->
  step s o = (s', Done) -> find_resv rid (st_resvs s') = Some r' ->
  if r_spill r'
  then 1 <= num_spillable (st_regs s') /\
       r_size r' <= (l - sum_unspillable (st_resvs s')) / num_spillable (st_regs s')
  else n = 0 \/ total s' <= l.
Proof.
  intros F Fl s. apply fair_grant_within_share.
  - apply run_inv, init_inv, F.
  - unfold s. rewrite fair_limit_kind, run_kind. cbn [init st_pool]. now rewrite <- fair_limit_kind.
Qed.

Theorem greedy_grant_within_limit_reachable cfg h o rid n l s' :
  greedy_limit cfg = Some l ->
  let s := run (init cfg) h in
  fallible_growth s o = Some (rid, n) -> step s o = (s', Done) -> total s' <= l.
Proof.
  intros G s. apply greedy_grant_within_limit.
  unfold s. rewrite greedy_limit_kind, run_kind. cbn [init st_pool]. now rewrite <- greedy_limit_kind.
Qed.
