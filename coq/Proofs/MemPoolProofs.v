(* C17 -- proofs about Model/MemPool.v: exact accounting, refusals change nothing, limits, fair share,
   consumer tracking, peak recording; all by induction over arbitrary operation histories. *)
From Coq Require Import List NArith Bool Lia.
From DF Require Import Base.Prelude Model.MemPool.
Import ListNotations.
Open Scope N_scope.

Ltac destr_eqb :=
  repeat match goal with
  | |- context [?a =? ?b] => destruct (N.eqb_spec a b)
  | H : context [?a =? ?b] |- _ => destruct (N.eqb_spec a b)
  end.

(* ------------------------------------------------------------------ sums over reservations *)
Lemma wsum_app g a b : wsum g (a ++ b) = wsum g a + wsum g b.
Proof.
  unfold wsum. induction a as [|x a IH]; cbn [app fold_right]; [lia|].
  rewrite IH. destruct (g (r_cid x) (r_spill x)); lia.
Qed.

Lemma wsum_cons g x a :
  wsum g (x :: a) = (if g (r_cid x) (r_spill x) then r_size x else 0) + wsum g a.
Proof. unfold wsum. cbn [fold_right]. destruct (g (r_cid x) (r_spill x)); lia. Qed.

Lemma wsum_nil g : wsum g [] = 0.
Proof. reflexivity. Qed.

Lemma wsum_split rs : wsum g_spillable rs + wsum g_unspillable rs = wsum g_all rs.
Proof.
  induction rs as [|x rs IH]; [reflexivity|].
  rewrite !wsum_cons. unfold g_spillable, g_unspillable, g_all in *. destruct (r_spill x); cbn [negb]; lia.
Qed.

Lemma wsum_le_all g rs : wsum g rs <= wsum g_all rs.
Proof.
  induction rs as [|x rs IH]; [reflexivity|].
  rewrite !wsum_cons. unfold g_all at 1. destruct (g (r_cid x) (r_spill x)); lia.
Qed.

(* the shape of the list around the (first) reservation with a given id *)
Lemma find_split rid rs r :
  find_resv rid rs = Some r ->
  exists l1 l2, rs = l1 ++ r :: l2 /\ r_id r = rid /\
    (forall z, set_size rid z rs = l1 ++ mkResv (r_id r) (r_cid r) (r_spill r) z :: l2) /\
    remove_resv rid rs = l1 ++ l2.
Proof.
  induction rs as [|x rs IH]; cbn [find_resv set_size remove_resv]; [discriminate|].
  destruct (N.eqb_spec (r_id x) rid) as [E|E]; intros H.
  - inversion H; subst x. exists [], rs. cbn [app]. repeat split; auto.
  - destruct (IH H) as (l1 & l2 & -> & Hid & Hs & Hr).
    exists (x :: l1), l2. cbn [app]. repeat split; auto.
    + intros z. now rewrite Hs.
    + now rewrite Hr.
Qed.

Lemma find_none_notin rid rs : find_resv rid rs = None -> ~ In rid (map r_id rs).
Proof.
  induction rs as [|x rs IH]; cbn [find_resv map In]; [tauto|].
  destruct (N.eqb_spec (r_id x) rid); [discriminate|]. intros H [E|E]; [contradiction|]. now apply IH.
Qed.

Definition gsel (g : N -> bool -> bool) (r : resv) (v : N) : N := if g (r_cid r) (r_spill r) then v else 0.

Lemma wsum_set_size g rid z rs r :
  find_resv rid rs = Some r ->
  wsum g (set_size rid z rs) + gsel g r (r_size r) = wsum g rs + gsel g r z.
Proof.
  intros H. destruct (find_split _ _ _ H) as (l1 & l2 & -> & _ & Hs & _).
  rewrite Hs, !wsum_app, !wsum_cons. unfold gsel. cbn [r_cid r_spill r_size].
  destruct (g (r_cid r) (r_spill r)); lia.
Qed.

Lemma wsum_remove g rid rs r :
  find_resv rid rs = Some r ->
  wsum g (remove_resv rid rs) + gsel g r (r_size r) = wsum g rs.
Proof.
  intros H. destruct (find_split _ _ _ H) as (l1 & l2 & -> & _ & _ & Hr).
  rewrite Hr, !wsum_app, !wsum_cons. unfold gsel. destruct (g (r_cid r) (r_spill r)); lia.
Qed.

Lemma wsum_ge_size g rid rs r :
  find_resv rid rs = Some r -> gsel g r (r_size r) <= wsum g rs.
Proof. intros H. pose proof (wsum_remove g _ _ _ H). lia. Qed.

(* ------------------------------------------------------------------ the pool invariant *)
Definition keys (cs : list creg) : list (N * bool) := map (fun c => (g_id c, g_spill c)) cs.
Definition trk_ok (rs : list resv) (e : trk) : Prop :=
  t_res e = wsum (g_cid (t_cid e)) rs /\ t_res e <= t_peak e.

Fixpoint pool_ok (p : pool) (ks : list (N * bool)) (rs : list resv) : Prop :=
  match p with
  | PUnbounded u => u = wsum g_all rs
  | PGreedy _ u => u = wsum g_all rs
  | PFair _ ns sp un =>
      ns = N.of_nat (length (filter snd ks)) /\ sp = wsum g_spillable rs /\ un = wsum g_unspillable rs
  | PTrack i t => pool_ok i ks rs /\ map t_cid t = map fst ks /\ Forall (trk_ok rs) t
  | PPeak i r pk mx => pool_ok i ks rs /\ r = wsum g_all rs /\ r <= pk /\ pk <= mx
  end.

Lemma pool_reserved_ok p ks rs : pool_ok p ks rs -> pool_reserved p = wsum g_all rs.
Proof.
  induction p; cbn [pool_ok pool_reserved]; intros H; auto.
  - destruct H as (_ & -> & ->). apply wsum_split.
  - now apply IHp.
  - now apply IHp.
Qed.

Lemma fresh_ok p : fresh p = true -> pool_ok p [] [].
Proof.
  induction p; cbn [fresh pool_ok]; intros H;
    repeat (apply andb_prop in H; destruct H as [H ?]); destr_eqb; try discriminate; subst; auto.
  - split; [now apply IHp|]. destruct tracked; [|discriminate]. split; [reflexivity|constructor].
  - split; [now apply IHp|]. rewrite wsum_nil. repeat split; reflexivity.
Qed.

Lemma g_cid_neq k cid sp : k <> cid -> g_cid k cid sp = false.
Proof. unfold g_cid. intros H. destruct (N.eqb_spec cid k); congruence. Qed.
Lemma g_cid_eq k sp : g_cid k k sp = true.
Proof. unfold g_cid. apply N.eqb_refl. Qed.

(* --- tracked-consumer list *)
Lemma tr_grow_keys cid n t : map t_cid (tr_grow cid n t) = map t_cid t.
Proof. induction t as [|e t IH]; cbn [tr_grow map]; [reflexivity|]. destr_eqb; cbn [map t_cid]; congruence. Qed.

Lemma trk_ok_other rs rs' cid t :
  (forall k, k <> cid -> wsum (g_cid k) rs' = wsum (g_cid k) rs) ->
  ~ In cid (map t_cid t) -> Forall (trk_ok rs) t -> Forall (trk_ok rs') t.
Proof.
  intros Hw. induction t as [|e t IH]; intros Hn Hf; [constructor|].
  inversion Hf; subst. cbn [map In] in Hn. constructor.
  - unfold trk_ok in *. rewrite Hw; [assumption|]. intros E; apply Hn; now left.
  - apply IH; auto.
Qed.

Lemma tr_grow_ok rs rs' cid sp n t :
  (forall g, wsum g rs' = wsum g rs + (if g cid sp then n else 0)) ->
  NoDup (map t_cid t) -> Forall (trk_ok rs) t -> Forall (trk_ok rs') (tr_grow cid n t).
Proof.
  intros Hw. assert (Ho : forall k, k <> cid -> wsum (g_cid k) rs' = wsum (g_cid k) rs).
  { intros k Hk. rewrite Hw, g_cid_neq by assumption. lia. }
  induction t as [|e t IH]; intros Hnd Hf; cbn [tr_grow]; [constructor|].
  cbn [map] in Hnd. inversion Hnd; subst. inversion Hf; subst.
  destruct (N.eqb_spec (t_cid e) cid) as [E|E].
  - constructor.
    + unfold trk_ok in *. cbn [t_res t_cid t_peak]. rewrite Hw, E, g_cid_eq.
      destruct H3 as [-> _]. rewrite E. split; [reflexivity|]. apply N.le_max_r.
    + apply (trk_ok_other rs rs' cid); auto. now rewrite <- E.
  - constructor.
    + unfold trk_ok in *. now rewrite Ho.
    + now apply IH.
Qed.

Lemma tr_shrink_ok rs rs' cid sp n t :
  (forall g, wsum g rs' + (if g cid sp then n else 0) = wsum g rs) ->
  NoDup (map t_cid t) -> Forall (trk_ok rs) t ->
  exists t', tr_shrink cid n t = Some t' /\ map t_cid t' = map t_cid t /\ Forall (trk_ok rs') t'.
Proof.
  intros Hw. assert (Ho : forall k, k <> cid -> wsum (g_cid k) rs' = wsum (g_cid k) rs).
  { intros k Hk. rewrite <- (Hw (g_cid k)), g_cid_neq by assumption. lia. }
  induction t as [|e t IH]; intros Hnd Hf; cbn [tr_shrink].
  - exists []. repeat split; constructor.
  - cbn [map] in Hnd. inversion Hnd; subst. inversion Hf; subst.
    destruct (N.eqb_spec (t_cid e) cid) as [E|E].
    + pose proof (Hw (g_cid cid)) as Hc. rewrite g_cid_eq in Hc.
      destruct H3 as [Hr Hp]. rewrite E in Hr.
      destruct (N.leb_spec n (t_res e)); [|lia].
      eexists. split; [reflexivity|]. split; [reflexivity|]. constructor.
      * unfold trk_ok. cbn [t_res t_cid t_peak]. rewrite E. split; lia.
      * apply (trk_ok_other rs rs' cid); auto. now rewrite <- E.
    + destruct (IH H2 H4) as (t' & -> & Hk & Hf').
      eexists. split; [reflexivity|]. split; [cbn [map]; congruence|]. constructor; auto.
      unfold trk_ok in *. now rewrite Ho.
Qed.

Lemma tr_remove_notin cid t : ~ In cid (map t_cid t) -> tr_remove cid t = t.
Proof.
  induction t as [|e t IH]; cbn [tr_remove map In]; [reflexivity|]. intros H.
  destruct (N.eqb_spec (t_cid e) cid); [tauto|]. rewrite IH; tauto.
Qed.

Lemma tr_remove_split cid (k1 : list (N * bool)) : forall t kx k2,
  map t_cid t = map fst (k1 ++ kx :: k2) -> fst kx = cid -> ~ In cid (map fst k1) ->
  exists t1 e t2, t = t1 ++ e :: t2 /\ tr_remove cid t = t1 ++ t2 /\ map t_cid (t1 ++ t2) = map fst (k1 ++ k2).
Proof.
  induction k1 as [|a k1 IH]; intros t kx k2 Hm Hx Hn; cbn [app map In] in *.
  - destruct t as [|e t]; [discriminate|]. cbn [map] in Hm. inversion Hm.
    exists [], e, t. cbn [app tr_remove]. rewrite H0, Hx, N.eqb_refl. auto.
  - destruct t as [|e t]; [discriminate|]. cbn [map] in Hm. inversion Hm.
    destruct (IH t kx k2 H1 Hx) as (t1 & e' & t2 & -> & Hr & Hk); [tauto|].
    exists (e :: t1), e', t2. cbn [app tr_remove map].
    destruct (N.eqb_spec (t_cid e) cid) as [E|E]; [exfalso; apply Hn; left; congruence|].
    rewrite Hr. cbn [app map] in *. repeat split; congruence.
Qed.

(* --- one lemma per MemoryPool method *)
Lemma pool_grow_ok p ks rs rs' sp cid n :
  NoDup (map fst ks) ->
  (forall g, wsum g rs' = wsum g rs + (if g cid sp then n else 0)) ->
  pool_ok p ks rs -> pool_ok (pool_grow p sp cid n) ks rs'.
Proof.
  intros Hnd Hw.
  pose proof (Hw g_all) as Ha. change (g_all cid sp) with true in Ha.
  pose proof (Hw g_spillable) as H1. change (g_spillable cid sp) with sp in H1.
  pose proof (Hw g_unspillable) as H2. change (g_unspillable cid sp) with (negb sp) in H2.
  induction p; cbn [pool_ok pool_grow]; intros H.
  - lia.
  - lia.
  - destruct H as (Hn & Hs & Hu).
    destruct sp; cbn [pool_ok negb] in *; repeat split; auto; lia.
  - destruct H as (Hi & Hk & Hf). split; [auto|]. split; [now rewrite tr_grow_keys|].
    apply (tr_grow_ok rs rs' cid sp); auto. now rewrite Hk.
  - destruct H as (Hi & Hr & Hp & Hm). unfold peak_record. cbn [pool_ok]. split; [auto|].
    subst reserved. repeat split; lia.
Qed.

Lemma try_grow_is_grow p sp cid z n p' :
  pool_try_grow p sp cid z n = Some p' -> p' = pool_grow p sp cid n.
Proof.
  revert p'. induction p; cbn [pool_try_grow pool_grow]; intros p' H.
  - now inversion H.
  - destruct (_ <=? _) in H; [now inversion H|discriminate].
  - destruct sp.
    + destruct (_ <? _) in H; [discriminate|now inversion H].
    + destruct (_ <? _) in H; [discriminate|now inversion H].
  - destruct (pool_try_grow p sp cid z n); [|discriminate]. inversion H. now rewrite (IHp p0).
  - destruct (pool_try_grow p sp cid z n); [|discriminate]. inversion H. now rewrite (IHp p0).
Qed.

Lemma pool_shrink_ok p ks rs rs' sp cid n :
  NoDup (map fst ks) ->
  (forall g, wsum g rs' + (if g cid sp then n else 0) = wsum g rs) ->
  pool_ok p ks rs -> exists p', pool_shrink p sp cid n = Some p' /\ pool_ok p' ks rs'.
Proof.
  intros Hnd Hw.
  pose proof (Hw g_all) as Ha. change (g_all cid sp) with true in Ha.
  pose proof (Hw g_spillable) as H1. change (g_spillable cid sp) with sp in H1.
  pose proof (Hw g_unspillable) as H2. change (g_unspillable cid sp) with (negb sp) in H2.
  induction p; cbn [pool_ok pool_shrink]; intros H.
  - destruct (N.leb_spec n used); [|lia]. eexists; split; [reflexivity|]. cbn [pool_ok]. lia.
  - destruct (N.leb_spec n used); [|lia]. eexists; split; [reflexivity|]. cbn [pool_ok]. lia.
  - destruct H as (Hn & Hs & Hu). destruct sp; cbn [negb] in *.
    + destruct (N.leb_spec n spillable); [|lia]. eexists; split; [reflexivity|].
      cbn [pool_ok]. repeat split; auto; lia.
    + destruct (N.leb_spec n unspillable); [|lia]. eexists; split; [reflexivity|].
      cbn [pool_ok]. repeat split; auto; lia.
  - destruct H as (Hi & Hk & Hf). destruct (IHp Hi) as (i' & -> & Hi').
    destruct (tr_shrink_ok rs rs' cid sp n tracked Hw) as (t' & -> & Hk' & Hf'); [now rewrite Hk|auto|].
    eexists; split; [reflexivity|]. cbn [pool_ok]. repeat split; auto. congruence.
  - destruct H as (Hi & Hr & Hp & Hm). destruct (IHp Hi) as (i' & -> & Hi').
    destruct (N.leb_spec n reserved); [|lia]. eexists; split; [reflexivity|].
    cbn [pool_ok]. repeat split; auto; lia.
Qed.

Lemma pool_same_ok p ks rs rs' :
  (forall g, wsum g rs' = wsum g rs) -> pool_ok p ks rs -> pool_ok p ks rs'.
Proof.
  intros Hw. induction p; cbn [pool_ok]; intros H; rewrite ?Hw; auto.
  - destruct H as (Hi & Hk & Hf). repeat split; auto.
    eapply Forall_impl; [|exact Hf]. intros e. unfold trk_ok. now rewrite Hw.
  - destruct H as (Hi & Hr & Hp). repeat split; auto; tauto.
Qed.

Lemma pool_register_ok p ks rs cid sp :
  ~ In cid (map fst ks) -> wsum (g_cid cid) rs = 0 ->
  pool_ok p ks rs -> pool_ok (pool_register p cid sp) (ks ++ [(cid, sp)]) rs.
Proof.
  intros Hn Hz. induction p; cbn [pool_ok pool_register]; intros H; auto.
  - destruct H as (Hc & Hs & Hu).
    destruct sp; cbn [pool_ok]; rewrite filter_app, app_length; cbn [filter snd length]; repeat split; auto; lia.
  - destruct H as (Hi & Hk & Hf). split; [auto|]. unfold tr_insert.
    rewrite tr_remove_notin by now rewrite Hk. rewrite !map_app, Hk. split; [reflexivity|].
    apply Forall_app. split; [assumption|]. constructor; [|constructor].
    unfold trk_ok. cbn [t_res t_cid t_peak]. rewrite Hz. split; reflexivity.
  - destruct H as (Hi & Hr). split; auto.
Qed.

Lemma pool_unregister_ok p k1 k2 cid sp rs :
  ~ In cid (map fst k1) ->
  pool_ok p (k1 ++ (cid, sp) :: k2) rs ->
  exists p', pool_unregister p cid sp = Some p' /\ pool_ok p' (k1 ++ k2) rs.
Proof.
  intros Hn. induction p; cbn [pool_ok pool_unregister]; intros H.
  - eexists; split; [reflexivity|exact H].
  - eexists; split; [reflexivity|exact H].
  - destruct H as (Hc & Hs & Hu). rewrite filter_app, app_length in Hc. cbn [filter snd] in Hc.
    destruct sp; cbn [length] in Hc.
    + destruct (N.leb_spec 1 num_spill); [|lia]. eexists; split; [reflexivity|].
      cbn [pool_ok]. rewrite filter_app, app_length. repeat split; auto; lia.
    + eexists; split; [reflexivity|]. cbn [pool_ok]. rewrite filter_app, app_length. repeat split; auto.
  - destruct H as (Hi & Hk & Hf). destruct (IHp Hi) as (i' & -> & Hi').
    destruct (tr_remove_split cid k1 tracked (cid, sp) k2 Hk eq_refl Hn) as (t1 & e & t2 & -> & -> & Hk').
    eexists; split; [reflexivity|]. cbn [pool_ok]. repeat split; auto.
    apply Forall_app in Hf. destruct Hf as [F1 F2]. inversion F2; subst. apply Forall_app; split; auto.
  - destruct H as (Hi & Hr). destruct (IHp Hi) as (i' & -> & Hi').
    eexists; split; [reflexivity|]. cbn [pool_ok]. split; auto.
Qed.

Lemma pool_reset_ok p ks rs : pool_ok p ks rs -> pool_ok (pool_reset_peak p) ks rs.
Proof.
  induction p; cbn [pool_ok pool_reset_peak]; intros H; auto.
  - destruct H as (Hi & Hr). split; auto.
  - destruct H as (Hi & Hr & Hp & Hm). repeat split; auto; lia.
Qed.

(* ------------------------------------------------------------------ reservations and registrations *)
Definition rkey (r : resv) : N * bool := (r_cid r, r_spill r).
Fixpoint cnt (k : N) (rs : list resv) : N :=
  match rs with
  | [] => 0
  | r :: t => (if r_cid r =? k then 1 else 0) + cnt k t
  end.

Lemma cnt_app k a b : cnt k (a ++ b) = cnt k a + cnt k b.
Proof. induction a as [|x a IH]; cbn [app cnt]; [reflexivity|]. rewrite IH. lia. Qed.

Lemma cnt_zero_notin k rs : cnt k rs = 0 <-> ~ In k (map r_cid rs).
Proof.
  induction rs as [|x rs IH]; cbn [cnt map In]; [tauto|].
  destruct (N.eqb_spec (r_cid x) k); split; intros H; try lia; try tauto.
Qed.

Lemma notin_wsum_zero k rs : ~ In k (map r_cid rs) -> wsum (g_cid k) rs = 0.
Proof.
  induction rs as [|x rs IH]; cbn [map In]; intros H; [reflexivity|].
  rewrite wsum_cons, IH by tauto. rewrite g_cid_neq; [reflexivity|]. intros E. apply H. now left.
Qed.

Lemma set_size_ids rid z rs : map r_id (set_size rid z rs) = map r_id rs.
Proof. induction rs as [|x rs IH]; cbn [set_size map]; [reflexivity|]. destr_eqb; cbn [map r_id]; congruence. Qed.
Lemma set_size_rkeys rid z rs : map rkey (set_size rid z rs) = map rkey rs.
Proof. induction rs as [|x rs IH]; cbn [set_size map]; [reflexivity|]. destr_eqb; cbn [map]; unfold rkey in *; cbn [r_cid r_spill]; congruence. Qed.
Lemma set_size_cnt k rid z rs : cnt k (set_size rid z rs) = cnt k rs.
Proof. induction rs as [|x rs IH]; cbn [set_size cnt]; [reflexivity|]. destruct (r_id x =? rid); cbn [cnt r_cid]; congruence. Qed.

Lemma keys_fst cs : map fst (keys cs) = map g_id cs.
Proof. unfold keys. rewrite map_map. reflexivity. Qed.
Lemma keys_app a b : keys (a ++ b) = keys a ++ keys b.
Proof. apply map_app. Qed.

Lemma reg_split cid cs :
  In cid (map g_id cs) ->
  exists l1 c l2, cs = l1 ++ c :: l2 /\ g_id c = cid /\ ~ In cid (map g_id l1) /\
    reg_incr cid cs = l1 ++ mkReg (g_id c) (g_spill c) (g_rc c + 1) :: l2 /\
    reg_decr cid cs = Some (if g_rc c <=? 1 then (l1 ++ l2, true)
                            else (l1 ++ mkReg (g_id c) (g_spill c) (g_rc c - 1) :: l2, false)).
Proof.
  induction cs as [|x cs IH]; cbn [map In reg_incr reg_decr]; [tauto|]. intros H.
  destruct (N.eqb_spec (g_id x) cid) as [E|E].
  - exists [], x, cs. cbn [app map In]. repeat split; auto. destruct (g_rc x <=? 1); reflexivity.
  - destruct H as [H|H]; [contradiction|].
    destruct (IH H) as (l1 & c & l2 & -> & Hc & Hn & Hi & Hd).
    exists (x :: l1), c, l2. cbn [app map In]. repeat split; auto.
    + intros [F|F]; [contradiction|tauto].
    + now rewrite Hi.
    + rewrite Hd. destruct (g_rc c <=? 1); reflexivity.
Qed.

Lemma NoDup_snoc (l : list N) x : NoDup l -> Forall (fun i => i < x) l -> NoDup (l ++ [x]).
Proof.
  intros Hn Hf. induction l as [|a l IH]; cbn [app]; [constructor; [intros []|constructor]|].
  inversion Hn; subst. inversion Hf; subst. constructor; [|auto].
  rewrite in_app_iff. cbn [In]. intros [F|[F|[]]]; [contradiction|lia].
Qed.

Lemma Forall_lt_notin (l : list N) x : Forall (fun i => i < x) l -> ~ In x l.
Proof. intros Hf Hi. rewrite Forall_forall in Hf. apply Hf in Hi. lia. Qed.

Lemma Forall_lt_weaken (l : list N) x : Forall (fun i => i < x) l -> Forall (fun i => i < x + 1) l.
Proof. intros H. eapply Forall_impl; [|exact H]. cbv beta. intros; lia. Qed.

(* ------------------------------------------------------------------ the state invariant *)
Record Inv (s : state) : Prop := mkInv {
  inv_pool : pool_ok (st_pool s) (keys (st_regs s)) (st_resvs s);
  inv_rid_nodup : NoDup (map r_id (st_resvs s));
  inv_rid_lt : Forall (fun i => i < st_next_rid s) (map r_id (st_resvs s));
  inv_cid_nodup : NoDup (map g_id (st_regs s));
  inv_cid_lt : Forall (fun i => i < st_next_cid s) (map g_id (st_regs s));
  inv_rc : Forall (fun c => g_rc c = cnt (g_id c) (st_resvs s) /\ 1 <= g_rc c) (st_regs s);
  inv_reg : Forall (fun k => In k (keys (st_regs s))) (map rkey (st_resvs s));
  inv_lim : wsum g_all (st_resvs s) < usize_lim }.

Lemma init_inv cfg : fresh cfg = true -> Inv (init cfg).
Proof.
  intros H. constructor; cbn [init st_pool st_regs st_resvs st_next_rid st_next_cid keys map];
    try constructor. now apply fresh_ok. Qed.

Lemma inv_reserved s : Inv s -> pool_reserved (st_pool s) = wsum g_all (st_resvs s).
Proof. intros I. eapply pool_reserved_ok, inv_pool, I. Qed.

Lemma inv_keys_nodup s : Inv s -> NoDup (map fst (keys (st_regs s))).
Proof. intros I. rewrite keys_fst. apply I. Qed.

Lemma inv_find_key s rid r :
  Inv s -> find_resv rid (st_resvs s) = Some r -> In (rkey r) (keys (st_regs s)).
Proof.
  intros I H. destruct (find_split _ _ _ H) as (l1 & l2 & E & _).
  pose proof (inv_reg s I) as F. rewrite E, map_app in F. apply Forall_app in F. destruct F as [_ F].
  cbn [map] in F. now inversion F.
Qed.

(* the size of one reservation changes (the pool has been told): everything structural is untouched *)
Lemma inv_set_size s p' rid z :
  Inv s ->
  pool_ok p' (keys (st_regs s)) (set_size rid z (st_resvs s)) ->
  wsum g_all (set_size rid z (st_resvs s)) < usize_lim ->
  Inv (upd s p' (st_regs s) (set_size rid z (st_resvs s))).
Proof.
  intros I Hp Hl. destruct I. constructor; cbn [upd st_pool st_regs st_resvs st_next_rid st_next_cid];
    rewrite ?set_size_ids, ?set_size_rkeys; auto.
  eapply Forall_impl; [|exact inv_rc0]. cbv beta. intros c. now rewrite set_size_cnt.
Qed.

Lemma find_id rid rs r : find_resv rid rs = Some r -> r_id r = rid.
Proof. intros H. now destruct (find_split _ _ _ H) as (? & ? & _ & E & _). Qed.

Lemma set_size_grow_eq rid rs r n :
  find_resv rid rs = Some r ->
  forall g, wsum g (set_size rid (r_size r + n) rs) = wsum g rs + (if g (r_cid r) (r_spill r) then n else 0).
Proof.
  intros H g. pose proof (wsum_set_size g rid (r_size r + n) rs r H) as E. unfold gsel in E.
  destruct (g (r_cid r) (r_spill r)); lia.
Qed.

Lemma set_size_shrink_eq rid rs r n :
  find_resv rid rs = Some r -> n <= r_size r ->
  forall g, wsum g (set_size rid (r_size r - n) rs) + (if g (r_cid r) (r_spill r) then n else 0) = wsum g rs.
Proof.
  intros H Hn g. pose proof (wsum_set_size g rid (r_size r - n) rs r H) as E. unfold gsel in E.
  destruct (g (r_cid r) (r_spill r)); lia.
Qed.

Definition good (x : state * out) : Prop := Inv (fst x) /\ snd x <> Fault.

Lemma good_same s o : Inv s -> o <> Fault -> good (s, o).
Proof. intros; split; assumption. Qed.

Lemma do_grow_good s r n :
  Inv s -> find_resv (r_id r) (st_resvs s) = Some r -> good (do_grow s r n).
Proof.
  intros I H. unfold do_grow, overflows. destruct (N.leb_spec usize_lim (pool_reserved (st_pool s) + n)).
  - apply good_same; [assumption|discriminate].
  - split; [|discriminate]. cbn [fst]. pose proof (set_size_grow_eq _ _ _ n H) as W.
    apply inv_set_size; auto.
    + eapply pool_grow_ok; [now apply inv_keys_nodup|exact W|apply I].
    + rewrite W. change (g_all (r_cid r) (r_spill r)) with true. cbv iota. rewrite <- inv_reserved; assumption.
Qed.

Lemma do_try_grow_good s r n :
  Inv s -> find_resv (r_id r) (st_resvs s) = Some r -> good (do_try_grow s r n).
Proof.
  intros I H. unfold do_try_grow.
  destruct (pool_try_grow (st_pool s) (r_spill r) (r_cid r) (r_size r) n) eqn:E.
  - apply try_grow_is_grow in E. subst p. exact (do_grow_good s r n I H).
  - destruct (overflows s n); apply good_same; auto; discriminate.
Qed.

Lemma do_shrink_good s r n fail ok :
  fail <> Fault -> (forall v, ok v <> Fault) ->
  Inv s -> find_resv (r_id r) (st_resvs s) = Some r -> good (do_shrink s r n fail ok).
Proof.
  intros Hf Ho I H. unfold do_shrink. destruct (N.ltb_spec (r_size r) n).
  - now apply good_same.
  - pose proof (set_size_shrink_eq _ _ _ n H H0) as W.
    destruct (pool_shrink_ok (st_pool s) _ _ _ (r_spill r) (r_cid r) n (inv_keys_nodup s I) W (inv_pool s I))
      as (p' & -> & Hp).
    split; [|apply Ho]. cbn [fst]. apply inv_set_size; auto.
    pose proof (W g_all) as Wa. pose proof (inv_lim s I). lia.
Qed.

Lemma do_free_good s r :
  Inv s -> find_resv (r_id r) (st_resvs s) = Some r -> good (do_free s r).
Proof.
  intros I H. unfold do_free. destruct (N.eqb_spec (r_size r) 0).
  - apply good_same; [assumption|discriminate].
  - pose proof (set_size_shrink_eq _ _ _ (r_size r) H (N.le_refl _)) as W. rewrite N.sub_diag in W.
    destruct (pool_shrink_ok (st_pool s) _ _ _ (r_spill r) (r_cid r) (r_size r) (inv_keys_nodup s I) W (inv_pool s I))
      as (p' & -> & Hp).
    split; [|discriminate]. cbn [fst]. apply inv_set_size; auto.
    pose proof (W g_all) as Wa. pose proof (inv_lim s I). lia.
Qed.

Lemma Forall_mid {A} (P : A -> Prop) l1 c l2 :
  Forall P (l1 ++ c :: l2) <-> Forall P l1 /\ P c /\ Forall P l2.
Proof.
  rewrite Forall_app. split.
  - intros [H1 H2]. inversion H2; subst. auto.
  - intros (H1 & H2 & H3). split; [assumption|constructor; assumption].
Qed.

Definition rc_ok (rs : list resv) (c : creg) : Prop := g_rc c = cnt (g_id c) rs /\ 1 <= g_rc c.

Lemma rc_others rs rs' cid l :
  (forall k, k <> cid -> cnt k rs' = cnt k rs) ->
  ~ In cid (map g_id l) -> Forall (rc_ok rs) l -> Forall (rc_ok rs') l.
Proof.
  intros Hc. induction l as [|c l IH]; intros Hn Hf; [constructor|].
  cbn [map In] in Hn. inversion Hf; subst. constructor; [|apply IH; tauto].
  unfold rc_ok in *. rewrite Hc; [assumption|]. intros E. apply Hn. now left.
Qed.

Lemma nodup_mid (l1 : list creg) c l2 :
  NoDup (map g_id (l1 ++ c :: l2)) ->
  ~ In (g_id c) (map g_id l1) /\ ~ In (g_id c) (map g_id l2) /\ NoDup (map g_id (l1 ++ l2)).
Proof.
  rewrite !map_app. cbn [map]. intros H. pose proof (NoDup_remove _ _ _ H) as [H1 H2].
  rewrite in_app_iff in H2. tauto.
Qed.

Lemma key_in_regs s r : In (rkey r) (keys (st_regs s)) -> In (r_cid r) (map g_id (st_regs s)).
Proof.
  intros Hk. rewrite <- keys_fst. apply in_map_iff. exists (rkey r). split; [reflexivity|assumption].
Qed.

(* the registration of a key present in NoDup keys carries that key's spill flag *)
Lemma key_spill (l1 : list creg) c l2 k :
  NoDup (map g_id (l1 ++ c :: l2)) -> In k (keys (l1 ++ c :: l2)) -> fst k = g_id c -> snd k = g_spill c.
Proof.
  intros Hn Hi Hf. destruct (nodup_mid _ _ _ Hn) as (N1 & N2 & _).
  rewrite keys_app in Hi. cbn [keys map] in Hi. apply in_app_iff in Hi. cbn [In] in Hi.
  destruct Hi as [Hi|[Hi|Hi]].
  - exfalso. apply N1. rewrite <- Hf, <- keys_fst. now apply in_map.
  - now rewrite <- Hi.
  - exfalso. apply N2. rewrite <- Hf, <- keys_fst. now apply in_map.
Qed.

Lemma do_split_good s r n :
  Inv s -> find_resv (r_id r) (st_resvs s) = Some r -> good (do_split s r n).
Proof.
  intros I H. unfold do_split. destruct (N.ltb_spec (r_size r) n).
  - apply good_same; [assumption|discriminate].
  - split; [|discriminate]. cbn [fst].
    pose proof (inv_find_key s _ r I H) as Hk.
    destruct (reg_split _ _ (key_in_regs s r Hk)) as (l1 & c & l2 & Ecs & Hc & Hn1 & Hi & _).
    set (new := mkResv (st_next_rid s) (r_cid r) (r_spill r) n).
    set (rs' := set_size (r_id r) (r_size r - n) (st_resvs s) ++ [new]).
    assert (W : forall g, wsum g rs' = wsum g (st_resvs s)).
    { intros g. unfold rs'. rewrite wsum_app, wsum_cons, wsum_nil. cbn [new r_cid r_spill r_size].
      pose proof (set_size_shrink_eq _ _ _ n H H0 g). destruct (g (r_cid r) (r_spill r)); lia. }
    assert (C : forall k, cnt k rs' = cnt k (st_resvs s) + (if r_cid r =? k then 1 else 0)).
    { intros k. unfold rs'. rewrite cnt_app, set_size_cnt. cbn [cnt new r_cid]. lia. }
    assert (K : keys (reg_incr (r_cid r) (st_regs s)) = keys (st_regs s)).
    { rewrite Hi, Ecs, !keys_app. reflexivity. }
    assert (G : map g_id (reg_incr (r_cid r) (st_regs s)) = map g_id (st_regs s)).
    { rewrite <- !keys_fst. now rewrite K. }
    destruct I. constructor; cbn [st_pool st_regs st_resvs st_next_rid st_next_cid]; rewrite ?K, ?G; auto.
    + eapply pool_same_ok; eauto.
    + unfold rs'. rewrite map_app, set_size_ids. cbn [map new r_id]. now apply NoDup_snoc.
    + unfold rs'. rewrite map_app, set_size_ids. apply Forall_app. split; [now apply Forall_lt_weaken|].
      cbn [map new r_id]. constructor; [lia|constructor].
    + fold (rc_ok rs'). fold (rc_ok (st_resvs s)) in inv_rc0.
      rewrite Ecs in inv_rc0, inv_cid_nodup0. rewrite Hi.
      destruct (nodup_mid _ _ _ inv_cid_nodup0) as (N1 & N2 & _).
      apply Forall_mid in inv_rc0. destruct inv_rc0 as (F1 & Fc & F2). apply Forall_mid. repeat split.
      * apply (rc_others (st_resvs s) rs' (g_id c)); auto.
        intros k Hk'. rewrite C, Hc. destruct (N.eqb_spec (r_cid r) k); [congruence|lia].
      * cbn [g_rc g_id]. destruct Fc as [Fc _]. rewrite Fc, C, Hc, N.eqb_refl. reflexivity.
      * cbn [g_rc]. lia.
      * apply (rc_others (st_resvs s) rs' (g_id c)); auto.
        intros k Hk'. rewrite C, Hc. destruct (N.eqb_spec (r_cid r) k); [congruence|lia].
    + unfold rs'. rewrite map_app, set_size_rkeys. apply Forall_app. split; [assumption|].
      cbn [map]. constructor; [exact Hk|constructor].
    + now rewrite W.
Qed.
