(* Proofs for C21 (accounting half): Model/DiskUsage.v *)
From Coq Require Import Lia.
From DF Require Import Base.Prelude Model.DiskUsage.
Open Scope Z_scope.

Definition fbytes (x : file) : Z := if flive x then fusage x else 0.

Lemma live_bytes_app l1 l2 : live_bytes (l1 ++ l2) = live_bytes l1 + live_bytes l2.
Proof. induction l1 as [|x l1 IH]; cbn [live_bytes app]; lia. Qed.

Lemma live_bytes_set_nth l n x y :
  nth_error l n = Some x ->
  live_bytes (set_nth l n y) = live_bytes l - fbytes x + fbytes y.
Proof.
  revert n. induction l as [|z l IH]; intros [|n] H; cbn in H; try discriminate.
  - inversion H; subst. cbn [set_nth live_bytes]. unfold fbytes. lia.
  - cbn [set_nth live_bytes]. rewrite (IH n H). lia.
Qed.

Lemma Forall_set_nth {A} (P : A -> Prop) l n y :
  Forall P l -> P y -> Forall P (set_nth l n y).
Proof.
  revert n. induction l as [|z l IH]; intros n Hl Hy; cbn [set_nth]; [constructor|].
  inversion Hl; subst. destruct n; constructor; auto.
Qed.

(* The accounting invariant: the reported usage equals the bytes held by live spill files. *)
Definition Inv (s : st) : Prop :=
  used s = live_bytes (files s) /\ Forall (fun x => 0 <= fusage x) (files s).

Lemma inv_init lim : Inv (init lim).
Proof. split; [reflexivity|constructor]. Qed.

Lemma get_file_nth s f x : get_file s f = Some x -> nth_error (files s) (Z.to_nat f) = Some x.
Proof. unfold get_file. destruct (f <? 0); [discriminate|auto]. Qed.

Lemma step_inv s o : Inv s -> Inv (fst (step s o)).
Proof.
  intros [Hu Hf]. destruct o as [|f len io|f|n]; unfold step, step_gen.
  - cbn [fst]. split; cbn [used files].
    + rewrite live_bytes_app. cbn. lia.
    + apply Forall_app. split; [assumption|]. constructor; [cbn; lia|constructor].
  - destruct (get_file s f) as [x|] eqn:G; [|split; assumption].
    pose proof (get_file_nth _ _ _ G) as N.
    destruct (negb (flive x) || (len <? 0)) eqn:B; [split; assumption|].
    apply Bool.orb_false_iff in B. destruct B as [Bl Bn].
    apply Bool.negb_false_iff in Bl. apply Z.ltb_ge in Bn.
    destruct (len =? 0); [split; assumption|].
    destruct (limit s <? used s + len); [split; assumption|].
    destruct io; [|split; assumption].
    cbn [fst]. split; cbn [put_file used files].
    + rewrite (live_bytes_set_nth _ _ x) by assumption. unfold fbytes. cbn [flive fusage].
      rewrite Bl. lia.
    + apply Forall_set_nth; [assumption|]. cbn [fusage].
      pose proof (proj1 (Forall_forall _ _) Hf x (nth_error_In _ _ N)). cbn in H. lia.
  - destruct (get_file s f) as [x|] eqn:G; [|split; assumption].
    pose proof (get_file_nth _ _ _ G) as N.
    destruct (flive x) eqn:L; [|split; assumption].
    cbn [fst]. split; cbn [put_file used files].
    + rewrite (live_bytes_set_nth _ _ x) by assumption. unfold fbytes. cbn [flive fusage].
      rewrite L. lia.
    + apply Forall_set_nth; [assumption|]. cbn [fusage].
      exact (proj1 (Forall_forall _ _) Hf x (nth_error_In _ _ N)).
  - destruct (n <? 0); split; assumption.
Qed.

Lemma run_fst_fold stp s ops : fst (run stp s ops) = fold_left (fun a o => fst (stp a o)) ops s.
Proof.
  revert s. induction ops as [|o ops IH]; intros s; cbn [run fold_left]; [reflexivity|].
  destruct (stp s o) as [s1 x] eqn:E. specialize (IH s1).
  destruct (run stp s1 ops) as [s2 xs]. cbn [fst] in *. rewrite IH. reflexivity.
Qed.

(* every reachable state, for histories of any length *)
Theorem run_inv lim ops : Inv (fst (run step (init lim) ops)).
Proof.
  rewrite run_fst_fold. generalize (inv_init lim). generalize (init lim).
  induction ops as [|o ops IH]; intros s H; cbn [fold_left]; [exact H|].
  apply IH. apply step_inv. exact H.
Qed.

Lemma live_bytes_all_released l :
  forallb (fun x => negb (flive x)) l = true -> live_bytes l = 0.
Proof.
  induction l as [|x l IH]; cbn [forallb live_bytes]; [reflexivity|].
  intros H. apply Bool.andb_true_iff in H. destruct H as [Hx Hl].
  apply Bool.negb_true_iff in Hx. rewrite Hx. rewrite (IH Hl). lia.
Qed.

Theorem released_zero lim ops :
  let s := fst (run step (init lim) ops) in all_released s = true -> used s = 0.
Proof.
  intros s H. destruct (run_inv lim ops) as [Hu _]. fold s in Hu.
  rewrite Hu. apply live_bytes_all_released. exact H.
Qed.

(* a write that did not succeed (limit rejection or I/O failure) leaves everything unchanged *)
Theorem failed_write_unchanged s f len io s' r u fs :
  step s (Write f len io) = (s', OWrite r u fs) -> r <> 0 -> s' = s /\ u = used s.
Proof.
  unfold step, step_gen. destruct (get_file s f) as [x|]; [|discriminate].
  destruct (negb (flive x) || (len <? 0)); [discriminate|].
  destruct (len =? 0); [intros E; inversion E; subst; congruence|].
  destruct (limit s <? used s + len); [intros E _; inversion E; subst; auto|].
  destruct io; intros E Hr; inversion E; subst; [congruence|auto].
Qed.

(* a write is admitted only within the limit in force at that moment *)
Theorem admitted_within_limit s f len io s' u fs :
  step s (Write f len io) = (s', OWrite 0 u fs) -> 0 < len ->
  u = used s' /\ used s' = used s + len /\ used s' <= limit s'.
Proof.
  unfold step, step_gen. destruct (get_file s f) as [x|]; [|discriminate].
  destruct (negb (flive x) || (len <? 0)); [discriminate|].
  destruct (Z.eqb_spec len 0) as [->|_]; [lia|].
  destruct (Z.ltb_spec (limit s) (used s + len)); [discriminate|].
  destruct io; [|discriminate].
  intros E _. inversion E; subst. cbn [put_file used limit]. lia.
Qed.

(* while the limit is not changed, usage never exceeds it *)
Definition no_setlimit (o : op) : bool := match o with SetLimit _ => false | _ => true end.

Lemma step_le_limit s o :
  Inv s -> used s <= limit s -> no_setlimit o = true ->
  used (fst (step s o)) <= limit (fst (step s o)) /\ limit (fst (step s o)) = limit s.
Proof.
  intros [Hu Hf] Hle Ho. destruct o as [|f len io|f|n]; unfold step, step_gen; try discriminate.
  - cbn. lia.
  - destruct (get_file s f) as [x|]; [|cbn; lia].
    destruct (negb (flive x) || (len <? 0)); [cbn; lia|].
    destruct (len =? 0); [cbn; lia|].
    destruct (Z.ltb_spec (limit s) (used s + len)); [cbn; lia|].
    destruct io; cbn; lia.
  - destruct (get_file s f) as [x|] eqn:G; [|cbn; lia].
    pose proof (get_file_nth _ _ _ G) as N.
    pose proof (proj1 (Forall_forall _ _) Hf x (nth_error_In _ _ N)) as Hx. cbn in Hx.
    destruct (flive x); cbn; lia.
Qed.

Theorem never_beyond_limit lim ops :
  0 <= lim -> forallb no_setlimit ops = true ->
  used (fst (run step (init lim) ops)) <= lim.
Proof.
  intros Hl Hops. rewrite run_fst_fold.
  assert (G : forall s, Inv s -> used s <= limit s -> limit s = lim ->
              used (fold_left (fun a o => fst (step a o)) ops s) <= lim).
  { induction ops as [|o ops IH]; intros s Hi Hle El; cbn [fold_left]; [lia|].
    cbn [forallb] in Hops. apply Bool.andb_true_iff in Hops. destruct Hops as [Ho Hr].
    destruct (step_le_limit s o Hi Hle Ho) as [H1 H2].
    apply IH; [exact Hr|apply step_inv; exact Hi|exact H1|lia]. }
  apply G; [apply inv_init|cbn; lia|reflexivity].
Qed.

(* The pinned upstream code (before the fix): a failed write_all leaks its charge --
   usage stays non-zero with every file released. *)
Theorem leaky_refuted :
  exists ops, let s := fst (run step_leaky (init 5000) ops) in
              all_released s = true /\ used s <> 0.
Proof.
  exists [Create; Write 0 1000 true; Write 0 1000 false; Release 0].
  vm_compute. split; [reflexivity|discriminate].
Qed.
