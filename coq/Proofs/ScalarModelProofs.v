(* C34 -- proofs about Model/ScalarModel.v: total order per type, Eq/Hash consistency, integer casts,
   checked addition, compare_rows is a transitive lexicographic order, bisect / linear_search specification. *)
From Coq Require Import List ZArith Bool Lia Sorting.Sorted.
From DF Require Import Base.Prelude Model.ScalarModel.
Import ListNotations.
Open Scope Z_scope.

(* ------------------------------------------------------------------ comparators that are total orders *)
Record good {T} (c : T -> T -> comparison) : Prop := {
  g_refl : forall a, c a a = Eq;
  g_eq : forall a b, c a b = Eq -> a = b;
  g_anti : forall a b, c b a = CompOpp (c a b);
  g_trans : forall a b d, c a b <> Gt -> c b d <> Gt -> c a d <> Gt }.

Lemma good_Z : good Z.compare.
Proof.
  split.
  - apply Z.compare_refl.
  - apply Z.compare_eq.
  - intros. apply Z.compare_antisym.
  - intros a b d H1 H2 H3. apply Z.compare_gt_iff in H3.
    destruct (Z.compare_spec a b); try congruence; destruct (Z.compare_spec b d); try congruence; lia.
Qed.
Lemma good_bool : good bool_cmp.
Proof.
  split.
  - intros []; reflexivity.
  - intros [] []; cbn; congruence.
  - intros [] []; reflexivity.
  - intros [] [] []; cbn; congruence.
Qed.

Lemma bytes_cmp_refl : forall a, bytes_cmp a a = Eq.
Proof. induction a; cbn [bytes_cmp]; [reflexivity|]. rewrite Z.compare_refl. assumption. Qed.
Lemma bytes_cmp_eq : forall a b, bytes_cmp a b = Eq -> a = b.
Proof.
  induction a as [|x a IH]; destruct b as [|y b]; cbn [bytes_cmp]; try congruence.
  destruct (x ?= y) eqn:C; try congruence. apply Z.compare_eq in C. intros H. f_equal; auto.
Qed.
Lemma bytes_cmp_anti : forall a b, bytes_cmp b a = CompOpp (bytes_cmp a b).
Proof.
  induction a as [|x a IH]; destruct b as [|y b]; cbn [bytes_cmp]; try reflexivity.
  rewrite (Z.compare_antisym x y). destruct (x ?= y); cbn [CompOpp]; auto.
Qed.
Lemma bytes_cmp_trans : forall a b d, bytes_cmp a b <> Gt -> bytes_cmp b d <> Gt -> bytes_cmp a d <> Gt.
Proof.
  induction a as [|x a IH]; destruct b as [|y b]; destruct d as [|z d]; cbn [bytes_cmp]; try congruence.
  destruct (Z.compare_spec x y); try congruence; destruct (Z.compare_spec y z); try congruence; subst.
  - rewrite Z.compare_refl. apply IH.
  - intros _ _. replace (y ?= z) with Lt by (symmetry; apply Z.compare_lt_iff; lia). congruence.
  - intros _ _. replace (x ?= z) with Lt by (symmetry; apply Z.compare_lt_iff; lia). congruence.
  - intros _ _. replace (x ?= z) with Lt by (symmetry; apply Z.compare_lt_iff; lia). congruence.
Qed.
Lemma good_bytes : good bytes_cmp.
Proof. split; [apply bytes_cmp_refl | apply bytes_cmp_eq | apply bytes_cmp_anti | apply bytes_cmp_trans]. Qed.

Lemma good_opt : forall {T} (c : T -> T -> comparison), good c -> good (opt_cmp c).
Proof.
  intros T c G. split.
  - intros [a|]; cbn; [apply G | reflexivity].
  - intros [a|] [b|]; cbn; try congruence. intros H. f_equal. apply G. assumption.
  - intros [a|] [b|]; cbn; try reflexivity. apply G.
  - intros [a|] [b|] [d|]; cbn; try congruence. apply G.
Qed.
Lemma good_flip : forall {T} (c : T -> T -> comparison), good c -> good (fun a b => c b a).
Proof.
  intros T c G. split.
  - intros; apply G.
  - intros a b H. symmetry. apply G. assumption.
  - intros; apply G.
  - intros a b d H1 H2. apply (g_trans c G d b a); assumption.
Qed.

(* consequences used for lexicographic orders *)
Lemma good_lt_le : forall {T} (c : T -> T -> comparison), good c -> forall a b d, c a b = Lt -> c b d <> Gt -> c a d = Lt.
Proof.
  intros T c G a b d H1 H2. destruct (c a d) eqn:E; [| reflexivity |].
  - apply G in E. rewrite <- E in H2. rewrite (g_anti c G a b), H1 in H2. cbn in H2. congruence.
  - exfalso. apply (g_trans c G a b d); congruence.
Qed.
Lemma good_le_lt : forall {T} (c : T -> T -> comparison), good c -> forall a b d, c a b <> Gt -> c b d = Lt -> c a d = Lt.
Proof.
  intros T c G a b d H1 H2. destruct (c a d) eqn:E; [| reflexivity |].
  - apply G in E. rewrite E in H1. rewrite (g_anti c G b d), H2 in H1. cbn in H1. congruence.
  - exfalso. apply (g_trans c G a b d); congruence.
Qed.

(* a comparator that is antisymmetric and <=-transitive on the elements satisfying P *)
Section PreorderOn.
  Context {T : Type} (P : T -> Prop) (c : T -> T -> comparison).
  Hypothesis anti : forall a b, P a -> P b -> c b a = CompOpp (c a b).
  Hypothesis trans : forall a b d, P a -> P b -> P d -> c a b <> Gt -> c b d <> Gt -> c a d <> Gt.
  Lemma on_lt_le : forall a b d, P a -> P b -> P d -> c a b = Lt -> c b d <> Gt -> c a d = Lt.
  Proof.
    intros a b d Pa Pb Pd H1 H2. destruct (c a d) eqn:E; [| reflexivity |].
    - exfalso. apply (trans b d a Pb Pd Pa H2).
      + rewrite (anti a d Pa Pd), E. cbn. congruence.
      + rewrite (anti a b Pa Pb), H1. reflexivity.
    - exfalso. apply (trans a b d); congruence.
  Qed.
  Lemma on_le_lt : forall a b d, P a -> P b -> P d -> c a b <> Gt -> c b d = Lt -> c a d = Lt.
  Proof.
    intros a b d Pa Pb Pd H1 H2. destruct (c a d) eqn:E; [| reflexivity |].
    - exfalso. apply (trans d a b Pd Pa Pb).
      + rewrite (anti a d Pa Pd), E. cbn. congruence.
      + assumption.
      + rewrite (anti b d Pb Pd), H2. reflexivity.
    - exfalso. apply (trans a b d); congruence.
  Qed.
  Lemma on_eq_eq : forall a b d, P a -> P b -> P d -> c a b = Eq -> c b d = Eq -> c a d = Eq.
  Proof.
    intros a b d Pa Pb Pd H1 H2. destruct (c a d) eqn:E; [reflexivity | |].
    - exfalso. apply (trans d b a Pd Pb Pa).
      + rewrite (anti b d Pb Pd), H2. cbn. congruence.
      + rewrite (anti a b Pa Pb), H1. cbn. congruence.
      + rewrite (anti a d Pa Pd), E. reflexivity.
    - exfalso. apply (trans a b d); congruence.
  Qed.
End PreorderOn.

(* ------------------------------------------------------------------ sv_cmp on values of one type *)
Definition pcmp (a b : sv) : comparison :=
  match a, b with
  | SBool x, SBool y => opt_cmp bool_cmp x y
  | SInt _ x, SInt _ y => opt_cmp Z.compare x y
  | SStr _ x, SStr _ y => opt_cmp bytes_cmp x y
  | STs _ x _, STs _ y _ => opt_cmp Z.compare x y
  | SDec x _ _, SDec y _ _ => opt_cmp Z.compare x y
  | _, _ => Eq
  end.

Lemma ity_eqb_refl : forall t, ity_eqb t t = true. Proof. destruct t; reflexivity. Qed.
Lemma strkind_eqb_refl : forall t, strkind_eqb t t = true. Proof. destruct t; reflexivity. Qed.
Lemma tsunit_eqb_refl : forall t, tsunit_eqb t t = true. Proof. destruct t; reflexivity. Qed.

Lemma sv_cmp_same_ty : forall a b, sv_ty a = sv_ty b -> sv_cmp a b = Some (pcmp a b).
Proof.
  intros a b H. destruct a, b; cbn in H; try discriminate; cbn [sv_cmp pcmp]; try reflexivity; inversion H; subst.
  - rewrite ity_eqb_refl. reflexivity.
  - rewrite strkind_eqb_refl. reflexivity.
  - rewrite tsunit_eqb_refl. reflexivity.
  - rewrite Z.eqb_refl. reflexivity.
Qed.

Ltac same3 a b d H1 H2 :=
  destruct a, b; cbn in H1; try discriminate; destruct d; cbn in H2; try discriminate.

Lemma pcmp_refl : forall a, pcmp a a = Eq.
Proof.
  destruct a; cbn [pcmp]; try reflexivity;
    first [apply (g_refl _ (good_opt _ good_bool)) | apply (g_refl _ (good_opt _ good_Z)) | apply (g_refl _ (good_opt _ good_bytes))].
Qed.
Lemma pcmp_anti : forall a b, sv_ty a = sv_ty b -> pcmp b a = CompOpp (pcmp a b).
Proof.
  intros a b H. destruct a, b; cbn in H; try discriminate; cbn [pcmp]; try reflexivity;
    first [apply (g_anti _ (good_opt _ good_bool)) | apply (g_anti _ (good_opt _ good_Z)) | apply (g_anti _ (good_opt _ good_bytes))].
Qed.
Lemma pcmp_trans : forall a b d, sv_ty a = sv_ty b -> sv_ty b = sv_ty d ->
  pcmp a b <> Gt -> pcmp b d <> Gt -> pcmp a d <> Gt.
Proof.
  intros a b d H1 H2. same3 a b d H1 H2; cbn [pcmp]; try congruence;
    first [apply (g_trans _ (good_opt _ good_bool)) | apply (g_trans _ (good_opt _ good_Z)) | apply (g_trans _ (good_opt _ good_bytes))].
Qed.

Lemma opt_eqb_Z : forall x y, opt_eqb Z.eqb x y = true <-> x = y.
Proof.
  intros [x|] [y|]; cbn; split; try congruence.
  - intros H. apply Z.eqb_eq in H. congruence.
  - intros H. inversion H. apply Z.eqb_refl.
Qed.
Lemma bytes_eqb_eq : forall a b, bytes_eqb a b = true <-> a = b.
Proof.
  unfold bytes_eqb. induction a as [|x a IH]; destruct b as [|y b]; cbn [list_eqb]; split; try congruence.
  - intros H. apply andb_true_iff in H. destruct H as [H1 H2]. apply Z.eqb_eq in H1. apply IH in H2. congruence.
  - intros H. inversion H; subst. rewrite Z.eqb_refl. apply IH. reflexivity.
Qed.

Lemma pcmp_eq_iff : forall a b, sv_ty a = sv_ty b -> (pcmp a b = Eq <-> sv_eqb a b = true).
Proof.
  intros a b H. destruct a, b; cbn in H; try discriminate; cbn [pcmp sv_eqb]; inversion H; subst.
  - tauto.
  - destruct v as [[]|], v0 as [[]|]; cbn; split; congruence.
  - rewrite ity_eqb_refl. cbn [andb]. rewrite opt_eqb_Z. split.
    + intros E. apply (g_eq _ (good_opt _ good_Z)). assumption.
    + intros ->. apply (g_refl _ (good_opt _ good_Z)).
  - rewrite strkind_eqb_refl. cbn [andb]. split.
    + intros E. apply (g_eq _ (good_opt _ good_bytes)) in E. subst. destruct v0; cbn; [apply bytes_eqb_eq|]; reflexivity.
    + intros E. destruct v as [x|], v0 as [y|]; cbn in *; try congruence. apply bytes_eqb_eq in E. subst. apply bytes_cmp_refl.
  - rewrite tsunit_eqb_refl. cbn [andb]. rewrite opt_eqb_Z. split.
    + intros E. apply (g_eq _ (good_opt _ good_Z)). assumption.
    + intros ->. apply (g_refl _ (good_opt _ good_Z)).
  - rewrite !Z.eqb_refl. rewrite !andb_true_r. rewrite opt_eqb_Z. split.
    + intros E. apply (g_eq _ (good_opt _ good_Z)). assumption.
    + intros ->. apply (g_refl _ (good_opt _ good_Z)).
Qed.

Lemma pcmp_null_smallest : forall a b, sv_ty a = sv_ty b -> sv_is_null a = true -> sv_is_null b = false -> pcmp a b = Lt.
Proof.
  intros a b H Na Nb. destruct a, b; cbn in H; try discriminate; cbn in Na, Nb; try discriminate;
    repeat match goal with v : option _ |- _ => destruct v end; try discriminate; reflexivity.
Qed.

Theorem cmp_total_order_pf : forall a b d, sv_ty a = sv_ty b -> sv_ty b = sv_ty d ->
  (exists x, sv_cmp a b = Some x) /\
  sv_cmp a a = Some Eq /\
  sv_cmp b a = option_map CompOpp (sv_cmp a b) /\
  (forall x y, sv_cmp a b = Some x -> sv_cmp b d = Some y -> x <> Gt -> y <> Gt ->
               exists z, sv_cmp a d = Some z /\ z <> Gt /\ (x = Lt \/ y = Lt -> z = Lt)) /\
  (sv_cmp a b = Some Eq <-> sv_eqb a b = true) /\
  (sv_is_null a = true -> sv_is_null b = false -> sv_cmp a b = Some Lt).
Proof.
  intros a b d H1 H2.
  assert (H3 : sv_ty a = sv_ty d) by congruence.
  rewrite (sv_cmp_same_ty a b H1), (sv_cmp_same_ty a a eq_refl), (sv_cmp_same_ty b a (eq_sym H1)),
    (sv_cmp_same_ty b d H2), (sv_cmp_same_ty a d H3).
  repeat split.
  - eauto.
  - rewrite pcmp_refl. reflexivity.
  - cbn [option_map]. rewrite pcmp_anti by assumption. reflexivity.
  - intros x y E1 E2 Hx Hy. inversion E1; inversion E2; subst. exists (pcmp a d). split; [reflexivity|].
    set (P := fun v => sv_ty v = sv_ty a).
    assert (An : forall u v, P u -> P v -> pcmp v u = CompOpp (pcmp u v)) by (unfold P; intros; apply pcmp_anti; congruence).
    assert (Tr : forall u v w, P u -> P v -> P w -> pcmp u v <> Gt -> pcmp v w <> Gt -> pcmp u w <> Gt)
      by (unfold P; intros u v w ? ? ?; apply pcmp_trans; congruence).
    assert (Pa : P a) by reflexivity. assert (Pb : P b) by (unfold P; congruence). assert (Pd : P d) by (unfold P; congruence).
    split.
    + apply pcmp_trans with b; assumption.
    + intros [L|L].
      * apply (on_lt_le P pcmp An Tr a b d); assumption.
      * apply (on_le_lt P pcmp An Tr a b d); assumption.
  - intros E. inversion E. apply pcmp_eq_iff; assumption.
  - intros E. f_equal. apply pcmp_eq_iff; assumption.
  - intros Na Nb. f_equal. apply pcmp_null_smallest; assumption.
Qed.

(* ------------------------------------------------------------------ Eq => equal Hash input *)
Lemma opt_eqb_bool : forall x y, opt_eqb Bool.eqb x y = true -> x = y.
Proof. intros [[]|] [[]|]; cbn; congruence. Qed.
Lemma ity_eqb_eq : forall a b, ity_eqb a b = true -> a = b.
Proof. destruct a, b; cbn; congruence. Qed.

Theorem eq_hash_consistent_pf : forall a b, sv_eqb a b = true -> sv_enc a = sv_enc b.
Proof.
  intros a b H. destruct a, b; cbn [sv_eqb] in H; try discriminate; cbn [sv_enc].
  - reflexivity.
  - apply opt_eqb_bool in H. subst. reflexivity.
  - apply andb_true_iff in H. destruct H as [H1 H2]. apply ity_eqb_eq in H1. apply opt_eqb_Z in H2. subst. reflexivity.
  - apply andb_true_iff in H. destruct H as [_ H2].
    destruct v as [x|], v0 as [y|]; cbn in H2; try discriminate; [|reflexivity]. apply bytes_eqb_eq in H2. subst. reflexivity.
  - apply andb_true_iff in H. destruct H as [_ H2]. apply opt_eqb_Z in H2. subst. reflexivity.
  - apply andb_true_iff in H. destruct H as [H H3]. apply andb_true_iff in H. destruct H as [H1 H2].
    apply opt_eqb_Z in H1. apply Z.eqb_eq in H2. apply Z.eqb_eq in H3. subst. reflexivity.
Qed.

(* ------------------------------------------------------------------ integer casts, checked addition *)
Theorem int_cast_roundtrip_pf : forall t1 t2 z,
  in_range t1 z = true -> subrange t1 t2 = true ->
  cast_int t2 (Some z) = Some (Some z) /\ cast_int t1 (Some z) = Some (Some z).
Proof.
  intros t1 t2 z H S. unfold cast_int. rewrite H. split; [|reflexivity].
  unfold in_range, subrange in *. apply andb_true_iff in H. apply andb_true_iff in S. destruct H as [A B], S as [C D].
  apply Z.leb_le in A, B, C, D. replace ((lo t2 <=? z) && (z <=? hi t2)) with true; [reflexivity|].
  symmetry. apply andb_true_iff. split; apply Z.leb_le; lia.
Qed.
Theorem int_cast_fails_iff_pf : forall t z, cast_int t (Some z) = None <-> (z < lo t \/ hi t < z).
Proof.
  intros t z. unfold cast_int, in_range. destruct (lo t <=? z) eqn:A; destruct (z <=? hi t) eqn:B; cbn [andb];
    try apply Z.leb_le in A; try apply Z.leb_le in B; try apply Z.leb_gt in A; try apply Z.leb_gt in B;
    split; try congruence; try lia; intros; reflexivity.
Qed.

Lemma range_width : forall t, hi t - lo t + 1 = 2 ^ bits t /\ 0 < 2 ^ bits t.
Proof. destruct t; cbn; lia. Qed.

Theorem add_checked_spec_pf : forall t x y,
  in_range t x = true -> in_range t y = true ->
  (add_checked t (Some x) (Some y) = Some (Some (x + y)) <-> in_range t (x + y) = true) /\
  (add_checked t (Some x) (Some y) = None <-> in_range t (x + y) = false) /\
  (in_range t (x + y) = true -> add_wrapping t (Some x) (Some y) = Some (x + y)) /\
  (forall r, add_wrapping t (Some x) (Some y) = Some r -> in_range t r = true /\ (r - (x + y)) mod 2 ^ bits t = 0).
Proof.
  intros t x y Hx Hy. unfold add_checked, add_wrapping. destruct (range_width t) as [W Wp].
  repeat split.
  - destruct (in_range t (x + y)); congruence.
  - intros ->. reflexivity.
  - destruct (in_range t (x + y)); congruence.
  - intros ->. reflexivity.
  - intros H. f_equal. unfold wrap, in_range in *. apply andb_true_iff in H. destruct H as [A B].
    apply Z.leb_le in A, B. rewrite Z.mod_small by lia. lia.
  - inversion H; subst. unfold wrap, in_range. pose proof (Z.mod_pos_bound (x + y - lo t) (2 ^ bits t) Wp).
    apply andb_true_iff. split; apply Z.leb_le; lia.
  - inversion H; subst. unfold wrap. pose proof (Z.mod_eq (x + y - lo t) (2 ^ bits t)) as Hm.
    replace (lo t + (x + y - lo t) mod 2 ^ bits t - (x + y)) with ((- ((x + y - lo t) / 2 ^ bits t)) * 2 ^ bits t)
      by (rewrite Hm by lia; ring).
    apply Z.mod_mul. lia.
Qed.

(* ------------------------------------------------------------------ compare_rows on typed rows *)
Definition ccmp (so : sort_opt) (l r : sv) : comparison :=
  let '(desc, nulls_first) := so in
  match sv_is_null l, sv_is_null r with
  | true, false => if nulls_first then Lt else Gt
  | false, true => if nulls_first then Gt else Lt
  | false, false => if desc then pcmp r l else pcmp l r
  | true, true => Eq
  end.
Lemma col_cmp_same_ty : forall so l r, sv_ty l = sv_ty r -> col_cmp so l r = Some (ccmp so l r).
Proof.
  intros [desc nf] l r H. unfold col_cmp, ccmp. destruct (sv_is_null l), (sv_is_null r); try reflexivity.
  destruct desc; apply sv_cmp_same_ty; congruence.
Qed.

Lemma pcmp_nulls_eq : forall a b, sv_ty a = sv_ty b -> sv_is_null a = true -> sv_is_null b = true -> pcmp a b = Eq.
Proof.
  intros a b H Na Nb. destruct a, b; cbn in H; try discriminate; cbn in Na, Nb; try discriminate;
    repeat match goal with v : option _ |- _ => destruct v end; try discriminate; reflexivity.
Qed.

Lemma ccmp_anti : forall so a b, sv_ty a = sv_ty b -> ccmp so b a = CompOpp (ccmp so a b).
Proof.
  intros [desc nf] a b H. unfold ccmp. destruct (sv_is_null a), (sv_is_null b), nf; try reflexivity;
    destruct desc; apply pcmp_anti; congruence.
Qed.
Lemma ccmp_trans : forall so a b d, sv_ty a = sv_ty b -> sv_ty b = sv_ty d ->
  ccmp so a b <> Gt -> ccmp so b d <> Gt -> ccmp so a d <> Gt.
Proof.
  intros [desc nf] a b d H1 H2. unfold ccmp.
  destruct (sv_is_null a), (sv_is_null b), (sv_is_null d), nf; try congruence;
    destruct desc; intros A B.
  - apply (pcmp_trans d b a); congruence.
  - apply (pcmp_trans a b d); congruence.
  - apply (pcmp_trans d b a); congruence.
  - apply (pcmp_trans a b d); congruence.
Qed.

Fixpoint rcmp (sos : list sort_opt) (x y : row) : comparison :=
  match x, y, sos with
  | l :: x', r :: y', so :: sos' => match ccmp so l r with Eq => rcmp sos' x' y' | c => c end
  | _, _, _ => Eq
  end.

Lemma row_typed_nil_inv : forall r, row_typed [] r -> r = [].
Proof. intros r H. inversion H. reflexivity. Qed.
Lemma row_typed_cons_inv : forall t sch r, row_typed (t :: sch) r ->
  exists v r', r = v :: r' /\ sv_ty v = t /\ row_typed sch r'.
Proof. intros t sch r H. inversion H; subst. eauto. Qed.

Lemma compare_rows_typed : forall sch sos x y, row_typed sch x -> row_typed sch y ->
  compare_rows x y sos = Some (rcmp sos x y).
Proof.
  induction sch as [|t sch IH]; intros sos x y Hx Hy.
  - apply row_typed_nil_inv in Hx. apply row_typed_nil_inv in Hy. subst. destruct sos; reflexivity.
  - apply row_typed_cons_inv in Hx. apply row_typed_cons_inv in Hy.
    destruct Hx as [u [x' [-> [Tu Hx]]]], Hy as [v [y' [-> [Tv Hy]]]].
    destruct sos as [|so sos]; [reflexivity|]. cbn [compare_rows rcmp].
    rewrite col_cmp_same_ty by congruence. destruct (ccmp so u v); try reflexivity. apply IH; assumption.
Qed.

Lemma rcmp_anti : forall sch sos x y, row_typed sch x -> row_typed sch y -> rcmp sos y x = CompOpp (rcmp sos x y).
Proof.
  induction sch as [|t sch IH]; intros sos x y Hx Hy.
  - apply row_typed_nil_inv in Hx. apply row_typed_nil_inv in Hy. subst. destruct sos; reflexivity.
  - apply row_typed_cons_inv in Hx. apply row_typed_cons_inv in Hy.
    destruct Hx as [u [x' [-> [Tu Hx]]]], Hy as [v [y' [-> [Tv Hy]]]].
    destruct sos as [|so sos]; [reflexivity|]. cbn [rcmp]. rewrite (ccmp_anti so u v) by congruence.
    destruct (ccmp so u v); cbn [CompOpp]; try reflexivity. apply IH; assumption.
Qed.

Lemma rcmp_trans : forall sch sos a b d, row_typed sch a -> row_typed sch b -> row_typed sch d ->
  rcmp sos a b <> Gt -> rcmp sos b d <> Gt -> rcmp sos a d <> Gt.
Proof.
  induction sch as [|t sch IH]; intros sos a b d Ha Hb Hd.
  - apply row_typed_nil_inv in Ha. apply row_typed_nil_inv in Hb. apply row_typed_nil_inv in Hd. subst.
    destruct sos; cbn; congruence.
  - apply row_typed_cons_inv in Ha. apply row_typed_cons_inv in Hb. apply row_typed_cons_inv in Hd.
    destruct Ha as [u [a' [-> [Tu Ha]]]], Hb as [v [b' [-> [Tv Hb]]]], Hd as [w [d' [-> [Tw Hd]]]].
    destruct sos as [|so sos]; [cbn; congruence|]. cbn [rcmp].
    set (P := fun x => sv_ty x = t).
    assert (An : forall x y, P x -> P y -> ccmp so y x = CompOpp (ccmp so x y)) by (unfold P; intros; apply ccmp_anti; congruence).
    assert (Tr : forall x y z, P x -> P y -> P z -> ccmp so x y <> Gt -> ccmp so y z <> Gt -> ccmp so x z <> Gt)
      by (unfold P; intros x y z ? ? ?; apply ccmp_trans; congruence).
    assert (P0 : P u) by assumption. assert (P1 : P v) by assumption. assert (P2 : P w) by assumption.
    destruct (ccmp so u v) eqn:E1; try congruence; destruct (ccmp so v w) eqn:E2; try congruence; intros A B.
    + rewrite (on_eq_eq P (ccmp so) An Tr u v w) by assumption. apply (IH sos a' b' d'); assumption.
    + rewrite (on_le_lt P (ccmp so) An Tr u v w) by (try assumption; congruence). congruence.
    + rewrite (on_lt_le P (ccmp so) An Tr u v w) by (try assumption; congruence). congruence.
    + rewrite (on_lt_le P (ccmp so) An Tr u v w) by (try assumption; congruence). congruence.
Qed.

Theorem compare_rows_order_pf : forall sch sos a b d, row_typed sch a -> row_typed sch b -> row_typed sch d ->
  (exists x, compare_rows a b sos = Some x) /\
  compare_rows b a sos = option_map CompOpp (compare_rows a b sos) /\
  (forall x y, compare_rows a b sos = Some x -> compare_rows b d sos = Some y -> x <> Gt -> y <> Gt ->
     exists z, compare_rows a d sos = Some z /\ z <> Gt /\ (x = Lt \/ y = Lt -> z = Lt)).
Proof.
  intros sch sos a b d Ha Hb Hd.
  rewrite (compare_rows_typed sch sos a b Ha Hb), (compare_rows_typed sch sos b a Hb Ha),
    (compare_rows_typed sch sos b d Hb Hd), (compare_rows_typed sch sos a d Ha Hd).
  set (P := row_typed sch).
  assert (An : forall u v, P u -> P v -> rcmp sos v u = CompOpp (rcmp sos u v)) by (unfold P; intros; apply (rcmp_anti sch); assumption).
  assert (Tr : forall u v w, P u -> P v -> P w -> rcmp sos u v <> Gt -> rcmp sos v w <> Gt -> rcmp sos u w <> Gt)
    by (unfold P; intros u v w ? ? ?; apply (rcmp_trans sch); assumption).
  repeat split.
  - eauto.
  - cbn [option_map]. f_equal. apply An; assumption.
  - intros x y E1 E2 Hx Hy. inversion E1; inversion E2; subst. exists (rcmp sos a d). split; [reflexivity|]. split.
    + apply (Tr a b d); assumption.
    + intros [L|L]; [apply (on_lt_le P (rcmp sos) An Tr a b d) | apply (on_le_lt P (rcmp sos) An Tr a b d)]; assumption.
Qed.

(* ------------------------------------------------------------------ bisect / linear_search *)
Section Search.
  Variable f : row -> option bool.
  (* the first k rows satisfy f, the others do not (and f never fails) *)
  Definition partitioned (rows : list row) (k : nat) : Prop :=
    (k <= length rows)%nat /\ forall i r, nth_error rows i = Some r -> f r = Some (Nat.ltb i k).

  Lemma bisect_go_partitioned : forall fuel rows k low high, partitioned rows k ->
    (low <= k)%nat -> (k <= high)%nat -> (high <= length rows)%nat -> (high - low <= fuel)%nat ->
    bisect_go fuel rows f low high = Some k.
  Proof.
    induction fuel as [|fuel IH]; intros rows k low high [Hk Hp] H1 H2 H3 H4; cbn [bisect_go].
    - destruct (Nat.ltb low high) eqn:L; [apply Nat.ltb_lt in L; lia|]. f_equal. lia.
    - destruct (Nat.ltb low high) eqn:L.
      + apply Nat.ltb_lt in L.
        assert (Q : (Nat.div (high - low) 2 < high - low)%nat) by (apply Nat.div_lt; lia).
        remember (Nat.div (high - low) 2) as q. clear Heqq.
        destruct (nth_error rows (q + low)) as [r|] eqn:N.
        * rewrite (Hp _ _ N). destruct (Nat.ltb (q + low) k) eqn:M.
          -- apply Nat.ltb_lt in M. apply IH; [split; assumption | lia | lia | lia | lia].
          -- apply Nat.ltb_ge in M. apply IH; [split; assumption | lia | lia | lia | lia].
        * apply nth_error_None in N. lia.
      + apply Nat.ltb_ge in L. f_equal. lia.
  Qed.

  Lemma partitioned_tail : forall r rows k, partitioned (r :: rows) (S k) -> partitioned rows k.
  Proof.
    intros r rows k [Hk Hp]. split; [cbn [length] in Hk; lia|]. intros i r' N. exact (Hp (S i) r' N).
  Qed.
  Lemma partitioned_tail0 : forall r rows, partitioned (r :: rows) O -> partitioned rows O.
  Proof.
    intros r rows [Hk Hp]. split; [lia|]. intros i r' N. rewrite (Hp (S i) r' N). reflexivity.
  Qed.

  Lemma linear_go_partitioned : forall rows k low, partitioned rows k -> linear_go rows f low = Some (low + k)%nat.
  Proof.
    induction rows as [|r rows IH]; intros k low Hp; cbn [linear_go].
    - destruct Hp as [Hk _]. cbn [length] in Hk. f_equal. lia.
    - pose proof (proj2 Hp O r eq_refl) as F. rewrite F. destruct k as [|k]; cbn.
      + f_equal. lia.
      + rewrite (IH k (S low) (partitioned_tail r rows k Hp)). f_equal. lia.
  Qed.

  Lemma count_partitioned : forall rows k, partitioned rows k ->
    length (filter (fun r => match f r with Some true => true | _ => false end) rows) = k.
  Proof.
    induction rows as [|r rows IH]; intros k Hp; cbn [filter].
    - destruct Hp as [Hk _]. cbn [length] in *. lia.
    - pose proof (proj2 Hp O r eq_refl) as F. rewrite F. destruct k as [|k]; cbn.
      + apply (IH O). eapply partitioned_tail0; eassumption.
      + f_equal. apply IH. eapply partitioned_tail; eassumption.
  Qed.
End Search.

Lemma side_fn_typed : forall sch sos left target r, row_typed sch target -> row_typed sch r ->
  side_fn left target sos r = Some (if left then is_lt (rcmp sos r target) else is_le (rcmp sos r target)).
Proof. intros. unfold side_fn. rewrite (compare_rows_typed sch sos r target) by assumption. reflexivity. Qed.

Lemma sorted_partitioned : forall sch sos left target rows,
  row_typed sch target -> Forall (row_typed sch) rows ->
  StronglySorted (fun a b => rcmp sos a b <> Gt) rows ->
  exists k, partitioned (side_fn left target sos) rows k.
Proof.
  intros sch sos left target rows Ht. induction rows as [|r rows IH]; intros Hty Hs.
  - exists O. split; [cbn; lia|]. intros i r N. destruct i; discriminate.
  - apply Forall_cons_iff in Hty. destruct Hty as [Hr Hty]. apply StronglySorted_inv in Hs. destruct Hs as [Hs Hle].
    destruct (IH Hty Hs) as [k' Hp]. pose proof (side_fn_typed sch sos left target r Ht Hr) as Fr.
    set (P := row_typed sch).
    assert (An : forall u v, P u -> P v -> rcmp sos v u = CompOpp (rcmp sos u v)) by (unfold P; intros; apply (rcmp_anti sch); assumption).
    assert (Tr : forall u v w, P u -> P v -> P w -> rcmp sos u v <> Gt -> rcmp sos v w <> Gt -> rcmp sos u w <> Gt)
      by (unfold P; intros u v w ? ? ?; apply (rcmp_trans sch); assumption).
    destruct (if left then is_lt (rcmp sos r target) else is_le (rcmp sos r target)) eqn:B.
    + exists (S k'). split; [cbn [length]; destruct Hp; lia|]. intros i r' N. destruct i as [|i].
      * cbn [nth_error] in N. assert (E : r' = r) by congruence. subst r'. rewrite Fr. try rewrite B. reflexivity.
      * exact (proj2 Hp i r' N).
    + assert (K : k' = O).
      { destruct k' as [|k']; [reflexivity|]. exfalso. destruct Hp as [Hk Hp].
        destruct rows as [|r1 rows]; [cbn in Hk; lia|].
        pose proof (Hp O r1 eq_refl) as F1. apply Forall_cons_iff in Hty. destruct Hty as [Hr1 _].
        rewrite (side_fn_typed sch sos left target r1 Ht Hr1) in F1. inversion F1 as [F1']. clear F1.
        apply Forall_cons_iff in Hle. destruct Hle as [Hle _].
        destruct left.
        - assert (rcmp sos r target = Lt).
          { apply (on_le_lt P (rcmp sos) An Tr r r1 target); try assumption. destruct (rcmp sos r1 target); cbn in F1'; congruence. }
          rewrite H in B. discriminate.
        - assert (rcmp sos r target <> Gt).
          { apply (Tr r r1 target); try assumption. destruct (rcmp sos r1 target); cbn in F1'; congruence. }
          destruct (rcmp sos r target); cbn in B; congruence. }
      subst k'. exists O. split; [lia|]. intros i r' N. destruct i as [|i].
      * cbn [nth_error] in N. assert (E : r' = r) by congruence. subst r'. rewrite Fr. try rewrite B. reflexivity.
      * rewrite (proj2 Hp i r' N). reflexivity.
Qed.

Theorem bisect_spec_pf : forall sch sos left target rows,
  row_typed sch target -> Forall (row_typed sch) rows ->
  StronglySorted (fun a b => compare_rows a b sos <> Some Gt) rows ->
  bisect left rows target sos = Some (count_before left rows target sos) /\
  linear_search left rows target sos = Some (count_before left rows target sos).
Proof.
  intros sch sos left target rows Ht Hty Hs.
  assert (Hs' : StronglySorted (fun a b => rcmp sos a b <> Gt) rows).
  { clear Ht. induction Hs as [|r rows Hs IH Hle]; [constructor|].
    apply Forall_cons_iff in Hty. destruct Hty as [Hr Hty]. constructor; [apply IH; assumption|].
    rewrite Forall_forall in *. intros b Hb G. apply (Hle b Hb).
    rewrite (compare_rows_typed sch sos r b Hr (Hty b Hb)). congruence. }
  destruct (sorted_partitioned sch sos left target rows Ht Hty Hs') as [k Hp].
  unfold bisect, linear_search, count_before. rewrite (count_partitioned _ rows k Hp). split.
  - apply bisect_go_partitioned; [assumption | lia | destruct Hp; lia | lia | lia].
  - rewrite (linear_go_partitioned _ rows k O Hp). reflexivity.
Qed.
