(* C34 -- proofs about Model/ScalarModel.v: total order per type, Eq/Hash consistency, integer casts,
   checked addition, compare_rows is a transitive lexicographic order, bisect / linear_search specification. *)
From Coq Require Import List ZArith Bool Lia Sorting.Sorted.
From DF Require Import Base.Prelude Model.ScalarModel.
Import ListNotations.
Open Scope Z_scope.

(* ------------------------------------------------------------------ comparators that are total orders *)
Record good {T} (c : T -> T -> comparison) : Prop := {
  g_refl : forall a, c a a = Eq;
  g_eq : forall a b, c a b = Eq -> a = b;
  g_anti : forall a b, c b a = CompOpp (c a b);
  g_trans : forall a b d, c a b <> Gt -> c b d <> Gt -> c a d <> Gt }.

Lemma good_Z : good Z.compare.
Proof.
  split.
  - apply Z.compare_refl.
  - apply Z.compare_eq.
  - intros. apply Z.compare_antisym.
  - intros a b d H1 H2 H3. apply Z.compare_gt_iff in H3.
    destruct (Z.compare_spec a b); try congruence; destruct (Z.compare_spec b d); try congruence; lia.
Qed.
Lemma good_bool : good bool_cmp.
Proof.
  split.
  - intros []; reflexivity.
  - intros [] []; cbn; congruence.
  - intros [] []; reflexivity.
  - intros [] [] []; cbn; congruence.
Qed.

Lemma bytes_cmp_refl : forall a, bytes_cmp a a = Eq.
Proof. induction a; cbn [bytes_cmp]; [reflexivity|]. rewrite Z.compare_refl. assumption. Qed.
Lemma bytes_cmp_eq : forall a b, bytes_cmp a b = Eq -> a = b.
Proof.
  induction a as [|x a IH]; destruct b as [|y b]; cbn [bytes_cmp]; try congruence.
  destruct (x ?= y) eqn:C; try congruence. apply Z.compare_eq in C. intros H. f_equal; auto.
Qed.
Lemma bytes_cmp_anti : forall a b, bytes_cmp b a = CompOpp (bytes_cmp a b).
Proof.
  induction a as [|x a IH]; destruct b as [|y b]; cbn [bytes_cmp]; try reflexivity.
  rewrite (Z.compare_antisym x y). destruct (x ?= y); cbn [CompOpp]; auto.
Qed.
Lemma bytes_cmp_trans : forall a b d, bytes_cmp a b <> Gt -> bytes_cmp b d <> Gt -> bytes_cmp a d <> Gt.
Proof.
  induction a as [|x a IH]; destruct b as [|y b]; destruct d as [|z d]; cbn [bytes_cmp]; try congruence.
  destruct (Z.compare_spec x y); try congruence; destruct (Z.compare_spec y z); try congruence; subst.
  - rewrite Z.compare_refl. apply IH.
  - intros _ _. replace (y ?= z) with Lt by (symmetry; apply Z.compare_lt_iff; lia). congruence.
  - intros _ _. replace (x ?= z) with Lt by (symmetry; apply Z.compare_lt_iff; lia). congruence.
  - intros _ _. replace (x ?= z) with Lt by (symmetry; apply Z.compare_lt_iff; lia). congruence.
Qed.
Lemma good_bytes : good bytes_cmp.
Proof. split; [apply bytes_cmp_refl | apply bytes_cmp_eq | apply bytes_cmp_anti | apply bytes_cmp_trans]. Qed.

Lemma good_opt : forall {T} (c : T -> T -> comparison), good c -> good (opt_cmp c).
Proof.
  intros T c G. split.
  - intros [a|]; cbn; [apply G | reflexivity].
  - intros [a|] [b|]; cbn; try congruence. intros H. f_equal. apply G. assumption.
  - intros [a|] [b|]; cbn; try reflexivity. apply G.
  - intros [a|] [b|] [d|]; cbn; try congruence. apply G.
Qed.
Lemma good_flip : forall {T} (c : T -> T -> comparison), good c -> good (fun a b => c b a).
Proof.
  intros T c G. split.
  - intros; apply G.
  - intros a b H. symmetry. apply G. assumption.
  - intros; apply G.
  - intros a b d H1 H2. apply (g_trans c G d b a); assumption.
Qed.

(* consequences used for lexicographic orders *)
Lemma good_lt_le : forall {T} (c : T -> T -> comparison), good c -> forall a b d, c a b = Lt -> c b d <> Gt -> c a d = Lt.
Proof.
  intros T c G a b d H1 H2. destruct (c a d) eqn:E; [| reflexivity |].
  - apply G in E. subst. rewrite (g_anti c G a b), H1 in H2. cbn in H2. congruence.
  - exfalso. apply (g_trans c G a b d); congruence.
Qed.
Lemma good_le_lt : forall {T} (c : T -> T -> comparison), good c -> forall a b d, c a b <> Gt -> c b d = Lt -> c a d = Lt.
Proof.
  intros T c G a b d H1 H2. destruct (c a d) eqn:E; [| reflexivity |].
  - apply G in E. subst. rewrite (g_anti c G b d), H2 in H1. cbn in H1. congruence.
  - exfalso. apply (g_trans c G a b d); congruence.
Qed.

(* ------------------------------------------------------------------ sv_cmp on values of one type *)
Definition pcmp (a b : sv) : comparison :=
  match a, b with
  | SBool x, SBool y => opt_cmp bool_cmp x y
  | SInt _ x, SInt _ y => opt_cmp Z.compare x y
  | SStr _ x, SStr _ y => opt_cmp bytes_cmp x y
  | STs _ x _, STs _ y _ => opt_cmp Z.compare x y
  | SDec x _ _, SDec y _ _ => opt_cmp Z.compare x y
  | _, _ => Eq
  end.

Lemma ity_eqb_refl : forall t, ity_eqb t t = true. Proof. destruct t; reflexivity. Qed.
Lemma strkind_eqb_refl : forall t, strkind_eqb t t = true. Proof. destruct t; reflexivity. Qed.
Lemma tsunit_eqb_refl : forall t, tsunit_eqb t t = true. Proof. destruct t; reflexivity. Qed.

Lemma sv_cmp_same_ty : forall a b, sv_ty a = sv_ty b -> sv_cmp a b = Some (pcmp a b).
Proof.
  intros a b H. destruct a, b; cbn in H; try discriminate; cbn [sv_cmp pcmp]; try reflexivity; inversion H; subst.
  - rewrite ity_eqb_refl. reflexivity.
  - rewrite strkind_eqb_refl. reflexivity.
  - rewrite tsunit_eqb_refl. reflexivity.
  - rewrite Z.eqb_refl. reflexivity.
Qed.

Ltac same3 a b d H1 H2 :=
  destruct a, b; cbn in H1; try discriminate; destruct d; cbn in H2; try discriminate.

Lemma pcmp_refl : forall a, pcmp a a = Eq.
Proof.
  destruct a; cbn [pcmp]; try reflexivity;
    first [apply (g_refl _ (good_opt _ good_bool)) | apply (g_refl _ (good_opt _ good_Z)) | apply (g_refl _ (good_opt _ good_bytes))].
Qed.
Lemma pcmp_anti : forall a b, sv_ty a = sv_ty b -> pcmp b a = CompOpp (pcmp a b).
Proof.
  intros a b H. destruct a, b; cbn in H; try discriminate; cbn [pcmp]; try reflexivity;
    first [apply (g_anti _ (good_opt _ good_bool)) | apply (g_anti _ (good_opt _ good_Z)) | apply (g_anti _ (good_opt _ good_bytes))].
Qed.
Lemma pcmp_trans : forall a b d, sv_ty a = sv_ty b -> sv_ty b = sv_ty d ->
  pcmp a b <> Gt -> pcmp b d <> Gt -> pcmp a d <> Gt.
Proof.
  intros a b d H1 H2. same3 a b d H1 H2; cbn [pcmp]; try congruence;
    first [apply (g_trans _ (good_opt _ good_bool)) | apply (g_trans _ (good_opt _ good_Z)) | apply (g_trans _ (good_opt _ good_bytes))].
Qed.

Lemma opt_eqb_Z : forall x y, opt_eqb Z.eqb x y = true <-> x = y.
Proof.
  intros [x|] [y|]; cbn; split; try congruence.
  - intros H. apply Z.eqb_eq in H. congruence.
  - intros H. inversion H. apply Z.eqb_refl.
Qed.
Lemma bytes_eqb_eq : forall a b, bytes_eqb a b = true <-> a = b.
Proof.
  unfold bytes_eqb. induction a as [|x a IH]; destruct b as [|y b]; cbn [list_eqb]; split; try congruence.
  - intros H. apply andb_true_iff in H. destruct H as [H1 H2]. apply Z.eqb_eq in H1. apply IH in H2. congruence.
  - intros H. inversion H; subst. rewrite Z.eqb_refl. apply IH. reflexivity.
Qed.

Lemma pcmp_eq_iff : forall a b, sv_ty a = sv_ty b -> (pcmp a b = Eq <-> sv_eqb a b = true).
Proof.
  intros a b H. destruct a, b; cbn in H; try discriminate; cbn [pcmp sv_eqb]; inversion H; subst.
  - tauto.
  - destruct v as [[]|], v0 as [[]|]; cbn; split; congruence.
  - rewrite ity_eqb_refl. cbn [andb]. rewrite opt_eqb_Z. split.
    + intros E. apply (g_eq _ (good_opt _ good_Z)). assumption.
    + intros ->. apply (g_refl _ (good_opt _ good_Z)).
  - rewrite strkind_eqb_refl. cbn [andb]. split.
    + intros E. apply (g_eq _ (good_opt _ good_bytes)) in E. subst. destruct v0; cbn; [apply bytes_eqb_eq|]; reflexivity.
    + intros E. destruct v as [x|], v0 as [y|]; cbn in *; try congruence. apply bytes_eqb_eq in E. subst. apply bytes_cmp_refl.
  - rewrite tsunit_eqb_refl. cbn [andb]. rewrite opt_eqb_Z. split.
    + intros E. apply (g_eq _ (good_opt _ good_Z)). assumption.
    + intros ->. apply (g_refl _ (good_opt _ good_Z)).
  - rewrite !Z.eqb_refl. rewrite !andb_true_r. rewrite opt_eqb_Z. split.
    + intros E. apply (g_eq _ (good_opt _ good_Z)). assumption.
    + intros ->. apply (g_refl _ (good_opt _ good_Z)).
Qed.

Lemma pcmp_null_smallest : forall a b, sv_ty a = sv_ty b -> sv_is_null a = true -> sv_is_null b = false -> pcmp a b = Lt.
Proof.
  intros a b H Na Nb. destruct a, b; cbn in H; try discriminate; cbn in Na, Nb; try discriminate;
    repeat match goal with v : option _ |- _ => destruct v end; try discriminate; reflexivity.
Qed.

Theorem cmp_total_order_pf : forall a b d, sv_ty a = sv_ty b -> sv_ty b = sv_ty d ->
  (exists x, sv_cmp a b = Some x) /\
  sv_cmp a a = Some Eq /\
  sv_cmp b a = option_map CompOpp (sv_cmp a b) /\
  (forall x y, sv_cmp a b = Some x -> sv_cmp b d = Some y -> x <> Gt -> y <> Gt ->
               exists z, sv_cmp a d = Some z /\ z <> Gt /\ (x = Lt \/ y = Lt -> z = Lt)) /\
  (sv_cmp a b = Some Eq <-> sv_eqb a b = true) /\
  (sv_is_null a = true -> sv_is_null b = false -> sv_cmp a b = Some Lt).
Proof.
  intros a b d H1 H2.
  assert (H3 : sv_ty a = sv_ty d) by congruence.
  rewrite (sv_cmp_same_ty a b H1), (sv_cmp_same_ty a a eq_refl), (sv_cmp_same_ty b a (eq_sym H1)),
    (sv_cmp_same_ty b d H2), (sv_cmp_same_ty a d H3).
  repeat split.
  - eauto.
  - rewrite pcmp_refl. reflexivity.
  - cbn [option_map]. rewrite pcmp_anti by assumption. reflexivity.
  - intros x y E1 E2 Hx Hy. inversion E1; inversion E2; subst. exists (pcmp a d). split; [reflexivity|]. split.
    + apply pcmp_trans with b; assumption.
    + intros [L|L]; destruct (pcmp a d) eqn:E; try reflexivity; exfalso.
      * apply pcmp_eq_iff in E; [|assumption].
        assert (A : pcmp d b <> Gt).
        { intros G. apply (pcmp_trans d a b); try congruence.
          - rewrite pcmp_anti by assumption. rewrite (proj2 (pcmp_eq_iff a d H3) E). cbn. congruence.
          - rewrite L. congruence. }
        rewrite pcmp_anti in A by assumption.
        assert (B : pcmp b d = Eq) by (destruct (pcmp b d); cbn in A; congruence).
        assert (C : pcmp a b <> Lt).
        { intros _. assert (X : pcmp b a <> Gt).
          { apply (pcmp_trans b d a); try congruence.
            - rewrite pcmp_anti by assumption. rewrite (proj2 (pcmp_eq_iff a d H3) E). cbn. congruence. }
          rewrite pcmp_anti, L in X by assumption. cbn in X. congruence. }
        congruence.
      * apply (pcmp_trans a b d); congruence.
      * apply pcmp_eq_iff in E; [|assumption].
        assert (X : pcmp d b <> Gt).
        { apply (pcmp_trans d a b); try congruence.
          rewrite pcmp_anti by assumption. rewrite (proj2 (pcmp_eq_iff a d H3) E). cbn. congruence. }
        rewrite pcmp_anti, L in X by assumption. cbn in X. congruence.
      * apply (pcmp_trans a b d); congruence.
  - intros E. inversion E. apply pcmp_eq_iff; assumption.
  - intros E. f_equal. apply pcmp_eq_iff; assumption.
  - intros Na Nb. f_equal. apply pcmp_null_smallest; assumption.
Qed.
